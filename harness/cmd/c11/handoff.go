package main

// Driver "handoff": the real vhost.Muxer / group.TCPGroup / group.TCPMuxGroup hand-off of an accepted
// user connection to a member listener, with the listener closed before, after, or between the lookup
// and the unbuffered send.  Exported API only; the window is held open through the muxer's success hook
// (called between getListener and the send) and, for the groups, by the harness playing the member's
// accept loop (it stops receiving = the loop has left after close(closeCh)).

import (
	"bufio"
	"context"
	"crypto/tls"
	"fmt"
	"net"
	"strings"
	"sync"
	"time"

	v1 "github.com/fatedier/frp/pkg/config/v1"
	"github.com/fatedier/frp/pkg/msg"
	"github.com/fatedier/frp/pkg/util/tcpmux"
	"github.com/fatedier/frp/pkg/util/vhost"
	"github.com/fatedier/frp/server/group"
	"github.com/fatedier/frp/server/ports"
	"verifharness/hx"
)

func init() { drivers["handoff"] = runHandoff }

type hgate struct {
	mu      sync.Mutex
	armed   bool
	reached map[string]chan struct{}
	release map[string]chan struct{}
}

func (g *hgate) chans(key string) (chan struct{}, chan struct{}) {
	g.mu.Lock()
	defer g.mu.Unlock()
	if g.reached[key] == nil {
		g.reached[key], g.release[key] = make(chan struct{}), make(chan struct{})
	}
	return g.reached[key], g.release[key]
}

// prefixConn gives back the bytes a bufio.Reader has read ahead.
type prefixConn struct {
	net.Conn
	r *bufio.Reader
}

func (p *prefixConn) Read(b []byte) (int, error) { return p.r.Read(b) }

// fate of a user socket: 1 accepted by the member listener, 2 closed, 3 open with no peer
func userFate(u net.Conn, accepted func() bool) int {
	if waitFor(300*time.Millisecond, accepted) {
		return 1
	}
	if hx.ConnClosedWithin(u, 400*time.Millisecond) {
		return 2
	}
	return 3
}

// ---- vhost muxer ----
// plan: per dispatcher, where the close falls: 0 never, 1 before the lookup, 2 between lookup and send, 3 after the send
func vhostCase(addr string, plan []int) (string, []int, error) {
	ln, err := net.Listen("tcp", net.JoinHostPort(addr, "0"))
	if err != nil {
		return "", nil, err
	}
	defer ln.Close()
	g := &hgate{reached: map[string]chan struct{}{}, release: map[string]chan struct{}{}}
	mux, err := vhost.NewMuxer(ln, func(c net.Conn) (net.Conn, map[string]string, error) {
		r := bufio.NewReader(c)
		line, err := r.ReadString('\n')
		if err != nil {
			return nil, nil, err
		}
		return &prefixConn{c, r}, map[string]string{"Host": strings.TrimSpace(line)}, nil
	}, 2*time.Second)
	if err != nil {
		return "", nil, err
	}
	mux.SetFailHookFunc(func(c net.Conn) { c.Close() })
	mux.SetSuccessHookFunc(func(c net.Conn, _ map[string]string) error {
		reached, release := g.chans(c.RemoteAddr().String())
		close(reached)
		<-release
		return nil
	})
	l, err := mux.Listen(context.Background(), &vhost.RouteConfig{Domain: "h.test"})
	if err != nil {
		return "", nil, err
	}
	var amu sync.Mutex
	acc := map[string]net.Conn{}
	go func() {
		for {
			c, err := l.Accept()
			if err != nil {
				return
			}
			amu.Lock()
			acc[c.RemoteAddr().String()] = c
			amu.Unlock()
		}
	}()
	closed := false
	var sched []string
	closer := len(plan) // thread id of the closer
	doClose := func() {
		if !closed {
			closed = true
			_ = l.Close()
			sched = append(sched, fmt.Sprint(closer), fmt.Sprint(closer), fmt.Sprint(closer))
		}
	}
	var fates []int
	var socks []net.Conn
	for i, where := range plan {
		if where == 1 {
			doClose()
		}
		u, err := net.Dial("tcp", ln.Addr().String())
		if err != nil {
			return "", nil, err
		}
		socks = append(socks, u)
		key := u.LocalAddr().String()
		reached, release := g.chans(key)
		_, _ = u.Write([]byte("h.test\n"))
		sched = append(sched, fmt.Sprint(i)) // lookup
		select {
		case <-reached:
			if where == 2 {
				doClose()
			}
			close(release)
		case <-time.After(300 * time.Millisecond):
			// no listener found: the fail hook has the connection
		}
		sched = append(sched, fmt.Sprint(i)) // send (a no-op for a dispatcher that has ended)
		fates = append(fates, userFate(u, func() bool {
			amu.Lock()
			defer amu.Unlock()
			return acc[key] != nil
		}))
		if where == 3 {
			doClose()
		}
	}
	reqs := make([]string, 0, len(plan)+1)
	for range plan {
		reqs = append(reqs, "HDispatch")
	}
	reqs = append(reqs, "HCloser")
	var fs []string
	for i, f := range fates {
		fs = append(fs, fmt.Sprintf("(%d, %d)", i, f))
	}
	for _, s := range socks {
		s.Close()
	}
	amu.Lock()
	for _, c := range acc {
		c.Close()
	}
	amu.Unlock()
	return fmt.Sprintf("CHand false %s %s %s", hx.List(reqs), hx.List(sched), hx.List(fs)), fates, nil
}

// ---- tcp group / tcpmux group ----
// The harness is the member's accept loop.  plan per dispatcher: 0 listener stays, 2 the member's loop has
// left and the last listener is closed while the worker is in its send, 3 closed after the hand-off.
func groupCase(addr string, muxed bool, plan []int) (string, []int, error) {
	var member net.Listener
	var dialAddr string
	var hello string
	if !muxed {
		pm := ports.NewManager("tcp", addr, nil)
		ctl := group.NewTCPGroupCtl(pm)
		port := hx.FreePort(addr)
		l, _, err := ctl.Listen("p1", "g1", "k", addr, port)
		if err != nil {
			return "", nil, err
		}
		member, dialAddr = l, net.JoinHostPort(addr, fmt.Sprint(port))
	} else {
		ln, err := net.Listen("tcp", net.JoinHostPort(addr, "0"))
		if err != nil {
			return "", nil, err
		}
		defer ln.Close()
		m, err := tcpmux.NewHTTPConnectTCPMuxer(ln, false, 2*time.Second)
		if err != nil {
			return "", nil, err
		}
		ctl := group.NewTCPMuxGroupCtl(m)
		l, err := ctl.Listen(context.Background(), "httpconnect", "g1", "k", vhost.RouteConfig{Domain: "h.test"})
		if err != nil {
			return "", nil, err
		}
		member, dialAddr = l, ln.Addr().String()
		hello = "CONNECT h.test:80 HTTP/1.1\r\nHost: h.test:80\r\n\r\n"
	}
	closed := false
	receiving := true
	var sched []string
	closer := len(plan)
	var fates []int
	var socks, accd []net.Conn
	for i, where := range plan {
		if closed {
			break
		}
		u, err := net.Dial("tcp", dialAddr)
		if err != nil {
			return "", nil, err
		}
		socks = append(socks, u)
		if hello != "" {
			_, _ = u.Write([]byte(hello))
		}
		time.Sleep(40 * time.Millisecond) // the worker has accepted it and stands in its send
		if where == 2 {
			// close(closeCh): the member's loop leaves; worker accepted u and blocks; close(acceptCh); socket closed
			receiving = false
			sched = append(sched, fmt.Sprint(closer), fmt.Sprint(i), fmt.Sprint(i), fmt.Sprint(closer), fmt.Sprint(closer), fmt.Sprint(i))
			_ = member.Close()
			closed = true
			fates = append(fates, userFate(u, func() bool { return false }))
			continue
		}
		sched = append(sched, fmt.Sprint(i), fmt.Sprint(i))
		var got net.Conn
		if receiving {
			ch := make(chan net.Conn, 1)
			go func() {
				c, err := member.Accept()
				if err == nil {
					ch <- c
				}
			}()
			select {
			case got = <-ch:
				accd = append(accd, got)
			case <-time.After(500 * time.Millisecond):
			}
		}
		fates = append(fates, userFate(u, func() bool { return got != nil }))
		if where == 3 {
			sched = append(sched, fmt.Sprint(closer), fmt.Sprint(closer), fmt.Sprint(closer))
			_ = member.Close()
			closed = true
		}
	}
	if !closed {
		_ = member.Close()
	}
	reqs := make([]string, 0, len(plan)+1)
	for range plan {
		reqs = append(reqs, "HDispatch")
	}
	reqs = append(reqs, "HCloser")
	var fs []string
	for i, f := range fates {
		fs = append(fs, fmt.Sprintf("(%d, %d)", i, f))
	}
	for _, s := range append(socks, accd...) {
		s.Close()
	}
	return fmt.Sprintf("CHand true %s %s %s", hx.List(reqs), hx.List(sched), hx.List(fs)), fates, nil
}

// ---- full system: in-process frps, a load-balancing group proxy, the worker held at the gate
// group.tcp.before_handoff / group.tcpmux.before_handoff (between Accept and the hand-off send) ----
// window: the proxy (last member) is closed while the worker is held.  Returns "" if the gate is not in this tree.
func sysGroupCase(idx int, muxed, window bool) (string, []int, error) {
	addr := "127.0.11.210"
	muxPort := 0
	s, err := hx.StartServer(addr, func(c *v1.ServerConfig) {
		c.UserConnTimeout = 1
		if muxed {
			muxPort = hx.FreePort(addr)
			c.TCPMuxHTTPConnectPort = muxPort
		}
	})
	if err != nil {
		return "", nil, err
	}
	defer s.Close()
	p, _, err := s.Login(hx.LoginOpts{})
	if err != nil || p == nil {
		return "", nil, fmt.Errorf("login failed: %v", err)
	}
	defer p.Close()
	grp := fmt.Sprintf("g%d", idx)
	port := hx.FreePort(addr)
	np := &msg.NewProxy{ProxyName: "gp", ProxyType: "tcp", RemotePort: port, Group: grp, GroupKey: "k"}
	point := "group.tcp.before_handoff"
	dial := net.JoinHostPort(addr, fmt.Sprint(port))
	if muxed {
		np = &msg.NewProxy{ProxyName: "gp", ProxyType: "tcpmux", Multiplexer: "httpconnect", CustomDomains: []string{"h.test"}, Group: grp, GroupKey: "k"}
		point = "group.tcpmux.before_handoff"
		dial = net.JoinHostPort(addr, fmt.Sprint(muxPort))
	}
	if r, err := p.NewProxy(np); err != nil || r.Error != "" {
		return "", nil, fmt.Errorf("new proxy: %v %v", err, r)
	}
	reached, release := hooks.arm(point, grp)
	u, err := net.Dial("tcp", dial)
	if err != nil {
		return "", nil, err
	}
	defer u.Close()
	if muxed {
		_, _ = u.Write([]byte("CONNECT h.test:80 HTTP/1.1\r\nHost: h.test:80\r\n\r\n"))
	}
	select {
	case <-reached:
	case <-time.After(time.Second):
		hooks.disarm(point, grp)
		return "", nil, nil
	}
	sched := []string{"0"}
	if window {
		_ = p.CloseProxy("gp")
		if muxed {
			time.Sleep(200 * time.Millisecond)
		} else {
			waitFor(time.Second, func() bool { return !hx.TCPBound(addr, port) })
			time.Sleep(50 * time.Millisecond)
		}
		sched = append(sched, "1", "1", "1")
	}
	close(release)
	sched = append(sched, "0")
	fate := 3
	if !window {
		// handed to the member listener: its handler asks our session for a work connection
		_, err := p.RecvUntil(700*time.Millisecond, func(m msg.Message) bool { _, ok := m.(*msg.ReqWorkConn); return ok })
		if err == nil {
			fate = 1
		}
	}
	if fate != 1 && hx.ConnClosedWithin(u, 600*time.Millisecond) {
		fate = 2
	}
	return fmt.Sprintf("CHand true [HDispatch; HCloser] %s [(0, %d)]", hx.List(sched), fate), []int{fate}, nil
}

// ---- vhost muxer: several TLS users waiting in the unbuffered hand-off of a real HTTPSMuxer while the listener
// closes.  The harness is the proxy's accept loop: it accepts a of the k waiting users (which one Accept
// returns is observed and passed to the model as its oracle), then closes the listener; every remaining user
// must see its connection closed.
func vhostQueueCase(addr string, k, a int) (string, int, error) {
	ln, err := net.Listen("tcp", net.JoinHostPort(addr, "0"))
	if err != nil {
		return "", 0, err
	}
	defer ln.Close()
	mux, err := vhost.NewHTTPSMuxer(ln, 3*time.Second)
	if err != nil {
		return "", 0, err
	}
	l, err := mux.Listen(context.Background(), &vhost.RouteConfig{Domain: "h.test"})
	if err != nil {
		return "", 0, err
	}
	type user struct {
		c     net.Conn
		ended chan error
		acc   bool
	}
	users := make([]*user, k)
	byAddr := map[string]int{}
	var sched, picks []string
	for i := 0; i < k; i++ {
		c, err := net.Dial("tcp", ln.Addr().String())
		if err != nil {
			return "", 0, err
		}
		u := &user{c: c, ended: make(chan error, 1)}
		users[i] = u
		byAddr[c.LocalAddr().String()] = i
		_ = c.SetDeadline(time.Now().Add(4 * time.Second))
		go func() {
			// sends the ClientHello (SNI h.test) and waits for an answer nobody gives
			u.ended <- tls.Client(c, &tls.Config{ServerName: "h.test", InsecureSkipVerify: true}).Handshake()
		}()
		sched = append(sched, fmt.Sprint(i))
	}
	time.Sleep(80 * time.Millisecond) // every handle goroutine has routed its connection and stands in the send
	loop, closer := k, k+1
	type res struct {
		c   net.Conn
		err error
	}
	accept := func() (net.Conn, error, bool) {
		ch := make(chan res, 1)
		go func() {
			c, err := l.Accept()
			ch <- res{c, err}
		}()
		select {
		case r := <-ch:
			return r.c, r.err, true
		case <-time.After(400 * time.Millisecond):
			return nil, nil, false
		}
	}
	var accepted []net.Conn
	for i := 0; i < a; i++ {
		c, err, ret := accept()
		if !ret || err != nil {
			break
		}
		accepted = append(accepted, c)
		if idx, ok := byAddr[c.RemoteAddr().String()]; ok {
			users[idx].acc = true
			picks = append(picks, fmt.Sprint(idx))
			sched = append(sched, fmt.Sprint(loop), fmt.Sprint(idx))
		}
	}
	_ = l.Close()
	sched = append(sched, fmt.Sprint(closer), fmt.Sprint(closer))
	for i := range users {
		sched = append(sched, fmt.Sprint(i))
	}
	sched = append(sched, fmt.Sprint(loop))
	reqs := make([]string, 0, k+2)
	for range users {
		reqs = append(reqs, "VhConn")
	}
	reqs = append(reqs, "VhLoop", "VhCloser")
	var fs []string
	open := 0
	for i, u := range users {
		code := 3
		if u.acc {
			code = 1
		} else {
			select {
			case err := <-u.ended:
				if ne, ok := err.(net.Error); !(ok && ne.Timeout()) {
					code = 2
				}
			case <-time.After(900 * time.Millisecond):
			}
		}
		if code == 3 {
			open++
		}
		fs = append(fs, fmt.Sprintf("(%d, %d)", i, code))
	}
	for _, c := range accepted {
		c.Close()
	}
	for _, u := range users {
		u.c.Close()
	}
	return fmt.Sprintf("CVh %s %s %s %s", hx.List(reqs), hx.List(sched), hx.List(picks), hx.List(fs)), open, nil
}

// ---- group members: two members, a user connection pending in the hand-off, member 0 (or both) closed at
// that moment, then the members' Accept calls (the harness is both proxies' accept loop).  Exported API only.
// variant 0: nobody closes; 1: member 0 closes, then its Accept runs (the select is ambiguous: the outcome
// is observed and handed to the model as the oracle), then member 1's; 2: both close (last one closes the channel).
func groupMemberCase(addr string, idx, variant int) (string, int, error) {
	pm := ports.NewManager("tcp", addr, nil)
	ctl := group.NewTCPGroupCtl(pm)
	port := hx.FreePort(addr)
	grp := fmt.Sprintf("gm%d", idx)
	la, _, err := ctl.Listen("pA", grp, "k", addr, port)
	if err != nil {
		return "", 0, err
	}
	lb, _, err := ctl.Listen("pB", grp, "k", addr, port)
	if err != nil {
		return "", 0, err
	}
	members := []net.Listener{la, lb}
	closedM := []bool{false, false}
	defer func() {
		for i, l := range members {
			if !closedM[i] {
				_ = l.Close()
			}
		}
	}()
	// threads: 0 the connection, 1 loop of member 0, 2 loop of member 1, 3 closer of member 0, 4 closer of member 1
	reqs := "[GConn; GLoop 0; GLoop 1; GCloser 0; GCloser 1]"
	u, err := net.Dial("tcp", net.JoinHostPort(addr, fmt.Sprint(port)))
	if err != nil {
		return "", 0, err
	}
	defer u.Close()
	time.Sleep(40 * time.Millisecond) // the worker has accepted it and stands in the send
	sched := []string{"0"}
	var picks []string
	closeMember := func(m int) {
		_ = members[m].Close()
		closedM[m] = true
		sched = append(sched, fmt.Sprint(3+m), fmt.Sprint(3+m))
	}
	type res struct {
		c   net.Conn
		err error
	}
	accept := func(m int) (net.Conn, bool, bool) { // conn, returned, error
		ch := make(chan res, 1)
		go func() {
			c, err := members[m].Accept()
			ch <- res{c, err}
		}()
		select {
		case r := <-ch:
			sched = append(sched, fmt.Sprint(1+m))
			return r.c, true, r.err != nil
		case <-time.After(300 * time.Millisecond):
			return nil, false, false
		}
	}
	var got net.Conn
	by := -1
	switch variant {
	case 0:
		if c, ret, isErr := accept(idx % 2); ret && !isErr {
			got, by = c, idx%2
		}
	case 1:
		closeMember(0)
		c, ret, isErr := accept(0)
		if ret {
			picks = append(picks, hx.Bool(!isErr)) // both closeCh and the hand-off were ready
			if !isErr {
				got, by = c, 0
			}
		}
		if got == nil {
			if c, ret, isErr := accept(1); ret && !isErr {
				got, by = c, 1
			}
		}
	case 2:
		closeMember(0)
		closeMember(1)
		sched = append(sched, "0") // the worker's send meets the closed channel
	}
	sched = append(sched, "0")
	fate := 3
	if got != nil {
		// the member's handler has it: serve one byte, then close (its session is going away)
		_, _ = got.Write([]byte("s"))
		b := make([]byte, 1)
		_ = u.SetReadDeadline(time.Now().Add(500 * time.Millisecond))
		if n, _ := u.Read(b); n == 1 && b[0] == 's' {
			fate = 10 + by
		}
		_ = got.Close()
	} else if hx.ConnClosedWithin(u, 600*time.Millisecond) {
		fate = 2
	}
	return fmt.Sprintf("CGroup 2 %s %s %s [(0, %d)]", reqs, hx.List(sched), hx.List(picks), fate), fate, nil
}

func runHandoff(cfg *hx.RunCfg) error {
	quiet()
	hooks.install()
	g := hx.NewGen(cfg.Seed)
	var cases []string
	var fails []map[string]any
	dist := map[string]int{}
	lost := map[string]int{}
	for i := 0; i < cfg.N; i++ {
		kind := i % 3
		n := 1 + g.Intn(3)
		plan := make([]int, n)
		usedClose := false
		for k := range plan {
			if !usedClose && (g.Chance(0.5) || (i < 3 && k == 0)) {
				if kind == 0 {
					plan[k] = 1 + g.Intn(3)
				} else {
					plan[k] = 2 + g.Intn(2)
				}
				if i < 3 && k == 0 {
					plan[k] = 2
				}
				usedClose = true
			}
		}
		var text string
		var fates []int
		var err error
		name := []string{"vhost.Muxer.handle", "group.TCPGroup.worker", "group.TCPMuxGroup.worker"}[kind]
		switch kind {
		case 0:
			text, fates, err = vhostCase("127.0.11.200", plan)
		case 1:
			text, fates, err = groupCase("127.0.11.201", false, plan)
		default:
			text, fates, err = groupCase("127.0.11.202", true, plan)
		}
		if err != nil {
			fails = append(fails, map[string]any{"key": "handoff-setup", "what": err.Error(), "case": fmt.Sprint(name, plan)})
			continue
		}
		cases = append(cases, text)
		dist[name]++
		for _, f := range fates {
			dist[fmt.Sprintf("fate%d", f)]++
			if f == 3 {
				lost[name]++
			}
		}
	}
	// TLS users queued in the vhost hand-off while the listener closes
	vqN := 6
	if cfg.Tier != "quick" {
		vqN = 24
	}
	for i := 0; i < vqN; i++ {
		k := 2 + g.Intn(3)
		a := []int{0, 1, 0, 2, 0, 1}[i%6]
		text, open, err := vhostQueueCase("127.0.11.204", k, a)
		if err != nil {
			fails = append(fails, map[string]any{"key": "handoff-setup", "what": err.Error(), "case": "vhost queue case"})
			continue
		}
		cases = append(cases, text)
		dist["vhost-queue"]++
		if open > 0 {
			fails = append(fails, map[string]any{"key": "vhost-handoff-stuck-after-close",
				"what": fmt.Sprintf("%d TLS user connection(s) routed to an https listener and waiting in the muxer's hand-off were neither accepted nor closed after the listener closed: open with no peer", open),
				"case": text})
		}
	}
	// group members' Accept against a pending hand-off
	gmN := 14
	if cfg.Tier != "quick" {
		gmN = 60
	}
	for i := 0; i < gmN; i++ {
		variant := []int{1, 1, 1, 0, 1, 2, 1}[i%7]
		text, fate, err := groupMemberCase("127.0.11.203", i, variant)
		if err != nil {
			fails = append(fails, map[string]any{"key": "handoff-setup", "what": err.Error(), "case": "group member case"})
			continue
		}
		cases = append(cases, text)
		dist[fmt.Sprintf("group-member-v%d", variant)]++
		dist[fmt.Sprintf("gfate%d", fate)]++
		if fate == 3 {
			fails = append(fails, map[string]any{"key": "group-conn-taken-and-dropped",
				"what": "a user connection pending in the group's hand-off while member 0 was closed was neither served by a member nor closed: it is open with no peer",
				"case": text})
		}
	}
	// full-system replays through the real gates
	sysN := 4
	if cfg.Tier != "quick" {
		sysN = 16
	}
	for i := 0; i < sysN; i++ {
		muxed, window := i%2 == 1, i%4 < 2
		name := "system:group.TCPGroup.worker"
		if muxed {
			name = "system:group.TCPMuxGroup.worker"
		}
		text, fates, err := sysGroupCase(i, muxed, window)
		if err != nil {
			fails = append(fails, map[string]any{"key": "handoff-setup", "what": err.Error(), "case": name})
			continue
		}
		if text == "" {
			dist["system-gate-absent"]++
			continue
		}
		cases = append(cases, text)
		dist[name]++
		for _, f := range fates {
			dist[fmt.Sprintf("fate%d", f)]++
			if f == 3 {
				lost[name]++
			}
		}
	}
	for name, n := range lost {
		fails = append(fails, map[string]any{
			"key":  "F-C11b:" + name + ":handoff-to-closed-listener",
			"what": fmt.Sprintf("%s: the receiving listener was closed between lookup and hand-off; the user connection was dropped without being closed (%d socket(s) still open with no peer)", name, n),
			"case": "driver handoff, plan value 2 (close between lookup and send)"})
	}
	distinct := map[string]bool{}
	for _, c := range cases {
		distinct[c] = true
	}
	cf := &hx.CaseFile{
		Imports: "From FRP Require Import Corr.C11.\n",
		Typ:     "case",
		Cases:   cases,
		Tail: "Definition M := Eval vm_compute in mismatches check_case cases.\nPrint M.\n" +
			"Definition HMON := Eval vm_compute in (Z.of_nat (length (mismatches C11_holds cases)) : Z).\nPrint HMON.\n",
	}
	if err := cf.Write(cfg.Out); err != nil {
		return err
	}
	cfg.St["cases"] = len(cases)
	cfg.St["distinct_nontrivial"] = len(distinct)
	if len(cases) > 0 {
		cfg.St["samples"] = cases[:1]
	}
	cfg.St["distribution"] = dist
	cfg.St["impl_failures"] = fails
	return nil
}
