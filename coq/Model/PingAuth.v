(* Model/PingAuth.v — which heartbeats the oidc verifier accepts (pkg/auth/oidc.go, HeartBeats scope on).
   server.Service builds ONE verifier shared by every Control.  VerifyLogin remembers the subject of a verified
   login (appended if absent, never removed); VerifyPing accepts a verified token iff its subject is remembered.
   Subjects are opaque identifiers; token verification itself (signature, expiry) is an oracle: an event only
   exists for a token that verified.  No proofs in this file. *)
From Coq Require Import ZArith List Bool.
Import ListNotations.
Open Scope Z_scope.

Inductive pa_ev := PALogin (subject : Z) | PAPing (subject : Z).

Definition pa_mem (s : Z) (l : list Z) : bool := existsb (fun x => x =? s) l.

(* VerifyLogin: if !slices.Contains(subjects, s) { subjects = append(subjects, s) } *)
Definition pa_login (subjects : list Z) (s : Z) : list Z :=
  if pa_mem s subjects then subjects else subjects ++ [s].

(* state after a history, and the verdict on each ping (true = accepted: handlePing refreshes lastPing) *)
Fixpoint pa_run (subjects : list Z) (evs : list pa_ev) : list (Z * bool) :=
  match evs with
  | [] => []
  | PALogin s :: r => pa_run (pa_login subjects s) r
  | PAPing s :: r => (s, pa_mem s subjects) :: pa_run subjects r
  end.
