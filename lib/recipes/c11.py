import os
from vlib import Check, V

PID = "C11"

MANIFEST = dict(
    text="Machine-checked theorems (Coq 8.16.1) over an executable interleaving model of the per-session work-connection pool "
         "(server/control.go NewControl/Start/RegisterWorkConn/GetWorkConn/worker, server/service.go RegisterWorkConn, "
         "server/proxy/proxy.go GetWorkConnFromPool/handleUserTCPConnection): threads = work-connection arrivals, user connections, "
         "timers and the session teardown, one model step per channel operation; a schedule is a list of thread ids and every "
         "theorem is stated for all schedules and proved by one inductive invariant. Proved: pool never above poolCount+10, advance "
         "requests = max 0 (min client server), no connection bridged to two users, StartWorkConn names the user's proxy and address, "
         "a finished user handler left the user closed or bridged, no connection is ever open+unpooled+unbridged+unreferenced, after "
         "teardown every connection is closed or bridged, surplus and late offers are closed. The hand-off channels (vhost muxer, tcp/"
         "tcpmux groups) are modelled as they are: the clause is refuted with a witness schedule (F-C11b) and proved outside that window. "
         "The model is tied to the code by a scripted client against an in-process frps (gate-driven for the teardown and hand-off windows).",
    note="Trusted: Coq kernel+VM; harness transcription; the Go scheduler is replaced by the model's interleaving semantics at channel-"
         "operation granularity (atomicity of one channel operation is assumed); the wall-clock value of userConnTimeout is observed with "
         "tolerance, not proved; yamux/TCP are oracles (cf_dead: the peer reset the connection).",
    technique="Coq proof (inductive invariant over all schedules of a thread model) + differential correspondence via vm_compute, gate-driven schedules",
    design="4/C11")


def q(tier, quick, thorough):
    return quick if tier == "quick" else thorough


def recipe(c: Check):
    c.build(["Properties/C11.vo", "Corr/C11.vo"], harness=["c11"], units=["t11send"])
    c.obligations("C11")
    st = c.run_driver("pool", q(c.tier, 120, 1200), shards=q(c.tier, 6, 16))
    cnt = c.cov.get("coq_counters", {}).get("pool", {})
    if st:
        # the monitor C11_holds evaluated on the observations alone
        if cnt.get("MON", 0) != 0:
            c.failures.append(dict(key="monitor:pool", driver="pool",
                                   what="C11_holds fails on %d observed trace(s)" % cnt.get("MON"), case="see mismatches of C11_holds in the case shards"))
        # sanity of the run itself: the branches the property names must have been reached
        for k in ("NTORN", "NDEAD", "NUSERCLOSED", "NBRIDGED"):
            if cnt.get(k, 0) <= 0:
                c.broken.append(dict(kind="coverage", name="pool driver never reached %s" % k, detail=str(cnt)))
        dist = st.get("distribution", {})
        for k in ("window-plugin", "timeout", "kill", "teardown"):
            if dist.get(k, 0) <= 0:
                c.broken.append(dict(kind="coverage", name="pool driver never performed %s" % k, detail=str(dist)))
    st2 = c.run_driver("handoff", q(c.tier, 24, 120), shards=1)
    if st2:
        hmon = c.cov.get("coq_counters", {}).get("handoff", {}).get("HMON", 0)
        if hmon != 0:
            c.failures.append(dict(key="monitor:handoff", driver="handoff",
                                   what="C11_holds fails on %d observed hand-off trace(s): a user connection open with no peer" % hmon,
                                   case="see mismatches of C11_holds in the handoff case shard"))
        d2 = st2.get("distribution", {})
        for k in ("group-member-v1", "gfate10", "gfate11", "gfate2", "vhost-queue"):
            if d2.get(k, 0) <= 0:
                c.broken.append(dict(kind="coverage", name="handoff driver never reached %s" % k, detail=str(d2)))
    st4 = c.run_driver("sendfault", q(c.tier, 2, 8), shards=1)
    scnt = c.cov.get("coq_counters", {}).get("sendfault", {})
    if st4:
        if scnt.get("SMON", 0) != 0:
            c.failures.append(dict(key="monitor:sendfault", driver="sendfault",
                                   what="C11_holds fails on %d observed write-fault trace(s): a user connection left open past its timeout" % scnt.get("SMON"),
                                   case="see mismatches of C11_holds in the sendfault case shard"))
        if scnt.get("NWFAIL", 0) <= 0:
            c.broken.append(dict(kind="coverage", name="sendfault driver produced no write-fault case", detail=str(scnt)))
    st6 = c.run_driver("legacyini", q(c.tier, 4, 12), shards=1)
    lcnt = c.cov.get("coq_counters", {}).get("legacyini", {})
    if st6:
        if lcnt.get("LMON", 0) != 0:
            c.failures.append(dict(key="monitor:legacyini", driver="legacyini",
                                   what="C11_holds fails on %d trace(s) of a server configured from a legacy ini: advance requests above min(client, configured max)" % lcnt.get("LMON"),
                                   case="see mismatches of C11_holds in the legacyini case shard"))
        if st6.get("cases", 0) <= 0:
            c.broken.append(dict(kind="coverage", name="legacyini driver produced no case", detail=str(st6)))
    st5 = c.run_driver("compress", q(c.tier, 3, 10), shards=1)
    ccnt = c.cov.get("coq_counters", {}).get("compress", {})
    if st5:
        if ccnt.get("CMON", 0) != 0:
            c.failures.append(dict(key="monitor:compress", driver="compress",
                                   what="C11_holds fails on %d observed compressed-overlap trace(s): a user's payload on another user's work connection" % ccnt.get("CMON"),
                                   case="see mismatches of C11_holds in the compress case shard"))
        if st5.get("cases", 0) <= 0:
            c.broken.append(dict(kind="coverage", name="compress driver produced no case", detail=str(st5)))
    st3 = c.run_driver("visitor", q(c.tier, 40, 400), shards=q(c.tier, 1, 4))
    vcnt = c.cov.get("coq_counters", {}).get("visitor", {})
    if st3:
        if vcnt.get("VMON", 0) != 0:
            c.failures.append(dict(key="monitor:visitor", driver="visitor",
                                   what="C11_holds fails on %d observed visitor-listener trace(s)" % vcnt.get("VMON"),
                                   case="see mismatches of C11_holds in the visitor case shard"))
        d3 = st3.get("distribution", {})
        for k in ("listener-full", "stcp-held", "stcp-running", "closing-window", "fate1", "fate2"):
            if d3.get(k, 0) <= 0:
                c.broken.append(dict(kind="coverage", name="visitor driver never reached %s" % k, detail=str(d3)))
    return c.finish(
        rule="pool driver: one scripted client session per case against an in-process frps (userConnTimeout=1 s, maxPoolCount -1/0(->5)/1/2/3/5, "
             "Login.PoolCount from -100 to 50, two tcp proxies); one action at a time (offer a work connection, open a user connection "
             "from its own loopback address, reset a pooled connection, wait for the timer, end the session, offer a connection while the "
             "NewWorkConn plugin call / the teardown gate holds the window open), quiescence after each; compared with the model run on the "
             "same thread programs and schedule: ReqWorkConn received so far and len(workConnCh) at every checkpoint, StartWorkConn "
             "contents per socket, final fate of every work and user socket; bytes are sent both ways over every bridged pair. "
             "handoff driver: real vhost.Muxer / TCPGroup / TCPMuxGroup with the receiving listener closed between lookup and send. "
             "handoff driver also: two group members, a user connection pending in the hand-off, member 0 (or both) closed, then the members' "
             "Accept (ambiguous select: observed outcome = oracle of the model). compress driver: http proxy + tcp proxy with useCompression, "
             "overlapping users, the scripted client unwraps snappy and records on which work connection each user's payload arrives. "
             "handoff driver also: 2-4 TLS users waiting in the hand-off of a real HTTPSMuxer, a of them accepted, then Listener.Close: the rest must be closed. "
             "legacyini driver: frps from a legacy ini (real loader + validation) with max_pool_count 1/2/3/7 (and max_ports_per_client), client poolCount above it: "
             "advance ReqWorkConn and cap(workConnCh) against the value written in the file; same value as toml through the same loader. "
             "sendfault driver: a session registered over a pipe whose server-side writes start failing while reads stay open, then 104-123 users "
             "(more than sendCh holds) with no work connection delivered: every one must be closed by userConnTimeout. "
             "visitor driver: real InternalListener under random orders of PutConn/Close/Accept (incl. the 128-slot queue overflowing), and a "
             "real STCPProxy + visitor.Manager whose real accept goroutine runs before the queueing or only after pxy.Close(). "
             "distinct = distinct case text; every case is non-trivial (at least one connection arrives)",
        assumptions=["one channel operation / one critical section is atomic (Go memory model); the scheduler is otherwise arbitrary",
                     "wall-clock bound of userConnTimeout observed with tolerance (+1.5 s), not proved",
                     "cf_dead oracle: a connection the peer has reset fails the StartWorkConn write (observed with SO_LINGER 0)"])
