(* C17 — control-protocol codec: lossless, bounded, total, wire-stable.
   Only statements here; proofs live in Proofs/.  Every theorem is followed by
   Print Assumptions.  [registered] is computed from today's translator output
   (gen/GenMsg.v: the Type* constants joined with msgTypeMap). *)
From FRP Require Import Model.Frame Model.MsgObj Proofs.FrameProofs Proofs.MsgObjProofs
  Proofs.RegistryCheck gen.GenMsg Golden.GoldenMsg.
Open Scope Z_scope.

Definition today_registry := registry type_consts type_map.
Definition registered := reg_of today_registry.

(* decoding the encoding yields the same frame, whatever follows it on the stream *)
Theorem C17_frame_roundtrip : forall t body rest,
  registered t = true -> blen body <= max_len ->
  decode_frame registered (encode_frame t body ++ rest) =
  DOk {| d_type := t; d_body := body; d_rest := rest |} (9 + blen body) (blen body).
Proof. exact (frame_roundtrip registered). Qed.
Print Assumptions C17_frame_roundtrip.

(* the decoder accepts exactly the encoder's image: type byte, 8-byte big-endian length, body *)
Theorem C17_decode_sound_complete : forall s t body rest c a,
  decode_frame registered s = DOk {| d_type := t; d_body := body; d_rest := rest |} c a <->
  s = encode_frame t body ++ rest /\ registered t = true /\ blen body <= max_len /\
  c = 9 + blen body /\ a = blen body.
Proof. exact (decode_sound_complete registered). Qed.
Print Assumptions C17_decode_sound_complete.

(* total by construction (a Coq function); on every input and every path the buffer
   requested from the allocator is within the declared 10 KiB bound ... *)
Theorem C17_decode_alloc_bounded : forall s,
  0 <= out_alloc (decode_frame registered s) <= 10240.
Proof. exact (decode_alloc_bounded registered). Qed.
Print Assumptions C17_decode_alloc_bounded.

(* ... and no more than the input is consumed ... *)
Theorem C17_decode_consumed_bounded : forall s,
  0 <= out_consumed (decode_frame registered s) <= blen s.
Proof. exact (decode_consumed_bounded registered). Qed.
Print Assumptions C17_decode_consumed_bounded.

(* ... and nothing after the frame influences the result (no read past the frame) *)
Theorem C17_decode_no_overread : forall s r c a extra,
  decode_frame registered s = DOk r c a ->
  decode_frame registered (s ++ extra) =
  DOk {| d_type := d_type r; d_body := d_body r; d_rest := d_rest r ++ extra |} c a.
Proof. exact (decode_no_overread registered). Qed.
Print Assumptions C17_decode_no_overread.

Theorem C17_oversize_rejected : forall t n rest,
  registered t = true -> max_len < n < 2 ^ 63 ->
  exists c, decode_frame registered (t :: be64 n ++ rest) = DErr ErrMaxLen c 0.
Proof. exact (oversize_rejected registered). Qed.
Print Assumptions C17_oversize_rejected.

Theorem C17_negative_rejected : forall t n rest,
  registered t = true -> - 2 ^ 63 <= n < 0 ->
  exists c, decode_frame registered (t :: be64 n ++ rest) = DErr ErrLen c 0.
Proof. exact (negative_rejected registered). Qed.
Print Assumptions C17_negative_rejected.

Theorem C17_unknown_type_rejected : forall t rest,
  registered t = false -> decode_frame registered (t :: rest) = DErr ErrType 1 0.
Proof. exact (unknown_type_rejected registered). Qed.
Print Assumptions C17_unknown_type_rejected.

(* schema-level round trip: for every schema with pairwise distinct json names (at every
   nesting level) and every well-typed value vector, decoding the encoded object gives
   the value back — omitempty never loses information (nil and empty containers identified) *)
Theorem C17_obj_roundtrip : forall fs vs,
  schema_wf fs = true -> typed_fields_with typed fs vs = true ->
  dec_obj fs (enc_obj fs vs) = Some vs.
Proof. exact obj_roundtrip. Qed.
Print Assumptions C17_obj_roundtrip.

(* Reflective, over today's translator output: the registry is a bijection between type
   bytes and message types, all bytes fit one octet, every registered message has a
   well-formed schema (so C17_obj_roundtrip applies to it), nothing is mapped twice. *)
Theorem C17_registry_bijective :
  let R := today_registry in
  (forall b s s', In (b, s) R -> In (b, s') R -> s = s') /\
  (forall b b' s, In (b, s) R -> In (b', s) R -> b = b') /\
  (forall b s, In (b, s) R -> 0 <= b < 256) /\
  (forall b s, In (b, s) R -> exists fs, In (s, fs) structs /\ schema_wf fs = true) /\
  length R = length type_map /\ length type_map = length type_consts.
Proof. exact (registry_ok_sound type_consts type_map structs (eq_refl true <: registry_ok type_consts type_map structs = true)). Qed.
Print Assumptions C17_registry_bijective.

(* whole-message round trip for every registered message type of today's tree: frame
   level composed with object level.  The JSON text layer (encoding/json) is an
   oracle: any [render]/[parse] pair with parse (render o) = Some o. *)
Section Message.
  Variable render : list (bytes * jv) -> bytes.
  Variable parse : bytes -> option (list (bytes * jv)).
  Hypothesis parse_render : forall o, parse (render o) = Some o.

  Definition encode_msg (b : byte) (fs : list field) (vs : list gv) : bytes :=
    encode_frame b (render (enc_obj fs vs)).
  Definition decode_msg (fs : list field) (s : bytes) : option (byte * list gv * bytes) :=
    match decode_frame registered s with
    | DOk r _ _ =>
        match parse (d_body r) with
        | Some o => match dec_obj fs o with Some vs => Some (d_type r, vs, d_rest r) | None => None end
        | None => None
        end
    | DErr _ _ _ => None
    end.

  Theorem C17_message_roundtrip : forall b s fs vs rest,
    In (Z_of_byte b, s) today_registry -> In (s, fs) structs -> schema_wf fs = true ->
    typed_fields_with typed fs vs = true ->
    blen (render (enc_obj fs vs)) <= max_len ->
    decode_msg fs (encode_msg b fs vs ++ rest) = Some (b, vs, rest).
  Proof.
    intros b s fs vs rest Hin _ Hwf Ht Hlen. unfold decode_msg, encode_msg.
    assert (Hr : registered b = true).
    { unfold registered, reg_of. apply existsb_exists. exists (Z_of_byte b, s). split; [exact Hin|apply Z.eqb_refl]. }
    rewrite (frame_roundtrip registered b _ rest Hr Hlen). cbn [d_body d_type d_rest].
    rewrite parse_render, (obj_roundtrip fs vs Hwf Ht). reflexivity.
  Qed.
End Message.
Print Assumptions C17_message_roundtrip.

(* Reflective: today's schema extends the pinned released schema (Golden/GoldenMsg.v): every
   released (byte, message) pair is still registered under the same byte, every released
   field keeps its json name, kind and omitempty flag, any new field is omitempty. *)
Theorem C17_wire_stable :
  wire_stable_ok golden_type_consts golden_type_map golden_structs type_consts type_map structs = true.
Proof. vm_compute. reflexivity. Qed.
Print Assumptions C17_wire_stable.

(* a first message other than Login / NewWorkConn / NewVisitorConn, or any decode error,
   only closes the connection it arrived on *)
Theorem C17_first_message_confined : forall tl tw tv o,
  dispatch_first tl tw tv o <> ActClose ->
  exists r c a, o = DOk r c a /\ (d_type r = tl \/ d_type r = tw \/ d_type r = tv).
Proof. exact dispatch_confined. Qed.
Print Assumptions C17_first_message_confined.

(* non-vacuity: a concrete registered type and frame *)
Example C17_example_registered : registered "o"%byte = true /\ registered "z"%byte = false /\
  decode_frame registered (hx "6f00000000000000027b7d") =
  DOk {| d_type := "o"%byte; d_body := hx "7b7d"; d_rest := [] |} 11 2.
Proof. vm_compute. repeat split. Qed.
