import json
import os
import subprocess
from vlib import Check, V, WORK, GOENV

PID = "C20"

MANIFEST = dict(
    text="Machine-checked theorems (Coq 8.16.1) over an executable model of pkg/nathole: address classification incl. its error "
         "cases, the score records (Recommand / ReportSuccess), the mode tables and role swaps of GetRecommandBehaviors (tables, "
         "swap guards, clamp and port-test expressions regenerated from the Go source by translator unit T2 on every run and "
         "checked reflectively), getRangePorts, Controller.analysis and the controller's session table. Proved for every feature "
         "pair, every history of recommendations and reports and every schedule: entries invariant, complementary roles, same "
         "sid/mode, each side gets the other's candidates, role rules of modes 1/2/4, ranges within 1..65535, malformed input -> "
         "error to both, session only if signed and live, responses to exactly the two controls, sessions removed. The model is "
         "tied to the code by T2 and by a differential run of the real Analyzer (exhaustive over both sides' feature space x random "
         "histories), ClassifyNATFeature, getRangePorts and Controller.Handle* against the model.",
    note="Trusted: Coq kernel+VM; translator T2 (go/ast); harness transcription; net.SplitHostPort / strconv.Atoi are modelled by "
         "hand and compared on every run; md5 of the analysis key is taken to be injective; util.GetAuthKey is an oracle whose "
         "values are supplied by the real function. 'Two honest peers find each other' is a runtime fact about UDP on loopback and "
         "is only observed (loopback MakeHole rendezvous), not proved.",
    technique="Coq proof (induction over histories/schedules, reflection over translated tables) + differential correspondence via vm_compute",
    design="4/C20")


def q(tier, quick, thorough):
    return quick if tier == "quick" else thorough


def recipe(c: Check):
    c.build(["Properties/C20.vo", "Corr/C20.vo"], harness=["c20"], units=["t2"])
    c.obligations("C20")
    # the deferred delete after the post-response sleep takes 30-35 s of real time (literal in HandleVisitor):
    # started now, collected at the end, so it overlaps with the other drivers
    bg = None
    if c.harness_ok:
        bg_out, bg_stats = os.path.join(c.wd, "cases_sleepdelete.v"), os.path.join(c.wd, "stats_sleepdelete.json")
        bg = subprocess.Popen([os.path.join(WORK, "h_c20"), "sleepdelete", "-seed", str(c.seed), "-n", "1", "-out", bg_out,
                               "-stats", bg_stats, "-tier", c.tier], cwd=V, env=dict(GOENV, VERIF_SHARDS="1"),
                              stdout=subprocess.PIPE, stderr=subprocess.STDOUT)
    st = c.run_driver("nathole", q(c.tier, 600, 6000), shards=q(c.tier, 8, 16))
    # sanity of the run itself: the branches the property names must have been reached
    cnt = c.cov.get("coq_counters", {}).get("nathole", {})
    if st is not None and cnt:
        for k in ("NMODE0", "NMODE1", "NMODE2", "NMODE3", "NMODE4", "NCLOK", "NCLFEW", "NCLSPLIT", "NCLATOI", "NCLPORT",
                  "NCLHARD", "NCLREGULAR", "NCLPUBLIC"):
            if cnt.get(k, 0) <= 0:
                c.broken.append(dict(kind="coverage", name="driver nathole never reached branch %s" % k, detail=str(cnt)))
    st2 = c.run_driver("controller", q(c.tier, 64, 400), shards=q(c.tier, 4, 8))
    cnt2 = c.cov.get("coq_counters", {}).get("controller", {})
    if st2 is not None and cnt2:
        for k in ("NEVVISITOR", "NEVDELIVER", "NEVCLIENT", "NEVTIMEOUT", "NEVANALYSE", "NEVREPORT", "NEVCLOSE", "NEVGIVEUP"):
            if cnt2.get(k, 0) <= 0:
                c.broken.append(dict(kind="coverage", name="driver controller never reached event %s" % k, detail=str(cnt2)))
    # the real server/proxy.XTCPProxy (hand-over goroutine, Close) on the real Controller: close during a blocked hand-over
    st5 = c.run_driver("xtcp", q(c.tier, 12, 60), shards=2)
    cnt5 = c.cov.get("coq_counters", {}).get("xtcp", {})
    if st5 is not None and cnt5:
        for k in ("NXPROXYCLOSE", "NXHANDOVERDONE", "NXLOOPEXIT", "NXDELIVER"):
            if cnt5.get(k, 0) <= 0:
                c.broken.append(dict(kind="coverage", name="driver xtcp never reached event %s" % k, detail=str(cnt5)))
        if st5.get("distribution", {}).get("requests_for_closed_proxy", 0) <= 0:
            c.broken.append(dict(kind="coverage", name="driver xtcp sent no request for a closed proxy", detail=""))
    # an xtcp registration made through a real server.Control over a pipe, slow NewProxy plugin, owner disconnects
    st7 = c.run_driver("ownerctl", q(c.tier, 6, 30), shards=1)
    cnt7 = c.cov.get("coq_counters", {}).get("ownerctl", {})
    if st7 is not None and cnt7:
        for k in ("NOWNERNEWPROXY", "NOWNERCTLEND"):
            if cnt7.get(k, 0) <= 0:
                c.broken.append(dict(kind="coverage", name="driver ownerctl never reached %s" % k, detail=str(cnt7)))
        if st7.get("distribution", {}).get("owner_gone_during_registration", 0) <= 0:
            c.broken.append(dict(kind="coverage", name="driver ownerctl: no disconnect during a registration", detail=""))
    # the real transport.NewMessageTransporter: Send never drops (differential) + both parties answered despite a backlog
    st6 = c.run_driver("backlog", q(c.tier, 60, 400), shards=1)
    cnt6 = c.cov.get("coq_counters", {}).get("backlog", {})
    if st6 is not None and cnt6:
        for k in ("NTRENQUEUED", "NTRCLOSED", "NTRPARKED", "NTRUNPARKED", "NTRRELEASED"):
            if cnt6.get(k, 0) <= 0:
                c.broken.append(dict(kind="coverage", name="driver backlog never observed %s" % k, detail=str(cnt6)))
    # OBSERVATION (runtime residue): real MakeHole for both roles over loopback UDP, instructions from the real Controller
    st3 = c.run_driver("rendezvous", 1, coq=False, timeout=q(c.tier, 300, 900))
    if st3 is not None:
        d = st3.get("distribution", {})
        if d.get("keyless_pairs_found_each_other", 0) <= 0 and not any(k.endswith("_FAILED") for k in d):
            c.broken.append(dict(kind="coverage", name="driver rendezvous ran no key-less pair", detail=str(d)))
        for m in range(5):
            if d.get("mode%d_found_each_other" % m, 0) + d.get("mode%d_FAILED" % m, 0) <= 0:
                c.broken.append(dict(kind="coverage", name="driver rendezvous ran no row of table %d" % m, detail=str(d)))
    if bg is not None:
        try:
            o = bg.communicate(timeout=120)[0].decode("utf-8", "replace")
        except subprocess.TimeoutExpired:
            bg.kill()
            o = "timeout"
        c.log.write(o)
        if bg.returncode != 0:
            c.broken.append(dict(kind="driver", name="harness sleepdelete", detail=o[-1200:]))
        else:
            st4 = json.load(open(bg_stats))
            c.cov["evaluations"] += 1
            c.cov["distinct_nontrivial"] += 1
            c.cov["traces_validated_against_impl"] += 1
            c.cov["distribution"]["sleepdelete"] = st4.get("distribution", {})
            c.cov["drivers"].append(dict(driver="sleepdelete", cases=1, seconds=39, extra={}))
            for f in st4.get("impl_failures", []):
                f.setdefault("driver", "sleepdelete")
                c.failures.append(f)
            c.eval_shards("sleepdelete")
            if c.cov.get("coq_counters", {}).get("sleepdelete", {}).get("NEVSLEEPDONE", 0) != 2:
                c.broken.append(dict(kind="coverage", name="driver sleepdelete did not see both deferred deletes", detail=""))
    return c.finish(
        rule="nathole driver: (1) EXHAUSTIVE over NatType x Behavior x RegularPortsChange x PublicNetwork for both sides (1024 "
             "pairs), each with a random history of GetRecommandBehaviors / ReportSuccess (reports for the last recommendation, "
             "other entries, invalid (mode,index), unknown keys) on the real exported Analyzer, plus long multi-key histories and "
             "histories that reuse one key with different feature pairs; every output (mode, index, both behaviours) compared with "
             "Model.NatHole.nh_run_analyzer over today's translated tables; (2) address lists (0-6 entries, equal/different hosts "
             "and ports, IPv6, local = mapped (public network), 23 malformed strings, ports 0/1/65535/65536/70000/-1/+81/081/2^63/"
             "empty/non-ASCII digits) through real ClassifyNATFeature (error class and all five feature fields compared) and "
             "getRangePorts. controller driver: scripted scenarios on the real Controller (own instance per scenario, stub "
             "MessageTransporters, a harness-controlled receiver standing in for the XTCPProxy goroutine, NatHoleTimeout = 1 s): "
             "pre-checks, refused requests (bad signature, stale timestamp, unknown proxy, user not allowed), complete sessions, "
             "timeouts, owner answers before the hand-over / twice / with unknown sids, reports for live, finished and unknown sids, "
             "owner close and re-register, owner close while a hand-over is pending (the hand-over must be given up after NatHoleTimeout: repaired F-C20b); written as the list of model events the script "
             "enforces plus observation points (session table, inbox of every transporter) and replayed through ctl_step. "
             "xtcp driver: the real server/proxy.XTCPProxy (Run's hand-over goroutine, Close) on the real Controller, its GetWorkConnFn "
             "held by the harness (empty pool): close while idle / while a hand-over is blocked / with a second visitor queued behind "
             "it / followed by an immediate re-registration of the name; after Close has returned a pre-check and a correctly signed "
             "request for the closed proxy; events EvListen/EvProxyClose/EvDeliver/EvHandoverDone/EvLoopExit and observations of the "
             "session table, inboxes and registered names replayed through the model. "
             "ownerctl driver: a real server.Control over a net.Pipe with a slow NewProxy server plugin; the owner announces an xtcp proxy "
             "and disconnects while the registration is in flight (or after it): events EvNewProxy/EvCtlEnd, the registered names, a "
             "pre-check and a signed request for the departed owner's proxy, re-registration of the name. rendezvous: every other row "
             "and one pre-queued run use the EMPTY key (xtcp without secretKey); nathole driver: EncodeMessage/DecodeMessageInto round "
             "trips for nil/empty/short/long/random keys. "
             "backlog driver: random histories of Send / drain / end-of-dispatcher on the real transport.NewMessageTransporter over "
             "queues of capacity 1-3, every observation (returned nil / dispatcher-ended error / still parked / released by a drain or "
             "by done) replayed through Model.NatHoleTr.tr_step; plus six sessions on a real Controller whose controls use real "
             "transporters over queues of 100 that are full of other traffic with a late writer: both NatHoleResp and the error reply "
             "of a refused request must arrive. "
             "sleepdelete driver (background, real time): an error-pair session and a mode-0 session are watched through the 30 s / 35 s "
             "post-response sleep until the table is empty (EvSleepDone). rendezvous driver = OBSERVATION, not proof: three "
             "address pairs walk the real Controller through all 28 rows of the five tables; real nathole.MakeHole runs for both "
             "roles on 127.0.20.1/127.0.20.2 (quick: rows with SendDelayMs <= 3000, thorough: all), a failing row is re-run twice "
             "before it is reported; every walked row is also checked for 'receiver still listening when the sender starts'. "
             "distinct = distinct case text; non-trivial = history with >= 2 operations / list with >= 2 addresses / scenario with a session",
        assumptions=["md5 over the analysis key text is injective (the model keys records by the text that is hashed)",
                     "util.GetAuthKey is an oracle (its values are supplied to the model by the real function)",
                     "net.SplitHostPort and strconv.Atoi (standard library) are modelled by hand and compared on every run"])
