(* C16 (2): client-supplied sizes that reach an allocation.  Hand-written reference model of
   server/control.go NewControl: the pool count the server stores and requests in advance, and the
   capacity of the buffered channel it allocates.  Model only (no proofs).
   The translated version of the same code is gen/GenAlloc.v (translator unit T8a);
   Proofs/AllocProofs.v proves they agree and that the capacity can never be negative. *)
From Coq Require Export ZArith.
Open Scope Z_scope.

(* min(client poolCount, server maxPoolCount), never negative *)
Definition al_pool_count (login_pool_count max_pool_count : Z) : Z :=
  Z.max 0 (Z.min login_pool_count max_pool_count).

Definition al_pool_slack : Z := 10.
Definition al_chan_cap (pool_count : Z) : Z := pool_count + al_pool_slack.

(* Go's makechan panics ("size out of range") iff the size is negative (or absurdly large) *)
Definition al_makechan_ok (n : Z) : bool := 0 <=? n.
