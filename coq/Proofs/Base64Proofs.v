(* C03: proofs about Model/Base64.v *)
From FRP Require Import Model.Base64 Proofs.FrameProofs.
From Coq Require Import Lia ZifyBool ZifyNat.
Open Scope Z_scope.

Ltac Zify.zify_post_hook ::= Z.div_mod_to_equations.

(** * the alphabet *)

Definition b64_char_ok (v : Z) : bool :=
  match b64_val (b64_char v) with Some w => w =? v | None => false end
  && negb (b64_is_pad (b64_char v)) && negb (b64_is_nl (b64_char v)).

Lemma b64_char_ok_nat (n : nat) : (n < 64)%nat -> b64_char_ok (Z.of_nat n) = true.
Proof.
  intros H.
  do 64 (destruct n as [|n]; [vm_compute; reflexivity|]).
  lia.
Qed.

Lemma b64_char_ok_all v : 0 <= v < 64 -> b64_char_ok v = true.
Proof.
  intros H. replace v with (Z.of_nat (Z.to_nat v)) by lia. apply b64_char_ok_nat. lia.
Qed.

Lemma b64_val_char v : 0 <= v < 64 -> b64_val (b64_char v) = Some v.
Proof.
  intros H. apply b64_char_ok_all in H. unfold b64_char_ok in H.
  destruct (b64_val (b64_char v)) as [w|]; cbn in H; [|discriminate].
  apply andb_true_iff in H. destruct H as [H _]. apply andb_true_iff in H. destruct H as [H _].
  f_equal. lia.
Qed.

Lemma b64_char_not_pad v : 0 <= v < 64 -> b64_is_pad (b64_char v) = false.
Proof.
  intros H. apply b64_char_ok_all in H. unfold b64_char_ok in H.
  apply andb_true_iff in H. destruct H as [H _]. apply andb_true_iff in H. destruct H as [_ H].
  now apply negb_true_iff in H.
Qed.

Lemma b64_char_not_nl v : 0 <= v < 64 -> b64_is_nl (b64_char v) = false.
Proof.
  intros H. apply b64_char_ok_all in H. unfold b64_char_ok in H.
  apply andb_true_iff in H. destruct H as [_ H]. now apply negb_true_iff in H.
Qed.

Lemma b64_pad_is_pad : b64_is_pad b64_pad = true.
Proof. reflexivity. Qed.

Lemma b64_pad_not_nl : b64_is_nl b64_pad = false.
Proof. reflexivity. Qed.

(* the values a padding character or a non-alphabet character decode to *)
Lemma b64_val_pad : b64_val b64_pad = None.
Proof. reflexivity. Qed.

(** * induction three bytes at a time *)

Lemma list_ind3 {A} (P : list A -> Prop) :
  P [] -> (forall a, P [a]) -> (forall a b, P [a; b]) ->
  (forall a b c r, P r -> P (a :: b :: c :: r)) ->
  forall l, P l.
Proof.
  intros H0 H1 H2 H3.
  assert (H : forall l, P l /\ (forall a, P (a :: l)) /\ (forall a b, P (a :: b :: l))).
  { induction l as [|x l (IH0 & IH1 & IH2)].
    - repeat split; auto.
    - repeat split; auto. }
  intros l. apply H.
Qed.

(** * byte reassembly *)

Lemma b64_reassemble1 a b :
  b64_b1 (Z_of_byte a / 4) ((Z_of_byte a mod 4) * 16 + b) = a \/ ~ (0 <= b < 16).
Proof.
  destruct (Z_le_gt_dec 0 b); [|right; lia].
  destruct (Z_lt_ge_dec b 16); [|right; lia]. left.
  unfold b64_b1. pose proof (Z_of_byte_range a) as Ha.
  replace (Z_of_byte a / 4 * 4 + (Z_of_byte a mod 4 * 16 + b) / 16) with (Z_of_byte a) by lia.
  apply byte_of_Z_of_byte.
Qed.

Lemma b64_rt1 a y : 0 <= y < 16 ->
  b64_b1 (Z_of_byte a / 4) ((Z_of_byte a mod 4) * 16 + y) = a.
Proof. intros H. destruct (b64_reassemble1 a y) as [E|E]; [exact E|contradiction]. Qed.

Lemma b64_rt2 x b z : 0 <= x < 4 -> 0 <= z < 4 ->
  b64_b2 (x * 16 + Z_of_byte b / 16) ((Z_of_byte b mod 16) * 4 + z) = b.
Proof.
  intros Hx Hz. unfold b64_b2. pose proof (Z_of_byte_range b) as Hb.
  replace ((x * 16 + Z_of_byte b / 16) mod 16 * 16 + (Z_of_byte b mod 16 * 4 + z) / 4)
    with (Z_of_byte b) by lia.
  apply byte_of_Z_of_byte.
Qed.

Lemma b64_rt3 y c : 0 <= y < 16 ->
  b64_b3 (y * 4 + Z_of_byte c / 64) (Z_of_byte c mod 64) = c.
Proof.
  intros Hy. unfold b64_b3. pose proof (Z_of_byte_range c) as Hc.
  replace ((y * 4 + Z_of_byte c / 64) mod 4 * 64 + Z_of_byte c mod 64) with (Z_of_byte c) by lia.
  apply byte_of_Z_of_byte.
Qed.

(** * round trip *)

Lemma b64_decode_q_encode d : b64_decode_q (b64_encode d) = Some d.
Proof.
  induction d as [|a|a b|a b c r IH] using list_ind3.
  - reflexivity.
  - pose proof (Z_of_byte_range a) as Ha.
    cbn [b64_encode b64_decode_q].
    rewrite !b64_val_char by lia. rewrite b64_pad_is_pad.
    f_equal. f_equal.
    replace (Z_of_byte a mod 4 * 16) with (Z_of_byte a mod 4 * 16 + 0) by lia.
    apply b64_rt1. lia.
  - pose proof (Z_of_byte_range a) as Ha. pose proof (Z_of_byte_range b) as Hb.
    cbn [b64_encode b64_decode_q].
    rewrite !b64_val_char by lia. rewrite b64_char_not_pad by lia. rewrite b64_pad_is_pad.
    f_equal. f_equal; [apply b64_rt1; lia|]. f_equal.
    replace (Z_of_byte b mod 16 * 4) with (Z_of_byte b mod 16 * 4 + 0) by lia.
    apply b64_rt2; lia.
  - pose proof (Z_of_byte_range a) as Ha. pose proof (Z_of_byte_range b) as Hb.
    pose proof (Z_of_byte_range c) as Hc.
    cbn [b64_encode b64_decode_q].
    rewrite !b64_val_char by lia. rewrite !b64_char_not_pad by lia. rewrite IH.
    f_equal. f_equal; [apply b64_rt1; lia|]. f_equal; [apply b64_rt2; lia|]. f_equal.
    apply b64_rt3. lia.
Qed.

Lemma b64_encode_no_nl d : Forall (fun b => b64_is_nl b = false) (b64_encode d).
Proof.
  induction d as [|a|a b|a b c r IH] using list_ind3; cbn [b64_encode].
  - constructor.
  - pose proof (Z_of_byte_range a). repeat constructor; try apply b64_char_not_nl; lia.
  - pose proof (Z_of_byte_range a). pose proof (Z_of_byte_range b).
    repeat constructor; try apply b64_char_not_nl; lia.
  - pose proof (Z_of_byte_range a). pose proof (Z_of_byte_range b). pose proof (Z_of_byte_range c).
    repeat (constructor; [apply b64_char_not_nl; lia|]). exact IH.
Qed.

Lemma filter_all_true {A} (f : A -> bool) l : Forall (fun x => f x = true) l -> filter f l = l.
Proof. induction 1 as [|x l Hx _ IH]; cbn; [reflexivity|]. now rewrite Hx, IH. Qed.

Theorem b64_roundtrip d : b64_decode (b64_encode d) = Some d.
Proof.
  unfold b64_decode. rewrite filter_all_true; [apply b64_decode_q_encode|].
  eapply Forall_impl; [|apply b64_encode_no_nl]. cbn. intros b ->. reflexivity.
Qed.

Theorem b64_encode_length d : blen (b64_encode d) = b64_len (blen d).
Proof.
  unfold b64_len, blen.
  induction d as [|a|a b|a b c r IH] using list_ind3; cbn [b64_encode length] in *; lia.
Qed.

Corollary b64_encode_inj d d' : b64_encode d = b64_encode d' -> d = d'.
Proof.
  intros E. pose proof (b64_roundtrip d) as H. rewrite E, b64_roundtrip in H. congruence.
Qed.

(** * what the decoder accepts (over newline-free input): exactly the padded encodings up to
      ignored trailing bits; the decoded length is determined by the input length and padding *)
Lemma b64_decode_q_length : forall s d, b64_decode_q s = Some d -> blen s = b64_len (blen d).
Proof.
  unfold b64_len, blen.
  assert (H : forall n s, (length s <= n)%nat -> forall d, b64_decode_q s = Some d ->
              Z.of_nat (length s) = 4 * ((Z.of_nat (length d) + 2) / 3)).
  { induction n as [|n IH]; intros s Hn d.
    - destruct s; [|cbn in Hn; lia]. cbn. intros [= <-]. reflexivity.
    - destruct s as [|c1 [|c2 [|c3 [|c4 r]]]]; cbn [b64_decode_q]; try discriminate.
      + intros [= <-]. reflexivity.
      + destruct (b64_val c1) as [v1|]; [|discriminate].
        destruct (b64_val c2) as [v2|]; [|discriminate].
        destruct (b64_is_pad c3).
        * destruct (b64_is_pad c4); [|discriminate]. destruct r; [|discriminate].
          intros [= <-]. reflexivity.
        * destruct (b64_val c3) as [v3|]; [|discriminate].
          destruct (b64_is_pad c4).
          -- destruct r; [|discriminate]. intros [= <-]. reflexivity.
          -- destruct (b64_val c4) as [v4|]; [|discriminate].
             destruct (b64_decode_q r) as [t|] eqn:Er; [|discriminate].
             intros [= <-]. cbn [length] in *.
             specialize (IH r ltac:(lia) t Er). lia. }
  intros s d. apply (H (length s)). lia.
Qed.

(* a payload encoded with the URL-safe alphabet on one side is rejected by the standard decoder
   as soon as a 62/63 value occurs: concrete witness, the single byte 0xfb ("+w==" vs "-w==") *)
Example b64_url_alphabet_rejected :
  b64_encode [xfb] = [b64_char 62; b64_char 48; b64_pad; b64_pad] /\
  b64_decode [b64url_char 62; b64url_char 48; b64_pad; b64_pad] = None.
Proof. split; vm_compute; reflexivity. Qed.
