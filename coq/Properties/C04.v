(* C04 — no session, proxy or work connection without valid client credentials.
   Only statements here; proofs live in Proofs/AuthProofs.v.  Every theorem is universally quantified over
   the hash H (md5 of token ++ decimal timestamp in the code), the OIDC token verifier [oidc]
   (go-oidc's Verify: bearer token, time of the call -> subject or error; consulted on every message) and the server configuration c
   (method, token, additional scopes, pool bound, heartbeat timeout), and either over ALL states
   (stronger than reachable ones) or over all event histories [au_run evs au_init]. *)
From FRP Require Import Model.Auth Model.AuthShape Model.SshGate Proofs.AuthProofs Proofs.AuthShapeProofs Proofs.SshGateProofs gen.GenAuth.
Open Scope Z_scope.

(* every session of every reachable state was admitted by RegisterControl on a verified login: under the
   configured verifier with the credential presented, or under the always-pass verifier, which needs the
   internal listener AND the flag *)
Theorem C04_session_implies_verified : forall H oidc c evs x,
  In x (at_sessions (au_run H oidc c evs au_init)) -> au_session_verified H oidc c x.
Proof. exact au_session_implies_verified. Qed.
Print Assumptions C04_session_implies_verified.

(* nothing in a message received on a network listener selects the always-pass verifier ... *)
Theorem C04_network_cannot_claim_bypass : forall sp, au_choose_verifier false sp = AuConfigured.
Proof. exact au_choose_network. Qed.
Print Assumptions C04_network_cannot_claim_bypass.

Theorem C04_bypass_needs_internal_and_flag : forall internal sp,
  au_choose_verifier internal sp = AuAlwaysPass <-> internal = true /\ asp_always_pass sp = true.
Proof. exact au_choose_pass_iff. Qed.
Print Assumptions C04_bypass_needs_internal_and_flag.

(* ... so a login from the network whose key does not match is refused in every state, whatever else it
   says (run id, client_spec, pool count ...), and the state is untouched *)
Theorem C04_network_login_without_credential_refused : forall H oidc c s conn now gen l0 lplug l,
  au_lplug_apply lplug l0 = Some l ->     (* l: the login as returned by the Login plugin chain (l0 itself without plugins) *)
  au_login_cred_ok H oidc c now l = false ->
  exists e, au_step H oidc c s (AuEFirst false conn now gen (AuFLogin l0 lplug)) = (s, AuORefused (AuRLogin e)).
Proof. exact au_network_login_refused. Qed.
Print Assumptions C04_network_login_without_credential_refused.

(* the same on the internal listener unless the flag is set *)
Theorem C04_login_without_credential_refused : forall H oidc c s internal conn now gen l0 lplug l,
  au_lplug_apply lplug l0 = Some l ->
  au_login_cred_ok H oidc c now l = false -> internal && asp_always_pass (al_spec l) = false ->
  exists e, au_step H oidc c s (AuEFirst internal conn now gen (AuFLogin l0 lplug)) = (s, AuORefused (AuRLogin e)).
Proof. exact au_bad_login_refused. Qed.
Print Assumptions C04_login_without_credential_refused.

(* a Login plugin chain that rejects (or fails) refuses the login — on the internal listener with the always-pass flag
   as well: the chain is consulted for every Login before RegisterControl *)
Theorem C04_login_plugin_reject_refused : forall H oidc c s internal conn now gen l0 lplug,
  au_lplug_apply lplug l0 = None ->
  au_step H oidc c s (AuEFirst internal conn now gen (AuFLogin l0 lplug)) = (s, AuORefused AuRLoginPlugin).
Proof. exact au_login_plugin_reject_refused. Qed.
Print Assumptions C04_login_plugin_reject_refused.

(* OIDC under the configured policy (auth.oidc audience / skipExpiryCheck / skipIssuerCheck): a token that is expired,
   of another issuer, for another audience or signed by a foreign key is refused at login unless the policy waives
   exactly that check *)
Theorem C04_oidc_policy_login_refused : forall H c p tab s conn now gen l0 lplug l t,
  ac_method c = AuOidc ->
  au_lplug_apply lplug l0 = Some l -> tab (al_key l) = Some t -> au_token_unacceptable p t now = true ->
  exists e, au_step H (au_oidc_of_policy p tab) c s (AuEFirst false conn now gen (AuFLogin l0 lplug)) = (s, AuORefused (AuRLogin e)).
Proof. exact au_policy_login_refused. Qed.
Print Assumptions C04_oidc_policy_login_refused.

(* any other message type as first message: closed, state untouched *)
Theorem C04_other_first_message_refused : forall H oidc c s internal conn now gen ty,
  au_step H oidc c s (AuEFirst internal conn now gen (AuFOther ty)) = (s, AuORefused AuRFirstType).
Proof. exact au_other_first_refused. Qed.
Print Assumptions C04_other_first_message_refused.

(* HeartBeats scope on: a ping without the credential does not refresh liveness (nor anything else) *)
Theorem C04_ping_refreshes_only_if_valid : forall H oidc c s sid now key ts x,
  au_has_scope AuScHeartBeats (ac_scopes c) = true ->
  au_find_sid sid (at_sessions s) = Some x -> as_verifier x = AuConfigured ->
  au_msg_cred_ok H oidc c (at_subjects s) now key ts = false ->
  exists e, au_step H oidc c s (AuELater sid now (AuLPing key ts)) = (s, AuOPongErr e).
Proof. exact au_bad_ping_no_refresh. Qed.
Print Assumptions C04_ping_refreshes_only_if_valid.

(* work connection naming an unknown run id: refused in every configuration *)
Theorem C04_workconn_unknown_run_refused : forall H oidc c s internal conn now gen rid key ts plug,
  au_find_rid rid (at_sessions s) = None ->
  au_step H oidc c s (AuEFirst internal conn now gen (AuFWorkConn rid key ts plug)) = (s, AuORefused AuRWorkUnknownRun).
Proof. exact au_workconn_unknown_refused. Qed.
Print Assumptions C04_workconn_unknown_run_refused.

(* NewWorkConns scope on: a work connection is refused when what the server plugin chain RETURNS for it lacks
   the credential — whatever the peer originally sent (verification is not done on the original message) *)
Theorem C04_workconn_without_credential_refused : forall H oidc c s internal conn now gen rid key ts plug key' ts' x,
  au_has_scope AuScNewWorkConns (ac_scopes c) = true ->
  au_find_rid rid (at_sessions s) = Some x -> as_verifier x = AuConfigured ->
  au_plug_apply plug key ts = Some (key', ts') ->
  au_msg_cred_ok H oidc c (at_subjects s) now key' ts' = false ->
  exists e, au_step H oidc c s (AuEFirst internal conn now gen (AuFWorkConn rid key ts plug)) = (s, AuORefused (AuRWorkAuth e)).
Proof. exact au_bad_workconn_refused. Qed.
Print Assumptions C04_workconn_without_credential_refused.

(* a plugin chain that rejects (or fails) refuses the work connection *)
Theorem C04_workconn_plugin_reject_refused : forall H oidc c s internal conn now gen rid key ts plug x,
  au_find_rid rid (at_sessions s) = Some x -> au_plug_apply plug key ts = None ->
  au_step H oidc c s (AuEFirst internal conn now gen (AuFWorkConn rid key ts plug)) = (s, AuORefused AuRWorkPlugin).
Proof. exact au_workconn_plugin_reject_refused. Qed.
Print Assumptions C04_workconn_plugin_reject_refused.

(* whatever is answered with a refusal (LoginResp error, StartWorkConn error, silent close, Pong error,
   NewProxyResp error) leaves the complete server state as it was ... *)
Theorem C04_refused_attempt_leaves_state_unchanged : forall H oidc c s e,
  au_is_refusal (snd (au_step H oidc c s e)) = true -> fst (au_step H oidc c s e) = s.
Proof. exact au_refused_unchanged. Qed.
Print Assumptions C04_refused_attempt_leaves_state_unchanged.

(* ... any number of them ... *)
Theorem C04_refused_attempts_leave_state_unchanged : forall H oidc c evs s,
  Forall (fun e => au_is_refusal (snd (au_step H oidc c s e)) = true) evs -> au_run H oidc c evs s = s.
Proof. exact au_refused_many. Qed.
Print Assumptions C04_refused_attempts_leave_state_unchanged.

(* ... and wherever they occur in a history: deleting a refused event from a history changes nothing *)
Theorem C04_refused_attempt_erasable : forall H oidc c pre e post s,
  au_is_refusal (snd (au_step H oidc c (au_run H oidc c pre s) e)) = true ->
  au_run H oidc c (pre ++ e :: post) s = au_run H oidc c (pre ++ post) s.
Proof. exact au_refused_erasable. Qed.
Print Assumptions C04_refused_attempt_erasable.

(* ---- statements over all histories that need the reachable-state invariant ------------------------------ *)

(* history form: every session of a reachable state stems from a Login event of the history that either carried
   the credential (valid at the time of that event; the login is what the Login plugin chain returned) or came through the internal listener with the flag set; the session keeps that login
   message (with the run id filled in) and the listener kind *)
Theorem C04_session_has_verified_login_event : forall H oidc c evs x,
  In x (at_sessions (au_run H oidc c evs au_init)) ->
  exists internal conn now gen l00 lplug l0,
    In (AuEFirst internal conn now gen (AuFLogin l00 lplug)) evs /\ au_lplug_apply lplug l00 = Some l0 /\
    as_login x = au_effective_login l0 gen /\ as_internal x = internal /\
    (au_login_cred_ok H oidc c now l0 = true \/ (internal = true /\ asp_always_pass (al_spec l0) = true)).
Proof. exact au_session_has_login_event. Qed.
Print Assumptions C04_session_has_verified_login_event.

(* lastPing of a session changes only through a Ping on that very session which the session's verifier
   accepts: always-pass session, scope off, or credential presented *)
Theorem C04_ping_refresh_implies_valid : forall H oidc c evs e x x',
  In x (at_sessions (au_run H oidc c evs au_init)) ->
  In x' (at_sessions (au_run H oidc c (evs ++ [e]) au_init)) ->
  as_sid x' = as_sid x -> as_last_ping x' <> as_last_ping x ->
  exists now key ts, e = AuELater (as_sid x) now (AuLPing key ts) /\ as_last_ping x' = now /\
    (as_verifier x = AuAlwaysPass \/ au_has_scope AuScHeartBeats (ac_scopes c) = false \/
     au_msg_cred_ok H oidc c (at_subjects (au_run H oidc c evs au_init)) now key ts = true).
Proof. exact au_ping_refresh_implies_valid. Qed.
Print Assumptions C04_ping_refresh_implies_valid.

(* heartbeats without the credential do not keep a session alive: after any number of them the next
   watchdog sweep past the timeout removes the session exactly as if they had not been sent *)
Theorem C04_invalid_pings_do_not_keep_alive : forall H oidc c s x pings now,
  au_has_scope AuScHeartBeats (ac_scopes c) = true ->
  au_find_sid (as_sid x) (at_sessions s) = Some x -> as_verifier x = AuConfigured ->
  Forall (fun e => exists now' k ts, e = AuELater (as_sid x) now' (AuLPing k ts) /\
                                     au_msg_cred_ok H oidc c (at_subjects s) now' k ts = false) pings ->
  au_hb_expired c now x = true ->
  forall y, In y (at_sessions (au_run H oidc c (pings ++ [AuECheck now]) s)) -> as_sid y <> as_sid x.
Proof. exact au_invalid_pings_do_not_keep_alive. Qed.
Print Assumptions C04_invalid_pings_do_not_keep_alive.

(* a connection enters a session's pool only through a NewWorkConn naming that session's run id whose
   plugin-chain output the session's verifier accepts at that time *)
Theorem C04_workconn_pooled_only_if_known_and_valid : forall H oidc c evs e x x' cn,
  In x (at_sessions (au_run H oidc c evs au_init)) ->
  In x' (at_sessions (au_run H oidc c (evs ++ [e]) au_init)) ->
  as_sid x' = as_sid x -> In cn (as_pool x') -> ~ In cn (as_pool x) ->
  exists internal now gen key0 ts0 plug key ts,
    e = AuEFirst internal cn now gen (AuFWorkConn (as_rid x) key0 ts0 plug) /\
    au_plug_apply plug key0 ts0 = Some (key, ts) /\
    (as_verifier x = AuAlwaysPass \/ au_has_scope AuScNewWorkConns (ac_scopes c) = false \/
     au_msg_cred_ok H oidc c (at_subjects (au_run H oidc c evs au_init)) now key ts = true).
Proof. exact au_workconn_pooled_implies_known_and_valid. Qed.
Print Assumptions C04_workconn_pooled_only_if_known_and_valid.

(* an event that does not address session x (other run id / other Control; for the watchdog: x not expired),
   or that is refused, leaves x in the table with every field as it was *)
Theorem C04_existing_sessions_undisturbed : forall H oidc c evs e x,
  In x (at_sessions (au_run H oidc c evs au_init)) ->
  au_addresses c e x = false \/ au_is_refusal (snd (au_step H oidc c (au_run H oidc c evs au_init) e)) = true ->
  In x (at_sessions (au_run H oidc c (evs ++ [e]) au_init)).
Proof. exact au_existing_sessions_undisturbed. Qed.
Print Assumptions C04_existing_sessions_undisturbed.

(* every entry of the server-wide proxy table belongs to a live session that lists it, and that session was
   admitted on a verified login *)
Theorem C04_proxy_registered_only_on_session : forall H oidc c evs n sid,
  In (n, sid) (at_pxys (au_run H oidc c evs au_init)) ->
  exists x, In x (at_sessions (au_run H oidc c evs au_init)) /\ as_sid x = sid /\ In n (as_proxies x) /\
            au_session_verified H oidc c x.
Proof. exact au_proxy_only_on_session. Qed.
Print Assumptions C04_proxy_registered_only_on_session.

(* the session table is keyed by run id; Control identities are unique *)
Theorem C04_session_table_keyed : forall H oidc c evs x y,
  In x (at_sessions (au_run H oidc c evs au_init)) -> In y (at_sessions (au_run H oidc c evs au_init)) ->
  as_rid x = as_rid y \/ as_sid x = as_sid y -> x = y.
Proof. exact au_table_keyed. Qed.
Print Assumptions C04_session_table_keyed.

(* ---- the ssh tunnel gateway as a way to obtain a session (Model/SshGate.v) -------------------------------- *)

(* a virtual-client session is created only if the peer's ssh key is authorised by the configured authorized_keys file
   (publickey attempt with proof of possession, key listed) or the login built from the ssh command line carries a
   valid credential (--token) — for every sequence of ssh authentication attempts, incl. one that skips "none" *)
Theorem C04_ssh_session_implies_key_or_token :
  forall H oidc c k s conn now gen attempts cmd_token cmd_user ts pool lplug s' rid sid,
  sg_step H oidc c k s conn now gen attempts cmd_token cmd_user ts pool lplug = (s', SgForwarded (AuOLoginOk rid sid)) ->
  sg_key_authorised k attempts \/
  exists perm l, au_lplug_apply lplug (sg_login H k perm cmd_token cmd_user ts pool) = Some l /\
                 (au_login_cred_ok H oidc c now l = true \/ asp_always_pass (al_spec l) = true /\ lplug <> AuLPlugSame).
Proof. exact sg_session_implies_key_or_token. Qed.
Print Assumptions C04_ssh_session_implies_key_or_token.

(* gateway without an authorized_keys file (and no Login plugin rewriting the login): only the token admits, whatever
   key the peer offers *)
Theorem C04_ssh_no_keys_file_needs_token :
  forall H oidc c s conn now gen attempts cmd_token cmd_user ts pool s' rid sid,
  sg_step H oidc c SgNoFile s conn now gen attempts cmd_token cmd_user ts pool AuLPlugSame = (s', SgForwarded (AuOLoginOk rid sid)) ->
  au_login_cred_ok H oidc c now (sg_login H SgNoFile None cmd_token cmd_user ts pool) = true.
Proof. exact sg_no_file_needs_token. Qed.
Print Assumptions C04_ssh_no_keys_file_needs_token.

(* a rejecting Login plugin refuses gateway sessions too, authorised key or not *)
Theorem C04_ssh_login_plugin_reject_refused :
  forall H oidc c k s conn now gen attempts cmd_token cmd_user ts pool lplug,
  (forall l, au_lplug_apply lplug l = None) ->
  forall rid sid, snd (sg_step H oidc c k s conn now gen attempts cmd_token cmd_user ts pool lplug) <> SgForwarded (AuOLoginOk rid sid).
Proof. exact sg_login_plugin_reject_refused. Qed.
Print Assumptions C04_ssh_login_plugin_reject_refused.

(* an ssh connection that does not end in a session leaves the server state untouched *)
Theorem C04_ssh_refused_leaves_state :
  forall H oidc c k s conn now gen attempts cmd_token cmd_user ts pool lplug,
  (forall rid sid, snd (sg_step H oidc c k s conn now gen attempts cmd_token cmd_user ts pool lplug) <> SgForwarded (AuOLoginOk rid sid)) ->
  fst (sg_step H oidc c k s conn now gen attempts cmd_token cmd_user ts pool lplug) = s.
Proof. exact sg_refused_leaves_state. Qed.
Print Assumptions C04_ssh_refused_leaves_state.

(* ---- reflective, over today's translator output (unit t4auth -> gen/GenAuth.v) --------------------------- *)

(* the three Verify* methods of pkg/auth/token.go, as translated today, mean exactly the model's functions: the
   scope test precedes the key test, the key test is ConstantTimeEqString(GetAuthKey(auth.token, m.Timestamp),
   m.PrivilegeKey) with that argument order, nothing else happens *)
Theorem C04_token_verifiers_have_modelled_shape : forall H c ts k,
  ga_run H c AuErrTokenLogin gen_token_verify_login ts k = Some (au_tok_verify_login H c ts k) /\
  ga_run H c AuErrTokenPing gen_token_verify_ping ts k = Some (au_tok_verify_ping H c ts k) /\
  ga_run H c AuErrTokenWork gen_token_verify_workconn ts k = Some (au_tok_verify_workconn H c ts k).
Proof. exact ga_token_verifiers_are_modelled. Qed.
Print Assumptions C04_token_verifiers_have_modelled_shape.

(* util.ConstantTimeEqString is subtle.ConstantTimeCompare on the two FULL strings, compared with 1 *)
Theorem C04_ct_eq_compares_full_strings : ga_cteq_ok gen_ct_eq = true.
Proof. exact ga_ct_eq_is_full_compare. Qed.
Print Assumptions C04_ct_eq_compares_full_strings.

(* RegisterControl: the only place that mentions AlwaysPassVerifier assigns it to the LOCAL verifier variable
   (initialised from svr.authVerifier) under `internal && loginMsg.ClientSpec.AlwaysAuthPass`; that variable's
   VerifyLogin result is returned on error before NewControl / ctlManager.Add / Start, and it is what NewControl
   receives; no assignment to a field authVerifier exists in server/service.go *)
Theorem C04_register_control_has_modelled_shape :
  ga_regctl_ok gen_register_control = true /\
  forall internal sp, ga_bypass_selected gen_register_control internal (asp_always_pass sp) =
                      au_verifier_eqb (au_choose_verifier internal sp) AuAlwaysPass.
Proof. exact (conj ga_register_control_shape ga_bypass_is_choose_verifier). Qed.
Print Assumptions C04_register_control_has_modelled_shape.

(* pkg/ssh: NoClientAuth iff no authorized_keys file; PublicKeyCallback = load file, fail on error, look the key up,
   fail when absent, succeed last (one success return); no other authenticating callback; the virtual client's
   AlwaysAuthPass is !NoClientAuth (a property of the configuration, not of the connection) *)
Theorem C04_ssh_gateway_has_modelled_shape : ga_sshgw_ok gen_ssh_gateway = true.
Proof. exact ga_ssh_gateway_shape. Qed.
Print Assumptions C04_ssh_gateway_has_modelled_shape.

(* pkg/auth/auth.go NewAuthVerifier builds the token verifier from (scopes, token) for EVERY token, the empty one
   included, or the OIDC consumer; the file never mentions the always-pass verifier *)
Theorem C04_configured_verifier_is_never_always_pass : ga_newverifier_ok gen_new_auth_verifier = true.
Proof. exact ga_new_auth_verifier_shape. Qed.
Print Assumptions C04_configured_verifier_is_never_always_pass.

(* legacy frps.ini: Convert_ServerCommonConf_To_v1 puts authentication_method, token, the two scope switches and each
   oidc_* value into the v1 field of the same meaning (field by field or as a composite literal) *)
Theorem C04_legacy_ini_auth_arrives_unchanged : ga_legacy_auth_ok gen_legacy_server_auth = true.
Proof. exact ga_legacy_auth_shape. Qed.
Print Assumptions C04_legacy_ini_auth_arrives_unchanged.

(* handleConnection consults the Login plugin chain exactly once for every Login, unguarded (every listener, always-pass
   flag or not), and RegisterControl receives what the chain returned; Manager.Login adopts a rewritten content by
   assignment to the variable it returns *)
Theorem C04_login_hook_has_modelled_shape :
  ga_loginhook_ok gen_login_hook = true /\ ga_manager_login_adopt_ok gen_manager_login_adopt = true.
Proof. exact ga_login_hook_shape. Qed.
Print Assumptions C04_login_hook_has_modelled_shape.

(* ---- the hypotheses are satisfiable: a concrete history (toy hash H(tok,ts) = tok ++ [ts], token "t") ------ *)
Definition c04ex_H (tok : bytes) (ts : Z) : bytes := tok ++ [byte_of_Z ts].
Definition c04ex_oidc (k : bytes) (now : Z) : option bytes := match k with [] => None | _ => if now <? 100 then Some k else None end.
Definition c04ex_cfg := {| ac_method := AuToken; ac_token := [x74]; ac_scopes := [AuScHeartBeats; AuScNewWorkConns];
                           ac_max_pool := 5; ac_hb_timeout := 90 |}.
Definition c04ex_good := {| al_rid := []; al_key := [x74; x07]; al_ts := 7; al_user := []; al_pool := 1;
                            al_spec := {| asp_type := []; asp_always_pass := false |} |}.
Definition c04ex_claim := {| al_rid := []; al_key := []; al_ts := 7; al_user := []; al_pool := 1;
                             al_spec := {| asp_type := []; asp_always_pass := true |} |}.
Definition c04ex_hist :=
  [AuEFirst false 0 0 [x61] (AuFLogin c04ex_good AuLPlugSame);                 (* accepted from the network: session "a" *)
   AuEFirst false 1 1 [x62] (AuFLogin c04ex_claim AuLPlugSame);                (* the network claims the bypass: refused *)
   AuEFirst true 2 2 [x63] (AuFLogin c04ex_claim AuLPlugSame);                 (* internal listener + flag: session "c" *)
   AuEFirst false 3 3 [] (AuFWorkConn [x61] [x74; x08] 8 AuPlugSame);         (* valid work connection for "a": pooled *)
   AuEFirst false 4 4 [] (AuFWorkConn [x61] [] 8 AuPlugSame);                 (* no key: refused *)
   AuELater 0 5 (AuLNewProxy [x70] true true);                     (* proxy "p" on session 0 *)
   AuELater 0 6 (AuLPing [x00] 9);                                 (* invalid ping: no refresh *)
   AuELater 0 7 (AuLPing [x74; x09] 9)].                           (* valid ping: refresh *)

Example C04_ex_trace :
  au_trace c04ex_H c04ex_oidc c04ex_cfg c04ex_hist au_init =
  [AuOLoginOk [x61] 0; AuORefused (AuRLogin AuErrTokenLogin); AuOLoginOk [x63] 1; AuOWorkPooled;
   AuORefused (AuRWorkAuth AuErrTokenWork); AuOProxyOk; AuOPongErr AuErrTokenPing; AuOPong].
Proof. vm_compute. reflexivity. Qed.

Example C04_ex_state :
  map (fun x => (as_rid x, as_verifier x, as_pool x, as_proxies x, as_last_ping x))
      (at_sessions (au_run c04ex_H c04ex_oidc c04ex_cfg c04ex_hist au_init)) =
  [([x63], AuAlwaysPass, [], [], 2); ([x61], AuConfigured, [3], [[x70]], 7)] /\
  at_pxys (au_run c04ex_H c04ex_oidc c04ex_cfg c04ex_hist au_init) = [([x70], 0)].
Proof. vm_compute. split; reflexivity. Qed.

(* the premises of C04_invalid_pings_do_not_keep_alive are met by session "a" of that state *)
Example C04_ex_expiry :
  let s := au_run c04ex_H c04ex_oidc c04ex_cfg c04ex_hist au_init in
  exists x, au_find_sid 0 (at_sessions s) = Some x /\ as_verifier x = AuConfigured /\
            au_msg_cred_ok c04ex_H c04ex_oidc c04ex_cfg (at_subjects s) 8 [x00] 9 = false /\
            au_hb_expired c04ex_cfg 98 x = true.
Proof. vm_compute. eexists. repeat split. Qed.

(* OIDC, a token that expires (valid while now < 100), and a plugin that invalidates a good key *)
Definition c04ex_cfg_oidc := {| ac_method := AuOidc; ac_token := []; ac_scopes := [AuScNewWorkConns; AuScHeartBeats];
                                ac_max_pool := 5; ac_hb_timeout := 90 |}.
Definition c04ex_hist2 :=
  [AuEFirst false 0 0 [x61] (AuFLogin {| al_rid := []; al_key := [x6a]; al_ts := 0; al_user := []; al_pool := 0;
                                          al_spec := {| asp_type := []; asp_always_pass := false |} |} AuLPlugSame);
   AuEFirst false 1 50 [] (AuFWorkConn [x61] [x6a] 0 AuPlugSame);                   (* token still valid: pooled *)
   AuEFirst false 2 150 [] (AuFWorkConn [x61] [x6a] 0 AuPlugSame);                  (* same raw token after expiry: refused *)
   AuELater 0 151 (AuLPing [x6a] 0);                                                (* and in a ping: refused *)
   AuEFirst false 3 60 [] (AuFWorkConn [x61] [x6a] 0 (AuPlugRewrite [] 0));         (* plugin blanks a good key: refused *)
   AuEFirst false 4 60 [] (AuFWorkConn [x61] [] 0 (AuPlugRewrite [x6a] 0));         (* plugin supplies a good key: pooled *)
   AuEFirst false 5 60 [] (AuFWorkConn [x61] [x6a] 0 AuPlugReject)].                (* plugin rejects: refused *)

Example C04_ex_trace_expiry_and_plugin :
  au_trace c04ex_H c04ex_oidc c04ex_cfg_oidc c04ex_hist2 au_init =
  [AuOLoginOk [x61] 0; AuOWorkPooled; AuORefused (AuRWorkAuth AuErrOidcInvalid); AuOPongErr AuErrOidcInvalid;
   AuORefused (AuRWorkAuth AuErrOidcInvalid); AuOWorkPooled; AuORefused AuRWorkPlugin].
Proof. vm_compute. reflexivity. Qed.

(* ssh gateway without authorized_keys, peer goes straight to publickey with a self-made key and a wrong token:
   refused at ssh level; with "none" first and the right token: session *)
Example C04_ex_ssh :
  snd (sg_step c04ex_H c04ex_oidc c04ex_cfg SgNoFile au_init 0 0 [x61] [SgPublicKey [x6b] true] [x77] [] 7 1 AuLPlugSame) = SgRefusedAtSsh /\
  snd (sg_step c04ex_H c04ex_oidc c04ex_cfg SgNoFile au_init 0 0 [x61] [SgNone; SgPublicKey [x6b] true] [x77] [] 7 1 AuLPlugSame)
    = SgForwarded (AuORefused (AuRLogin AuErrTokenLogin)) /\
  snd (sg_step c04ex_H c04ex_oidc c04ex_cfg SgNoFile au_init 0 0 [x61] [SgNone] [x74] [] 7 1 AuLPlugSame) = SgForwarded (AuOLoginOk [x61] 0) /\
  snd (sg_step c04ex_H c04ex_oidc c04ex_cfg (SgFile [([x6b], [x75])]) au_init 0 0 [x61] [SgNone; SgPublicKey [x6b] true] [] [] 7 1 AuLPlugSame)
    = SgForwarded (AuOLoginOk [x61] 0).
Proof. vm_compute. repeat split; reflexivity. Qed.
