(* C15 — server plugin chain.  Executable model only: no proofs in this file.

   Mirrors pkg/plugin/server:
     manager.go  Register (files a plugin into the per-operation lists through IsSupport),
                 Login/NewProxy/Ping/NewWorkConn/NewUserConn (sequential chain, early return on
                 error or reject, content threading when Unchange is false) and CloseProxy
                 (notification: every plugin is called, errors are collected)
     http.go     httpPlugin.Handle / do  (transport, status, body decision)
   and the call sites of the manager in server/service.go, server/control.go,
   server/proxy/proxy.go (IR of translator unit T6: the six loops, Register, the call sites),
   plus Control.CloseProxy and the session-end loop of Control.worker.

   Everything lives in module PC so that constructor names stay local. *)
From FRP Require Export Model.Bytes.
Open Scope Z_scope.

Module PC.

(* the content handed to a plugin: canonical JSON text of the operation's content struct *)
Definition content := bytes.

(** * 1. What one plugin call can yield *)

(* classified outcome of one plugin call, as the property text enumerates them *)
Inductive outcome :=
| AcceptUnchanged
| AcceptModified (c : content)
| AcceptNilContent            (* a Go-value plugin returning (res{Unchange:false}, nil, nil); the HTTP
                                 plugin can no longer produce it: see http_handle *)
| Reject (reason : bytes)
| TransportError | Non200 | Malformed.

(* the raw triple (res, retContent, err) returned by Plugin.Handle *)
Inductive errkind := ETransport | ENon200 | EMalformed.
Record hres := { h_reject : bool; h_reason : bytes; h_unchange : bool; h_content : option content }.
Inductive hret := HErr (k : errkind) | HRes (r : hres).

Definition classify (h : hret) : outcome :=
  match h with
  | HErr ETransport => TransportError
  | HErr ENon200 => Non200
  | HErr EMalformed => Malformed
  | HRes r =>
      if h_reject r then Reject (h_reason r)
      else if h_unchange r then AcceptUnchanged
      else match h_content r with Some c => AcceptModified c | None => AcceptNilContent end
  end.

(** * 2. http.go: httpPlugin.Handle and do *)

Inductive transport := TOk | TFail.                 (* p.client.Do(req) returned a response / an error *)
Inductive cfield := CFAbsent | CFNull | CFVal (c : content).   (* the "content" member of the reply *)
Inductive body :=
| BReadFail                                         (* io.ReadAll failed (peer went away mid-body) *)
| BGarbage                                          (* json.Unmarshal failed *)
| BParsed (reject : bool) (reason : bytes) (unchange : bool) (cf : cfield).

(* [zero] is the JSON of the zero value of the operation's content type: Handle pre-loads
   res.Content with reflect.New(type) and a reply without "content" leaves it there. *)
Definition http_handle (zero : content) (tr : transport) (status : Z) (b : body) : hret :=
  match tr with
  | TFail => HErr ETransport
  | TOk =>
      if negb (status =? 200) then HErr ENon200
      else match b with
           | BReadFail => HErr ETransport
           | BGarbage => HErr EMalformed
           | BParsed rj rs un cf =>
               let content := match cf with
                              | CFAbsent => Some zero
                              | CFNull => None
                              | CFVal c => Some c
                              end in
               (* Handle: `if res.Content == nil && !res.Reject && !res.Unchange { return nil, nil, error }`
                  -- a reply that says "changed" and carries `"content": null` is refused *)
               match content with
               | None => if negb rj && negb un then HErr EMalformed
                         else HRes {| h_reject := rj; h_reason := rs; h_unchange := un; h_content := None |}
               | Some c => HRes {| h_reject := rj; h_reason := rs; h_unchange := un; h_content := Some c |}
               end
           end
  end.

Definition http_outcome (zero : content) (tr : transport) (status : Z) (b : body) : outcome :=
  classify (http_handle zero tr status b).

(** * 3. The chain (hand-written model of the five gating loops) *)

Inductive result :=
| ROk (c : content)            (* return content, nil *)
| RRejected (reason : bytes)   (* return nil, fmt.Errorf("%s", res.RejectReason) *)
| RError                       (* return nil, errors.New("send ... request to plugin error") *)
| RCrash                       (* run-time panic (nil retContent asserted to *T, nil res dereferenced) *)
| RStuck.                      (* IR outside the fragment the interpreter gives a meaning to *)

(* [run_chain os c]: the outcome list is indexed by the plugins registered for the operation,
   in registration order.  Second component: the content each consulted plugin was shown. *)
Fixpoint run_chain (os : list outcome) (c : content) : result * list content :=
  match os with
  | [] => (ROk c, [])
  | o :: rest =>
      match o with
      | AcceptUnchanged => let (r, seen) := run_chain rest c in (r, c :: seen)
      | AcceptModified c' => let (r, seen) := run_chain rest c' in (r, c :: seen)
      | AcceptNilContent => (RCrash, [c])
      | Reject reason => (RRejected reason, [c])
      | TransportError | Non200 | Malformed => (RError, [c])
      end
  end.

(* CloseProxy: a notification; every plugin is called with the same content, errors collected *)
Definition run_notify (hs : list hret) (c : content) : result * list content :=
  (if existsb (fun h => match h with HErr _ => true | HRes _ => false end) hs then RError else ROk c,
   map (fun _ => c) hs).

(** * 4. Operations, plugins, the specification of the per-operation lists *)

Inductive op := OLogin | ONewProxy | OCloseProxy | OPing | ONewWorkConn | ONewUserConn.

Definition op_eqb (a b : op) : bool :=
  match a, b with
  | OLogin, OLogin | ONewProxy, ONewProxy | OCloseProxy, OCloseProxy | OPing, OPing
  | ONewWorkConn, ONewWorkConn | ONewUserConn, ONewUserConn => true
  | _, _ => false
  end.

Definition all_ops : list op := [OLogin; ONewProxy; OCloseProxy; OPing; ONewWorkConn; ONewUserConn].
Definition is_gating (o : op) : bool := negb (op_eqb o OCloseProxy).

(* the documented operation strings (plugin.go constants; they are what a plugin's configured
   `ops` list and the `op` member of the request carry) *)
Definition op_value (o : op) : string :=
  match o with
  | OLogin => "Login" | ONewProxy => "NewProxy" | OCloseProxy => "CloseProxy"
  | OPing => "Ping" | ONewWorkConn => "NewWorkConn" | ONewUserConn => "NewUserConn"
  end%string.
Definition op_const (o : op) : string := ("Op" ++ op_value o)%string.
(* Manager method = operation string; Manager field iterated by that method *)
Definition op_method (o : op) : string := op_value o.
Definition op_field (o : op) : string :=
  match o with
  | OLogin => "loginPlugins" | ONewProxy => "newProxyPlugins" | OCloseProxy => "closeProxyPlugins"
  | OPing => "pingPlugins" | ONewWorkConn => "newWorkConnPlugins" | ONewUserConn => "newUserConnPlugins"
  end%string.

(* a plugin: identity and the operation strings it was configured with (httpPlugin.IsSupport) *)
Definition plugin : Type := Z * list string.
Definition supports (p : plugin) (v : string) : bool := existsb (String.eqb v) (snd p).

(* specification: the plugins registered for [o], in registration order *)
Definition registered_for (o : op) (ps : list plugin) : list Z :=
  map fst (filter (fun p => supports p (op_value o)) ps).

(** * 5. IR emitted by translator unit T6 and its interpreter *)

Inductive instr :=
| ICall (opc arg : string)              (* r, c, e = p.Handle(ctx, opc, arg) *)
| IOnErrReturn                          (* if e != nil { log*; return nil, <non-nil error> } *)
| IOnErrCollect                         (* if e != nil { log*; errs = append(errs, ...) } *)
| IOnRejectReturn                       (* if r.Reject { return nil, <non-nil error> } *)
| IOnChangedAssign (lhs ty : string)    (* if !r.Unchange { lhs = c.(ty) } *)
| IUnknown (what : string).

Inductive guard :=
| GLenZeroRet (field ret : string)      (* if len(m.field) == 0 { return ret, nil }   (ret = "" : return nil) *)
| GNone
| GUnknown (what : string).

Inductive final :=
| FRetVar (v : string)                  (* return v, nil *)
| FRetErrs                              (* if len(errs) > 0 { return <error> }; return nil *)
| FUnknown (what : string).

Record method_ir := {
  mi_name : string; mi_param : string; mi_param_ty : string;
  mi_guard : guard; mi_list : string; mi_body : list instr; mi_final : final;
  mi_extra : list string                (* statements of the method the translator could not place *)
}.

Inductive reg_entry :=
| REntry (opc field : string)           (* if p.IsSupport(opc) { m.field = append(m.field, p) } *)
| RUnknown (what : string).

(* Manager state: field name -> plugin ids in list order *)
Definition mgr := list (string * list Z).

Fixpoint mgr_get (M : mgr) (f : string) : option (list Z) :=
  match M with
  | [] => None
  | (k, v) :: r => if String.eqb f k then Some v else mgr_get r f
  end.

Fixpoint mgr_append (M : mgr) (f : string) (x : Z) : option mgr :=
  match M with
  | [] => None
  | (k, v) :: r =>
      if String.eqb f k then Some ((k, v ++ [x]) :: r)
      else match mgr_append r f x with Some r' => Some ((k, v) :: r') | None => None end
  end.

Definition mgr_new (fields : list string) : mgr := map (fun f => (f, [])) fields.

Fixpoint str_assoc (k : string) (l : list (string * string)) : option string :=
  match l with
  | [] => None
  | (a, b) :: r => if String.eqb k a then Some b else str_assoc k r
  end.

(* Manager.Register, statement by statement *)
Fixpoint reg_run (ops : list (string * string)) (reg : list reg_entry) (p : plugin) (M : mgr) : option mgr :=
  match reg with
  | [] => Some M
  | REntry opc f :: rest =>
      match str_assoc opc ops with
      | None => None
      | Some v =>
          if supports p v
          then match mgr_append M f (fst p) with Some M' => reg_run ops rest p M' | None => None end
          else reg_run ops rest p M
      end
  | RUnknown _ :: _ => None
  end.

Fixpoint reg_all (ops : list (string * string)) (reg : list reg_entry) (ps : list plugin) (M : mgr) : option mgr :=
  match ps with
  | [] => Some M
  | p :: rest => match reg_run ops reg p M with Some M' => reg_all ops reg rest M' | None => None end
  end.

(* one consultation: plugin id, operation string passed to Handle, content shown *)
Definition consult : Type := Z * string * content.

(* the variables of one loop: current content, last (res, retContent, err), error-collected flag *)
Record lstate := { ls_cur : content; ls_last : hret; ls_errs : bool; ls_seen : list consult }.

Definition initial_res : hret :=
  HRes {| h_reject := false; h_reason := []; h_unchange := true; h_content := None |}.

Inductive step_res := SNext (s : lstate) | SReturn (r : result) (seen : list consult).

Definition deref (param : string) : string := String "*"%char param.

Definition exec_instr (ops : list (string * string)) (param : string) (pid : Z) (script : Z -> hret)
           (i : instr) (s : lstate) : step_res :=
  match i with
  | ICall opc arg =>
      if String.eqb arg (deref param) then
        match str_assoc opc ops with
        | Some v => SNext {| ls_cur := ls_cur s; ls_last := script pid; ls_errs := ls_errs s;
                             ls_seen := ls_seen s ++ [(pid, v, ls_cur s)] |}
        | None => SReturn RStuck (ls_seen s)
        end
      else SReturn RStuck (ls_seen s)
  | IOnErrReturn =>
      match ls_last s with HErr _ => SReturn RError (ls_seen s) | HRes _ => SNext s end
  | IOnErrCollect =>
      match ls_last s with
      | HErr _ => SNext {| ls_cur := ls_cur s; ls_last := ls_last s; ls_errs := true; ls_seen := ls_seen s |}
      | HRes _ => SNext s
      end
  | IOnRejectReturn =>
      match ls_last s with
      | HErr _ => SReturn RCrash (ls_seen s)            (* res is nil when err is not *)
      | HRes r => if h_reject r then SReturn (RRejected (h_reason r)) (ls_seen s) else SNext s
      end
  | IOnChangedAssign lhs _ =>
      match ls_last s with
      | HErr _ => SReturn RCrash (ls_seen s)
      | HRes r =>
          if h_unchange r then SNext s
          else match h_content r with
               | None => SReturn RCrash (ls_seen s)     (* nil interface asserted to a pointer type *)
               | Some c' =>
                   if String.eqb lhs param
                   then SNext {| ls_cur := c'; ls_last := ls_last s; ls_errs := ls_errs s; ls_seen := ls_seen s |}
                   else SReturn RStuck (ls_seen s)
               end
      end
  | IUnknown _ => SReturn RStuck (ls_seen s)
  end.

Fixpoint exec_body (ops : list (string * string)) (param : string) (pid : Z) (script : Z -> hret)
         (b : list instr) (s : lstate) : step_res :=
  match b with
  | [] => SNext s
  | i :: rest =>
      match exec_instr ops param pid script i s with
      | SNext s' => exec_body ops param pid script rest s'
      | SReturn r seen => SReturn r seen
      end
  end.

Definition exec_final (param : string) (f : final) (s : lstate) : result :=
  match f with
  | FRetVar v => if String.eqb v param then ROk (ls_cur s) else RStuck
  | FRetErrs => if ls_errs s then RError else ROk (ls_cur s)
  | FUnknown _ => RStuck
  end.

Fixpoint exec_loop (ops : list (string * string)) (m : method_ir) (script : Z -> hret)
         (ids : list Z) (s : lstate) : result * list consult :=
  match ids with
  | [] => (exec_final (mi_param m) (mi_final m) s, ls_seen s)
  | pid :: rest =>
      match exec_body ops (mi_param m) pid script (mi_body m) s with
      | SNext s' => exec_loop ops m script rest s'
      | SReturn r seen => (r, seen)
      end
  end.

Definition is_nil {A} (l : list A) : bool := match l with [] => true | _ => false end.

(* a Manager method on Manager state M, plugins answering by [script] *)
Definition ir_run (ops : list (string * string)) (m : method_ir) (M : mgr) (script : Z -> hret)
           (c : content) : result * list consult :=
  if negb (is_nil (mi_extra m)) then (RStuck, []) else
  let s0 := {| ls_cur := c; ls_last := initial_res; ls_errs := false; ls_seen := [] |} in
  let loop :=
    match mgr_get M (mi_list m) with
    | Some ids => exec_loop ops m script ids s0
    | None => (RStuck, [])
    end in
  match mi_guard m with
  | GLenZeroRet f ret =>
      match mgr_get M f with
      | Some [] =>
          if String.eqb ret (mi_param m) then (ROk c, [])
          else match mi_final m with
               | FRetErrs => if String.eqb ret "" then (ROk c, []) else (RStuck, [])
               | _ => (RStuck, [])
               end
      | Some _ => loop
      | None => (RStuck, [])
      end
  | GNone => loop
  | GUnknown _ => (RStuck, [])
  end.

Fixpoint find_method (n : string) (ms : list method_ir) : option method_ir :=
  match ms with
  | [] => None
  | m :: r => if String.eqb n (mi_name m) then Some m else find_method n r
  end.

(* the whole path: NewManager, Register each plugin, call the method of [o] *)
Definition ir_sem (ops : list (string * string)) (fields : list string) (reg : list reg_entry)
           (ms : list method_ir) (o : op) (ps : list plugin) (script : Z -> hret) (c : content)
  : result * list consult :=
  match reg_all ops reg ps (mgr_new fields), find_method (op_method o) ms with
  | Some M, Some m => ir_run ops m M script c
  | _, _ => (RStuck, [])
  end.

(* the same path according to the specification *)
Definition spec_sem (o : op) (ps : list plugin) (script : Z -> hret) (c : content) : result * list consult :=
  let ids := registered_for o ps in
  let (r, seen) :=
    if is_gating o then run_chain (map (fun i => classify (script i)) ids) c
    else run_notify (map script ids) c in
  (r, map (fun ic : Z * content => (fst ic, op_value o, snd ic)) (combine ids seen)).

(** * 6. Call sites of the gating operations (server/service.go, control.go, proxy/proxy.go) *)

Inductive site_then :=
| SIfNilAct (lhs src fld act : string) (args : list string) (act_sets_err : bool)
    (* if err == nil { lhs = &src.fld; [_,] err = act(args) } *)
| SIfErrReturn (returns : bool)
    (* if err != nil { ...; return } *)
| SThenUnknown (what : string).

Inductive site_after := AErrReturn | AErrNoReturn | ANoCheck.

Record site := {
  s_file : string; s_func : string; s_method : string;
  s_ret : string; s_err : string;              (* "_" when discarded *)
  s_then : site_then; s_after : site_after; s_tail : bool
}.

(* what the handler does with the manager's answer *)
Inductive site_act :=
| ActOn (c : content) (tail : bool)   (* the gated action ran on c; [tail]: the statements after the error check ran too *)
| ActOriginal                         (* the gated action ran on something that is not the returned content *)
| Proceed                             (* no content-dependent action; the handler went on *)
| Refuse (tail : bool)                (* no action; [tail]: statements after the error check still ran *)
| ActCrash | ActStuck.

(* [act_ok]: whether the gated action itself (RegisterControl, RegisterProxy, VerifyPing, ...) succeeded *)
Definition site_sem (s : site) (r : result) (act_ok : bool) : site_act :=
  let errbound := negb (String.eqb (s_err s) "_") in
  let tail_after_err := match s_after s with AErrReturn => false | _ => s_tail s end in
  if negb errbound then
    (* the error is dropped: the handler proceeds whatever the plugins said *)
    match r with RCrash => ActCrash | RStuck => ActStuck | _ => ActOriginal end
  else
  match s_then s with
  | SIfNilAct lhs src fld act args sets_err =>
      match r with
      | ROk c =>
          if String.eqb src (s_ret s) && existsb (String.eqb lhs) args
          then ActOn c (if act_ok then s_tail s else if sets_err then tail_after_err else s_tail s)
          else ActOriginal
      | RRejected _ | RError => Refuse tail_after_err
      | RCrash => ActCrash
      | RStuck => ActStuck
      end
  | SIfErrReturn returns =>
      match r with
      | ROk _ => Proceed
      | RRejected _ | RError => if returns then Refuse false else Refuse true
      | RCrash => ActCrash
      | RStuck => ActStuck
      end
  | SThenUnknown _ => ActStuck
  end.

(** * 7. Close notifications: Control.CloseProxy and the session-end loop of Control.worker *)

Inductive nsite_kind := NExplicitClose | NSessionEnd.
Record nsite := {
  n_file : string; n_func : string;
  n_range : string;          (* expression ranged over by the enclosing for, "" if none *)
  n_ifs : Z;                 (* conditionals enclosing the call inside that function / loop body *)
  n_jumps : Z;               (* break / continue / return / goto statements in the body of that loop (closures excluded) *)
  n_name : string            (* expression used as ProxyName of the notification *)
}.

(* per-session state: the proxies map (keys), the notifications issued so far, the number
   of successful registrations per name *)
Record cstate := { cs_proxies : list bytes; cs_notes : list bytes; cs_started : list bytes; cs_ended : bool }.
Definition cs_init : cstate := {| cs_proxies := []; cs_notes := []; cs_started := []; cs_ended := false |}.

Inductive cop :=
| CRegister (n : bytes) (run_ok : bool)   (* RegisterProxy reached the map insert (or failed before) *)
| CClose (n : bytes)                      (* Control.CloseProxy *)
| CSessionEnd (order : list bytes).       (* worker after the dispatcher is done; [order]: Go's map iteration order (oracle) *)

Fixpoint bmem (n : bytes) (l : list bytes) : bool :=
  match l with [] => false | x :: r => bytes_eqb n x || bmem n r end.
Fixpoint bremove (n : bytes) (l : list bytes) : list bytes :=
  match l with [] => [] | x :: r => if bytes_eqb n x then r else x :: bremove n r end.
Fixpoint bcount (n : bytes) (l : list bytes) : Z :=
  match l with [] => 0 | x :: r => (if bytes_eqb n x then 1 else 0) + bcount n r end.

(* [order] must be a permutation of the map's keys; checked by mutual inclusion of
   duplicate-free lists of equal length *)
Fixpoint bnodup (l : list bytes) : bool :=
  match l with [] => true | x :: r => negb (bmem x r) && bnodup r end.
Definition is_perm_of (order keys : list bytes) : bool :=
  (length order =? length keys)%nat && bnodup order && forallb (fun k => bmem k keys) order.

Definition cstep (s : cstate) (o : cop) : option cstate :=
  if cs_ended s then Some s else     (* the dispatcher is done: no handler runs any more *)
  match o with
  | CRegister n ok =>
      (* pxyManager.Exist / Add refuse a name that is still registered *)
      if negb ok || bmem n (cs_proxies s) then Some s
      else Some {| cs_proxies := n :: cs_proxies s; cs_notes := cs_notes s;
                   cs_started := n :: cs_started s; cs_ended := false |}
  | CClose n =>
      if bmem n (cs_proxies s)
      then Some {| cs_proxies := bremove n (cs_proxies s); cs_notes := cs_notes s ++ [n];
                   cs_started := cs_started s; cs_ended := false |}
      else Some s
  | CSessionEnd order =>
      if is_perm_of order (cs_proxies s)
      then Some {| cs_proxies := cs_proxies s; cs_notes := cs_notes s ++ order;
                   cs_started := cs_started s; cs_ended := true |}
      else None
  end.

Fixpoint crun (s : cstate) (ops : list cop) : option cstate :=
  match ops with
  | [] => Some s
  | o :: r => match cstep s o with Some s' => crun s' r | None => None end
  end.


(** * 8. From the configuration to the chain: loader, Complete, validation, NewService *)

(* one `[[httpPlugins]]` entry as the operator wrote it: name (optional, arbitrary, not a key) and ops.
   The identity of a configured plugin is its POSITION in the list (1-based), never its name. *)
Definition cfg_entry : Type := string * list string.

(* every place of the loader / Complete / validation / server start that touches ServerConfig.HTTPPlugins,
   as reported by translator unit T6 *)
Inductive cfg_use :=
| CfgRegisterLoop (file func : string)
    (* for _, p := range cfg.HTTPPlugins { X.Register(plugin.NewHTTPPluginOptions(p)) }   (log calls ignored) *)
| CfgReadLoop (file func : string)
    (* for _, p := range c.HTTPPlugins { ... } whose body assigns nothing but local error accumulators *)
| CfgWrite (file func what : string)
    (* an assignment to the field (or to an element of it) *)
| CfgOther (file func what : string).
    (* any other mention: passed to a function, sliced, measured, ... *)

Definition cfg_use_eqb_site (u : cfg_use) (f fn : string) : bool :=
  match u with
  | CfgRegisterLoop a b | CfgReadLoop a b | CfgWrite a b _ | CfgOther a b _ => String.eqb a f && String.eqb b fn
  end.

(* writes that build the list from another representation of the same configuration (legacy INI) *)
Definition cfg_allowed_writes : list (string * string) :=
  [("pkg/config/legacy/conversion.go", "Convert_ServerCommonConf_To_v1");
   ("pkg/config/legacy/server.go", "UnmarshalServerConfFromIni")]%string.

Definition cfg_use_transparent (u : cfg_use) : bool :=
  match u with
  | CfgRegisterLoop _ _ | CfgReadLoop _ _ => true
  | CfgWrite f fn _ | CfgOther f fn _ =>
      existsb (fun a : string * string => String.eqb (fst a) f && String.eqb (snd a) fn) cfg_allowed_writes
  end.

Fixpoint number_from (k : Z) (es : list cfg_entry) : list plugin :=
  match es with
  | [] => []
  | e :: r => (k, snd e) :: number_from (k + 1) r
  end.

(* the plugins NewService registers for a configuration, in order: defined only when nothing between
   the decoded file and the registration loop rewrites the list (anything else: not modelled) *)
Definition cfg_plugins (uses : list cfg_use) (es : list cfg_entry) : option (list plugin) :=
  if forallb cfg_use_transparent uses &&
     (length (filter (fun u => match u with CfgRegisterLoop _ _ => true | _ => false end) uses) =? 1)%nat
  then Some (number_from 1 es)
  else None.

(* the whole path: configuration -> registered plugins -> Manager -> method of the operation *)
Definition cfg_sem (uses : list cfg_use) (ops : list (string * string)) (fields : list string)
           (reg : list reg_entry) (ms : list method_ir) (o : op) (es : list cfg_entry)
           (script : Z -> hret) (c : content) : result * list consult :=
  match cfg_plugins uses es with
  | Some ps => ir_sem ops fields reg ms o ps script c
  | None => (RStuck, [])
  end.

End PC.
