package main

// frps started the way cmd/frps starts it: a configuration FILE (TOML or JSON) written as an operator
// would write it, config.LoadServerConfig (decode + ServerConfig.Complete), validation.ValidateServerConfig,
// server.NewService, Run.  The httpPlugins entries keep the order and the names given -- duplicates,
// empty names and omitted names included: a plugin's name is a label, not a key.

import (
	"context"
	"encoding/json"
	"fmt"
	"net"
	"os"
	"strings"
	"time"

	"github.com/fatedier/frp/pkg/config"
	v1 "github.com/fatedier/frp/pkg/config/v1"
	"github.com/fatedier/frp/pkg/config/v1/validation"
	"github.com/fatedier/frp/server"
	"verifharness/hx"
)

type cfgEntry struct {
	name     string
	omitName bool // the entry has no `name` key at all
	addr     string
	ops      []string
}

type sysServer struct {
	Svc    *server.Service
	Cfg    *v1.ServerConfig
	Addr   string
	Port   int
	Text   string
	cancel context.CancelFunc
}

func tomlStr(s string) string { b, _ := json.Marshal(s); return string(b) }

func tomlStrs(l []string) string {
	var it []string
	for _, s := range l {
		it = append(it, tomlStr(s))
	}
	return "[" + strings.Join(it, ", ") + "]"
}

func configText(addr string, port int, entries []cfgEntry, scopes bool, asJSON bool) string {
	if asJSON {
		m := map[string]any{"bindAddr": addr, "bindPort": port, "proxyBindAddr": addr,
			"userConnTimeout": 1,
			"transport":       map[string]any{"tcpMux": false},
			"auth":            map[string]any{"method": "token", "token": hx.DefaultToken}}
		if scopes {
			m["auth"].(map[string]any)["additionalScopes"] = []string{"HeartBeats", "NewWorkConns"}
		}
		var ps []map[string]any
		for _, e := range entries {
			p := map[string]any{"addr": e.addr, "path": "/handler", "ops": e.ops}
			if e.ops == nil {
				p["ops"] = []string{}
			}
			if !e.omitName {
				p["name"] = e.name
			}
			ps = append(ps, p)
		}
		if len(ps) > 0 {
			m["httpPlugins"] = ps
		}
		b, _ := json.MarshalIndent(m, "", "  ")
		return string(b)
	}
	var b strings.Builder
	fmt.Fprintf(&b, "bindAddr = %s\nbindPort = %d\nproxyBindAddr = %s\nuserConnTimeout = 1\ntransport.tcpMux = false\n", tomlStr(addr), port, tomlStr(addr))
	fmt.Fprintf(&b, "auth.method = \"token\"\nauth.token = %s\n", tomlStr(hx.DefaultToken))
	if scopes {
		b.WriteString("auth.additionalScopes = [\"HeartBeats\", \"NewWorkConns\"]\n")
	}
	for _, e := range entries {
		b.WriteString("\n[[httpPlugins]]\n")
		if !e.omitName {
			fmt.Fprintf(&b, "name = %s\n", tomlStr(e.name))
		}
		fmt.Fprintf(&b, "addr = %s\npath = \"/handler\"\nops = %s\n", tomlStr(e.addr), tomlStrs(e.ops))
	}
	return b.String()
}

func startFromConfigFile(addr string, entries []cfgEntry, scopes bool, asJSON bool) (*sysServer, error) {
	port := hx.FreePort(addr)
	text := configText(addr, port, entries, scopes, asJSON)
	ext := ".toml"
	if asJSON {
		ext = ".json"
	}
	f, err := os.CreateTemp("", "c15frps*"+ext)
	if err != nil {
		return nil, err
	}
	defer os.Remove(f.Name())
	if _, err := f.WriteString(text); err != nil {
		return nil, err
	}
	f.Close()
	cfg, _, err := config.LoadServerConfig(f.Name(), true)
	if err != nil {
		return nil, fmt.Errorf("LoadServerConfig: %v\n%s", err, text)
	}
	if _, err := validation.ValidateServerConfig(cfg); err != nil {
		return nil, fmt.Errorf("ValidateServerConfig: %v\n%s", err, text)
	}
	svc, err := server.NewService(cfg)
	if err != nil {
		return nil, err
	}
	ctx, cancel := context.WithCancel(context.Background())
	go svc.Run(ctx)
	s := &sysServer{Svc: svc, Cfg: cfg, Addr: addr, Port: port, Text: text, cancel: cancel}
	for i := 0; i < 200; i++ {
		if hx.TCPBound(addr, port) {
			return s, nil
		}
		time.Sleep(5 * time.Millisecond)
	}
	return s, fmt.Errorf("frps did not come up on %s:%d", addr, port)
}

func (s *sysServer) Close() {
	s.cancel()
	_ = s.Svc.Close()
}

func (s *sysServer) Dial() (net.Conn, error) {
	return net.DialTimeout("tcp", net.JoinHostPort(s.Addr, fmt.Sprint(s.Port)), 2*time.Second)
}

var cfgNames = []string{"", "", "dup", "dup", "audit", "a", "b"}

// name for the i-th entry of a configuration: empty, omitted, shared or distinct
func (g *gen) cfgName() (string, bool) {
	if g.chance(0.25) {
		return "", true
	}
	return g.pick(cfgNames), false
}
