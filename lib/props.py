"""Per-property check recipes are discovered from lib/recipes/<id>.py.  Each module defines
PID, recipe(c: Check) -> exit code, and MANIFEST (dict: text, note, technique, design)."""
import glob
import importlib.util
import os

RECIPES = {}
MANIFESTS = {}
_here = os.path.dirname(os.path.abspath(__file__))
for _p in sorted(glob.glob(os.path.join(_here, "recipes", "*.py"))):
    _name = os.path.basename(_p)[:-3]
    if _name.startswith("_"):
        continue
    _spec = importlib.util.spec_from_file_location("recipes." + _name, _p)
    _m = importlib.util.module_from_spec(_spec)
    try:
        _spec.loader.exec_module(_m)
    except Exception as e:  # a broken recipe must not take the other checks down
        print("recipe %s failed to load: %s" % (_name, e))
        continue
    RECIPES[_m.PID] = _m.recipe
    MANIFESTS[_m.PID] = _m.MANIFEST
