(* C10 correspondence: histories run on an in-process frps (drivers `release`, `cycles`) against
   Model/SrvRes.v, real wrapper stacks around a counting net.Conn (driver `connwrap`) against
   Model/ConnWrap.v, plus the property monitor evaluated on the observed traces themselves. *)
From FRP Require Export Corr.Common Model.SrvRes Model.ConnWrap.
Open Scope Z_scope.

(* ---------- observation after a step ---------- *)
(* ob_sizes     the sixteen table sizes of SrvRes.sizes, read through the //go:build verif accessors
   ob_tcp/udp   used ports of the two managers (sorted)
   ob_names     the global name table (sorted)
   ob_tbusy/ubusy  ports of the allowed range that cannot be bound right now (OS probe by the harness)
   ob_keys      the CONTENT of the keyed tables: every route of the three route tables ("H|domain|location|user",
                "S|..." https, "M|..." tcpmux), every visitor listener ("V|name") and NAT-hole client ("N|name") *)
Record obs := { ob_sizes : list Z; ob_tcp : list Z; ob_udp : list Z; ob_names : list string;
                ob_tbusy : list Z; ob_ubusy : list Z; ob_keys : list string }.

Definition bar (a b : string) : string := String.append a (String.append "|" b).
Definition slot_str (k : slot) : list string :=
  match k with
  | SRoute RHttp (d, l, u) => [bar "H" (bar d (bar l u))]
  | SRoute RHttps (d, l, u) => [bar "S" (bar d (bar l u))]
  | SRoute RMux (d, l, u) => [bar "M" (bar d (bar l u))]
  | SVis n => [bar "V" n]
  | SNat n => [bar "N" n]
  | SSock _ _ => []
  end.
Definition model_keys (s : sr) : list string := flat_map (fun e => slot_str (fst e)) (sr_res s).

Fixpoint zlist_eqb (a b : list Z) : bool :=
  match a, b with
  | [], [] => true
  | x :: r, y :: t => (x =? y) && zlist_eqb r t
  | _, _ => false
  end.
Fixpoint slist_eqb (a b : list string) : bool :=
  match a, b with
  | [], [] => true
  | x :: r, y :: t => String.eqb x y && slist_eqb r t
  | _, _ => false
  end.

Definition zsubset (a b : list Z) : bool := forallb (fun x => zmem x b) a.
Definition zset_eq (a b : list Z) : bool := zsubset a b && zsubset b a.
Definition ssubset (a b : list string) : bool := forallb (fun x => str_mem x b) a.
Definition sset_eq (a b : list string) : bool :=
  ssubset a b && ssubset b a && (nlen a =? nlen b).

Definition obs_eqb (a b : obs) : bool :=
  zlist_eqb (ob_sizes a) (ob_sizes b) && zlist_eqb (ob_tcp a) (ob_tcp b) && zlist_eqb (ob_udp a) (ob_udp b)
  && slist_eqb (ob_names a) (ob_names b) && zlist_eqb (ob_tbusy a) (ob_tbusy b) && zlist_eqb (ob_ubusy a) (ob_ubusy b)
  && slist_eqb (ob_keys a) (ob_keys b).

(* what the model says the harness must have seen *)
(* an observation with an empty size list = "this step could not be observed" (the step of a gated
   registration whose rollback runs after the competitor's step) *)
Definition obs_code (o : obs) (s : sr) : Z :=
  match ob_sizes o with [] => 0 | _ =>
  if negb (zlist_eqb (ob_sizes o) (sizes s)) then 3
  else if negb (zset_eq (ob_tcp o) (map fst (pm_used (sr_tcp s))) && (nlen (ob_tcp o) =? nlen (pm_used (sr_tcp s)))) then 4
  else if negb (zset_eq (ob_udp o) (map fst (pm_used (sr_udp s))) && (nlen (ob_udp o) =? nlen (pm_used (sr_udp s)))) then 5
  else if negb (sset_eq (ob_names o) (map fst (sr_names s))) then 6
  else if negb (zset_eq (ob_tbusy o) (sock_ports 0 (sr_res s) ++ squat_ports 0 (sr_squat s))) then 7
  else if negb (zset_eq (ob_ubusy o) (sock_ports 1 (sr_res s) ++ squat_ports 1 (sr_squat s))) then 8
  else if negb (sset_eq (ob_keys o) (model_keys s)) then 9
  else 0 end.

(* result codes as the harness prints them *)
Definition perr_code (e : perr) : Z :=
  match e with EUsed => -1 | ENotAllowed => -2 | EUnavail => -3 | ENoAvail => -4 end.
Definition rerr_code (e : rerr) : Z :=
  match e with
  | EAcq p => perr_code p
  | EListen => -5 | EGrpParams => -6 | EGrpPort => -7 | EGrpAuth => -8 | EGrpRepeated => -9
  | EQuota => -10 | EExists => -11 | EAddRace => -12 | EConflict => -13 | EVisRepeated => -14 | ENatRepeated => -15
  end.
(* -1000 = "not observed" *)
Definition out_code (o : sout) : Z :=
  match o with
  | OReg (ROk real) => real
  | OReg (RErr e) => rerr_code e
  | OEnd k => k
  | OWork true => 1 | OWork false => 0
  | ONone' => 0
  end.

Record step := { st_op : sop; st_out : Z; st_obs : obs }.

(* a scenario: server configuration, the observed history, and the scenario's claims:
   (i, j) = "the observation after step j equals the one after step i" (state restored),
   checked on the OBSERVED trace by the monitor and on the model by the theorems *)
Record case := { cs_ranges : list prange; cs_maxp : Z; cs_maxpool : Z; cs_steps : list step;
                 cs_same : list (nat * nat) }.

Fixpoint run_steps (maxp maxpool : Z) (s : sr) (l : list step) : Z :=
  match l with
  | [] => 0
  | x :: t =>
      match sr_step maxp maxpool s (st_op x) with
      | None => 1
      | Some (s', out) =>
          if negb ((st_out x =? -1000) || (st_out x =? out_code out)) then 2
          else let c := obs_code (st_obs x) s' in
               if c =? 0 then run_steps maxp maxpool s' t else c
      end
  end.

(* the property monitor on the observed trace alone *)
Definition C10_holds (c : case) : bool :=
  forallb (fun ij : nat * nat =>
             match nth_error (cs_steps c) (fst ij), nth_error (cs_steps c) (snd ij) with
             | Some a, Some b => obs_eqb (st_obs a) (st_obs b)
             | _, _ => false
             end) (cs_same c).

(* 0 = model and implementation agree and the observed trace passes the monitor;
   1 an oracle value is illegal in the model, 2 result differs, 3 table sizes, 4/5 tcp/udp used ports,
   6 name table, 7/8 OS-level busy tcp/udp ports, 9 content of the keyed tables (routes, visitor listeners,
   NAT-hole clients), 20 the observed trace violates the monitor *)
Definition check_case (c : case) : Z :=
  let r := run_steps (cs_maxp c) (cs_maxpool c) (sr_new (cs_ranges c)) (cs_steps c) in
  if negb (r =? 0) then r
  else if C10_holds c then 0 else 20.

(* ---------- coverage counters: which model branches a case reached ---------- *)
(* branch ids: 1 ok registration, 2 EQuota, 3 EExists, 4 acquire error, 5 EListen, 6 EConflict with earlier
   routes rolled back (at least one route had been added), 7 EConflict on the first route, 8 group refusal,
   9 EAddRace, 10 EVisRepeated/ENatRepeated, 11 CloseProxy of an owned proxy, 12 SEnd of a session with
   proxies, 13 group join of a later member, 14 last member leaves, 15 SEnd with pooled connections *)
Definition grp_nonempty (s : sr) (id : gid) : bool :=
  match grp_get id (sr_grp s) with Some g => match g_mem g with [] => false | _ => true end | None => false end.

Definition branch_of (maxp : Z) (s : sr) (o : sop) (out : sout) (s' : sr) : list Z :=
  match o, out with
  | SNewProxy c q, OReg (ROk _) =>
      1 :: (if negb (String.eqb (q_group q) "") && grp_nonempty s (gkind_of (q_type q), q_group q) then [13] else [])
  | SNewProxy c q, OReg (RErr EQuota) => [2]
  | SNewProxy c q, OReg (RErr EExists) => [3]
  | SNewProxy c q, OReg (RErr (EAcq _)) => [4]
  | SNewProxy c q, OReg (RErr EListen) => [5]
  | SNewProxy c q, OReg (RErr EConflict) =>
      match q_type q with
      | THttp => if 1 <? nlen (http_rkeys q) then [6] else [7]
      | _ => if 1 <? nlen (live_domains q) then [6] else [7]
      end
  | SNewProxy c q, OReg (RErr EAddRace) => [9]
  | SNewProxy c q, OReg (RErr EVisRepeated) | SNewProxy c q, OReg (RErr ENatRepeated) => [10]
  | SNewProxy c q, OReg (RErr _) => [8]
  | SCloseProxy c n, _ =>
      match ss_get c (sr_sess s) with
      | Some ct => match nm_get n (ss_pxys ct) with
                   | Some o' => 11 :: (if negb (String.eqb (po_group o') "") && negb (grp_nonempty s' (gkind_of (po_type o'), po_group o')) then [14] else [])
                   | None => []
                   end
      | None => []
      end
  | SEnd c _, OEnd k =>
      match ss_get c (sr_sess s) with
      | Some ct => (match ss_pxys ct with [] => [] | _ => [12] end) ++ (if 0 <? k then [15] else [])
      | None => []
      end
  | _, _ => []
  end.

Fixpoint branches (maxp maxpool : Z) (s : sr) (l : list step) : list Z :=
  match l with
  | [] => []
  | x :: t =>
      match sr_step maxp maxpool s (st_op x) with
      | None => []
      | Some (s', out) => branch_of maxp s (st_op x) out s' ++ branches maxp maxpool s' t
      end
  end.

Definition count_branch (b : Z) (cs : list case) : Z :=
  fold_right (fun c acc => count_if (Z.eqb b) (branches (cs_maxp c) (cs_maxpool c) (sr_new (cs_ranges c)) (cs_steps c)) + acc) 0 cs.

(* ---------- driver `connwrap` ---------- *)
(* shape, number of Close calls on the top, observed closes of the counting transport *)
Record wcase := { wc_shape : cwshape; wc_k : nat; wc_closes : Z }.

(* 0 agree; 1 model out of fuel; 2 counts differ; 20 the observed count violates the specification *)
Definition check_wcase (c : wcase) : Z :=
  match cw_observe (wc_shape c) (wc_k c) with
  | None => 1
  | Some m => if negb (m =? wc_closes c) then 2
              else if negb (wc_closes c =? cw_spec (wc_shape c) (wc_k c)) then 20 else 0
  end.

Definition count_guarded (cs : list wcase) : Z := count_if (fun c => cw_guarded (wc_shape c)) cs.
