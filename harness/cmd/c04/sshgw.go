package main

// Driver "sshgw" (C04): the ssh tunnel gateway as a way to obtain a session.  One fresh in-process frps per case with
// sshTunnelGateway on an OS-chosen port (host key auto-generated in a temp dir the driver removes) and one
// golang.org/x/crypto/ssh client connection per case over the lattice
//   authorized_keys: not configured | configured | configured but unreadable
//   ssh client:      "none" only | stock client with an unknown key | stock with the authorised key |
//                    straight to publickey (no "none" probe) with an unknown key | ... with the authorised key
//   --token:         right | wrong | absent
// The "straight to publickey" peer needs x/crypto's client_auth.go patched at build time (go build -overlay, done by
// lib/recipes/c04.py; client side only).  The driver first proves against its own in-process ssh server that the patch is
// active and refuses to run otherwise.

import (
	"crypto/ed25519"
	"crypto/rand"
	"fmt"
	"net"
	"os"
	"path/filepath"
	"strings"
	"sync"
	"time"

	"golang.org/x/crypto/ssh"

	v1 "github.com/fatedier/frp/pkg/config/v1"
	"verifharness/hx"
)

func init() { drivers["sshgw"] = runSSHGw }

const skipNoneVersion = "SSH-2.0-skipnone_c04"

func newSigner() (ssh.Signer, error) {
	_, priv, err := ed25519.GenerateKey(rand.Reader)
	if err != nil {
		return nil, err
	}
	return ssh.NewSignerFromKey(priv)
}

// skipNoneActive: dial an in-process x/crypto ssh server that logs the authentication methods it is asked for.
func skipNoneActive(addr string) error {
	host, err := newSigner()
	if err != nil {
		return err
	}
	var mu sync.Mutex
	var methods []string
	sc := &ssh.ServerConfig{NoClientAuth: true,
		PublicKeyCallback: func(ssh.ConnMetadata, ssh.PublicKey) (*ssh.Permissions, error) { return &ssh.Permissions{}, nil },
		AuthLogCallback: func(_ ssh.ConnMetadata, method string, _ error) {
			mu.Lock()
			methods = append(methods, method)
			mu.Unlock()
		}}
	sc.AddHostKey(host)
	ln, err := net.Listen("tcp", net.JoinHostPort(addr, "0"))
	if err != nil {
		return err
	}
	defer ln.Close()
	go func() {
		c, err := ln.Accept()
		if err != nil {
			return
		}
		sconn, chans, reqs, err := ssh.NewServerConn(c, sc)
		if err != nil {
			c.Close()
			return
		}
		go ssh.DiscardRequests(reqs)
		go func() {
			for ch := range chans {
				_ = ch.Reject(ssh.Prohibited, "")
			}
		}()
		_ = sconn.Wait()
	}()
	key, err := newSigner()
	if err != nil {
		return err
	}
	cli, err := ssh.Dial("tcp", ln.Addr().String(), &ssh.ClientConfig{User: "v0", Auth: []ssh.AuthMethod{ssh.PublicKeys(key)},
		HostKeyCallback: ssh.InsecureIgnoreHostKey(), Timeout: 5 * time.Second, ClientVersion: skipNoneVersion})
	if err != nil {
		return fmt.Errorf("self-check dial: %v", err)
	}
	cli.Close()
	mu.Lock()
	defer mu.Unlock()
	if len(methods) == 0 || methods[0] != "publickey" {
		return fmt.Errorf("this harness binary was built WITHOUT the x/crypto client_auth overlay: the peer that skips the ssh \"none\" probe cannot be played (methods asked: %v)", methods)
	}
	return nil
}

type sshCase struct {
	keys   string // nofile | file | unreadable
	client string // none | stock-unknown | stock-good | skip-unknown | skip-good
	token  string // right | wrong | absent
	user   string
	lp     string // Login server plugin: "" (none configured) | same | reject | user (rewrites user to plug-user)
}

type sshRes struct {
	text string
	fail []map[string]any
	kind string
	err  error
}

func runSSHCase(idx int, addr, tmp string, akFile string, good ssh.Signer, sc sshCase) sshRes {
	var res sshRes
	res.kind = sc.keys + "/" + sc.client + "/" + sc.token
	if sc.lp != "" {
		res.kind += "/login-plugin-" + sc.lp
	}
	var plug *plugStub
	if sc.lp != "" {
		ps, perr := newPlugStub(addr)
		if perr != nil {
			res.err = perr
			return res
		}
		plug = ps
		defer plug.close()
		switch sc.lp {
		case "reject":
			plug.setLogin(plugBehaviour{kind: "reject"})
		case "user":
			plug.setLogin(plugBehaviour{kind: "rewrite", setUser: true, user: "plug-user"})
		}
	}
	akf := ""
	switch sc.keys {
	case "file":
		akf = akFile
	case "unreadable":
		akf = filepath.Join(tmp, "does-not-exist")
	}
	var s *hx.Server
	var err error
	for attempt := 0; attempt < 4; attempt++ {
		s, err = hx.StartServer(addr, func(c *v1.ServerConfig) {
			c.SSHTunnelGateway.BindPort = hx.FreePort(addr)
			c.SSHTunnelGateway.AuthorizedKeysFile = akf
			c.SSHTunnelGateway.AutoGenPrivateKeyPath = filepath.Join(tmp, "autogen_ssh_host_key")
			if plug != nil {
				c.HTTPPlugins = []v1.HTTPPluginOptions{{Name: "c04-login-stub", Addr: plug.addr, Path: "/handler", Ops: []string{"Login"}}}
			}
		})
		if err == nil {
			break
		}
		if s != nil {
			s.Close()
		}
		time.Sleep(30 * time.Millisecond)
	}
	if err != nil {
		res.err = err
		return res
	}
	defer s.Close()
	gw := net.JoinHostPort(addr, fmt.Sprint(s.Cfg.SSHTunnelGateway.BindPort))
	for i := 0; i < 100 && !hx.TCPBound(addr, s.Cfg.SSHTunnelGateway.BindPort); i++ {
		time.Sleep(10 * time.Millisecond)
	}

	unknown, err := newSigner()
	if err != nil {
		res.err = err
		return res
	}
	ccfg := &ssh.ClientConfig{User: "v0", HostKeyCallback: ssh.InsecureIgnoreHostKey(), Timeout: 5 * time.Second}
	var attempts []string
	keyTerm := func(sg ssh.Signer) string { return hx.Hx(sg.PublicKey().Marshal()) }
	switch sc.client {
	case "none":
		attempts = []string{"SgNone"}
	case "stock-unknown":
		ccfg.Auth = []ssh.AuthMethod{ssh.PublicKeys(unknown)}
		attempts = []string{"SgNone", fmt.Sprintf("SgPublicKey %s true", keyTerm(unknown))}
	case "stock-good":
		ccfg.Auth = []ssh.AuthMethod{ssh.PublicKeys(good)}
		attempts = []string{"SgNone", fmt.Sprintf("SgPublicKey %s true", keyTerm(good))}
	case "skip-unknown":
		ccfg.Auth = []ssh.AuthMethod{ssh.PublicKeys(unknown)}
		ccfg.ClientVersion = skipNoneVersion
		attempts = []string{fmt.Sprintf("SgPublicKey %s true", keyTerm(unknown))}
	case "skip-good":
		ccfg.Auth = []ssh.AuthMethod{ssh.PublicKeys(good)}
		ccfg.ClientVersion = skipNoneVersion
		attempts = []string{fmt.Sprintf("SgPublicKey %s true", keyTerm(good))}
	}
	token := ""
	switch sc.token {
	case "right":
		token = hx.DefaultToken
	case "wrong":
		token = "wrong-token"
	}
	proxyName := fmt.Sprintf("c04ssh-%d", idx)
	ts := time.Now().Unix()

	sshOK, session, proxy, pass, nsess := false, false, false, false, 0
	obsUser := ""
	cli, err := ssh.Dial("tcp", gw, ccfg)
	if err == nil {
		sshOK = true
		closed := make(chan struct{})
		go func() { _ = cli.Wait(); close(closed) }()
		go func() {
			_, _, _ = cli.SendRequest("tcpip-forward", true, ssh.Marshal(&struct {
				Host string
				Port uint32
			}{"", 80}))
		}()
		if sess, serr := cli.NewSession(); serr == nil {
			cmd := fmt.Sprintf("tcp --proxy_name %s --remote_port %d", proxyName, hx.FreePort(addr))
			if token != "" {
				cmd += " --token " + token
			}
			if sc.user != "" {
				cmd += " --user " + sc.user
			}
			_ = sess.Start(cmd)
			deadline := time.Now().Add(3 * time.Second)
		poll:
			for time.Now().Before(deadline) {
				ss := s.Svc.VerifC04Sessions()
				names := s.Svc.VerifC04ProxyNames()
				if len(ss) > 0 {
					session, pass, obsUser = true, ss[0].AlwaysPass, ss[0].User
				}
				for _, n := range names {
					if strings.HasSuffix(n, proxyName) {
						proxy = true
					}
				}
				if session && proxy {
					break
				}
				select {
				case <-closed:
					break poll
				case <-time.After(5 * time.Millisecond):
				}
			}
			nsess = len(s.Svc.VerifC04Sessions())
			if !session && nsess > 0 {
				session = true
			}
			sess.Close()
		}
		cli.Close()
	}
	keysTerm := "SgNoFile"
	authorised := false
	switch sc.keys {
	case "file":
		keysTerm = fmt.Sprintf("(SgFile [(%s, %s)])", keyTerm(good), hx.HxS("gooduser"))
		authorised = strings.HasSuffix(sc.client, "-good")
	case "unreadable":
		keysTerm = "SgUnreadable"
	}
	if (session || proxy) && !authorised && sc.token != "right" {
		res.fail = append(res.fail, map[string]any{"key": "ssh-session-without-credential",
			"what": fmt.Sprintf("ssh peer obtained session=%v proxy=%v through the tunnel gateway without an authorised key and without the configured token", session, proxy),
			"case": fmt.Sprintf("frps auth.token=%q sshTunnelGateway.authorizedKeysFile=%s; ssh client mode %s (skip = no \"none\" probe, straight to publickey with a self-generated ed25519 key); command: tcp --proxy_name %s --remote_port N%s",
				hx.DefaultToken, sc.keys, sc.client, proxyName, map[bool]string{true: " --token " + token, false: ""}[token != ""])})
	}
	pool := int64(1)
	plugTerm := "AuLPlugSame"
	if plug != nil {
		seen, ok := plug.lastLogin()
		if ok { // what the virtual client really sent
			ts, pool = seen.TS, seen.Pool
		}
		switch sc.lp {
		case "reject":
			plugTerm = "AuLPlugReject"
		case "user":
			key := ownKey(token, ts)
			if ok {
				key = seen.Key
			}
			plugTerm = fmt.Sprintf("(AuLPlugRewrite (c4L [] %s %d %s %d %s %s))", hx.HxS(key), ts, hx.HxS("plug-user"), pool,
				hx.HxS("ssh-tunnel"), hx.Bool(sc.keys != "nofile"))
		}
		if sshOK && !ok {
			res.fail = append(res.fail, map[string]any{"key": "ssh-login-plugin-not-consulted",
				"what": "a Login server plugin is configured but was not consulted for the login of an ssh tunnel gateway session",
				"case": fmt.Sprintf("authorizedKeysFile=%s client=%s token=%s plugin=%s session=%v", sc.keys, sc.client, sc.token, sc.lp, session)})
		}
	}
	ht := fmt.Sprintf("[(%d, %s)]", ts, hx.HxS(ownKey(hx.DefaultToken, ts)))
	res.text = fmt.Sprintf("CSsh (c4CFG AuToken %s [] %d %d) %s %s %s %s %s %d %d %s %s %s %s %s %d %s",
		hx.HxS(hx.DefaultToken), s.Cfg.Transport.MaxPoolCount, s.Cfg.Transport.HeartbeatTimeout, ht, keysTerm, hx.List(attempts),
		hx.HxS(token), hx.HxS(sc.user), ts, pool, plugTerm, hx.Bool(sshOK), hx.Bool(session), hx.Bool(proxy), hx.Bool(pass), nsess, hx.HxS(obsUser))
	return res
}

func runSSHGw(cfg *hx.RunCfg) error {
	hx.Quiet()
	if err := skipNoneActive("127.0.4.60"); err != nil {
		return err
	}
	tmp, err := os.MkdirTemp("", "c04ssh")
	if err != nil {
		return err
	}
	defer os.RemoveAll(tmp)
	good, err := newSigner()
	if err != nil {
		return err
	}
	akFile := filepath.Join(tmp, "authorized_keys")
	line := strings.TrimSpace(string(ssh.MarshalAuthorizedKey(good.PublicKey()))) + " gooduser\n"
	if err := os.WriteFile(akFile, []byte(line), 0o600); err != nil {
		return err
	}
	g := hx.NewGen(cfg.Seed)
	var cases []sshCase
	for _, k := range []string{"nofile", "file", "unreadable"} {
		for _, c := range []string{"none", "stock-unknown", "stock-good", "skip-unknown", "skip-good"} {
			for _, t := range []string{"right", "wrong", "absent"} {
				u := ""
				if g.Chance(0.3) {
					u = "u" + fmt.Sprint(g.Intn(3))
				}
				cases = append(cases, sshCase{k, c, t, u, ""})
			}
		}
	}
	// gateway sessions with a Login server plugin configured: the plugin is consulted for them too
	for _, lp := range []string{"same", "reject", "user"} {
		cases = append(cases,
			sshCase{"file", "skip-good", "absent", "", lp}, sshCase{"file", "stock-good", "wrong", "u1", lp},
			sshCase{"nofile", "none", "right", "", lp}, sshCase{"nofile", "none", "wrong", "", lp})
	}
	// the first server generates the host key file; do it before the workers race for it
	warm := runSSHCase(1000, "127.0.4.40", tmp, akFile, good, sshCase{"nofile", "none", "right", "", ""})
	if warm.err != nil {
		return warm.err
	}
	results := make([]sshRes, len(cases))
	var wg sync.WaitGroup
	ch := make(chan int)
	for w := 0; w < 4; w++ {
		wg.Add(1)
		addr := fmt.Sprintf("127.0.4.%d", 40+w)
		go func() {
			defer wg.Done()
			for i := range ch {
				results[i] = runSSHCase(i, addr, tmp, akFile, good, cases[i])
			}
		}()
	}
	for i := range cases {
		ch <- i
	}
	close(ch)
	wg.Wait()
	cf := &hx.CaseFile{
		Imports: "From FRP Require Import Corr.C04.\nOpen Scope Z_scope.\n",
		Typ:     "case",
		Tail: "Definition M := Eval vm_compute in mismatches check_case cases.\nPrint M.\n" +
			"Definition NSSHATTACKREFUSED := Eval vm_compute in c04_ssh_attack_refused cases.\nPrint NSSHATTACKREFUSED.\n" +
			"Definition NSSHSESSIONKEY := Eval vm_compute in c04_ssh_session_by_key cases.\nPrint NSSHSESSIONKEY.\n" +
			"Definition NSSHSESSIONTOKEN := Eval vm_compute in c04_ssh_session_by_token cases.\nPrint NSSHSESSIONTOKEN.\n" +
			"Definition NSSHREFUSEDSSH := Eval vm_compute in c04_ssh_refused_at_ssh cases.\nPrint NSSHREFUSEDSSH.\n" +
			"Definition NSSHREFUSEDLOGIN := Eval vm_compute in c04_ssh_refused_at_login cases.\nPrint NSSHREFUSEDLOGIN.\n" +
			"Definition NSSHPLUGINREFUSED := Eval vm_compute in c04_ssh_plugin_refused cases.\nPrint NSSHPLUGINREFUSED.\n" +
			"Definition NSSHPLUGINUSER := Eval vm_compute in c04_ssh_plugin_user cases.\nPrint NSSHPLUGINUSER.\n",
	}
	dist := map[string]int{}
	fails := []map[string]any{}
	samples := []string{}
	distinct := map[string]bool{}
	for i, r := range results {
		if r.err != nil {
			return fmt.Errorf("ssh case %d (%+v): %v", i, cases[i], r.err)
		}
		cf.Cases = append(cf.Cases, r.text)
		distinct[r.text] = true
		fails = append(fails, r.fail...)
		outcome := "refused"
		if strings.Contains(r.text, " true true true ") || strings.Contains(r.text, " true true true false") {
			outcome = "session"
		}
		dist[r.kind+":"+outcome]++
		if len(samples) < 3 {
			samples = append(samples, r.text)
		}
	}
	if err := cf.Write(cfg.Out); err != nil {
		return err
	}
	cfg.St["cases"] = len(cf.Cases)
	cfg.St["distinct_nontrivial"] = len(distinct)
	cfg.St["distribution"] = dist
	cfg.St["samples"] = samples
	cfg.St["impl_failures"] = fails
	return nil
}
