package main

// c09facts: pkg/msg/handler.go, server/control.go, pkg/config/types/types.go,
// pkg/config/legacy/{conversion,server}.go -> GenC09Facts.v
//
// Structural facts the C09 models rest on, read from the source on every run so that the reflective
// theorems in Properties/C09.v break when one of them goes away:
//
//  c09_run_spawns        the goroutines Dispatcher.Run starts (method names)
//  c09_handler_sites     the Dispatcher methods in which a registered handler is CALLED
//  c09_done_close_sites  the Dispatcher methods that close doneCh
//  c09_readloop          the body of readLoop's loop as tokens: Read | IfErr[CloseDone;Return] | Dispatch |
//                        ChanSend:<field> | Unknown:<text>
//      The layered model treats a session's NewProxy / CloseProxy handlers and its teardown as one
//      sequential thread; that holds only if the handlers run inside the read loop and doneCh (what the
//      teardown in Control.worker waits for) is closed by that same loop, i.e. after the handler in
//      flight has returned.
//  c09_handlers          Control.registerMsgHandlers: (message type, wrapped in msg.AsyncHandler?)
//  c09_worker            Control.worker: tokens WaitDone | Teardown (range over ctl.proxies) in source order
//  c09_parse_calls       NewPortsRangeSliceFromString: every strconv parse call as (function, argument is
//                        strings.TrimSpace(...)?) in source order
//  c09_parse_seps        the separators of its strings.Split calls, in source order
//  c09_legacy_allow      conversion.go: right-hand side assigned to out.AllowPorts
//  c09_legacy_allow_src  server.go (legacy): the expression assigned to common.AllowPortsStr's source variable
//  c09_legacy_quota      conversion.go: right-hand side assigned to out.MaxPortsPerClient

import (
	"bytes"
	"fmt"
	"go/ast"
	"go/parser"
	"go/printer"
	"go/token"
	"path/filepath"
	"strings"

	"veriftranslator/tx"
)

func main() { tx.Main(tx.Unit{Name: "C09Facts", File: "GenC09Facts.v", Fn: gen}) }

var fset = token.NewFileSet()

func show(n ast.Node) string {
	var b bytes.Buffer
	_ = printer.Fprint(&b, fset, n)
	return strings.Join(strings.Fields(b.String()), " ")
}

func parse(rel string) (*ast.File, error) {
	return parser.ParseFile(fset, filepath.Join(tx.Repo, rel), nil, 0)
}

func methodsOf(f *ast.File, recv string) []*ast.FuncDecl {
	var out []*ast.FuncDecl
	for _, d := range f.Decls {
		fd, ok := d.(*ast.FuncDecl)
		if !ok || fd.Recv == nil || len(fd.Recv.List) == 0 || fd.Body == nil {
			continue
		}
		t := fd.Recv.List[0].Type
		if s, ok := t.(*ast.StarExpr); ok {
			t = s.X
		}
		if id, ok := t.(*ast.Ident); ok && id.Name == recv {
			out = append(out, fd)
		}
	}
	return out
}

func funcNamed(f *ast.File, name string) *ast.FuncDecl {
	for _, d := range f.Decls {
		if fd, ok := d.(*ast.FuncDecl); ok && fd.Name.Name == name && fd.Body != nil {
			return fd
		}
	}
	return nil
}

func isCloseDone(e ast.Expr) bool {
	c, ok := e.(*ast.CallExpr)
	if !ok || len(c.Args) != 1 {
		return false
	}
	id, ok := c.Fun.(*ast.Ident)
	if !ok || id.Name != "close" {
		return false
	}
	s, ok := c.Args[0].(*ast.SelectorExpr)
	return ok && s.Sel.Name == "doneCh"
}

// a call of a registered handler: a call whose callee is a local bound from d.msgHandlers[...] or the
// field defaultHandler
func handlerCalls(fd *ast.FuncDecl) int {
	locals := map[string]bool{}
	ast.Inspect(fd.Body, func(n ast.Node) bool {
		if as, ok := n.(*ast.AssignStmt); ok {
			for i, r := range as.Rhs {
				if ix, ok := r.(*ast.IndexExpr); ok {
					if s, ok := ix.X.(*ast.SelectorExpr); ok && s.Sel.Name == "msgHandlers" && i < len(as.Lhs) {
						if id, ok := as.Lhs[0].(*ast.Ident); ok {
							locals[id.Name] = true
						}
					}
				}
			}
		}
		return true
	})
	n := 0
	ast.Inspect(fd.Body, func(x ast.Node) bool {
		c, ok := x.(*ast.CallExpr)
		if !ok {
			return true
		}
		switch f := c.Fun.(type) {
		case *ast.Ident:
			if locals[f.Name] {
				n++
			}
		case *ast.SelectorExpr:
			if f.Sel.Name == "defaultHandler" {
				n++
			}
		case *ast.IndexExpr:
			if s, ok := f.X.(*ast.SelectorExpr); ok && s.Sel.Name == "msgHandlers" {
				n++
			}
		}
		return true
	})
	return n
}

func containsCloseDone(fd *ast.FuncDecl) bool {
	found := false
	ast.Inspect(fd.Body, func(x ast.Node) bool {
		if e, ok := x.(ast.Expr); ok && isCloseDone(e) {
			found = true
		}
		return true
	})
	return found
}

func readLoopTokens(fd *ast.FuncDecl) []string {
	var loop *ast.ForStmt
	for _, st := range fd.Body.List {
		if f, ok := st.(*ast.ForStmt); ok && f.Cond == nil && f.Init == nil && f.Post == nil {
			loop = f
		}
	}
	if loop == nil || len(fd.Body.List) != 1 {
		return []string{"Unknown:" + show(fd.Body)}
	}
	var out []string
	for _, st := range loop.Body.List {
		switch s := st.(type) {
		case *ast.AssignStmt:
			if len(s.Rhs) == 1 {
				if c, ok := s.Rhs[0].(*ast.CallExpr); ok {
					if id, ok := c.Fun.(*ast.Ident); ok && id.Name == "ReadMsg" {
						out = append(out, "Read")
						continue
					}
				}
			}
			out = append(out, "Unknown:"+show(s))
		case *ast.IfStmt:
			// if err != nil { close(d.doneCh); return }
			if b, ok := s.Cond.(*ast.BinaryExpr); ok && show(b) == "err != nil" && s.Init == nil && s.Else == nil &&
				len(s.Body.List) == 2 {
				e, ok1 := s.Body.List[0].(*ast.ExprStmt)
				_, ok2 := s.Body.List[1].(*ast.ReturnStmt)
				if ok1 && ok2 && isCloseDone(e.X) {
					out = append(out, "IfErr[CloseDone;Return]")
					continue
				}
			}
			// if handler, ok := d.msgHandlers[...]; ok { handler(m) } else if d.defaultHandler != nil { d.defaultHandler(m) }
			if s.Init != nil && strings.Contains(show(s.Init), "msgHandlers[") && len(s.Body.List) == 1 {
				if e, ok := s.Body.List[0].(*ast.ExprStmt); ok {
					if _, ok := e.X.(*ast.CallExpr); ok {
						out = append(out, "Dispatch")
						continue
					}
				}
			}
			out = append(out, "Unknown:"+show(s))
		case *ast.SendStmt:
			out = append(out, "ChanSend:"+show(s.Chan))
		default:
			out = append(out, "Unknown:"+show(st))
		}
	}
	return out
}

func coqList(xs []string) string {
	q := make([]string, len(xs))
	for i, x := range xs {
		q[i] = tx.CoqString(x)
	}
	return "[" + strings.Join(q, "; ") + "]"
}

func gen() ([]byte, error) {
	var b bytes.Buffer
	b.WriteString("(* generated by translator/cmd/c09facts — do not edit *)\nFrom Coq Require Import String List.\nImport ListNotations.\nLocal Open Scope string_scope.\n\nDefinition C09Facts_translated : bool := true.\n\n")

	// ---- dispatcher ----
	hf, err := parse("pkg/msg/handler.go")
	if err != nil {
		return nil, err
	}
	var spawns, hsites, dsites []string
	var rl []string
	for _, m := range methodsOf(hf, "Dispatcher") {
		if m.Name.Name == "Run" {
			ast.Inspect(m.Body, func(x ast.Node) bool {
				if g, ok := x.(*ast.GoStmt); ok {
					if s, ok := g.Call.Fun.(*ast.SelectorExpr); ok {
						spawns = append(spawns, s.Sel.Name)
					} else {
						spawns = append(spawns, "Unknown:"+show(g.Call.Fun))
					}
				}
				return true
			})
		}
		if handlerCalls(m) > 0 {
			hsites = append(hsites, m.Name.Name)
		}
		if containsCloseDone(m) {
			dsites = append(dsites, m.Name.Name)
		}
		if m.Name.Name == "readLoop" {
			rl = readLoopTokens(m)
		}
	}
	fmt.Fprintf(&b, "Definition c09_run_spawns : list string := %s.\n", coqList(spawns))
	fmt.Fprintf(&b, "Definition c09_handler_sites : list string := %s.\n", coqList(hsites))
	fmt.Fprintf(&b, "Definition c09_done_close_sites : list string := %s.\n", coqList(dsites))
	fmt.Fprintf(&b, "Definition c09_readloop : list string := %s.\n\n", coqList(rl))

	// ---- control ----
	cf, err := parse("server/control.go")
	if err != nil {
		return nil, err
	}
	var handlers []string
	var worker []string
	for _, m := range methodsOf(cf, "Control") {
		switch m.Name.Name {
		case "registerMsgHandlers":
			for _, st := range m.Body.List {
				es, ok := st.(*ast.ExprStmt)
				if !ok {
					handlers = append(handlers, fmt.Sprintf("(%s, true)", tx.CoqString("Unknown:"+show(st))))
					continue
				}
				c, ok := es.X.(*ast.CallExpr)
				if !ok || len(c.Args) != 2 || !strings.HasSuffix(show(c.Fun), "RegisterHandler") {
					handlers = append(handlers, fmt.Sprintf("(%s, true)", tx.CoqString("Unknown:"+show(st))))
					continue
				}
				typ := strings.TrimSuffix(strings.TrimPrefix(show(c.Args[0]), "&msg."), "{}")
				async := "false"
				if hc, ok := c.Args[1].(*ast.CallExpr); ok {
					async = "true"
					_ = hc
				} else if _, ok := c.Args[1].(*ast.SelectorExpr); !ok {
					async = "true" // anything but a plain method value is treated as not synchronous
				}
				handlers = append(handlers, fmt.Sprintf("(%s, %s)", tx.CoqString(typ), async))
			}
		case "worker":
			for _, st := range m.Body.List {
				txt := show(st)
				switch s := st.(type) {
				case *ast.ExprStmt:
					if strings.HasPrefix(txt, "<-") && strings.Contains(txt, "msgDispatcher.Done()") {
						worker = append(worker, "WaitDone")
					}
				case *ast.RangeStmt:
					if strings.HasSuffix(show(s.X), ".proxies") {
						worker = append(worker, "Teardown")
					}
				case *ast.GoStmt:
					if strings.Contains(txt, "proxies") {
						worker = append(worker, "Unknown:"+txt)
					}
				}
			}
		}
	}
	fmt.Fprintf(&b, "Definition c09_handlers : list (string * bool) := [%s].\n", strings.Join(handlers, "; "))
	fmt.Fprintf(&b, "Definition c09_worker : list string := %s.\n\n", coqList(worker))

	// ---- allowPorts list parser ----
	tf, err := parse("pkg/config/types/types.go")
	if err != nil {
		return nil, err
	}
	pf := funcNamed(tf, "NewPortsRangeSliceFromString")
	if pf == nil {
		return nil, fmt.Errorf("NewPortsRangeSliceFromString not found")
	}
	var calls, seps []string
	ast.Inspect(pf.Body, func(x ast.Node) bool {
		c, ok := x.(*ast.CallExpr)
		if !ok {
			return true
		}
		fn := show(c.Fun)
		if strings.HasPrefix(fn, "strconv.") && len(c.Args) >= 1 {
			trimmed := "false"
			if a, ok := c.Args[0].(*ast.CallExpr); ok && show(a.Fun) == "strings.TrimSpace" {
				trimmed = "true"
			}
			calls = append(calls, fmt.Sprintf("(%s, %s)", tx.CoqString(fn), trimmed))
		}
		if fn == "strings.Split" && len(c.Args) == 2 {
			seps = append(seps, strings.Trim(show(c.Args[1]), `"`))
		}
		return true
	})
	fmt.Fprintf(&b, "Definition c09_parse_calls : list (string * bool) := [%s].\n", strings.Join(calls, "; "))
	fmt.Fprintf(&b, "Definition c09_parse_seps : list string := %s.\n\n", coqList(seps))

	// ---- legacy ini conversion ----
	lf, err := parse("pkg/config/legacy/conversion.go")
	if err != nil {
		return nil, err
	}
	allow, quota := "Unknown:not found", "Unknown:not found"
	ast.Inspect(lf, func(x ast.Node) bool {
		as, ok := x.(*ast.AssignStmt)
		if !ok || len(as.Lhs) == 0 || len(as.Rhs) != 1 {
			return true
		}
		switch show(as.Lhs[0]) {
		case "out.AllowPorts":
			allow = show(as.Rhs[0])
		case "out.MaxPortsPerClient":
			quota = show(as.Rhs[0])
		}
		return true
	})
	sf, err := parse("pkg/config/legacy/server.go")
	if err != nil {
		return nil, err
	}
	src := "Unknown:not found"
	ast.Inspect(sf, func(x ast.Node) bool {
		as, ok := x.(*ast.AssignStmt)
		if ok && len(as.Lhs) == 1 && len(as.Rhs) == 1 && show(as.Lhs[0]) == "allowPortStr" {
			src = show(as.Rhs[0])
		}
		return true
	})
	fmt.Fprintf(&b, "Definition c09_legacy_allow : string := %s.\n", tx.CoqString(allow))
	fmt.Fprintf(&b, "Definition c09_legacy_allow_src : string := %s.\n", tx.CoqString(src))
	fmt.Fprintf(&b, "Definition c09_legacy_quota : string := %s.\n", tx.CoqString(quota))
	return b.Bytes(), nil
}
