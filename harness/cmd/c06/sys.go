package main

// Driver "shared_port" (C06): an in-process frps whose vhost HTTP and HTTPS ports are the bind port
// itself (first-bytes dispatch in server/service.go), a real in-process frpc with http / https /
// tcpmux proxies (server/proxy/http.go, https.go, tcpmux.go register the routes) and labelled local
// backends.  Requests, ClientHellos and CONNECTs go to the shared port while the control session
// is alive on it; observed: which proxy's backend was reached.  Compared with Model/Router.v and the
// specification through the same CRouter cases as driver "router".

import (
	"bufio"
	"crypto/tls"
	"encoding/base64"
	"fmt"
	"io"
	"net"
	"net/http"
	"strconv"
	"strings"
	"sync"
	"time"

	"verifharness/hx"

	v1 "github.com/fatedier/frp/pkg/config/v1"
	"github.com/fatedier/frp/pkg/msg"
)

func init() { drivers["shared_port"] = runSharedPort }

type hitBackend struct {
	ln    net.Listener
	label int64
	hits  chan int64
}

// startHTTPBackend: answers every request with its label
func startHTTPBackend(addr string, label int64) (net.Listener, *http.Server, error) {
	ln, err := net.Listen("tcp", addr+":0")
	if err != nil {
		return nil, nil, err
	}
	srv := &http.Server{Handler: http.HandlerFunc(func(rw http.ResponseWriter, r *http.Request) {
		rw.Header().Set("X-Backend", strconv.FormatInt(label, 10))
		_, _ = io.WriteString(rw, "ok")
	})}
	go func() { _ = srv.Serve(ln) }()
	return ln, srv, nil
}

// startHitBackend: a TCP backend that reports its label for every accepted connection, writes
// "L<label>\n" and closes
func startHitBackend(addr string, label int64, hits chan int64) (net.Listener, error) {
	ln, err := net.Listen("tcp", addr+":0")
	if err != nil {
		return nil, err
	}
	go func() {
		for {
			c, err := ln.Accept()
			if err != nil {
				return
			}
			hits <- label
			_, _ = c.Write([]byte("L" + strconv.FormatInt(label, 10) + "\n"))
			_ = c.Close()
		}
	}()
	return ln, nil
}

func portOf(l net.Listener) int { return l.Addr().(*net.TCPAddr).Port }

type sysRoute struct {
	t     triple
	owner int64
}

func pickDistinct(g *hx.Gen, n int, gen func() triple) []triple {
	seen := map[string]bool{}
	var out []triple
	for tries := 0; len(out) < n && tries < 100; tries++ {
		t := gen()
		k := strings.ToLower(t.d) + "\x00" + t.l + "\x00" + t.u
		if seen[k] {
			continue
		}
		seen[k] = true
		out = append(out, t)
	}
	return out
}

var sysDomains = []string{"a.example.com", "B.Example.com", "*.example.com", "*.a.example.com", "x.a.example.com", "*", "c.example.org", "*.example.org"}

func sharedPortWorld(g *hx.Gen, dist map[string]int, nreq int) ([]string, error) {
	const addr = "127.0.6.10"
	const baddr = "127.0.6.11"
	srv, err := hx.StartServer(addr, func(c *v1.ServerConfig) {
		c.VhostHTTPPort = c.BindPort
		c.VhostHTTPSPort = c.BindPort
		c.TCPMuxHTTPConnectPort = hx.FreePort(addr)
		c.SubDomainHost = "sub.test"
	})
	if err != nil {
		return nil, err
	}
	defer srv.Close()
	var closers []io.Closer
	defer func() {
		for _, c := range closers {
			_ = c.Close()
		}
	}()
	hits := make(chan int64, 64)
	var proxies []v1.ProxyConfigurer
	var names []string
	var httpRoutes, httpsRoutes, muxRoutes []sysRoute
	owner := int64(0)
	// http proxies: one or two custom domains, one or two locations, maybe a subdomain and a user
	// restriction -- so that one proxy owns several routes (server/proxy/http.go registers one route per
	// domain x location and must remove exactly those when the proxy closes)
	type httpPxy struct {
		cfg    *v1.HTTPProxyConfig
		routes []triple
		owner  int64
	}
	usedHTTP := map[string]bool{}
	keyOf := func(t triple) string { return strings.ToLower(t.d) + "\x00" + t.l + "\x00" + t.u }
	mkHTTP := func(name string, routes []triple, doms, locs []string, sub, user string) (*httpPxy, error) {
		owner++
		ln, hs, err := startHTTPBackend(baddr, owner)
		if err != nil {
			return nil, err
		}
		closers = append(closers, hs)
		p := &v1.HTTPProxyConfig{}
		p.Name = name
		p.Type = "http"
		p.LocalIP = baddr
		p.LocalPort = portOf(ln)
		p.CustomDomains = doms
		p.SubDomain = sub
		if !(len(locs) == 1 && locs[0] == "") {
			p.Locations = locs
		}
		p.RouteByHTTPUser = user
		return &httpPxy{cfg: p, routes: routes, owner: owner}, nil
	}
	locSets := [][]string{{""}, {""}, {"/a"}, {"/a", "/a/b"}, {"/", "/ab"}, {"/a/b", "/ab"}, {"", "/a"}}
	var httpPxys []*httpPxy
	nHTTP := 3 + g.Intn(3)
	for tries := 0; len(httpPxys) < nHTTP && tries < 60; tries++ {
		doms := []string{g.Pick(sysDomains)}
		if g.Chance(0.4) {
			if d2 := g.Pick(sysDomains); !strings.EqualFold(d2, doms[0]) {
				doms = append(doms, d2)
			}
		}
		locs := locSets[g.Intn(len(locSets))]
		user := g.Pick([]string{"", "", "u1"})
		sub := ""
		if g.Chance(0.3) {
			sub = fmt.Sprintf("s%d", g.Intn(3))
		}
		var routes []triple
		for _, d := range doms {
			for _, l := range locs {
				routes = append(routes, triple{d, l, user})
			}
		}
		if sub != "" {
			for _, l := range locs {
				routes = append(routes, triple{sub + ".sub.test", l, user})
			}
		}
		clash := false
		for _, t := range routes {
			if usedHTTP[keyOf(t)] {
				clash = true
			}
		}
		if clash {
			continue
		}
		for _, t := range routes {
			usedHTTP[keyOf(t)] = true
		}
		hp, err := mkHTTP(fmt.Sprintf("http%d", owner+1), routes, doms, locs, sub, user)
		if err != nil {
			return nil, err
		}
		httpPxys = append(httpPxys, hp)
		proxies = append(proxies, hp.cfg)
		names = append(names, hp.cfg.Name)
		for _, t := range routes {
			httpRoutes = append(httpRoutes, sysRoute{t, hp.owner})
		}
		if len(routes) > 1 {
			dist["http proxy with several routes"]++
		}
	}
	httpsTriples := pickDistinct(g, 2+g.Intn(3), func() triple { return triple{g.Pick(sysDomains), "", ""} })
	for _, t := range httpsTriples {
		owner++
		ln, err := startHitBackend(baddr, owner, hits)
		if err != nil {
			return nil, err
		}
		closers = append(closers, ln)
		p := &v1.HTTPSProxyConfig{}
		p.Name = fmt.Sprintf("https%d", owner)
		p.Type = "https"
		p.LocalIP = baddr
		p.LocalPort = portOf(ln)
		p.CustomDomains = []string{t.d}
		proxies = append(proxies, p)
		names = append(names, p.Name)
		httpsRoutes = append(httpsRoutes, sysRoute{t, owner})
	}
	muxTriples := pickDistinct(g, 2+g.Intn(3), func() triple { return triple{g.Pick(sysDomains), "", g.Pick([]string{"", "", "u1"})} })
	for _, t := range muxTriples {
		owner++
		ln, err := startHitBackend(baddr, owner, hits)
		if err != nil {
			return nil, err
		}
		closers = append(closers, ln)
		p := &v1.TCPMuxProxyConfig{}
		p.Name = fmt.Sprintf("mux%d", owner)
		p.Type = "tcpmux"
		p.Multiplexer = "httpconnect"
		p.LocalIP = baddr
		p.LocalPort = portOf(ln)
		p.CustomDomains = []string{t.d}
		p.RouteByHTTPUser = t.u
		proxies = append(proxies, p)
		names = append(names, p.Name)
		muxRoutes = append(muxRoutes, sysRoute{t, owner})
	}
	cl, err := srv.StartClient(proxies, nil, nil)
	if err != nil {
		return nil, err
	}
	defer cl.Close()
	// a proxy that does not come up had its route refused by the server (observed as Add refused)
	refused := map[int64]bool{}
	for i, n := range names {
		if !cl.WaitProxyRunning(n, 3*time.Second) {
			refused[int64(i+1)] = true
			dist["proxy not running"]++
		}
	}
	var cases []string
	front := net.JoinHostPort(addr, strconv.Itoa(srv.Port))
	liveOf := func(rs []sysRoute) []triple {
		var l []triple
		for _, r := range rs {
			l = append(l, r.t)
		}
		return l
	}
	addOps := func(rs []sysRoute) []string {
		var ops []string
		for _, r := range rs {
			ops = append(ops, fmt.Sprintf("OAdd %s %s %s %d %s", hx.HxS(r.t.d), hx.HxS(r.t.l), hx.HxS(r.t.u), r.owner, hx.Bool(!refused[r.owner])))
		}
		return ops
	}
	// --- HTTP over the shared port, keep-alive client connections ---
	{
		ops := addOps(httpRoutes)
		tr := &http.Transport{MaxIdleConnsPerHost: 2}
		client := &http.Client{Transport: tr, Timeout: 10 * time.Second}
		get := func(h, p, u string) (int64, bool, error) {
			req, _ := http.NewRequest("GET", "http://"+front+p, nil)
			req.Host = h
			if u != "" {
				req.SetBasicAuth(u, "x")
			}
			resp, err := client.Do(req)
			if err != nil {
				return 0, false, fmt.Errorf("http request %s %s: %v", h, p, err)
			}
			_, _ = io.Copy(io.Discard, resp.Body)
			_ = resp.Body.Close()
			switch resp.StatusCode {
			case 200:
				lbl, _ := strconv.ParseInt(resp.Header.Get("X-Backend"), 10, 64)
				return lbl, true, nil
			case 404:
				return 0, false, nil
			}
			return 0, false, fmt.Errorf("http request %s %s: status %d", h, p, resp.StatusCode)
		}
		hostFor := func(t triple) string {
			switch {
			case t.d == "*":
				return "any.org"
			case strings.HasPrefix(t.d, "*."):
				return "w" + t.d[1:]
			}
			return t.d
		}
		requests := func(n int, focus []triple) error {
			for i := 0; i < n; i++ {
				h, p, u := reqFor(g, liveOf(httpRoutes), reqHosts)
				if len(focus) > 0 && g.Chance(0.6) {
					t := focus[g.Intn(len(focus))]
					h, p, u = hostFor(t), t.l+g.Pick([]string{"", "/x"}), t.u
				}
				if h == "" || strings.Contains(h, "*") || strings.HasPrefix(h, ".") || strings.Contains(h, "..") {
					h = "a.example.com"
				}
				if p == "" || p[0] != '/' {
					p = "/" + p
				}
				h += g.Pick([]string{"", "", ":80", ".", ".:8080"})
				lbl, ok, err := get(h, p, u)
				if err != nil {
					return err
				}
				dist["shared-port http"]++
				ops = append(ops, fmt.Sprintf("OVhost true %s %s %s %s", hx.HxS(h), hx.HxS(p), hx.HxS(u), optZ(lbl, ok)))
			}
			return nil
		}
		if err := requests(nreq, nil); err != nil {
			return nil, err
		}
		// phase 2: some http proxies are removed from the client's configuration (CloseProxy); every
		// route of a removed proxy must be gone, and nothing else
		var kept, removed []*httpPxy
		for _, hp := range httpPxys {
			if len(removed) < 2 && (len(hp.routes) > 1 || g.Chance(0.3)) {
				removed = append(removed, hp)
			} else {
				kept = append(kept, hp)
			}
		}
		current := func(hs []*httpPxy) []v1.ProxyConfigurer {
			var ps []v1.ProxyConfigurer
			for _, p := range proxies {
				if _, isHTTP := p.(*v1.HTTPProxyConfig); !isHTTP {
					ps = append(ps, p)
				}
			}
			for _, hp := range hs {
				ps = append(ps, hp.cfg)
			}
			return ps
		}
		if len(removed) > 0 {
			if err := cl.Svc.UpdateAllConfigurer(current(kept), nil); err != nil {
				return nil, err
			}
			var focus []triple
			for _, hp := range removed {
				// wait until the server has closed the proxy: the route it registered last stops answering
				last := hp.routes[len(hp.routes)-1]
				deadline := time.Now().Add(3 * time.Second)
				for time.Now().Before(deadline) {
					lbl, ok, err := get(hostFor(last), last.l+"/probe", last.u)
					if err != nil {
						return nil, err
					}
					if !ok || lbl != hp.owner {
						break
					}
					time.Sleep(10 * time.Millisecond)
				}
				for _, t := range hp.routes {
					ops = append(ops, fmt.Sprintf("ODel %s %s %s", hx.HxS(t.d), hx.HxS(t.l), hx.HxS(t.u)))
					focus = append(focus, t)
				}
				nl := httpRoutes[:0]
				for _, r := range httpRoutes {
					if r.owner != hp.owner {
						nl = append(nl, r)
					}
				}
				httpRoutes = nl
				dist["http proxy closed"]++
			}
			time.Sleep(30 * time.Millisecond)
			if err := requests(nreq/2, focus); err != nil {
				return nil, err
			}
			// phase 3: other proxies take over exactly the routes of the removed ones
			var added []*httpPxy
			for _, hp := range removed {
				np, err := mkHTTP(fmt.Sprintf("http%d", owner+1), hp.routes, hp.cfg.CustomDomains, hp.cfg.Locations, hp.cfg.SubDomain, hp.cfg.RouteByHTTPUser)
				if err != nil {
					return nil, err
				}
				if len(np.cfg.Locations) == 0 {
					np.cfg.Locations = nil
				}
				added = append(added, np)
			}
			all := append(append([]*httpPxy{}, kept...), added...)
			ps := current(all)
			for _, np := range added {
				np.cfg.Complete("")
			}
			if err := cl.Svc.UpdateAllConfigurer(ps, nil); err != nil {
				return nil, err
			}
			for _, np := range added {
				running := cl.WaitProxyRunning(np.cfg.Name, 3*time.Second)
				if !running {
					dist["proxy not running"]++
				}
				for _, t := range np.routes {
					ops = append(ops, fmt.Sprintf("OAdd %s %s %s %d %s", hx.HxS(t.d), hx.HxS(t.l), hx.HxS(t.u), np.owner, hx.Bool(running)))
					if running {
						httpRoutes = append(httpRoutes, sysRoute{t, np.owner})
					}
				}
				dist["http proxy re-created by another owner"]++
			}
			if err := requests(nreq/2, focus); err != nil {
				return nil, err
			}
		}
		tr.CloseIdleConnections()
		cases = append(cases, "CRouter 1 "+hx.List(ops))
	}
	drain := func() {
		for {
			select {
			case <-hits:
			default:
				return
			}
		}
	}
	waitHit := func() (int64, bool) {
		select {
		case l := <-hits:
			return l, true
		case <-time.After(300 * time.Millisecond):
			return 0, false
		}
	}
	// --- TLS ClientHellos on the shared port ---
	{
		ops := addOps(httpsRoutes)
		hello := func(h string) error {
			drain()
			c, err := net.DialTimeout("tcp", front, 2*time.Second)
			if err != nil {
				return err
			}
			_ = c.SetDeadline(time.Now().Add(3 * time.Second))
			herr := tls.Client(c, &tls.Config{ServerName: h, InsecureSkipVerify: true}).Handshake()
			_ = c.Close()
			lbl, ok := int64(0), false
			if herr != nil && strings.Contains(herr.Error(), "first record does not look like a TLS handshake") {
				// the labelled backend answered in clear text: it was reached
				lbl, ok = waitHit()
			} else {
				select {
				case lbl = <-hits:
					ok = true
				default:
				}
			}
			dist["shared-port clienthello"]++
			ops = append(ops, fmt.Sprintf("OVhost false %s [] [] %s", hx.HxS(h), optZ(lbl, ok)))
			return nil
		}
		for i := 0; i < nreq/2; i++ {
			h, _, _ := reqFor(g, liveOf(httpsRoutes), reqHosts)
			for h == "" || strings.HasPrefix(h, ".") || strings.Contains(h, "..") || strings.Contains(h, "*") || h[0] >= '0' && h[0] <= '9' {
				h = g.Pick(reqHosts)
			}
			if g.Chance(0.2) {
				h = strings.ToUpper(h)
			}
			if err := hello(h); err != nil {
				return nil, err
			}
		}
		// a SECOND session asks for an https host that is already owned (real HTTPSProxy.Run): it must be
		// refused, the owner's route must keep receiving ClientHellos, and a retry must be refused again
		if len(httpsRoutes) > 0 {
			peer, lresp, err := srv.Login(hx.LoginOpts{RunID: "c06-second-session"})
			if err != nil || peer == nil {
				return nil, fmt.Errorf("second session login: %v %v", err, lresp)
			}
			defer peer.Close()
			t := httpsRoutes[g.Intn(len(httpsRoutes))].t
			target := t.d
			switch {
			case t.d == "*":
				target = "any.example.net"
			case strings.HasPrefix(t.d, "*."):
				target = "dup" + t.d[1:]
			}
			for attempt := int64(0); attempt < 2; attempt++ {
				dom := t.d
				if g.Chance(0.4) {
					dom = strings.ToUpper(dom)
				}
				r, err := peer.NewProxy(&msg.NewProxy{ProxyName: "c06-dup-https", ProxyType: "https", CustomDomains: []string{dom}})
				if err != nil {
					return nil, fmt.Errorf("second session NewProxy: %v", err)
				}
				dist["https host asked for by a second session"]++
				ops = append(ops, fmt.Sprintf("OAdd %s [] [] %d %s", hx.HxS(dom), 900+attempt, hx.Bool(r.Error == "")))
				for k := 0; k < 2; k++ {
					if err := hello(target); err != nil {
						return nil, err
					}
				}
			}
		}
		cases = append(cases, "CRouter 2 "+hx.List(ops))
	}
	// --- CONNECT on the tcpmux port ---
	{
		ops := addOps(muxRoutes)
		maddr := net.JoinHostPort(addr, strconv.Itoa(srv.Cfg.TCPMuxHTTPConnectPort))
		for i := 0; i < nreq/2; i++ {
			h, _, u := reqFor(g, liveOf(muxRoutes), reqHosts)
			if h == "" || strings.Contains(h, "*") || strings.HasPrefix(h, ".") || strings.Contains(h, "..") {
				h = "a.example.com"
			}
			h += g.Pick([]string{":443", ".:443", "", ":80"})
			drain()
			c, err := net.DialTimeout("tcp", maddr, 2*time.Second)
			if err != nil {
				return nil, err
			}
			_ = c.SetDeadline(time.Now().Add(3 * time.Second))
			req := "CONNECT " + h + " HTTP/1.1\r\nHost: " + h + "\r\n"
			if u != "" {
				req += "Proxy-Authorization: Basic " + base64.StdEncoding.EncodeToString([]byte(u+":pw")) + "\r\n"
			}
			_, _ = c.Write([]byte(req + "\r\n"))
			br := bufio.NewReader(c)
			status, err := br.ReadString('\n')
			lbl, ok := int64(0), false
			if err == nil && strings.Contains(status, " 200 ") {
				for {
					line, err := br.ReadString('\n')
					if err != nil {
						break
					}
					if strings.HasPrefix(line, "L") {
						lbl, _ = strconv.ParseInt(strings.TrimSpace(line[1:]), 10, 64)
						ok = true
						break
					}
				}
				if !ok {
					_ = c.Close()
					return nil, fmt.Errorf("CONNECT %s: 200 but no backend label", h)
				}
			} else if err != nil || !strings.Contains(status, " 404 ") {
				_ = c.Close()
				return nil, fmt.Errorf("CONNECT %s: unexpected answer %q %v", h, status, err)
			}
			_ = c.Close()
			dist["shared-port connect"]++
			ops = append(ops, fmt.Sprintf("OVhost true %s [] %s %s", hx.HxS(h), hx.HxS(u), optZ(lbl, ok)))
		}
		cases = append(cases, "CRouter 3 "+hx.List(ops))
	}
	return cases, nil
}

var sysMu sync.Mutex

func runSharedPort(cfg *hx.RunCfg) error {
	hx.Quiet()
	g := hx.NewGen(cfg.Seed)
	cf := &hx.CaseFile{
		Imports: "From FRP Require Import Corr.C06.\n",
		Typ:     "case",
		Tail: "Definition M := Eval vm_compute in mismatches check_case cases.\nPrint M.\n" +
			"Definition NSYSREFUSED := Eval vm_compute in sum_cases (router_counter 1) cases.\nPrint NSYSREFUSED.\n" +
			"Definition NSYSEXACT := Eval vm_compute in sum_cases (router_counter 2) cases.\nPrint NSYSEXACT.\n" +
			"Definition NSYSWILDCARD := Eval vm_compute in sum_cases (router_counter 3) cases.\nPrint NSYSWILDCARD.\n" +
			"Definition NSYSVIOL := Eval vm_compute in count_if (fun c => negb (C06_holds c)) cases.\nPrint NSYSVIOL.\n",
	}
	dist := map[string]int{}
	var samples []any
	for i := 0; i < cfg.N; i++ {
		cs, err := sharedPortWorld(g, dist, 16)
		if err != nil {
			return fmt.Errorf("world %d: %v", i, err)
		}
		cf.Cases = append(cf.Cases, cs...)
		if i == 0 {
			samples = append(samples, cs[0])
		}
	}
	cfg.St["cases"] = len(cf.Cases)
	cfg.St["distinct_nontrivial"] = len(cf.Cases)
	cfg.St["samples"] = samples
	cfg.St["distribution"] = dist
	cfg.St["impl_failures"] = []any{}
	return cf.Write(cfg.Out)
}
