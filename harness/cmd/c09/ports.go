package main

// Driver "ports" (C09): histories of Acquire/Release on the real exported ports.Manager over a
// private loopback range, with a squatter that binds ports from outside to drive the OS probe.
// After every operation the manager's three tables (verif accessor) and the OS (bind scan) are
// observed; the Coq side replays the history on Model/Ports.v.

import (
	"errors"
	"fmt"
	"sort"
	"strings"

	"github.com/fatedier/frp/pkg/config/types"
	"github.com/fatedier/frp/server/ports"

	"verifharness/hx"
)

func init() { drivers["ports"] = runPorts }

type rangeCfg struct {
	name   string
	ranges []types.PortsRange
}

func portCfgs(g *hx.Gen) rangeCfg {
	B := basePort
	k := 2 + g.Intn(8)
	switch g.Intn(11) {
	case 10:
		// ports that can never be bound are dropped by NewManager: 0, negative, above 65535
		return rangeCfg{"unbindable-dropped", []types.PortsRange{{Single: 70000}, {Start: B, End: B + 3}, {Start: -3, End: 0}, {Start: 65536, End: 65540}}}
	case 0, 1, 2, 3:
		return rangeCfg{"range", []types.PortsRange{{Start: B, End: B + k}}}
	case 4:
		return rangeCfg{"singles+range", []types.PortsRange{{Single: B}, {Single: B + 2}, {Start: B + 4, End: B + 6}}}
	case 5:
		return rangeCfg{"overlap", []types.PortsRange{{Start: B, End: B + 3}, {Start: B + 2, End: B + 5}, {Single: B + 3}}}
	case 6:
		return rangeCfg{"single-wins", []types.PortsRange{{Start: B, End: B + 5, Single: B + 8}, {Single: B + 1}}}
	case 7:
		return rangeCfg{"zero-allowed", []types.PortsRange{{}, {Single: B}, {Single: B + 1}}}
	case 8:
		return rangeCfg{"empty", []types.PortsRange{{Start: B + 5, End: B}}}
	default:
		return rangeCfg{"big", []types.PortsRange{{Start: B, End: B + 11}}}
	}
}

func coqRanges(rs []types.PortsRange) string {
	s := []string{}
	for _, r := range rs {
		s = append(s, fmt.Sprintf("(%s, %s, %s)", hx.Z(int64(r.Start)), hx.Z(int64(r.End)), hx.Z(int64(r.Single))))
	}
	return hx.List(s)
}

type pmSnap struct {
	free []int
	used map[int]string
	res  map[string]int
}

func takeSnap(m *ports.Manager) pmSnap {
	f, u, r := m.VerifSnapshot()
	return pmSnap{f, u, r}
}

func (s pmSnap) coq() string {
	us := []string{}
	ps := []int{}
	for p := range s.used {
		ps = append(ps, p)
	}
	sort.Ints(ps)
	for _, p := range ps {
		us = append(us, fmt.Sprintf("(%s, %s)", hx.Z(int64(p)), hx.Str(s.used[p])))
	}
	rs := []string{}
	ns := []string{}
	for n := range s.res {
		ns = append(ns, n)
	}
	sort.Strings(ns)
	for _, n := range ns {
		rs = append(rs, fmt.Sprintf("(%s, %s)", hx.Str(n), hx.Z(int64(s.res[n]))))
	}
	return fmt.Sprintf("(%s, %s, %s)", zlist(s.free), hx.List(us), hx.List(rs))
}

func (s pmSnap) allPorts() []int {
	r := append([]int{}, s.free...)
	for p := range s.used {
		r = append(r, p)
	}
	sort.Ints(r)
	return r
}

func acqCode(port int, err error) int {
	switch {
	case err == nil:
		return port
	case errors.Is(err, ports.ErrPortAlreadyUsed):
		return -1
	case errors.Is(err, ports.ErrPortNotAllowed):
		return -2
	case errors.Is(err, ports.ErrPortUnAvailable):
		return -3
	case errors.Is(err, ports.ErrNoAvailablePort):
		return -4
	}
	return -99
}

func runPorts(cfg *hx.RunCfg) error {
	g := hx.NewGen(cfg.Seed*7919 + 11)
	cf := &hx.CaseFile{Imports: coqImports, Typ: "case"}
	dist := map[string]int{}
	failures := []map[string]string{}
	seen := map[string]bool{}
	nontrivial := 0
	samples := []string{}
	names := []string{"n0", "n1", "n2", "web.ssh"}

	// default configuration (too large to replay in Coq; its shape is proved: C09_default_allowed_is_1_65535)
	{
		m := ports.NewManager("tcp", loopA, nil)
		s := takeSnap(m)
		if len(s.free) != 65535 || s.free[0] != 1 || s.free[len(s.free)-1] != 65535 {
			failures = append(failures, map[string]string{"key": "default-range", "what": "NewManager(nil) does not seed 1..65535", "case": fmt.Sprint(len(s.free))})
		}
		for _, bad := range []int{-1, 65536, 70000} {
			if _, err := m.Acquire("x", bad); !errors.Is(err, ports.ErrPortNotAllowed) {
				failures = append(failures, map[string]string{"key": "default-range-refusal", "what": "out-of-range port not refused under the default configuration", "case": fmt.Sprint(bad, err)})
			}
		}
	}

	for ci := 0; ci < cfg.N; ci++ {
		proto := "tcp"
		if g.Chance(0.3) {
			proto = "udp"
		}
		rc := portCfgs(g)
		dist["cfg:"+rc.name]++
		dist["proto:"+proto]++
		m := ports.NewManager(proto, loopA, rc.ranges)
		sq := newSquatter(proto, loopA)
		init := takeSnap(m)
		allowed := init.allPorts()
		steps := []string{}
		nops := 6 + g.Intn(22)
		okAcq := 0
		for oi := 0; oi < nops; oi++ {
			before := takeSnap(m)
			usedPorts := []int{}
			for p := range before.used {
				usedPorts = append(usedPorts, p)
			}
			sort.Ints(usedPorts)
			// squatter activity between operations
			if g.Chance(0.35) && len(allowed) > 0 {
				p := allowed[g.Intn(len(allowed))]
				if p > 0 {
					if _, held := sq.held[p]; held && g.Chance(0.5) {
						sq.unsquat(p)
					} else {
						sq.squat(p)
					}
				}
			}
			if g.Chance(0.05) && len(allowed) > 0 { // squat nearly everything: drives ErrNoAvailablePort
				for _, p := range allowed {
					if p > 0 && g.Chance(0.9) {
						sq.squat(p)
					}
				}
			}
			if g.Chance(0.05) {
				sq.closeAll()
			}
			var op string
			if g.Chance(0.68) {
				name := names[g.Intn(len(names))]
				var port int
				switch x := g.Intn(20); {
				case x < 9:
					port = 0
				case x < 13 && len(allowed) > 0:
					port = allowed[g.Intn(len(allowed))]
				case x < 15 && len(usedPorts) > 0:
					port = usedPorts[g.Intn(len(usedPorts))]
				case x < 16:
					port = basePort + 50
				case x < 17:
					port = -1
				case x < 18:
					port = 65536
				case x < 19:
					port = 70000
				default:
					port = basePort + g.Intn(12)
				}
				busy := sq.ports()
				rp, err := m.Acquire(name, port)
				code := acqCode(rp, err)
				after := takeSnap(m)
				choice := "None"
				if err == nil {
					choice = fmt.Sprintf("(Some %s)", hx.Z(int64(rp)))
					okAcq++
				} else if code == -4 {
					if _, was := before.used[0]; !was {
						if _, now := after.used[0]; now {
							choice = "(Some 0)"
						}
					}
				}
				dist[fmt.Sprintf("acq:%s", map[bool]string{true: "ok", false: fmt.Sprint(code)}[err == nil])]++
				op = fmt.Sprintf("(MAcq %s %s %s %s %s, %s)", hx.Str(name), hx.Z(int64(port)), zlist(busy), hx.Z(int64(code)), choice, after.coq())
			} else {
				var port int
				if len(usedPorts) > 0 && g.Chance(0.75) {
					port = usedPorts[g.Intn(len(usedPorts))]
				} else {
					port = []int{0, -1, basePort + g.Intn(12), 70000}[g.Intn(4)]
				}
				m.Release(port)
				dist["release"]++
				op = fmt.Sprintf("(MRel %s, %s)", hx.Z(int64(port)), takeSnap(m).coq())
			}
			steps = append(steps, op)
			// the manager itself must not keep any socket: the OS view is exactly the squatter's
			if busy := osBusy(proto, loopA, allowed); !sameInts(busy, sq.ports()) {
				failures = append(failures, map[string]string{"key": "manager-holds-socket",
					"what": "after an Acquire/Release the OS reports ports bound that only the manager can hold",
					"case": fmt.Sprintf("busy=%v squatted=%v steps=%s", busy, sq.ports(), strings.Join(steps, "; "))})
			}
		}
		sq.closeAll()
		c := fmt.Sprintf("CPorts %s %s %s", coqRanges(rc.ranges), init.coq(), hx.List(steps))
		cf.Cases = append(cf.Cases, c)
		if !seen[c] {
			seen[c] = true
			if okAcq > 0 {
				nontrivial++
			}
		}
		if len(samples) < 3 {
			samples = append(samples, c)
		}
	}
	cf.Tail = coqTail(map[string]int{"NB_RESERVED": 1, "NB_RANDOM_OK": 2, "NB_RANDOM_NONE": 3, "NB_SPEC_OK": 4, "NB_UNAVAIL": 5,
		"NB_USED": 6, "NB_NOTALLOWED": 7, "NB_PORT0": 8, "NB_RESERVED_OWNED": 9, "NB_RELEASE": 10, "NB_RELEASE_NOOP": 11})
	cfg.St["cases"] = len(cf.Cases)
	cfg.St["distinct_nontrivial"] = nontrivial
	cfg.St["samples"] = samples
	cfg.St["distribution"] = dist
	cfg.St["impl_failures"] = failures
	return cf.Write(cfg.Out)
}
