(* C15 correspondence: the real plugin Manager (Go-value plugins and real HTTP plugins behind
   NewHTTPPluginOptions), the real handlers of frps, against Model/PluginChain.v evaluated over
   today's translated tables (gen/GenPlugin.v). *)
From FRP Require Export Corr.Common Model.PluginChain Proofs.PluginChainProofs gen.GenPlugin.
Import PC.
Open Scope Z_scope.

(* how a stub was scripted: the raw Handle triple (Go-value plugin) or the HTTP behaviour *)
Inductive sc :=
| ScRaw (h : hret)
| ScHttp (tr : transport) (status : Z) (b : body).

(* observed result of the manager call: 0 ok (payload = returned content), 1 rejected (payload =
   reason), 2 the generic plugin error, 3 panic *)
Inductive case :=
| CMgr (level : Z) (opi : Z) (ps : list plugin) (script : list (Z * sc)) (blind : list Z) (zero c0 : bytes)
       (kind : Z) (payload : bytes) (seen : list (Z * string * bytes))
  (* blind: plugins whose address nobody listens on (connection refused): consulted according to
     the model, but there is no stub that could record the request *)
  (* system level: one gated operation through a frps started from a CONFIGURATION FILE with the
     httpPlugins entries [es] (name, ops) in that order (config.LoadServerConfig incl. Complete,
     validation, server.NewService); the stub behind the i-th entry is plugin i.  effects: for every content the
     chain may return, what the peer must observe if the server acts on exactly that content
     ("fail" when the gated action itself refuses it); observed: what the peer did observe *)
| CSys (opi : Z) (es : list cfg_entry) (script : list (Z * sc)) (zero c0 : bytes)
       (effects : list (bytes * bytes)) (observed : bytes) (seen : list (Z * string * bytes))
  (* close notifications of one session: events, then names notified (in arrival order per plugin) *)
| CNotify (ops : list cop) (notes : list bytes).

Definition op_of (i : Z) : option op := nth_error all_ops (Z.to_nat i).

Fixpoint sc_assoc (i : Z) (l : list (Z * sc)) : option sc :=
  match l with [] => None | (k, v) :: r => if i =? k then Some v else sc_assoc i r end.

Definition script_fn (zero : bytes) (l : list (Z * sc)) (i : Z) : hret :=
  match sc_assoc i l with
  | Some (ScRaw h) => h
  | Some (ScHttp tr st b) => http_handle zero tr st b
  | None => HErr ETransport
  end.

Definition consult_eqb (a : consult) (b : Z * string * bytes) : bool :=
  let '(i, v, c) := a in let '(i', v', c') := b in
  (i =? i') && String.eqb v v' && bytes_eqb c c'.

Fixpoint seen_eqb (a : list consult) (b : list (Z * string * bytes)) : bool :=
  match a, b with
  | [], [] => true
  | x :: a', y :: b' => consult_eqb x y && seen_eqb a' b'
  | _, _ => false
  end.

Definition result_code (r : result) : Z :=
  match r with ROk _ => 0 | RRejected _ => 1 | RError => 2 | RCrash => 3 | RStuck => 4 end.
Definition result_payload (r : result) : bytes :=
  match r with ROk c => c | RRejected x => x | _ => [] end.

Definition result_eqb (a b : result) : bool :=
  (result_code a =? result_code b) && bytes_eqb (result_payload a) (result_payload b).

Fixpoint bsort_insert (x : bytes) (l : list bytes) : list bytes :=
  match l with [] => [x] | y :: r => if bytes_ltb y x then y :: bsort_insert x r else x :: l end.
Definition bsort (l : list bytes) : list bytes := fold_right bsort_insert [] l.
Fixpoint blist_eqb (a b : list bytes) : bool :=
  match a, b with
  | [], [] => true
  | x :: a', y :: b' => bytes_eqb x y && blist_eqb a' b'
  | _, _ => false
  end.

Fixpoint bassoc (k : bytes) (l : list (bytes * bytes)) : option bytes :=
  match l with [] => None | (a, b) :: r => if bytes_eqb k a then Some b else bassoc k r end.
Definition fail_marker : bytes := hx "6661696c".   (* "fail" *)

(* 0 = agrees; otherwise a reason code *)
Definition check_case (c : case) : Z :=
  match c with
  | CMgr level opi ps script blind zero c0 kind payload seen =>
      match op_of opi with
      | None => 90
      | Some o =>
          let f := script_fn zero script in
          (* the implementation against the chain specification ... *)
          let '(r', s') := spec_sem o ps f c0 in
          if negb (result_code r' =? kind) then 1
          else if negb (bytes_eqb (result_payload r') payload) then 2
          else if negb (seen_eqb (filter (fun x : consult => negb (existsb (Z.eqb (fst (fst x))) blind)) s') seen) then 3
          else
            (* ... and the interpreter over today's translated tables against the same specification *)
            let '(r, s) := ir_sem gen_ops gen_fields gen_register gen_methods o ps f c0 in
            if negb (result_eqb r r' && seen_eqb s s') then 9 else 0
      end
  | CSys opi es script zero c0 effects observed seen =>
      match op_of opi with
      | None => 90
      | Some o =>
          let f := script_fn zero script in
          let '(r, s) := spec_sem o (number_from 1 es) f c0 in
          if negb (seen_eqb s seen) then 13
          else
            let code := match r with
                        | ROk c' =>
                            match bassoc c' effects with
                            | Some e => if bytes_eqb e observed then 0 else 12
                            | None => 17
                            end
                        | RRejected _ | RError => if bytes_eqb observed fail_marker then 0 else 14
                        | RCrash => 15
                        | RStuck => 16
                        end in
            if negb (code =? 0) then code
            else
              (* the path configuration -> chain over today's translated tables, same specification *)
              let '(r2, s2) := cfg_sem gen_cfg_uses gen_ops gen_fields gen_register gen_methods o es f c0 in
              if result_eqb r2 r && seen_eqb s2 s then 0 else 19
      end
  | CNotify ops notes =>
      match crun cs_init ops with
      | None => 21
      | Some s =>
          (* notifications are sent from goroutines: compared as multisets *)
          if blist_eqb (bsort (cs_notes s)) (bsort notes) then 0 else 22
      end
  end.

(* counters for the evidence *)
Definition case_result (c : case) : Z :=
  match c with
  | CMgr _ opi ps script _ zero c0 _ _ _ =>
      match op_of opi with
      | Some o => result_code (fst (ir_sem gen_ops gen_fields gen_register gen_methods o ps (script_fn zero script) c0))
      | None => 99
      end
  | CSys opi es script zero c0 _ _ _ =>
      match op_of opi with
      | Some o => result_code (fst (cfg_sem gen_cfg_uses gen_ops gen_fields gen_register gen_methods o es (script_fn zero script) c0))
      | None => 99
      end
  | CNotify _ _ => 98
  end.
Definition n_consulted (c : case) : Z :=
  match c with
  | CMgr _ _ _ _ _ _ _ _ _ seen | CSys _ _ _ _ _ _ _ seen => Z.of_nat (length seen)
  | CNotify _ notes => Z.of_nat (length notes)
  end.
Definition threaded (c : case) : bool :=
  (* some consulted plugin was shown a content different from the original one *)
  match c with
  | CMgr _ _ _ _ _ _ c0 _ _ seen | CSys _ _ _ _ c0 _ _ seen =>
      existsb (fun x : Z * string * bytes => negb (bytes_eqb (snd x) c0)) seen
  | CNotify _ _ => false
  end.
Definition is_level (l : Z) (c : case) : bool :=
  match c with CMgr l' _ _ _ _ _ _ _ _ _ => l =? l' | _ => false end.
Definition is_sys (c : case) : bool := match c with CSys _ _ _ _ _ _ _ _ => true | _ => false end.
Definition is_notify (c : case) : bool := match c with CNotify _ _ => true | _ => false end.
Definition has_blind (c : case) : bool :=
  match c with CMgr _ _ _ _ (_ :: _) _ _ _ _ _ => true | _ => false end.
Fixpoint has_dup_str (l : list string) : bool :=
  match l with [] => false | x :: r => existsb (String.eqb x) r || has_dup_str r end.
(* system-level configurations in which two entries share a name (the empty name included) *)
Definition dup_names (c : case) : bool :=
  match c with CSys _ es _ _ _ _ _ _ => has_dup_str (map fst es) | _ => false end.
