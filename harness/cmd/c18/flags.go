package main

// Part (e) of driver "config": the same logical configuration given through the real cobra flag
// sets and through a configuration file.  The commands are constructed in-process exactly as
// cmd/frpc/sub (init) and cmd/frps (root) construct them, arguments are parsed with
// cmd.ParseFlags, then the steps the commands' Run functions perform before starting the service
// are applied (Complete, type tag).  Nothing is executed.

import (
	"fmt"
	"os"
	"path/filepath"
	"reflect"
	"sort"
	"strconv"
	"strings"

	"github.com/spf13/cobra"

	"github.com/fatedier/frp/cmd/frpc/sub"
	"github.com/fatedier/frp/pkg/config"
	"github.com/fatedier/frp/pkg/config/types"
	v1 "github.com/fatedier/frp/pkg/config/v1"

	"verifharness/hx"
)

// values that survive pflag's CSV parsing of slices and maps
var csvSafe = []string{"a", "alice", "bob", "ünï", "x-1", "v 1", "日本", "/api", "a.frps.com", "A.Example.ORG", "*"}

type argList struct {
	g    *gen
	args []string
}

// name spelling: flags are registered with '_' and normalised to '-', both spellings must work
func (a *argList) name(n, short string) string {
	if short != "" && a.g.chance(0.3) {
		return "-" + short
	}
	if a.g.chance(0.5) {
		return "--" + strings.ReplaceAll(n, "_", "-")
	}
	return "--" + n
}
func (a *argList) str(n, short, v string) {
	f := a.name(n, short)
	if strings.HasPrefix(f, "--") && a.g.chance(0.5) {
		a.args = append(a.args, f+"="+v)
	} else {
		a.args = append(a.args, f, v)
	}
}
func (a *argList) boolean(n string, v bool) {
	f := a.name(n, "")
	switch {
	case v && a.g.chance(0.5):
		a.args = append(a.args, f)
	default:
		a.args = append(a.args, f+"="+strconv.FormatBool(v))
	}
}
func (a *argList) slice(n, short string, vs []string) {
	if a.g.chance(0.5) {
		a.str(n, short, strings.Join(vs, ","))
		return
	}
	for _, v := range vs {
		a.str(n, short, v)
	}
}
func (a *argList) kvs(n string, m map[string]string) {
	keys := make([]string, 0, len(m))
	for k := range m {
		keys = append(keys, k)
	}
	sort.Strings(keys)
	items := []string{}
	for _, k := range keys {
		items = append(items, k+"="+m[k])
	}
	a.slice(n, "", items)
}

func (g *gen) safeStrs(pool []string) []string {
	if g.chance(0.4) {
		return nil
	}
	var s []string
	for i := 0; i < 1+g.intn(3); i++ {
		s = append(s, g.pick(pool))
	}
	return s
}

func (g *gen) safeMap() map[string]string {
	if g.chance(0.5) {
		return nil
	}
	m := map[string]string{}
	for i := 0; i < 1+g.intn(2); i++ {
		m[g.pick([]string{"k", "frp.io/a", "key-2"})] = g.pick(csvSafe)
	}
	return m
}

// a proxy restricted to the settings that have a flag; returns the logical value, the flags, the tree
func (g *gen) flagProxy(typ string) (v1.ProxyConfigurer, []string, obj) {
	c := v1.NewProxyConfigurerByType(v1.ProxyType(typ))
	b := c.GetBaseConfig()
	a := &argList{g: g}
	o := obj{}
	set := func() bool { return g.chance(0.7) }
	b.Name = g.pick(nameStrings)
	a.str("proxy_name", "n", b.Name)
	o = append(o, kv{"name", b.Name}, kv{"type", typ})
	if m := g.safeMap(); m != nil {
		b.Metadatas = m
		a.kvs("metadatas", m)
		o = append(o, kv{"metadatas", mapObj(m)})
	}
	if m := g.safeMap(); m != nil {
		b.Annotations = m
		a.kvs("annotations", m)
		o = append(o, kv{"annotations", mapObj(m)})
	}
	if set() {
		b.LocalIP = g.pick([]string{"127.0.0.1", "10.0.0.5", "::1", "host.local", ""})
		a.str("local_ip", "i", b.LocalIP)
		if b.LocalIP != "" {
			o = append(o, kv{"localIP", b.LocalIP})
		}
	}
	if set() {
		b.LocalPort = int(g.pickInt([]int64{0, 22, 8080, 65535, -1, 70000}))
		a.str("local_port", "l", strconv.Itoa(b.LocalPort))
		if b.LocalPort != 0 {
			o = append(o, kv{"localPort", int64(b.LocalPort)})
		}
	}
	tr := obj{}
	if set() {
		b.Transport.UseEncryption = g.chance(0.6)
		a.boolean("ue", b.Transport.UseEncryption)
		if b.Transport.UseEncryption {
			tr = append(tr, kv{"useEncryption", true})
		}
	}
	if set() {
		b.Transport.UseCompression = g.chance(0.6)
		a.boolean("uc", b.Transport.UseCompression)
		if b.Transport.UseCompression {
			tr = append(tr, kv{"useCompression", true})
		}
	}
	if set() {
		lit := g.pick([]string{"1MB", "100KB", " 2MB ", "0.5MB", "", "1e3KB"})
		q, _ := types.NewBandwidthQuantity(lit)
		b.Transport.BandwidthLimit = q
		a.str("bandwidth_limit", "", lit)
		if lit != "" {
			tr = append(tr, kv{"bandwidthLimit", lit})
		}
	}
	if set() {
		b.Transport.BandwidthLimitMode = g.pick([]string{"client", "server", "", "x"})
		a.str("bandwidth_limit_mode", "", b.Transport.BandwidthLimitMode)
		if b.Transport.BandwidthLimitMode != "" {
			tr = append(tr, kv{"bandwidthLimitMode", b.Transport.BandwidthLimitMode})
		}
	}
	if len(tr) > 0 {
		o = append(o, kv{"transport", tr})
	}
	strOpt := func(dst *string, flag, key string, pool []string) {
		if set() {
			*dst = g.pick(pool)
			a.str(flag, "", *dst)
			if *dst != "" {
				o = append(o, kv{key, *dst})
			}
		}
	}
	sliceOpt := func(dst *[]string, flag, short, key string, pool []string) {
		if vs := g.safeStrs(pool); vs != nil {
			*dst = vs
			a.slice(flag, short, vs)
			o = append(o, kv{key, vs})
		}
	}
	dom := func(d *v1.DomainConfig) {
		sliceOpt(&d.CustomDomains, "custom_domain", "d", "customDomains", []string{"a.frps.com", "A.Example.ORG", "x.y", "日本.example"})
		strOpt(&d.SubDomain, "sd", "subdomain", subdomainStrings)
	}
	switch cc := c.(type) {
	case *v1.TCPProxyConfig:
		if set() {
			cc.RemotePort = int(g.pickInt(portValues))
			a.str("remote_port", "r", strconv.Itoa(cc.RemotePort))
			if cc.RemotePort != 0 {
				o = append(o, kv{"remotePort", int64(cc.RemotePort)})
			}
		}
	case *v1.UDPProxyConfig:
		if set() {
			cc.RemotePort = int(g.pickInt(portValues))
			a.str("remote_port", "r", strconv.Itoa(cc.RemotePort))
			if cc.RemotePort != 0 {
				o = append(o, kv{"remotePort", int64(cc.RemotePort)})
			}
		}
	case *v1.HTTPProxyConfig:
		dom(&cc.DomainConfig)
		sliceOpt(&cc.Locations, "locations", "", "locations", []string{"/", "/api", "/ünï"})
		strOpt(&cc.HTTPUser, "http_user", "httpUser", plainStrings)
		strOpt(&cc.HTTPPassword, "http_pwd", "httpPassword", plainStrings)
		strOpt(&cc.HostHeaderRewrite, "host_header_rewrite", "hostHeaderRewrite", plainStrings)
	case *v1.HTTPSProxyConfig:
		dom(&cc.DomainConfig)
	case *v1.TCPMuxProxyConfig:
		dom(&cc.DomainConfig)
		strOpt(&cc.Multiplexer, "mux", "multiplexer", []string{"httpconnect", "", "other"})
		strOpt(&cc.HTTPUser, "http_user", "httpUser", plainStrings)
		strOpt(&cc.HTTPPassword, "http_pwd", "httpPassword", plainStrings)
	case *v1.STCPProxyConfig:
		strOpt(&cc.Secretkey, "sk", "secretKey", plainStrings)
		sliceOpt(&cc.AllowUsers, "allow_users", "", "allowUsers", []string{"*", "alice", "bob", "ünï"})
	case *v1.XTCPProxyConfig:
		strOpt(&cc.Secretkey, "sk", "secretKey", plainStrings)
		sliceOpt(&cc.AllowUsers, "allow_users", "", "allowUsers", []string{"*", "alice", "bob", "ünï"})
	case *v1.SUDPProxyConfig:
		strOpt(&cc.Secretkey, "sk", "secretKey", plainStrings)
		sliceOpt(&cc.AllowUsers, "allow_users", "", "allowUsers", []string{"*", "alice", "bob", "ünï"})
	}
	return c, a.args, o
}

// the client settings that have a flag.  Every one of them is given explicitly on both sides: with a
// setting left out the two sides fall back to different defaults (see flagDefaults below).
func (g *gen) flagClient() (v1.ClientCommonConfig, []string, obj) {
	var c v1.ClientCommonConfig
	a := &argList{g: g}
	o := obj{}
	put := func(ob *obj, k string, v any, zero bool) {
		if !zero {
			*ob = append(*ob, kv{k, v})
		}
	}
	c.ServerAddr = g.pick([]string{"127.0.0.1", "frps.example.com", "::1", "0.0.0.0"})
	a.str("server_addr", "s", c.ServerAddr)
	put(&o, "serverAddr", c.ServerAddr, false)
	c.ServerPort = int(g.pickInt([]int64{7000, 1, 65535, 0}))
	a.str("server_port", "P", strconv.Itoa(c.ServerPort))
	put(&o, "serverPort", int64(c.ServerPort), c.ServerPort == 0)
	c.User = g.pick([]string{"", "user", "ünï"})
	a.str("user", "u", c.User)
	put(&o, "user", c.User, c.User == "")
	c.Auth.Token = g.pick([]string{"", "secret", `p"w\d`})
	a.str("token", "t", c.Auth.Token)
	if c.Auth.Token != "" {
		o = append(o, kv{"auth", obj{{"token", c.Auth.Token}}})
	}
	c.DNSServer = g.pick([]string{"", "8.8.8.8"})
	a.str("dns_server", "", c.DNSServer)
	put(&o, "dnsServer", c.DNSServer, c.DNSServer == "")
	lg := obj{}
	c.Log.Level = g.pick([]string{"info", "debug", "error", ""})
	a.str("log_level", "", c.Log.Level)
	put(&lg, "level", c.Log.Level, c.Log.Level == "")
	c.Log.To = g.pick([]string{"console", "/tmp/frpc.log", ""})
	a.str("log_file", "", c.Log.To)
	put(&lg, "to", c.Log.To, c.Log.To == "")
	c.Log.MaxDays = g.pickInt([]int64{3, 1, 30, 0})
	a.str("log_max_days", "", strconv.FormatInt(c.Log.MaxDays, 10))
	put(&lg, "maxDays", c.Log.MaxDays, c.Log.MaxDays == 0)
	c.Log.DisablePrintColor = g.chance(0.5)
	a.boolean("disable_log_color", c.Log.DisablePrintColor)
	put(&lg, "disablePrintColor", true, !c.Log.DisablePrintColor)
	if len(lg) > 0 {
		o = append(o, kv{"log", lg})
	}
	tr := obj{}
	c.Transport.Protocol = g.pick([]string{"tcp", "kcp", "quic", "websocket", ""})
	a.str("protocol", "p", c.Transport.Protocol)
	put(&tr, "protocol", c.Transport.Protocol, c.Transport.Protocol == "")
	tls := obj{}
	en := g.chance(0.5)
	c.Transport.TLS.Enable = &en
	a.boolean("tls_enable", en)
	tls = append(tls, kv{"enable", en})
	c.Transport.TLS.ServerName = g.pick([]string{"", "frps.example.com"})
	a.str("tls_server_name", "", c.Transport.TLS.ServerName)
	put(&tls, "serverName", c.Transport.TLS.ServerName, c.Transport.TLS.ServerName == "")
	tr = append(tr, kv{"tls", tls})
	o = append(o, kv{"transport", tr})
	return c, a.args, o
}

func (g *gen) flagVisitor(typ string) (v1.VisitorConfigurer, []string, obj) {
	vc := v1.NewVisitorConfigurerByType(v1.VisitorType(typ))
	b := vc.GetBaseConfig()
	a := &argList{g: g}
	b.Name = g.pick(nameStrings)
	a.str("visitor_name", "n", b.Name)
	o := obj{{"name", b.Name}, {"type", typ}}
	tr := obj{}
	if g.chance(0.7) {
		b.Transport.UseEncryption = g.chance(0.6)
		a.boolean("ue", b.Transport.UseEncryption)
		if b.Transport.UseEncryption {
			tr = append(tr, kv{"useEncryption", true})
		}
	}
	if g.chance(0.7) {
		b.Transport.UseCompression = g.chance(0.6)
		a.boolean("uc", b.Transport.UseCompression)
		if b.Transport.UseCompression {
			tr = append(tr, kv{"useCompression", true})
		}
	}
	if len(tr) > 0 {
		o = append(o, kv{"transport", tr})
	}
	opt := func(dst *string, flag, key string, pool []string) {
		if g.chance(0.7) {
			*dst = g.pick(pool)
			a.str(flag, "", *dst)
			if *dst != "" {
				o = append(o, kv{key, *dst})
			}
		}
	}
	opt(&b.SecretKey, "sk", "secretKey", plainStrings)
	opt(&b.ServerName, "server_name", "serverName", nameStrings)
	opt(&b.ServerUser, "server-user", "serverUser", []string{"", "other", "ünï"})
	opt(&b.BindAddr, "bind_addr", "bindAddr", addrs0)
	if g.chance(0.7) {
		b.BindPort = int(g.pickInt([]int64{0, 9000, -1, 65535}))
		a.str("bind_port", "", strconv.Itoa(b.BindPort))
		if b.BindPort != 0 {
			o = append(o, kv{"bindPort", int64(b.BindPort)})
		}
	}
	return vc, a.args, o
}

// server: every flagged setting given explicitly on both sides (dashboard TLS flags apart, see below)
func (g *gen) flagServer() ([]string, obj) {
	a := &argList{g: g}
	o := obj{}
	s := func(ob *obj, flag, short, key string, pool []string) {
		v := g.pick(pool)
		a.str(flag, short, v)
		if v != "" {
			*ob = append(*ob, kv{key, v})
		}
	}
	n := func(ob *obj, flag, short, key string, pool []int64) {
		v := g.pickInt(pool)
		a.str(flag, short, strconv.FormatInt(v, 10))
		if v != 0 {
			*ob = append(*ob, kv{key, v})
		}
	}
	bl := func(ob *obj, flag, key string) {
		v := g.chance(0.5)
		a.boolean(flag, v)
		if v {
			*ob = append(*ob, kv{key, true})
		}
	}
	s(&o, "bind_addr", "", "bindAddr", []string{"0.0.0.0", "127.0.0.1", "::", "10.1.2.3"})
	n(&o, "bind_port", "p", "bindPort", []int64{7000, 1, 65535, 0})
	n(&o, "kcp_bind_port", "", "kcpBindPort", ports0)
	n(&o, "quic_bind_port", "", "quicBindPort", ports0)
	s(&o, "proxy_bind_addr", "", "proxyBindAddr", []string{"0.0.0.0", "127.0.0.1", "10.1.2.3"})
	n(&o, "vhost_http_port", "", "vhostHTTPPort", ports0)
	n(&o, "vhost_https_port", "", "vhostHTTPSPort", ports0)
	n(&o, "vhost_http_timeout", "", "vhostHTTPTimeout", []int64{60, 1, 0, 600})
	ws := obj{}
	s(&ws, "dashboard_addr", "", "addr", []string{"0.0.0.0", "127.0.0.1", "10.1.2.3"})
	n(&ws, "dashboard_port", "", "port", ports0)
	s(&ws, "dashboard_user", "", "user", []string{"admin", "ünï", ""})
	s(&ws, "dashboard_pwd", "", "password", []string{"admin", `p"w`, ""})
	// dashboard TLS: three flags on one side, the table webServer.tls on the other
	switch g.intn(3) {
	case 0:
		cert, key := g.pick([]string{"c.pem", "/etc/frp/ünï.crt", ""}), g.pick([]string{"k.pem", "./b.key", ""})
		a.str("dashboard_tls_cert_file", "", cert)
		a.str("dashboard_tls_key_file", "", key)
		a.str("dashboard_tls_mode", "", g.pick([]string{"true", "1", "t", "T", "TRUE", "True"}))
		tl := obj{}
		if cert != "" {
			tl = append(tl, kv{"certFile", cert})
		}
		if key != "" {
			tl = append(tl, kv{"keyFile", key})
		}
		ws = append(ws, kv{"tls", tl})
	case 1:
		// files named but the mode off: no TLS on either side
		a.str("dashboard_tls_cert_file", "", "c.pem")
		a.str("dashboard_tls_mode", "", g.pick([]string{"false", "0", "f", "F", "FALSE", "False"}))
	}
	if len(ws) > 0 {
		o = append(o, kv{"webServer", ws})
	}
	bl(&o, "enable_prometheus", "enablePrometheus")
	lg := obj{}
	s(&lg, "log_file", "", "to", []string{"console", "/tmp/frps.log", ""})
	s(&lg, "log_level", "", "level", []string{"info", "debug", ""})
	n(&lg, "log_max_days", "", "maxDays", []int64{3, 1, 0})
	bl(&lg, "disable_log_color", "disablePrintColor")
	if len(lg) > 0 {
		o = append(o, kv{"log", lg})
	}
	au := obj{}
	s(&au, "token", "t", "token", []string{"", "secret", "日本"})
	if len(au) > 0 {
		o = append(o, kv{"auth", au})
	}
	s(&o, "subdomain_host", "", "subDomainHost", hosts)
	n(&o, "max_ports_per_client", "", "maxPortsPerClient", []int64{0, 10})
	trl := obj{}
	bl(&trl, "tls_only", "force")
	if len(trl) > 0 {
		o = append(o, kv{"transport", obj{{"tls", trl}}})
	}
	if g.chance(0.6) {
		// allow_ports: the flag takes the textual form, the file the structured one
		parts := []string{}
		l := []obj{}
		for i := 0; i < 1+g.intn(3); i++ {
			if g.chance(0.5) {
				p := 1 + g.intn(65535)
				parts = append(parts, strconv.Itoa(p))
				l = append(l, obj{{"single", int64(p)}})
			} else {
				lo := 1 + g.intn(60000)
				hi := lo + g.intn(1000)
				parts = append(parts, strconv.Itoa(lo)+"-"+strconv.Itoa(hi))
				l = append(l, obj{{"start", int64(lo)}, {"end", int64(hi)}})
			}
		}
		a.str("allow_ports", "", strings.Join(parts, ","))
		o = append(o, kv{"allowPorts", l})
	}
	return a.args, o
}

func newClientProxyCmd(typ string) (*cobra.Command, v1.ProxyConfigurer, *v1.ClientCommonConfig) {
	// as cmd/frpc/sub/proxy.go init()
	c := v1.NewProxyConfigurerByType(v1.ProxyType(typ))
	clientCfg := &v1.ClientCommonConfig{}
	cmd := sub.NewProxyCommand(typ, c, clientCfg)
	config.RegisterClientCommonConfigFlags(cmd, clientCfg)
	config.RegisterProxyFlags(cmd, c)
	cmd.SetGlobalNormalizationFunc(config.WordSepNormalizeFunc)
	return cmd, c, clientCfg
}

func newServerCmd() (*cobra.Command, *v1.ServerConfig) {
	// as cmd/frps/root.go init() (package main there: the same two steps on a fresh command)
	sc := &v1.ServerConfig{}
	cmd := &cobra.Command{Use: "frps"}
	config.RegisterServerConfigFlags(cmd, sc)
	cmd.SetGlobalNormalizationFunc(config.WordSepNormalizeFunc)
	return cmd, sc
}

// settings whose flag default differs from the default the file path applies (Complete).  Observed
// at the pinned commit, reported to the lead; pinned here so that any OTHER divergence is an alarm.
var flagDefaultDivergence = map[string]string{
	"client.serverAddr":         `flag "127.0.0.1" / file "0.0.0.0"`,
	"server.webServer.addr":     `flag "0.0.0.0" / file "127.0.0.1"`,
	"server.webServer.user":     `flag "admin" / file ""`,
	"server.webServer.password": `flag "admin" / file ""`,
}

func (d *drv) runFlags(g *gen, n int, dir string) map[string]any {
	st := map[string]int{}
	writeLoad := func(tree obj) string {
		f := g.pick(formatNames)
		p := filepath.Join(dir, "flagdoc."+f)
		_ = os.WriteFile(p, render(tree)[f], 0o644)
		return p
	}
	for i := 0; i < n; i++ {
		// ---- frpc <type> ... : client flags + proxy flags on one command
		typ := g.pick(proxyTypes)
		wantP, pargs, ptree := g.flagProxy(typ)
		wantC, cargs, ctree := g.flagClient()
		args := append(append([]string{}, cargs...), pargs...)
		cmd, c, clientCfg := newClientProxyCmd(typ)
		if err := cmd.ParseFlags(args); err != nil {
			d.fail("flags-parse:proxy:"+typ, "the proxy sub-command rejects its own flags: "+err.Error(), strings.Join(args, " "))
			continue
		}
		// what Run does before starting the service
		clientCfg.Complete()
		c.Complete(clientCfg.User)
		c.GetBaseConfig().Type = typ
		st["proxy_commands"]++

		tree := append(deepCopy(ctree), kv{"proxies", []obj{ptree}})
		p := writeLoad(tree)
		fc, fps, _, _, err := config.LoadClientConfig(p, true)
		_ = os.Remove(p)
		if err != nil || len(fps) != 1 {
			d.fail("flags-file-load", fmt.Sprintf("the equivalent file is rejected: %v", err), string(render(tree)["toml"]))
			continue
		}
		if a, b := coqCfg(c), coqCfg(fps[0]); a != b {
			d.fail("flags-vs-file:proxy:"+typ+":"+firstDiffCfg(fps[0], c),
				"a proxy given by command-line flags differs from the same proxy loaded from a file",
				strings.Join(args, " ")+"\nflags "+a+"\nfile  "+b)
		}
		if a, b := coqOfAny(clientCfg), coqOfAny(fc); a != b {
			d.fail("flags-vs-file:client", "the client section given by command-line flags differs from the same section loaded from a file",
				strings.Join(args, " ")+"\n"+firstLineDiff(b, a))
		}
		// and both equal the logical configuration with defaults applied
		wc := wantC
		wc.Complete()
		wp := cloneProxy(wantP)
		wp.Complete(wc.User)
		if coqCfg(wp) != coqCfg(c) {
			d.fail("flags-vs-logical:proxy:"+typ+":"+firstDiffCfg(wp, c), "a proxy given by command-line flags differs from the logical configuration",
				strings.Join(args, " ")+"\nflags "+coqCfg(c)+"\nwant  "+coqCfg(wp))
		}

		// ---- frpc <type> visitor ...
		if i%2 == 0 {
			vt := g.pick(visitorTypeNames)
			_, vargs, vtree := g.flagVisitor(vt)
			vc := v1.NewVisitorConfigurerByType(v1.VisitorType(vt))
			parent, _, clientCfg2 := newClientProxyCmd(vt)
			vcmd := sub.NewVisitorCommand(vt, vc, clientCfg2)
			config.RegisterVisitorFlags(vcmd, vc)
			parent.AddCommand(vcmd)
			vall := append(append([]string{}, cargs...), vargs...)
			if err := vcmd.ParseFlags(vall); err != nil {
				d.fail("flags-parse:visitor:"+vt, "the visitor sub-command rejects its own flags (incl. the inherited client flags): "+err.Error(), strings.Join(vall, " "))
			} else {
				clientCfg2.Complete()
				vc.Complete(clientCfg2)
				vc.GetBaseConfig().Type = vt
				st["visitor_commands"]++
				vtreeAll := append(deepCopy(ctree), kv{"visitors", []obj{vtree}})
				p := writeLoad(vtreeAll)
				_, _, fvs, _, err := config.LoadClientConfig(p, true)
				_ = os.Remove(p)
				if err != nil || len(fvs) != 1 {
					d.fail("flags-file-load", fmt.Sprintf("the equivalent file is rejected: %v", err), string(render(vtreeAll)["toml"]))
				} else if a, b := coqVisitor(vc), coqVisitor(fvs[0]); a != b {
					d.fail("flags-vs-file:visitor:"+vt, "a visitor given by command-line flags differs from the same visitor loaded from a file",
						strings.Join(vall, " ")+"\nflags "+a+"\nfile  "+b)
				}
			}
		}

		// ---- frps ...
		if i%2 == 1 {
			sargs, stree := g.flagServer()
			scmd, sc := newServerCmd()
			if err := scmd.ParseFlags(sargs); err != nil {
				d.fail("flags-parse:server", "frps rejects its own flags: "+err.Error(), strings.Join(sargs, " "))
				continue
			}
			sc.Complete()
			st["server_commands"]++
			p := writeLoad(stree)
			fs, _, err := config.LoadServerConfig(p, true)
			_ = os.Remove(p)
			if err != nil {
				d.fail("flags-file-load", fmt.Sprintf("the equivalent server file is rejected: %v", err), string(render(stree)["toml"]))
				continue
			}
			if a, b := coqOfAny(sc), coqOfAny(fs); a != b {
				d.fail("flags-vs-file:server", "the server configuration given by command-line flags differs from the same configuration loaded from a file",
					strings.Join(sargs, " ")+"\n"+firstLineDiff(b, a))
			}
		}
	}

	// ---- defaults: nothing given on either side
	div := map[string]string{}
	{
		cmd, c, clientCfg := newClientProxyCmd("tcp")
		_ = cmd.ParseFlags([]string{"--proxy_name", "x"})
		clientCfg.Complete()
		c.Complete(clientCfg.User)
		c.GetBaseConfig().Type = "tcp"
		p := filepath.Join(dir, "defaults.toml")
		_ = os.WriteFile(p, []byte("[[proxies]]\nname = \"x\"\ntype = \"tcp\"\n"), 0o644)
		fc, fps, _, _, err := config.LoadClientConfig(p, true)
		_ = os.Remove(p)
		if err == nil && len(fps) == 1 {
			if coqCfg(c) != coqCfg(fps[0]) {
				div["client.proxy"] = firstDiffCfg(fps[0], c)
			}
			if clientCfg.ServerAddr != fc.ServerAddr {
				div["client.serverAddr"] = fmt.Sprintf("flag %q / file %q", clientCfg.ServerAddr, fc.ServerAddr)
			}
			a, b := *clientCfg, *fc
			a.ServerAddr, b.ServerAddr = "", ""
			if coqOfAny(&a) != coqOfAny(&b) {
				div["client.other"] = firstLineDiff(coqOfAny(&b), coqOfAny(&a))
			}
		} else {
			d.fail("flags-defaults-load", fmt.Sprintf("minimal file rejected: %v", err), "")
		}
		scmd, sc := newServerCmd()
		_ = scmd.ParseFlags(nil)
		sc.Complete()
		p = filepath.Join(dir, "defaults_s.toml")
		_ = os.WriteFile(p, []byte("# empty\n"), 0o644)
		fs, _, err := config.LoadServerConfig(p, true)
		_ = os.Remove(p)
		if err == nil {
			if sc.WebServer.Addr != fs.WebServer.Addr {
				div["server.webServer.addr"] = fmt.Sprintf("flag %q / file %q", sc.WebServer.Addr, fs.WebServer.Addr)
			}
			if sc.WebServer.User != fs.WebServer.User {
				div["server.webServer.user"] = fmt.Sprintf("flag %q / file %q", sc.WebServer.User, fs.WebServer.User)
			}
			if sc.WebServer.Password != fs.WebServer.Password {
				div["server.webServer.password"] = fmt.Sprintf("flag %q / file %q", sc.WebServer.Password, fs.WebServer.Password)
			}
			a, b := *sc, *fs
			a.WebServer.Addr, a.WebServer.User, a.WebServer.Password = "", "", ""
			b.WebServer.Addr, b.WebServer.User, b.WebServer.Password = "", "", ""
			if coqOfAny(&a) != coqOfAny(&b) {
				div["server.other"] = firstLineDiff(coqOfAny(&b), coqOfAny(&a))
			}
		} else {
			d.fail("flags-defaults-load", fmt.Sprintf("empty server file rejected: %v", err), "")
		}
		for k, v := range div {
			if flagDefaultDivergence[k] != v {
				d.fail("flags-default-differs:"+k, "with the setting left out, the flag path and the file path apply different defaults (not one of the recorded divergences)", k+": "+v)
			}
		}
	}

	// ---- the dashboard TLS flags (F-C18b, repaired): what --dashboard_tls_mode true does, for the evidence
	tlsObs := ""
	{
		scmd, sc := newServerCmd()
		err := scmd.ParseFlags([]string{"--dashboard_port", "7500", "--dashboard_tls_mode", "true", "--dashboard_tls_cert_file", "c.pem", "--dashboard_tls_key_file", "k.pem"})
		sc.Complete()
		switch {
		case err != nil:
			tlsObs = "parse error: " + err.Error()
		case sc.WebServer.TLS == nil:
			tlsObs = "ignored: webServer.tls stays nil with --dashboard_tls_mode true"
		default:
			tlsObs = fmt.Sprintf("applied: certFile=%q keyFile=%q", sc.WebServer.TLS.CertFile, sc.WebServer.TLS.KeyFile)
		}
		if !strings.HasPrefix(tlsObs, "applied: certFile=\"c.pem\" keyFile=\"k.pem\"") {
			d.fail("dashboard-tls-flag-ignored", "frps --dashboard_tls_mode true --dashboard_tls_cert_file c.pem --dashboard_tls_key_file k.pem does not yield the webServer.tls the file keys yield",
				tlsObs)
		}
	}
	out := map[string]any{"default_divergences": div, "dashboard_tls_mode_true": tlsObs}
	for k, v := range st {
		out[k] = v
	}
	return out
}

func firstDiffCfg(want, got v1.ProxyConfigurer) string {
	return firstDiff(reflect.ValueOf(want).Elem(), reflect.ValueOf(got).Elem(), "")
}

// the dashboard TLS flags as correspondence cases: what --dashboard_tls_mode=<arg> really does
func (d *drv) tlsFlagCases() []caseOut {
	var out []caseOut
	for i, arg := range []string{"true", "false", "1", "0", "TRUE", "True", "t", "T", "f", "F", "FALSE", "False", "x", "", "yes", "tRUE", " true"} {
		cert, key := []string{"c.pem", "", "/etc/ünï.crt"}[i%3], []string{"k.pem", "./b.key", ""}[i%3]
		scmd, sc := newServerCmd()
		err := scmd.ParseFlags([]string{"--dashboard_port", "7500", "--dashboard_tls_cert_file", cert, "--dashboard_tls_key_file", key, "--dashboard_tls_mode=" + arg})
		sc.Complete()
		tls := "None"
		if sc.WebServer.TLS != nil {
			tls = "(Some " + coqOfAny(sc.WebServer.TLS) + ")"
		}
		out = append(out, caseOut{fmt.Sprintf("CTlsFlag %s %s %s %s %s", hx.HxS(arg), hx.HxS(cert), hx.HxS(key), hx.Bool(err != nil), tls), "tlsflag"})
	}
	return out
}
