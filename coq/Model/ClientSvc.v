(* C19 — client/service.go + client/control.go: the reload path and the session life cycle around the
   two managers.  Model only.  Prefix sv_.

   Go                                                     model
   -----------------------------------------------------  ------------------------------------------
   Service.proxyCfgs / visitorCfgs (under cfgMu)          sv_pcfgs / sv_vcfgs
   Service.ctl: nil before the first login, then the      sv_ctl : SvNone | SvLive c | SvDead c
     current Control; a Control whose connection died       (a dead Control stays in svr.ctl until the next
     stays there until the next login replaces it           login closes and replaces it)
   Control.Run(p, v): pm.UpdateAll(p); vm.UpdateAll(v)    sv_ctl_run      (both, unconditionally)
   Control.UpdateAllConfigurer(p, v):                     sv_ctl_reload   (both, unconditionally;
     vm.UpdateAll(v); pm.UpdateAll(p)                       visitors first)
   Service.UpdateAllConfigurer(p, v): store under cfgMu;   SVReload p v ok — enabled in EVERY session state
     if svr.ctl != nil { ctl.UpdateAllConfigurer(p, v) }
   connection lost: Control.worker -> pm.Close, vm.Close  SVLost
   loopLoginUntilSuccess.loginFunc after a successful      SVLogin ok: reads sv_pcfgs / sv_vcfgs AT THAT MOMENT,
     login: read proxyCfgs/visitorCfgs under cfgMu,          fresh managers, Run, then the previous Control is
     NewControl, ctl.Run, close + replace previous ctl       closed and replaced
   visitor.Run() results                                   oracle ok : Z -> bool of the operation

   That Run / UpdateAllConfigurer call both managers unconditionally with their own parameters, and that
   the login closure reads the configured sets after svr.login() returned, is read from the source by
   the translator unit c19reload (gen/GenC19Reload.v) and checked reflectively (Proofs/C19ReloadCheck.v). *)
From Coq Require Import List ZArith Bool.
From FRP Require Import Model.Wrapper Model.Reconcile.
Import ListNotations.
Open Scope Z_scope.

Record sv_control := { sc_pm : pm_state; sc_vm : vm_state }.

Inductive sv_session := SvNone | SvLive (c : sv_control) | SvDead (c : sv_control).

Record sv_state := {
  sv_pcfgs : list rc_cfg;
  sv_vcfgs : list rc_cfg;
  sv_ctl : sv_session
}.

Definition sv_init (p v : list rc_cfg) : sv_state := {| sv_pcfgs := p; sv_vcfgs := v; sv_ctl := SvNone |}.

Definition sv_new_control : sv_control := {| sc_pm := pm_init; sc_vm := vm_init |}.

(* Control.Run *)
Definition sv_ctl_run (t : pw_timing) (c : sv_control) (p v : list rc_cfg) (ok : Z -> bool) : sv_control :=
  let '(pm', _, _) := pm_update t (sc_pm c) p in
  let '(vm', _) := vm_update (sc_vm c) v ok in
  {| sc_pm := pm'; sc_vm := vm' |}.

(* Control.UpdateAllConfigurer *)
Definition sv_ctl_reload (t : pw_timing) (c : sv_control) (p v : list rc_cfg) (ok : Z -> bool) : sv_control :=
  let '(vm', _) := vm_update (sc_vm c) v ok in
  let '(pm', _, _) := pm_update t (sc_pm c) p in
  {| sc_pm := pm'; sc_vm := vm' |}.

(* Control.worker after the connection died: pm.Close(), vm.Close() *)
Definition sv_ctl_close (t : pw_timing) (c : sv_control) : sv_control :=
  {| sc_pm := fst (pm_step t (sc_pm c) PMClose); sc_vm := sc_vm c |}.

Inductive sv_op :=
| SVReload (p v : list rc_cfg) (ok : Z -> bool)
| SVLost
| SVLogin (ok : Z -> bool).

Definition sv_step (t : pw_timing) (s : sv_state) (o : sv_op) : sv_state :=
  match o with
  | SVReload p v ok =>
      {| sv_pcfgs := p; sv_vcfgs := v;
         sv_ctl := match sv_ctl s with
                   | SvNone => SvNone
                   | SvLive c => SvLive (sv_ctl_reload t c p v ok)
                   | SvDead c => SvDead (sv_ctl_reload t c p v ok)
                   end |}
  | SVLost =>
      {| sv_pcfgs := sv_pcfgs s; sv_vcfgs := sv_vcfgs s;
         sv_ctl := match sv_ctl s with
                   | SvLive c => SvDead (sv_ctl_close t c)
                   | x => x
                   end |}
  | SVLogin ok =>
      {| sv_pcfgs := sv_pcfgs s; sv_vcfgs := sv_vcfgs s;
         sv_ctl := SvLive (sv_ctl_run t sv_new_control (sv_pcfgs s) (sv_vcfgs s) ok) |}
  end.

Definition sv_run (t : pw_timing) (s : sv_state) (ops : list sv_op) : sv_state := fold_left (sv_step t) ops s.

(* ---- specification: the live session holds exactly the configured sets ---- *)
Definition sv_tables_are (c : sv_control) (p v : list rc_cfg) : Prop :=
  (forall n, option_map pe_cfg (rc_get (pm_map (sc_pm c)) n) = rc_first p n) /\
  (forall n, rc_get (vm_cfgs (sc_vm c)) n = rc_first v n) /\
  (forall n, rc_first v n = None -> rc_get (vm_vis (sc_vm c)) n = None).
