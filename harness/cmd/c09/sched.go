package main

// Driver "sched" (C09): interleavings of registrations / closes of different sessions, realised on
// the real in-process frps through the verifhook gates that delimit the atomic steps of
// Model/PortSched.v:
//
//	ctl.regproxy.after_exist   between pxyManager.Exist and pxy.Run            (PExist | PAcq)
//	proxy.tcp.after_acquire    between TCPPortManager.Acquire and net.Listen   (PAcq | PListen)
//
// A registration that must stop inside its window is sent without waiting for the answer; the gate
// controller parks its handler goroutine; the other session's requests run to completion; then the
// parked handler is released and its NewProxyResp is read.  The Coq side runs the same schedule on
// the model and compares every thread's result, the manager's tables and the bind scan.

import (
	"fmt"
	"sort"
	"strings"
	"sync"
	"time"

	"github.com/fatedier/frp/pkg/config/types"
	v1 "github.com/fatedier/frp/pkg/config/v1"
	"github.com/fatedier/frp/pkg/msg"
	"github.com/fatedier/frp/pkg/util/verifhook"

	"verifharness/hx"
)

func init() { drivers["sched"] = runSched }

type gateCtl struct {
	mu     sync.Mutex
	armed  map[string]chan struct{} // "point|key" -> release channel
	parked map[string]chan struct{} // "point|key" -> closed when the goroutine arrived
	hits   map[string]int
}

func newGateCtl() *gateCtl {
	return &gateCtl{armed: map[string]chan struct{}{}, parked: map[string]chan struct{}{}, hits: map[string]int{}}
}

func (g *gateCtl) at(point, key string) {
	k := point + "|" + key
	g.mu.Lock()
	g.hits[point]++
	g.hits[k]++
	rel, ok := g.armed[k]
	if ok {
		delete(g.armed, k)
		close(g.parked[k])
	}
	g.mu.Unlock()
	if ok {
		<-rel
	}
}

// arm: the next goroutine reaching (point, key) parks.  Returns "has parked" and "let go".
func (g *gateCtl) arm(point, key string) (parked <-chan struct{}, release func()) {
	k := point + "|" + key
	rel := make(chan struct{})
	pk := make(chan struct{})
	g.mu.Lock()
	g.armed[k] = rel
	g.parked[k] = pk
	g.mu.Unlock()
	var once sync.Once
	return pk, func() { once.Do(func() { close(rel) }) }
}

type schedThread struct {
	id     int
	name   string
	port   int
	close  bool
	res    int
	choice string
	noResp bool // the session hung up: its NewProxyResp cannot be read
}

func (g *gateCtl) count(k string) int {
	g.mu.Lock()
	defer g.mu.Unlock()
	return g.hits[k]
}

// waitCount: until the counter for k exceeds n (or the timeout passes)
func (g *gateCtl) waitCount(k string, n int, d time.Duration) bool {
	for end := time.Now().Add(d); time.Now().Before(end); time.Sleep(2 * time.Millisecond) {
		if g.count(k) > n {
			return true
		}
	}
	return false
}

func (t *schedThread) coq() string {
	return fmt.Sprintf("(%d, {| st_name := %s; st_port := %s; st_choice := %s; st_close := %s; st_pc := PExist; st_res := (-100) |})",
		t.id, hx.Str(t.name), hx.Z(int64(t.port)), t.choice, hx.Bool(t.close))
}

type schedWorld struct {
	srv     *hx.Server
	g       *gateCtl
	pw      *pxyWorld
	peers   map[int]*hx.Peer
	sched   []string
	fail    []map[string]string
	hasAcq  bool
	scen    string
}

func (w *schedWorld) steps(t *schedThread, n int) { w.sched = append(w.sched, fmt.Sprintf("(%d, %d)", t.id, n)) }

func (w *schedWorld) failf(key, what, format string, a ...any) {
	w.fail = append(w.fail, map[string]string{"key": key, "what": what, "case": w.scen + ": " + fmt.Sprintf(format, a...)})
}

func (w *schedWorld) send(sid int, t *schedThread) {
	_ = w.peers[sid].Send(&msg.NewProxy{ProxyName: t.name, ProxyType: "tcp", RemotePort: t.port})
}

func (w *schedWorld) recv(sid int, t *schedThread) {
	m, err := w.peers[sid].RecvUntil(5*time.Second, func(m msg.Message) bool {
		r, ok := m.(*msg.NewProxyResp)
		return ok && r.ProxyName == t.name
	})
	if err != nil {
		w.failf("sched-no-response", "no NewProxyResp for a scheduled registration", "%s %v", t.name, err)
		t.res = -98
		return
	}
	t.res = respCode(m.(*msg.NewProxyResp))
	t.choice = "None"
	if t.res > 0 {
		t.choice = fmt.Sprintf("(Some %d)", t.res)
	}
}

// register runs a whole registration (4 atomic steps when it succeeds; the model stops earlier on refusals:
// extra steps of a finished thread are no-ops)
func (w *schedWorld) register(sid int, t *schedThread) {
	w.send(sid, t)
	w.recv(sid, t)
	w.steps(t, 4)
}

func (w *schedWorld) closeProxy(sid int, t *schedThread) {
	p := w.peers[sid]
	_ = p.CloseProxy(t.name)
	_ = p.Ping(true)
	_, _ = p.RecvUntil(3*time.Second, func(m msg.Message) bool { _, ok := m.(*msg.Pong); return ok })
	w.steps(t, 3)
}

// parkAt sends the registration and waits until its handler is parked at the gate; stepsDone = atomic
// steps the thread has taken by then
func (w *schedWorld) parkAt(sid int, t *schedThread, point string, stepsDone int) (release func(), ok bool) {
	parked, rel := w.g.arm(point, t.name)
	w.send(sid, t)
	select {
	case <-parked:
		w.steps(t, stepsDone)
		return rel, true
	case <-time.After(2 * time.Second):
		rel()
		w.failf("sched-gate-not-reached", "a registration did not reach the gate it was to be parked at", "%s %s", point, t.name)
		return rel, false
	}
}

const gateExist = "ctl.regproxy.after_exist"
const gateAcq = "proxy.tcp.after_acquire"

func runSched(cfg *hx.RunCfg) error {
	hx.Quiet()
	g := hx.NewGen(cfg.Seed*49979687 + 3)
	cf := &hx.CaseFile{Imports: coqImports, Typ: "case"}
	dist := map[string]int{}
	failures := []map[string]string{}
	samples := []string{}
	seen := map[string]bool{}
	nontrivial := 0
	gc := newGateCtl()
	verifhook.Install(gc.at)
	defer verifhook.Install(nil)

	// is the Acquire|Listen gate compiled into this tree?
	hasAcq := false
	{
		srv, err := hx.StartServer(loopB, func(c *v1.ServerConfig) {
			c.AllowPorts = []types.PortsRange{{Start: basePort + 40, End: basePort + 41}}
		})
		if err != nil {
			return err
		}
		p, _, err := srv.Login(hx.LoginOpts{RunID: "c09-sched-probe"})
		if err == nil && p != nil {
			_, _ = p.NewProxy(&msg.NewProxy{ProxyName: "probe", ProxyType: "tcp", RemotePort: 0})
			p.Close()
		}
		srv.Close()
		gc.mu.Lock()
		hasAcq = gc.hits[gateAcq] > 0
		gc.mu.Unlock()
		time.Sleep(30 * time.Millisecond)
	}
	cfg.St["acquire_gate_present"] = hasAcq

	scenarios := []string{"dup-names-race", "close-then-acquire", "remembered-port-in-window", "same-port-in-window", "squatter-in-window",
		"hangup-during-registration"}
	for ci := 0; ci < cfg.N; ci++ {
		scen := scenarios[ci%len(scenarios)]
		needsAcq := scen == "remembered-port-in-window" || scen == "same-port-in-window" || scen == "squatter-in-window"
		if needsAcq && !hasAcq {
			dist["skipped-no-acquire-gate:"+scen]++
			continue
		}
		k := 3 + g.Intn(4)
		ranges := []types.PortsRange{{Start: basePort + 40, End: basePort + 40 + k}}
		srv, err := hx.StartServer(loopB, func(c *v1.ServerConfig) { c.AllowPorts = ranges })
		if err != nil {
			return err
		}
		rc := srv.Svc.VerifResourceController()
		w := &schedWorld{srv: srv, g: gc, peers: map[int]*hx.Peer{}, hasAcq: hasAcq, scen: scen}
		w.pw = &pxyWorld{rc: rc, tcpSq: newSquatter("tcp", loopB), udpSq: newSquatter("udp", loopB)}
		w.pw.allow = takeSnap(rc.TCPPortManager).allPorts()
		okLogin := true
		for sid := 1; sid <= 2; sid++ {
			p, _, err := srv.Login(hx.LoginOpts{RunID: fmt.Sprintf("c09s-%d-%d", ci, sid)})
			if err != nil || p == nil {
				okLogin = false
				break
			}
			w.peers[sid] = p
		}
		if !okLogin {
			failures = append(failures, map[string]string{"key": "sched-login-failed", "what": "scripted login failed", "case": scen})
			srv.Close()
			continue
		}
		P := w.pw.allow[g.Intn(len(w.pw.allow))]
		na, nb := []string{"a", "web", "x.y"}[g.Intn(3)], []string{"b", "db", "z"}[g.Intn(3)]
		var ths []*schedThread
		mk := func(name string, port int, cl bool) *schedThread {
			t := &schedThread{id: len(ths) + 1, name: name, port: port, close: cl, res: -100, choice: "None"}
			ths = append(ths, t)
			return t
		}
		switch scen {
		case "dup-names-race":
			// B passes the name check, then A registers the same name completely; B's Run binds another
			// port, its Add fails, the deferred Close gives everything back
			ta, tb := mk(na, 0, false), mk(na, 0, false)
			rel, ok := w.parkAt(2, tb, gateExist, 1)
			if ok {
				w.register(1, ta)
				rel()
				w.recv(2, tb)
				w.steps(tb, 5)
				// the port B's doomed Run took is visible only in the manager's memory for the name
				if q, ok := takeSnap(rc.TCPPortManager).res[na]; ok && tb.res < 0 {
					tb.choice = fmt.Sprintf("(Some %d)", q)
				}
			}
		case "close-then-acquire":
			// B passed the name check for a port A still owns; A closes; B's Acquire finds the port free again
			ta, tb := mk(na, P, true), mk(nb, P, false)
			w.register(1, ta)
			rel, ok := w.parkAt(2, tb, gateExist, 1)
			if ok {
				w.closeProxy(1, ta)
				rel()
				w.recv(2, tb)
				w.steps(tb, 3)
			}
		case "remembered-port-in-window":
			// A's remembered port is P; B has acquired P but does not listen yet; A asks for "any port":
			// it must not be given P
			t0 := mk(na, 0, true)
			w.register(1, t0)
			w.closeProxy(1, t0)
			P = t0.res
			tb, ta := mk(nb, P, false), mk(na, 0, false)
			if P > 0 {
				rel, ok := w.parkAt(2, tb, gateAcq, 2)
				if ok {
					w.register(1, ta)
					rel()
					w.recv(2, tb)
					w.steps(tb, 2)
					if ta.res == P {
						w.failf("port-granted-twice", "a port held by a registration that has not listened yet was granted to another proxy", "P=%d", P)
					}
				}
			}
		case "same-port-in-window":
			tb, ta := mk(nb, P, false), mk(na, P, false)
			rel, ok := w.parkAt(2, tb, gateAcq, 2)
			if ok {
				w.register(1, ta)
				rel()
				w.recv(2, tb)
				w.steps(tb, 2)
			}
		case "hangup-during-registration":
			// B's NewProxy is being handled (parked inside the handler) when B's connection drops.  The
			// handler runs inside the dispatcher's read loop, so the teardown can start only after it has
			// returned: it finds the proxy and closes it; the port is free for A.
			tb, ta := mk(nb, P, true), mk(na, P, false)
			tb.noResp = true
			runBefore := w.g.count("ctl.regproxy.after_run|" + nb)
			doneBefore := w.g.count("ctl.teardown.before_done")
			rel, ok := w.parkAt(2, tb, gateExist, 1)
			if ok {
				w.peers[2].Close()
				time.Sleep(60 * time.Millisecond) // time for a dispatcher that reads ahead to notice the hang-up
				rel()
				w.g.waitCount("ctl.regproxy.after_run|"+nb, runBefore, 2*time.Second)
				w.g.waitCount("ctl.teardown.before_done", doneBefore, 2*time.Second)
				for i := 0; i < 100; i++ { // Add + ctl.proxies[...] of the in-flight handler, then the teardown loop
					if _, still := srv.Svc.VerifProxyCloser(nb); !still && i >= 5 {
						break
					}
					time.Sleep(5 * time.Millisecond)
				}
				w.steps(tb, 3)
				w.steps(tb, 3)
				w.register(1, ta)
				if ta.res != P {
					w.failf("port-of-dead-session-still-held", "a port registered by a session whose connection dropped during the registration is not given back",
						"P=%d second client got %d", P, ta.res)
				}
			}
		case "squatter-in-window":
			// another process takes P between B's Acquire and B's listen: B fails and must give P back
			tb, ta := mk(nb, P, false), mk(na, P, false)
			rel, ok := w.parkAt(2, tb, gateAcq, 2)
			if ok {
				if w.pw.tcpSq.squat(P) {
					w.sched = append(w.sched, fmt.Sprintf("(-1, %d)", P))
				}
				rel()
				w.recv(2, tb)
				w.steps(tb, 2)
				w.pw.tcpSq.unsquat(P)
				w.sched = append(w.sched, fmt.Sprintf("(-2, %d)", P))
				w.register(1, ta)
			}
		}
		// observe the end state
		snap := takeSnap(rc.TCPPortManager)
		bound := minus(osBusy("tcp", loopB, w.pw.allow), w.pw.tcpSq.ports())
		usedPorts := []int{}
		for p := range snap.used {
			usedPorts = append(usedPorts, p)
		}
		sort.Ints(usedPorts)
		if !sameInts(usedPorts, bound) {
			w.failf("accounting-differs-from-bound", "after the schedule the manager's used table is not what the server listens on",
				"used=%v bound=%v results=%s", usedPorts, bound, resultsOf(ths))
		}
		res := []string{}
		tl := []string{}
		okRes := 0
		for _, t := range ths {
			if !t.noResp {
				res = append(res, fmt.Sprintf("(%d, %s)", t.id, hx.Z(int64(t.res))))
			}
			tl = append(tl, t.coq())
			if t.res >= 0 {
				okRes++
			}
			dist[fmt.Sprintf("%s:res:%d", scen, map[bool]int{true: 0, false: t.res}[t.res >= 0])]++
		}
		failures = append(failures, w.fail...)
		for _, p := range w.peers {
			p.Close()
		}
		w.pw.tcpSq.closeAll()
		srv.Close()
		for i := 0; i < 200 && len(osBusy("tcp", loopB, w.pw.allow)) > 0; i++ {
			time.Sleep(5 * time.Millisecond)
		}
		leaked := osBusy("tcp", loopB, w.pw.allow)
		c := fmt.Sprintf("CSched %s %s %s {| so_res := %s; so_snap := %s; so_bound := %s |}",
			coqRanges(ranges), hx.List(tl), hx.List(w.sched), hx.List(res), snap.coq(), zlist(bound))
		cf.Cases = append(cf.Cases, c)
		dist["scenario:"+scen]++
		if !seen[c] {
			seen[c] = true
			if okRes > 0 {
				nontrivial++
			}
		}
		if len(samples) < 3 {
			samples = append(samples, c)
		}
		if len(leaked) > 0 {
			// a listener survived the end of every session and of the server: later schedules on this
			// address would only show the same zombie again
			failures = append(failures, map[string]string{"key": "listener-survives-all-sessions",
				"what": "a public port is still bound after every session ended and the server was closed",
				"case": fmt.Sprintf("%s: ports %v", scen, leaked)})
			break
		}
	}
	cf.Tail = coqTail(map[string]int{"NS_REGISTERED": 61, "NS_LISTENFAIL": 62, "NS_PORT_USED": 63, "NS_NAME_EXISTS": 64})
	cfg.St["cases"] = len(cf.Cases)
	cfg.St["distinct_nontrivial"] = nontrivial
	cfg.St["samples"] = samples
	cfg.St["distribution"] = dist
	cfg.St["impl_failures"] = failures
	return cf.Write(cfg.Out)
}

func resultsOf(ths []*schedThread) string {
	s := []string{}
	for _, t := range ths {
		s = append(s, fmt.Sprintf("%s:%d->%d", t.name, t.port, t.res))
	}
	return strings.Join(s, ",")
}
