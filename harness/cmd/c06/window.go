package main

// Driver "window" (C06): requests overtaken by a Register between their routing decision
// (injectRequestInfoToCtx: route config + pool key) and their dial, replayed deterministically with a
// gate in front of Transport.DialContext (installed through the verif accessor VerifTransport).
// Since repair 4027c37 the dial uses the route config chosen at routing time; before it, the second
// look-up pooled a connection to ANOTHER route's backend under the first route's key (F-C06d):
// GET /public served by the /admin backend, unrouted requests served by an unregistered backend.
// The observed histories are compared with Model/HttpPool.v (HBeginRaced) and the specification.

import (
	"context"
	"fmt"
	"io"
	"net"
	"net/http"
	"strconv"
	"sync/atomic"
	"time"

	"verifharness/hx"

	"github.com/fatedier/frp/pkg/util/vhost"
)

func init() { drivers["window"] = runWindow }

// crossWireReplay: a request routed to route A whose dial is overtaken by the registration of a more
// specific route B gets a connection to B's backend pooled under A's key; the next request for A
// (which B does not match) is then served by B's backend.  Gate in front of DialContext.
func crossWireReplay() (string, string, error) {
	rp := vhost.NewHTTPReverseProxy(vhost.HTTPReverseProxyOptions{ResponseHeaderTimeoutS: 20}, vhost.NewRouters())
	front, err := net.Listen("tcp", "127.0.6.6:0")
	if err != nil {
		return "", "", err
	}
	srv := &http.Server{Handler: rp}
	go func() { _ = srv.Serve(front) }()
	defer srv.Close()
	var dials int64
	mk := func(label string) (vhost.CreateConnFunc, func(), error) {
		bl, err := net.Listen("tcp", "127.0.6.7:0")
		if err != nil {
			return nil, nil, err
		}
		bs := &http.Server{Handler: http.HandlerFunc(func(rw http.ResponseWriter, r *http.Request) {
			rw.Header().Set("X-Backend", label)
			_, _ = io.WriteString(rw, "ok")
		})}
		go func() { _ = bs.Serve(bl) }()
		return func(string) (net.Conn, error) {
			atomic.AddInt64(&dials, 1)
			return net.Dial("tcp", bl.Addr().String())
		}, func() { _ = bs.Close() }, nil
	}
	f1, c1, err := mk("1")
	if err != nil {
		return "", "", err
	}
	defer c1()
	f2, c2, err := mk("2")
	if err != nil {
		return "", "", err
	}
	defer c2()
	client := &http.Client{Transport: &http.Transport{DisableKeepAlives: true}, Timeout: 10 * time.Second}
	get := func(path string) (string, error) {
		req, _ := http.NewRequest("GET", "http://"+front.Addr().String()+path, nil)
		req.Host = "h.test"
		resp, err := client.Do(req)
		if err != nil {
			return "", err
		}
		_, _ = io.Copy(io.Discard, resp.Body)
		_ = resp.Body.Close()
		if resp.StatusCode != 200 {
			return strconv.Itoa(resp.StatusCode), nil
		}
		return resp.Header.Get("X-Backend"), nil
	}
	tr := vhost.VerifTransport(rp)
	origDial := tr.DialContext
	var gateOn int32 = 1
	atDial := make(chan struct{}, 1)
	goOn := make(chan struct{}, 1)
	tr.DialContext = func(ctx context.Context, network, addr string) (net.Conn, error) {
		if atomic.CompareAndSwapInt32(&gateOn, 1, 0) {
			atDial <- struct{}{}
			<-goOn
		}
		return origDial(ctx, network, addr)
	}
	if err := rp.Register(vhost.RouteConfig{Domain: "h.test", Location: "", CreateConnFn: f1}); err != nil {
		return "", "", err
	}
	type res struct {
		b   string
		err error
	}
	rch := make(chan res, 1)
	go func() {
		b, err := get("/admin/x") // routed to route A = (h.test, ""), the only one
		rch <- res{b, err}
	}()
	select {
	case <-atDial:
	case <-time.After(5 * time.Second):
		return "", "", fmt.Errorf("cross-wire replay: request never reached DialContext")
	}
	if err := rp.Register(vhost.RouteConfig{Domain: "h.test", Location: "/admin", CreateConnFn: f2}); err != nil {
		return "", "", err
	}
	goOn <- struct{}{}
	r1 := <-rch
	if r1.err != nil {
		return "", "", r1.err
	}
	hh := hx.HxS("h.test")
	ops := []string{
		fmt.Sprintf("(HRegister %s [] [] 1, HRegOk)", hh),
		fmt.Sprintf("(HBeginRaced 1 0 0 %s %s [] true (HRegister %s %s [] 2), HReached %s)", hh, hx.HxS("/admin/x"), hh, hx.HxS("/admin"), r1.b),
		"(HEnd 1, HDone)",
	}
	time.Sleep(3 * time.Millisecond)
	before := atomic.LoadInt64(&dials)
	b2, err := get("/public") // only route A matches
	if err != nil {
		return "", "", err
	}
	ops = append(ops, fmt.Sprintf("(HBegin 2 0 0 %s %s [] %s, HReached %s)", hh, hx.HxS("/public"), hx.Bool(atomic.LoadInt64(&dials) > before), b2),
		"(HEnd 2, HDone)")
	verdict := fmt.Sprintf("GET /admin/x (overtaken by Register /admin) -> backend %s; GET /public -> backend %s", r1.b, b2)
	if b2 != "1" {
		verdict = "CROSS-WIRED: " + verdict + " although only route (h.test, \"\") -> backend 1 matches /public"
	}
	return "CHttp " + hx.List(ops), verdict, nil
}

func runWindow(cfg *hx.RunCfg) error {
	g := hx.NewGen(cfg.Seed)
	rp := vhost.NewHTTPReverseProxy(vhost.HTTPReverseProxyOptions{ResponseHeaderTimeoutS: 20}, vhost.NewRouters())
	front, err := net.Listen("tcp", "127.0.6.6:0")
	if err != nil {
		return err
	}
	srv := &http.Server{Handler: rp}
	go func() { _ = srv.Serve(front) }()
	defer srv.Close()
	arrived := make(chan int64, 16)
	var release atomic.Value
	release.Store(make(chan struct{}))
	bl, err := net.Listen("tcp", "127.0.6.7:0")
	if err != nil {
		return err
	}
	bs := &http.Server{Handler: http.HandlerFunc(func(rw http.ResponseWriter, r *http.Request) {
		rid, _ := strconv.ParseInt(r.Header.Get("X-Req"), 10, 64)
		if r.Header.Get("X-Hold") == "1" {
			ch := release.Load().(chan struct{})
			arrived <- rid
			<-ch
		}
		rw.Header().Set("X-Backend", "1")
		_, _ = io.WriteString(rw, "ok")
	})}
	go func() { _ = bs.Serve(bl) }()
	defer bs.Close()
	var dials int64
	fn := func(string) (net.Conn, error) {
		atomic.AddInt64(&dials, 1)
		return net.Dial("tcp", bl.Addr().String())
	}
	client := &http.Client{Transport: &http.Transport{DisableKeepAlives: true}, Timeout: 10 * time.Second}
	do := func(rid int64, hold bool) (int, error) {
		req, _ := http.NewRequest("GET", "http://"+front.Addr().String()+"/", nil)
		req.Host = "h.test"
		req.Header.Set("X-Req", strconv.FormatInt(rid, 10))
		if hold {
			req.Header.Set("X-Hold", "1")
		}
		resp, err := client.Do(req)
		if err != nil {
			return 0, err
		}
		_, _ = io.Copy(io.Discard, resp.Body)
		_ = resp.Body.Close()
		return resp.StatusCode, nil
	}
	rc := vhost.RouteConfig{Domain: "h.test", CreateConnFn: fn}
	// ---- deterministic replay with a gate in front of DialContext ----
	tr := vhost.VerifTransport(rp)
	origDial := tr.DialContext
	var gateOn int32
	atDial := make(chan struct{}, 1)
	goOn := make(chan struct{}, 1)
	tr.DialContext = func(ctx context.Context, network, addr string) (net.Conn, error) {
		if atomic.LoadInt32(&gateOn) == 1 {
			atDial <- struct{}{}
			<-goOn
		}
		return origDial(ctx, network, addr)
	}
	gated := ""
	var caseOps []string
	hh := hx.HxS("h.test")
	{
		atomic.StoreInt32(&gateOn, 1)
		res := make(chan int, 1)
		go func() {
			st, err := do(900001, true) // routed while no route exists: pool key = bare host
			if err != nil {
				st = -1
			}
			res <- st
		}()
		early := -2
		select {
		case <-atDial:
		case early = <-res:
			// since e5418a8 serveRouted answers a request without a route itself: it never reaches the Transport
		case <-time.After(5 * time.Second):
			return fmt.Errorf("gated replay: request neither reached DialContext nor was answered")
		}
		atomic.StoreInt32(&gateOn, 0)
		_ = rp.Register(rc) // the route appears between routing decision and dial
		if early == -2 {
			goOn <- struct{}{}
		} else {
			res <- early
		}
		select {
		case <-arrived: // dialled through the new route: reaches backend 1, held there
			caseOps = append(caseOps, fmt.Sprintf("(HBeginRaced 1 0 0 %s %s [] true (HRegister %s [] [] 1), HReached 1)", hh, hx.HxS("/"), hh))
			rp.UnRegister(rc) // in flight: survives CloseIdleConnections
			caseOps = append(caseOps, fmt.Sprintf("(HUnRegister %s [] [], HDone)", hh))
			// any request that asks the Transport for a connection ends the Transport's
			// "close connections that become idle" mode which CloseIdleConnections switched on
			if st0, err := do(900003, false); err != nil || st0 != 404 {
				return fmt.Errorf("gated replay: unrouted request: %d %v", st0, err)
			}
			caseOps = append(caseOps, fmt.Sprintf("(HBegin 3 0 0 %s %s [] true, HNotFound)", hh, hx.HxS("/")))
			close(release.Load().(chan struct{}))
			<-res
			caseOps = append(caseOps, "(HEnd 1, HDone)")
			time.Sleep(3 * time.Millisecond)
			before := atomic.LoadInt64(&dials)
			st, err := do(900002, false) // no route registered
			if err != nil {
				return err
			}
			gated = fmt.Sprintf("status %d", st)
			switch {
			case st == 200:
				caseOps = append(caseOps, fmt.Sprintf("(HBegin 2 0 0 %s %s [] %s, HReached 1)", hh, hx.HxS("/"), hx.Bool(atomic.LoadInt64(&dials) > before)))
			case st == 404:
				caseOps = append(caseOps, fmt.Sprintf("(HBegin 2 0 0 %s %s [] true, HNotFound)", hh, hx.HxS("/")))
			}
			if st == 200 {
				gated = "REACHED-FORMER-BACKEND: no route registered for h.test, yet the request was answered 200 by backend 1 over the connection pooled under the bare-host key"
			}
		case st := <-res:
			// repaired code: a request that had no route when it was routed is not dialled at all
			gated = fmt.Sprintf("first request ended with %d", st)
			if st != 404 {
				return fmt.Errorf("gated replay: overtaken unrouted request ended with %d", st)
			}
			caseOps = append(caseOps, fmt.Sprintf("(HBeginRaced 1 0 0 %s %s [] true (HRegister %s [] [] 1), HNotFound)", hh, hx.HxS("/"), hh))
			rp.UnRegister(rc)
			caseOps = append(caseOps, fmt.Sprintf("(HUnRegister %s [] [], HDone)", hh))
			st2, err := do(900002, false) // no route registered
			if err != nil {
				return err
			}
			switch st2 {
			case 404:
				caseOps = append(caseOps, fmt.Sprintf("(HBegin 2 0 0 %s %s [] true, HNotFound)", hh, hx.HxS("/")))
			case 200:
				caseOps = append(caseOps, fmt.Sprintf("(HBegin 2 0 0 %s %s [] false, HReached 1)", hh, hx.HxS("/")))
			default:
				return fmt.Errorf("gated replay: status %d", st2)
			}
			gated += fmt.Sprintf("; after UnRegister a request to h.test ended with %d", st2)
		}
		release.Store(make(chan struct{}))
	}
	cfg.St["gated_replay"] = gated
	lo, hi := 0, 400
	if cfg.Extra != "" {
		_, _ = fmt.Sscanf(cfg.Extra, "%d,%d", &lo, &hi)
	}
	notFound := 0
	attempts, reachedInRace, hits := 0, 0, 0
	deadline := time.Now().Add(time.Duration(cfg.N) * time.Millisecond)
	var witness string
	if cfg.Tier != "thorough" {
		deadline = time.Now()
	}
	for time.Now().Before(deadline) && hits == 0 {
		attempts++
		rid := int64(attempts)
		release.Store(make(chan struct{}))
		res := make(chan int, 1)
		go func() {
			st, err := do(rid, true)
			if err != nil {
				st = -1
			}
			res <- st
		}()
		// register somewhere inside the request's life
		d := time.Duration(lo+g.Intn(hi-lo)) * time.Microsecond
		t0 := time.Now()
		for time.Since(t0) < d {
		}
		_ = rp.Register(rc)
		select {
		case <-arrived:
			reachedInRace++
			rp.UnRegister(rc) // the request is in flight: its backend connection survives CloseIdleConnections
			close(release.Load().(chan struct{}))
			<-res
			time.Sleep(2 * time.Millisecond)
			st, err := do(rid+1000000, false) // no route is registered now
			if err != nil {
				return err
			}
			if st == 200 {
				hits++
				witness = fmt.Sprintf("attempt %d: request routed before Register(h.test) and dialled after it reached backend 1; after UnRegister a request to h.test (no route registered) was answered 200 by backend 1", attempts)
			}
		case st := <-res:
			_ = st
			notFound++
			rp.UnRegister(rc)
		}
	}
	cf := &hx.CaseFile{
		Imports: "From FRP Require Import Corr.C06.\n",
		Typ:     "case",
		Tail: "Definition M := Eval vm_compute in mismatches check_case cases.\nPrint M.\n" +
			"Definition NRACED := Eval vm_compute in sum_cases (http_counter 5) cases.\nPrint NRACED.\n" +
			"Definition NWINDOWVIOL := Eval vm_compute in count_if (fun c => negb (C06_holds c)) cases.\nPrint NWINDOWVIOL.\n",
	}
	cf.Cases = append(cf.Cases, "CHttp "+hx.List(caseOps))
	cfg.St["witness_case"] = cf.Cases[0]
	cw, cwVerdict, err := crossWireReplay()
	if err != nil {
		return err
	}
	cf.Cases = append(cf.Cases, cw)
	cfg.St["cross_wire_replay"] = cwVerdict
	cfg.St["cross_wire_case"] = cw
	cfg.St["cases"] = 2
	cfg.St["distinct_nontrivial"] = 2
	cfg.St["samples"] = []any{cf.Cases[0], fmt.Sprintf("free-running race: attempts=%d in-race-reached=%d hits=%d", attempts, reachedInRace, hits)}
	cfg.St["distribution"] = map[string]int{"attempts": attempts, "request reached backend of a route registered during the request": reachedInRace, "unrouted request answered by former backend": hits, "404 (registered after the dial)": notFound}
	cfg.St["window_hits"] = hits
	cfg.St["window_witness"] = witness
	cfg.St["impl_failures"] = []any{}
	return cf.Write(cfg.Out)
}
