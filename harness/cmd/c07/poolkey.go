package main

// Part of driver httpauth: requests whose Host equals the synthetic transport key of a route.
// HTTPReverseProxy.Rewrite gives a routed request the URL host  domain.b64(location).b64(routeByHTTPUser).b64(endpoint).id
// so that http.Transport pools backend connections per registration; an unrouted request keeps URL.Host = req.Host.
// The transport looks for an idle connection under that key before it dials.

import (
	"bufio"
	"encoding/base64"
	"fmt"
	"io"
	"net"
	"net/http"
	"time"

	"github.com/fatedier/frp/pkg/util/vhost"

	"verifharness/hx"
)

func init() { extraParts = append(extraParts, (*run).poolKeyPart) }

// a backend that keeps its connection open between requests (so that the proxy's transport has an idle connection)
func keepAliveBackend(c net.Conn, id int, arr *arrivals) {
	defer c.Close()
	br := bufio.NewReader(c)
	for {
		_ = c.SetDeadline(time.Now().Add(5 * time.Second))
		req, err := http.ReadRequest(br)
		if err != nil {
			return
		}
		arr.add(req.Header.Get("X-Case"), id)
		_, _ = io.Copy(io.Discard, req.Body)
		if _, err := io.WriteString(c, "HTTP/1.1 200 OK\r\nContent-Length: 2\r\n\r\nok"); err != nil {
			return
		}
	}
}

func b64(s string) string { return base64.StdEncoding.EncodeToString([]byte(s)) }

func (r *run) poolKeyPart(_ []credKind) error {
	type scen struct {
		name             string
		location, byUser string
		endpoint         string // "" = no ChooseEndpointFn
	}
	scens := []scen{{"plain", "", "", ""}, {"location", "/x", "", ""}, {"user-routed", "", "alice", ""}, {"group-endpoint", "", "", "member1"}}
	for si, sc := range scens {
		arr := newArrivals()
		rp := vhost.NewHTTPReverseProxy(vhost.HTTPReverseProxyOptions{ResponseHeaderTimeoutS: 5}, vhost.NewRouters())
		mk := func(string) (net.Conn, error) {
			c1, c2 := net.Pipe()
			go keepAliveBackend(c2, 0, arr)
			return c1, nil
		}
		rc := vhost.RouteConfig{Domain: "example.com", Location: sc.location, RouteByHTTPUser: sc.byUser, Username: "alice", Password: "apw", CreateConnFn: mk}
		if sc.endpoint != "" {
			ep := sc.endpoint
			rc.ChooseEndpointFn = func() (string, error) { return ep, nil }
			rc.CreateConnByEndpointFn = func(_, ra string) (net.Conn, error) { return mk(ra) }
		}
		if err := rp.Register(rc); err != nil {
			return err
		}
		ln, err := net.Listen("tcp", "127.0.7.228:0")
		if err != nil {
			return err
		}
		srv := &http.Server{Handler: rp}
		go func() { _ = srv.Serve(ln) }()
		path := "/"
		if sc.location != "" {
			path = sc.location + "/1"
		}
		// 1. the owner of the credentials makes a request; the proxy keeps the backend connection idle afterwards
		id1 := fmt.Sprintf("k%d-auth", si)
		rq1 := areq{form: "FOrigin", proto: "PH11", method: "GET", hdrHost: "example.com", path: path, auth: basic("alice", "apw")}
		h1 := rawDo(ln.Addr().String(), rq1.wire(id1), "GET", nil)
		// 2. somebody without credentials names the transport key of that route as Host
		key := "example.com." + b64(sc.location) + "." + b64(sc.byUser) + "." + b64(sc.endpoint) + ".1"
		id2 := fmt.Sprintf("k%d-key", si)
		rq2 := areq{form: "FOrigin", proto: "PH11", method: "GET", hdrHost: key, path: path}
		h2 := rawDo(ln.Addr().String(), rq2.wire(id2), "GET", nil)
		reached := len(arr.get(id2)) > 0
		r.notes[fmt.Sprintf("poolkey:%s", sc.name)] = fmt.Sprintf("authenticated GET -> %d (backend %v); unauthenticated GET with Host %q -> %d, backend reached: %v",
			h1.status, len(arr.get(id1)) > 0, key, h2.status, reached)
		_ = hx.Bool
		_ = srv.Close()
	}
	return nil
}
