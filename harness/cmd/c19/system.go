package main

// Driver "system": a real frpc (client.Service) against an in-process frps.  The server runs an
// HTTP plugin for the NewProxy and CloseProxy operations (a stub in this process), which records
// every such request the SERVER handles and can hold or reject the answer to a NewProxy — that is
// how a reload is placed at a chosen moment relative to an outstanding NewProxyResp.  Reloads go
// through Service.UpdateAllConfigurer.  Checked:
//   - quiescent reload sequences (add, remove, change, reorder, duplicate names): requests seen by
//     the server per reload and client status rows, compared with the model in Coq (CSys);
//   - an open tunnel connection through a proxy that a reload leaves unchanged keeps working and the
//     server sees neither NewProxy nor CloseProxy for that proxy;
//   - after every scenario (also those with held / rejected replies) the names registered at the
//     server equal the first-per-name entries of the last loaded set and all of them report running.

import (
	"bytes"
	"encoding/json"
	"fmt"
	"io"
	"net"
	"net/http"
	"sort"
	"strings"
	"sync"
	"time"

	"github.com/fatedier/frp/client/proxy"
	v1 "github.com/fatedier/frp/pkg/config/v1"

	"verifharness/hx"
)

func init() { drivers["system"] = runSystem }

type plugEvent struct {
	kind int // 1 NewProxy 2 CloseProxy
	name string
}

type plugStub struct {
	mu      sync.Mutex
	events  []plugEvent
	hold    map[string]chan struct{}
	arrived map[string]chan struct{}
	reject  map[string]int // remaining rejections of NewProxy for the name
	ln      net.Listener
}

func newPlugStub(addr string) (*plugStub, error) {
	ln, err := net.Listen("tcp", net.JoinHostPort(addr, "0"))
	if err != nil {
		return nil, err
	}
	p := &plugStub{hold: map[string]chan struct{}{}, arrived: map[string]chan struct{}{}, reject: map[string]int{}, ln: ln}
	mux := http.NewServeMux()
	mux.HandleFunc("/h", p.handle)
	go func() { _ = (&http.Server{Handler: mux}).Serve(ln) }()
	return p, nil
}

func (p *plugStub) handle(w http.ResponseWriter, r *http.Request) {
	body, _ := io.ReadAll(r.Body)
	var req struct {
		Op      string `json:"op"`
		Content struct {
			ProxyName string `json:"proxy_name"`
		} `json:"content"`
	}
	_ = json.Unmarshal(body, &req)
	name := req.Content.ProxyName
	kind := 2
	if req.Op == "NewProxy" {
		kind = 1
	}
	p.mu.Lock()
	p.events = append(p.events, plugEvent{kind, name})
	var h, a chan struct{}
	rej := false
	if kind == 1 {
		h = p.hold[name]
		a = p.arrived[name]
		delete(p.hold, name)
		delete(p.arrived, name)
		if p.reject[name] > 0 {
			p.reject[name]--
			rej = true
		}
	}
	p.mu.Unlock()
	if a != nil {
		close(a)
	}
	if h != nil {
		select {
		case <-h:
		case <-time.After(20 * time.Second):
		}
	}
	w.Header().Set("Content-Type", "application/json")
	if rej {
		_, _ = w.Write([]byte(`{"reject":true,"reject_reason":"c19 scripted rejection","unchange":true}`))
		return
	}
	_, _ = w.Write([]byte(`{"reject":false,"unchange":true}`))
}

// holdNext makes the next NewProxy for name wait; returns (arrived, release)
func (p *plugStub) holdNext(name string) (<-chan struct{}, func()) {
	h, a := make(chan struct{}), make(chan struct{})
	p.mu.Lock()
	p.hold[name] = h
	p.arrived[name] = a
	p.mu.Unlock()
	var once sync.Once
	return a, func() { once.Do(func() { close(h) }) }
}

func (p *plugStub) take() []plugEvent {
	p.mu.Lock()
	defer p.mu.Unlock()
	e := p.events
	p.events = nil
	return e
}

func (p *plugStub) count() int {
	p.mu.Lock()
	defer p.mu.Unlock()
	return len(p.events)
}

// ---- environment ----

type sspec struct{ name, val int }

type sysEnv struct {
	srv   *hx.Server
	cli   *hx.Client
	plug  *plugStub
	echo  *hx.EchoServer
	ports map[[2]int]int
	cur   []sspec
}

const (
	sysSrvAddr  = "127.0.19.2"
	sysPlugAddr = "127.0.19.3"
	sysEchoAddr = "127.0.19.4"
)

func (e *sysEnv) remotePort(s sspec) int {
	k := [2]int{s.name, s.val % 2}
	if p, ok := e.ports[k]; ok {
		return p
	}
	for {
		p := hx.FreePort(sysSrvAddr)
		used := false
		for _, q := range e.ports {
			if q == p {
				used = true
			}
		}
		if !used {
			e.ports[k] = p
			return p
		}
	}
}

// healthOmit: names >= 10 are health-checked tcp proxies against the echo backend; (name-10) is the
// bit set of intervalSeconds / timeoutSeconds / maxFailed left unset
func (e *sysEnv) build(s sspec) v1.ProxyConfigurer {
	c := &v1.TCPProxyConfig{}
	if s.name >= 10 {
		omit := s.name - 10
		c.HealthCheck = v1.HealthCheckConfig{Type: "tcp", IntervalSeconds: 1, TimeoutSeconds: 1, MaxFailed: 2}
		if omit&1 != 0 {
			c.HealthCheck.IntervalSeconds = 0
		}
		if omit&2 != 0 {
			c.HealthCheck.TimeoutSeconds = 0
		}
		if omit&4 != 0 {
			c.HealthCheck.MaxFailed = 0
		}
	}
	c.Name = fmt.Sprintf("p%d", s.name)
	c.Type = "tcp"
	c.LocalIP = sysEchoAddr
	c.LocalPort = e.echo.Port()
	c.RemotePort = e.remotePort(s)
	c.Metadatas = map[string]string{"m": fmt.Sprint(s.val / 2)}
	c.Complete("")
	return c
}

func newSysEnv(initial []sspec) (*sysEnv, error) { return newSysEnvFull(initial, nil) }

func newSysEnvFull(initial []sspec, vis []vsspec) (*sysEnv, error) {
	e := &sysEnv{ports: map[[2]int]int{}}
	var err error
	if e.plug, err = newPlugStub(sysPlugAddr); err != nil {
		return nil, err
	}
	if e.echo, err = hx.StartEcho(sysEchoAddr, ""); err != nil {
		return nil, err
	}
	e.srv, err = hx.StartServer(sysSrvAddr, func(c *v1.ServerConfig) {
		c.VhostHTTPPort = hx.FreePort(sysSrvAddr)
		c.SubDomainHost = sysSubHost
		c.HTTPPlugins = []v1.HTTPPluginOptions{{Name: "c19", Addr: "http://" + e.plug.ln.Addr().String(), Path: "/h",
			Ops: []string{"NewProxy", "CloseProxy"}}}
	})
	if err != nil {
		return nil, err
	}
	cfgs := make([]v1.ProxyConfigurer, len(initial))
	for i, s := range initial {
		cfgs[i] = e.build(s)
	}
	e.cur = initial
	var vcfgs []v1.VisitorConfigurer
	for _, s := range vis {
		vcfgs = append(vcfgs, e.buildVisitor(s))
	}
	if e.cli, err = e.srv.StartClient(cfgs, vcfgs, nil); err != nil {
		return nil, err
	}
	return e, nil
}

func (e *sysEnv) close() {
	if e.cli != nil {
		e.cli.Close()
	}
	if e.srv != nil {
		e.srv.Close()
	}
	if e.echo != nil {
		e.echo.Close()
	}
	if e.plug != nil {
		e.plug.ln.Close()
	}
}

func (e *sysEnv) reload(specs []sspec) error {
	cfgs := make([]v1.ProxyConfigurer, len(specs))
	for i, s := range specs {
		cfgs[i] = e.build(s)
	}
	e.cur = specs
	return e.cli.Svc.UpdateAllConfigurer(cfgs, nil)
}

func (e *sysEnv) firsts() map[int]sspec {
	f := map[int]sspec{}
	for _, s := range e.cur {
		if _, ok := f[s.name]; !ok {
			f[s.name] = s
		}
	}
	return f
}

func (e *sysEnv) clientRows() [][3]int {
	var rows [][3]int
	for n, s := range e.firsts() {
		st, ok := e.cli.Svc.StatusExporter().GetProxyStatus(fmt.Sprintf("p%d", n))
		if !ok {
			continue
		}
		val := -1
		if tc, ok := st.Cfg.(*v1.TCPProxyConfig); ok {
			for v := 0; v < 4; v++ {
				c := sspec{n, v}
				if tc.RemotePort == e.remotePort(c) && tc.Metadatas["m"] == fmt.Sprint(v/2) {
					val = v
				}
			}
		}
		_ = s
		ph, ok := phaseCode[st.Phase]
		if !ok {
			ph = -1
		}
		rows = append(rows, [3]int{n, ph, val})
	}
	// statuses of names that should not be there
	for n := 0; n < 4; n++ {
		if _, want := e.firsts()[n]; want {
			continue
		}
		if st, ok := e.cli.Svc.StatusExporter().GetProxyStatus(fmt.Sprintf("p%d", n)); ok {
			rows = append(rows, [3]int{n, phaseCode[st.Phase], -2})
		}
	}
	sort.Slice(rows, func(i, j int) bool { return rows[i][0] < rows[j][0] })
	return rows
}

func (e *sysEnv) serverNames() []string {
	ns := e.srv.Svc.VerifC04ProxyNames()
	sort.Strings(ns)
	return ns
}

func (e *sysEnv) snapshot() string {
	return fmt.Sprint(e.plug.count(), e.clientRows(), e.serverNames())
}

// quiesce waits until server requests, client statuses and server registrations stop changing
func (e *sysEnv) quiesce(stable time.Duration) {
	last := e.snapshot()
	since := time.Now()
	deadline := time.Now().Add(10*stable + 3*time.Second)
	for time.Now().Before(deadline) {
		time.Sleep(5 * time.Millisecond)
		cur := e.snapshot()
		if cur != last {
			last, since = cur, time.Now()
			continue
		}
		if time.Since(since) >= stable {
			return
		}
	}
}

// converged: registered at the server = first-per-name of the last set, all running at the client
func (e *sysEnv) converged() string {
	want := []string{}
	for n := range e.firsts() {
		want = append(want, fmt.Sprintf("p%d", n))
	}
	sort.Strings(want)
	got := e.serverNames()
	if strings.Join(want, ",") != strings.Join(got, ",") {
		return fmt.Sprintf("registered at the server %v, last loaded set has %v", got, want)
	}
	for _, r := range e.clientRows() {
		if r[2] == -2 {
			return fmt.Sprintf("client still reports a status for removed proxy p%d", r[0])
		}
		if r[1] != 3 {
			return fmt.Sprintf("client reports phase %d for p%d which is registered at the server", r[1], r[0])
		}
		if f := e.firsts()[r[0]]; f.val != r[2] {
			return fmt.Sprintf("p%d runs with configuration %d, the first loaded entry is %d", r[0], r[2], f.val)
		}
	}
	return ""
}

func echoOnce(c net.Conn, payload string) bool {
	_ = c.SetDeadline(time.Now().Add(2 * time.Second))
	defer c.SetDeadline(time.Time{})
	if _, err := c.Write([]byte(payload)); err != nil {
		return false
	}
	buf := make([]byte, len(payload))
	if _, err := io.ReadFull(c, buf); err != nil {
		return false
	}
	return bytes.Equal(buf, []byte(payload))
}

func (e *sysEnv) dial(s sspec) (net.Conn, error) {
	return net.DialTimeout("tcp", net.JoinHostPort(sysSrvAddr, fmt.Sprint(e.remotePort(s))), 2*time.Second)
}

// health-checked proxies (real monitors, real backend) with every subset of the three optional
// fields unset; the same set is loaded again twice from fresh objects, as a reload of an unchanged
// file does: no request may reach the server, the open connections keep working
func runHealthReload(stable time.Duration) (finds []sysFinding, err error) {
	set := []sspec{{0, 0}}
	for omit := 0; omit < 8; omit++ {
		set = append(set, sspec{10 + omit, 0})
	}
	tag := "health-checked proxies with unset intervalSeconds/timeoutSeconds/maxFailed, identical reloads"
	e, err := newSysEnv(set)
	if err != nil {
		return nil, err
	}
	defer e.close()
	for _, s := range set {
		if !e.cli.WaitProxyRunning(fmt.Sprintf("p%d", s.name), 5*time.Second) {
			return []sysFinding{{"system:health-checked-proxy-not-registered", fmt.Sprintf("p%d not running 5 s after its backend answered the first probe", s.name), tag}}, nil
		}
	}
	e.quiesce(stable)
	e.plug.take()
	conns := map[int]net.Conn{}
	for _, s := range set {
		c, err := e.dial(s)
		if err != nil || !echoOnce(c, "before-reload") {
			finds = append(finds, sysFinding{"system:tunnel-not-usable", fmt.Sprintf("no echo through running proxy p%d", s.name), tag})
			continue
		}
		conns[s.name] = c
	}
	defer func() {
		for _, c := range conns {
			c.Close()
		}
	}()
	for round := 1; round <= 2; round++ {
		if err := e.reload(set); err != nil {
			return nil, err
		}
		e.quiesce(stable)
		for _, x := range e.plug.take() {
			finds = append(finds, sysFinding{"system:unchanged-proxy-re-registered",
				fmt.Sprintf("identical reload %d: the server handled %s for %s", round, []string{"", "NewProxy", "CloseProxy"}[x.kind], x.name), tag})
		}
		for n, c := range conns {
			if !echoOnce(c, "after-reload") {
				finds = append(finds, sysFinding{"system:open-connection-interrupted",
					fmt.Sprintf("identical reload %d: the connection opened through p%d before the reload no longer carries traffic", round, n), tag})
			}
		}
	}
	return finds, nil
}

// ---- the service path: reloads through Service.UpdateAllConfigurer with visitors, empty sets, outage ----

type vsspec struct{ name, val int }

func (e *sysEnv) vport(s vsspec) int {
	k := [2]int{100 + s.name, s.val}
	if p, ok := e.ports[k]; ok {
		return p
	}
	p := hx.FreePort(sysVisAddr)
	e.ports[k] = p
	return p
}

func (e *sysEnv) buildVisitor(s vsspec) v1.VisitorConfigurer {
	c := &v1.STCPVisitorConfig{}
	c.Name = fmt.Sprintf("v%d", s.name)
	c.Type = "stcp"
	c.SecretKey = fmt.Sprintf("k%d", s.val)
	c.ServerName = "nobody"
	c.BindAddr = sysVisAddr
	c.BindPort = e.vport(s)
	return c
}

const sysVisAddr = "127.0.19.5"
const sysSubHost = "c19.test"

// ---- http proxies: subdomain / custom domains x 0, 1, 2+ locations; the server's route table ----

type hspec struct {
	name   int
	sub    bool // subdomain s<name>
	custom int  // number of custom domains
	nloc   int  // number of locations
	rev    int  // any other field (hostHeaderRewrite): a different value makes the entry "changed"
	hc     bool // tcp health check against the switchable backend
}

func (e *sysEnv) buildHTTP(s hspec, hcPort int) v1.ProxyConfigurer {
	c := &v1.HTTPProxyConfig{}
	c.Name = fmt.Sprintf("h%d", s.name)
	c.Type = "http"
	c.LocalIP = sysEchoAddr
	c.LocalPort = e.echo.Port()
	if s.sub {
		c.SubDomain = fmt.Sprintf("s%d", s.name)
	}
	for i := 0; i < s.custom; i++ {
		c.CustomDomains = append(c.CustomDomains, fmt.Sprintf("d%d-%d.example.org", s.name, i))
	}
	for i := 0; i < s.nloc; i++ {
		c.Locations = append(c.Locations, fmt.Sprintf("/l%d", i))
	}
	c.HostHeaderRewrite = fmt.Sprintf("rev%d.internal", s.rev)
	if s.hc {
		c.LocalPort = hcPort
		c.HealthCheck = v1.HealthCheckConfig{Type: "tcp", IntervalSeconds: 1, TimeoutSeconds: 1, MaxFailed: 1}
	}
	c.Complete("")
	return c
}

func hroutes(set []hspec) []string {
	var out []string
	seen := map[int]bool{}
	for _, s := range set {
		if seen[s.name] {
			continue
		}
		seen[s.name] = true
		var domains []string
		for i := 0; i < s.custom; i++ {
			domains = append(domains, fmt.Sprintf("d%d-%d.example.org", s.name, i))
		}
		if s.sub {
			domains = append(domains, fmt.Sprintf("s%d.%s", s.name, sysSubHost))
		}
		locs := []string{""}
		if s.nloc > 0 {
			locs = nil
			for i := 0; i < s.nloc; i++ {
				locs = append(locs, fmt.Sprintf("/l%d", i))
			}
		}
		for _, d := range domains {
			for _, l := range locs {
				out = append(out, d+"|"+l+"|")
			}
		}
	}
	sort.Strings(out)
	return out
}

func (e *sysEnv) serverRoutes() []string {
	return e.srv.Svc.VerifResourceController().HTTPReverseProxy.VerifC10Routers().VerifC10Routes()
}

// httpSettled: route table = routes of the set, registered names = names of the set, all running
func (e *sysEnv) httpSettled(set []hspec) string {
	want := hroutes(set)
	got := e.serverRoutes()
	if strings.Join(want, ",") != strings.Join(got, ",") {
		return fmt.Sprintf("route table of the server is %v, the configured http proxies need exactly %v", got, want)
	}
	names := map[string]bool{}
	for _, s := range set {
		names[fmt.Sprintf("h%d", s.name)] = true
	}
	for _, n := range e.serverNames() {
		if !names[n] {
			return fmt.Sprintf("%s is registered at the server but not configured", n)
		}
		delete(names, n)
	}
	for n := range names {
		return fmt.Sprintf("%s is configured but not registered at the server", n)
	}
	for _, s := range set {
		st, ok := e.cli.Svc.StatusExporter().GetProxyStatus(fmt.Sprintf("h%d", s.name))
		if !ok || st.Phase != proxy.ProxyPhaseRunning {
			ph, er := "absent", ""
			if ok {
				ph, er = st.Phase, st.Err
			}
			return fmt.Sprintf("client reports %q for h%d (%s)", ph, s.name, er)
		}
	}
	return ""
}

func (e *sysEnv) waitHTTP(set []hspec, d time.Duration) string {
	deadline := time.Now().Add(d)
	msg := ""
	for time.Now().Before(deadline) {
		if msg = e.httpSettled(set); msg == "" {
			return ""
		}
		time.Sleep(10 * time.Millisecond)
	}
	return msg
}

// runHTTPRoutes: reload cycles and a health cycle over http proxies with a subdomain and/or custom
// domains and 0, 1, 2, 3 locations; after every step the server's route table must be exactly the routes
// of the configured set and every configured proxy must be registered and running
func runHTTPRoutes(wait time.Duration) (finds []sysFinding, err error) {
	e, err := newSysEnv(nil)
	if err != nil {
		return nil, err
	}
	defer e.close()
	// switchable backend for the health-checked proxy
	bl, err := net.Listen("tcp", net.JoinHostPort(sysEchoAddr, "0"))
	if err != nil {
		return nil, err
	}
	hcPort := bl.Addr().(*net.TCPAddr).Port
	accept := func(l net.Listener) {
		for {
			c, err := l.Accept()
			if err != nil {
				return
			}
			c.Close()
		}
	}
	go accept(bl)
	defer func() { bl.Close() }()

	load := func(set []hspec) error {
		cfgs := make([]v1.ProxyConfigurer, len(set))
		for i, s := range set {
			cfgs[i] = e.buildHTTP(s, hcPort)
		}
		return e.cli.Svc.UpdateAllConfigurer(cfgs, nil)
	}
	step := func(what string, set []hspec, d time.Duration) {
		if len(finds) > 0 {
			return // the first divergence is the finding; later steps would only wait for their timeouts
		}
		if msg := e.waitHTTP(set, d); msg != "" {
			finds = append(finds, sysFinding{"system:http-routes-not-converged", what + ": " + msg, fmt.Sprintf("%+v", set)})
		}
	}
	if !e.waitLive(true, 5*time.Second) {
		return []sysFinding{{"system:client-never-logged-in", "no live session 5 s after start", "http routes"}}, nil
	}
	base := []hspec{
		{name: 0, sub: true, nloc: 0}, {name: 1, sub: true, nloc: 1}, {name: 2, sub: true, nloc: 2}, {name: 3, sub: true, nloc: 3},
		{name: 4, custom: 1, nloc: 2}, {name: 5, custom: 2, nloc: 2}, {name: 6, sub: true, custom: 1, nloc: 2}, {name: 7, custom: 1, nloc: 0},
	}
	bump := func(set []hspec) []hspec {
		out := append([]hspec{}, set...)
		for i := range out {
			out[i].rev++
		}
		return out
	}
	if err := load(base); err != nil {
		return nil, err
	}
	step("first load", base, wait)
	// every entry changed in a field that does not touch the routes: closed and registered again
	s2 := bump(base)
	if err := load(s2); err != nil {
		return nil, err
	}
	step("reload with every entry changed", s2, wait)
	// number of locations changed
	s3 := append([]hspec{}, s2...)
	s3[0].nloc, s3[2].nloc, s3[4].nloc, s3[5].nloc = 2, 1, 0, 3
	if err := load(s3); err != nil {
		return nil, err
	}
	step("reload with other location lists", s3, wait)
	// half removed, then added again
	s4 := []hspec{s3[1], s3[3], s3[5], s3[7]}
	if err := load(s4); err != nil {
		return nil, err
	}
	step("reload that removes four entries", s4, wait)
	if err := load(s3); err != nil {
		return nil, err
	}
	step("reload that adds them again", s3, wait)
	// identical reload: nothing may reach the server
	e.plug.take()
	if err := load(s3); err != nil {
		return nil, err
	}
	time.Sleep(wait / 10)
	step("identical reload", s3, wait)
	for _, x := range e.plug.take() {
		finds = append(finds, sysFinding{"system:unchanged-proxy-re-registered",
			fmt.Sprintf("identical reload of the http set: the server handled %s for %s", []string{"", "NewProxy", "CloseProxy"}[x.kind], x.name), "http routes"})
	}
	// health cycle: subdomain + two locations, backend up -> down -> up
	hcs := hspec{name: 8, sub: true, nloc: 2, hc: true}
	s5 := append(append([]hspec{}, s4...), hcs)
	if err := load(s5); err != nil {
		return nil, err
	}
	step("health-checked entry added, backend up", s5, wait+3*time.Second)
	bl.Close()
	step("backend down: withdrawn", s4, wait+5*time.Second)
	for i := 0; i < 50; i++ {
		if bl, err = net.Listen("tcp", net.JoinHostPort(sysEchoAddr, fmt.Sprint(hcPort))); err == nil {
			break
		}
		time.Sleep(20 * time.Millisecond)
	}
	if err != nil {
		return finds, nil
	}
	go accept(bl)
	// the withdrawn entry is configured: the client reports it, the server must have it again
	step("backend up again: registered again", s5, wait+5*time.Second)
	return finds, nil
}

type svcStep struct {
	op   int // 0 login (start), 1 lost, 2 reload, 3 login again
	p    []sspec
	v    []vsspec
	live bool
	prow [][2]int
	vrow [][3]int
}

func (e *sysEnv) svcReload(p []sspec, v []vsspec) error {
	pc := make([]v1.ProxyConfigurer, len(p))
	for i, s := range p {
		pc[i] = e.build(s)
	}
	vc := make([]v1.VisitorConfigurer, len(v))
	for i, s := range v {
		vc[i] = e.buildVisitor(s)
	}
	e.cur = p
	return e.cli.Svc.UpdateAllConfigurer(pc, vc)
}

func (e *sysEnv) svcObserve(st *svcStep, everV map[vsspec]bool, want map[vsspec]bool) (stale []string) {
	live, proxies, visitors, running := e.cli.Svc.VerifC19Tables()
	st.live = live
	for name, c := range proxies {
		n := nameNum(name)
		val := -1
		if tc, ok := c.(*v1.TCPProxyConfig); ok {
			for v := 0; v < 4; v++ {
				if tc.RemotePort == e.remotePort(sspec{n, v}) && tc.Metadatas["m"] == fmt.Sprint(v/2) {
					val = v
				}
			}
		}
		st.prow = append(st.prow, [2]int{n, val})
	}
	sort.Slice(st.prow, func(i, j int) bool { return st.prow[i][0] < st.prow[j][0] })
	isRunning := map[string]bool{}
	for _, r := range running {
		isRunning[r] = true
	}
	for name, c := range visitors {
		n := nameNumV(name)
		val := -1
		for v := 0; v < 4; v++ {
			if c.GetBaseConfig().SecretKey == fmt.Sprintf("k%d", v) && c.GetBaseConfig().BindPort == e.vport(vsspec{n, v}) {
				val = v
			}
		}
		run := 0
		if isRunning[name] {
			run = 1
		}
		st.vrow = append(st.vrow, [3]int{n, val, run})
	}
	sort.Slice(st.vrow, func(i, j int) bool { return st.vrow[i][0] < st.vrow[j][0] })
	// a visitor that is not in the last loaded set must have released its bind port
	for s := range everV {
		if !want[s] && !hx.TCPBindable(sysVisAddr, e.vport(s)) {
			stale = append(stale, fmt.Sprintf("v%d (configuration %d, port %d)", s.name, s.val, e.vport(s)))
		}
	}
	sort.Strings(stale)
	return stale
}

func (e *sysEnv) waitLive(want bool, d time.Duration) bool {
	deadline := time.Now().Add(d)
	for time.Now().Before(deadline) {
		if live, _, _, _ := e.cli.Svc.VerifC19Tables(); live == want {
			return true
		}
		time.Sleep(10 * time.Millisecond)
	}
	return false
}

// restartServer brings frps up again on the same address and port with the same plugin
func (e *sysEnv) restartServer() error {
	port := e.srv.Port
	var err error
	for i := 0; i < 50; i++ {
		e.srv, err = hx.StartServer(sysSrvAddr, func(c *v1.ServerConfig) {
			c.BindPort = port
			c.VhostHTTPPort = hx.FreePort(sysSrvAddr)
			c.SubDomainHost = sysSubHost
			c.HTTPPlugins = []v1.HTTPPluginOptions{{Name: "c19", Addr: "http://" + e.plug.ln.Addr().String(), Path: "/h",
				Ops: []string{"NewProxy", "CloseProxy"}}}
		})
		if err == nil {
			return nil
		}
		time.Sleep(20 * time.Millisecond)
	}
	return err
}

// runServicePath: start with proxies and visitors, then reload to the empty visitor set, from empty,
// replace everything, proxies to empty and back, an outage with a reload while the client retries,
// an identical reload.  Returns the steps for the Coq comparison and the Go-side findings.
func runServicePath(stable time.Duration) (p0 []sspec, v0 []vsspec, steps []svcStep, finds []sysFinding, err error) {
	p0 = []sspec{{0, 0}, {1, 0}}
	v0 = []vsspec{{0, 0}, {1, 0}}
	e, err := newSysEnvFull(p0, v0)
	if err != nil {
		return nil, nil, nil, nil, err
	}
	defer e.close()
	everV := map[vsspec]bool{}
	note := func(v []vsspec) {
		for _, s := range v {
			everV[s] = true
		}
	}
	note(v0)
	want := map[vsspec]bool{}
	setWant := func(v []vsspec) {
		want = map[vsspec]bool{}
		seen := map[int]bool{}
		for _, s := range v {
			if !seen[s.name] {
				seen[s.name] = true
				want[s] = true
			}
		}
	}
	setWant(v0)
	check := func(i int, st *svcStep) {
		for _, s := range e.svcObserve(st, everV, want) {
			finds = append(finds, sysFinding{"system:removed-visitor-still-listening",
				fmt.Sprintf("step %d: visitor %s is not configured any more but its bind port is still taken", i, s), "service path"})
		}
		if st.live {
			if msg := e.converged(); msg != "" {
				finds = append(finds, sysFinding{"system:not-converged", fmt.Sprintf("service path step %d: %s", i, msg), "service path"})
			}
		}
	}
	if !e.waitLive(true, 5*time.Second) {
		return p0, v0, nil, []sysFinding{{"system:client-never-logged-in", "no live session 5 s after start", "service path"}}, nil
	}
	e.quiesce(stable)
	st := svcStep{op: 0}
	check(0, &st)
	steps = append(steps, st)

	reloads := []struct {
		p []sspec
		v []vsspec
	}{
		{p0, nil},                      // the last visitors removed
		{p0, []vsspec{{2, 0}, {0, 1}}}, // visitors from the empty set
		{nil, []vsspec{{3, 0}}},        // all visitors replaced, proxies to the empty set
		{[]sspec{{2, 0}}, nil},         // proxies from the empty set, visitors to empty
		{[]sspec{{2, 0}, {0, 1}}, []vsspec{{1, 1}, {1, 0}}}, // both non-empty again, duplicate visitor name
	}
	for _, r := range reloads {
		note(r.v)
		setWant(r.v)
		if err := e.svcReload(r.p, r.v); err != nil {
			return p0, v0, steps, finds, err
		}
		e.quiesce(stable)
		st := svcStep{op: 2, p: r.p, v: r.v}
		check(len(steps), &st)
		steps = append(steps, st)
	}
	// outage: the server goes away, the configuration is reloaded while the client retries, the
	// server comes back
	e.srv.Close()
	if !e.waitLive(false, 5*time.Second) {
		finds = append(finds, sysFinding{"system:connection-loss-not-noticed", "session still live 5 s after the server closed", "service path"})
		return p0, v0, steps, finds, nil
	}
	steps = append(steps, svcStep{op: 1})
	time.Sleep(50 * time.Millisecond)
	np, nv := []sspec{{3, 0}, {0, 1}}, []vsspec{{2, 1}}
	note(nv)
	setWant(nv)
	if err := e.svcReload(np, nv); err != nil {
		return p0, v0, steps, finds, err
	}
	steps = append(steps, svcStep{op: 2, p: np, v: nv})
	if err := e.restartServer(); err != nil {
		return p0, v0, steps, finds, err
	}
	if !e.waitLive(true, 15*time.Second) {
		finds = append(finds, sysFinding{"system:no-relogin", "no live session 15 s after the server came back", "service path"})
		return p0, v0, steps, finds, nil
	}
	e.quiesce(stable)
	st = svcStep{op: 3}
	check(len(steps), &st)
	steps = append(steps, st)
	// identical reload on the new session
	if err := e.svcReload(np, nv); err != nil {
		return p0, v0, steps, finds, err
	}
	e.quiesce(stable)
	ev := e.plug.take()
	_ = ev
	st = svcStep{op: 2, p: np, v: nv}
	check(len(steps), &st)
	steps = append(steps, st)
	return p0, v0, steps, finds, nil
}

func renderSvc(p0 []sspec, v0 []vsspec, steps []svcStep) string {
	ps := func(p []sspec) string {
		xs := make([]string, len(p))
		for i, s := range p {
			xs[i] = fmt.Sprintf("(%d, %d)", s.name, s.val)
		}
		return hx.List(xs)
	}
	vs := func(v []vsspec) string {
		xs := make([]string, len(v))
		for i, s := range v {
			xs[i] = fmt.Sprintf("(%d, %d)", s.name, s.val)
		}
		return hx.List(xs)
	}
	parts := make([]string, len(steps))
	for i, st := range steps {
		op := "SOLogin"
		switch st.op {
		case 1:
			op = "SOLost"
		case 2:
			op = fmt.Sprintf("SOReload %s %s", ps(st.p), vs(st.v))
		}
		pr := make([]string, len(st.prow))
		for j, r := range st.prow {
			pr[j] = fmt.Sprintf("(%s, %s)", hx.Z(int64(r[0])), hx.Z(int64(r[1])))
		}
		vr := make([]string, len(st.vrow))
		for j, r := range st.vrow {
			vr[j] = fmt.Sprintf("(%s, %s, %d)", hx.Z(int64(r[0])), hx.Z(int64(r[1])), r[2])
		}
		if !st.live {
			pr, vr = nil, nil
		}
		parts[i] = fmt.Sprintf("(%s, %s, %s, %s)", op, hx.Bool(st.live), hx.List(pr), hx.List(vr))
	}
	return fmt.Sprintf("CSvc %s %s %s", ps(p0), vs(v0), hx.List(parts))
}

// ---- scenarios ----

type sysFinding struct{ key, what, where string }

type sysStep struct {
	specs  []sspec
	events [][3]int
	rows   [][3]int
}

func eventSet(ev []plugEvent) [][3]int {
	set := map[[3]int]bool{}
	for _, x := range ev {
		set[[3]int{x.kind, nameNum(x.name), 0}] = true
	}
	res := make([][3]int, 0, len(set))
	for k := range set {
		res = append(res, k)
	}
	sort.Slice(res, func(i, j int) bool {
		if res[i][0] != res[j][0] {
			return res[i][0] < res[j][0]
		}
		return res[i][1] < res[j][1]
	})
	return res
}

// quiescent reload sequence with a connection kept open through an unchanged proxy
func runQuiescent(seq [][]sspec, stable time.Duration) (steps []sysStep, finds []sysFinding, err error) {
	e, err := newSysEnv(seq[0])
	if err != nil {
		return nil, nil, err
	}
	defer e.close()
	e.quiesce(stable)
	steps = append(steps, sysStep{seq[0], eventSet(e.plug.take()), e.clientRows()})
	for i := 1; i < len(seq); i++ {
		// pick a proxy the reload leaves unchanged and open a connection through it
		var keep *sspec
		before := e.firsts()
		after := map[int]sspec{}
		for _, s := range seq[i] {
			if _, ok := after[s.name]; !ok {
				after[s.name] = s
			}
		}
		for n, s := range before {
			if a, ok := after[n]; ok && a == s {
				k := s
				keep = &k
				break
			}
		}
		var conn net.Conn
		if keep != nil {
			conn, err = e.dial(*keep)
			if err != nil || !echoOnce(conn, "before-reload") {
				finds = append(finds, sysFinding{"system:tunnel-not-usable", fmt.Sprintf("reload %d: no echo through running proxy p%d before the reload", i, keep.name), fmt.Sprint(seq)})
				if conn != nil {
					conn.Close()
				}
				conn = nil
			}
		}
		if err := e.reload(seq[i]); err != nil {
			return steps, finds, err
		}
		e.quiesce(stable)
		ev := e.plug.take()
		steps = append(steps, sysStep{seq[i], eventSet(ev), e.clientRows()})
		if keep != nil {
			for _, x := range ev {
				if nameNum(x.name) == keep.name {
					finds = append(finds, sysFinding{"system:unchanged-proxy-re-registered",
						fmt.Sprintf("reload %d leaves p%d unchanged but the server handled %s for it", i, keep.name, []string{"", "NewProxy", "CloseProxy"}[x.kind]), fmt.Sprint(seq)})
				}
			}
			if conn != nil {
				if !echoOnce(conn, "after-reload") {
					finds = append(finds, sysFinding{"system:open-connection-interrupted",
						fmt.Sprintf("reload %d leaves p%d unchanged but the connection opened through it before the reload no longer carries traffic", i, keep.name), fmt.Sprint(seq)})
				}
				conn.Close()
			}
		}
		if msg := e.converged(); msg != "" {
			finds = append(finds, sysFinding{"system:not-converged", fmt.Sprintf("after reload %d: %s", i, msg), fmt.Sprint(seq)})
		}
	}
	return steps, finds, nil
}

// a reload placed while the NewProxyResp of proxy `held` is outstanding (optionally the held
// registration is rejected by the server), then the reply is released
func runHeld(first, second []sspec, held int, rejectHeld bool, stable time.Duration) (finds []sysFinding, err error) {
	tag := fmt.Sprintf("held p%d reject=%v first=%v second=%v", held, rejectHeld, first, second)
	e, err := newSysEnv(nil)
	if err != nil {
		return nil, err
	}
	defer e.close()
	e.quiesce(stable)
	hname := fmt.Sprintf("p%d", held)
	arrived, release := e.plug.holdNext(hname)
	defer release()
	if rejectHeld {
		e.plug.mu.Lock()
		e.plug.reject[hname] = 1
		e.plug.mu.Unlock()
	}
	if err := e.reload(first); err != nil {
		return nil, err
	}
	select {
	case <-arrived:
	case <-time.After(3 * time.Second):
		return []sysFinding{{"system:newproxy-never-reached-server", "NewProxy for " + hname + " did not reach the server", tag}}, nil
	}
	// open a connection through a proxy that both sets contain unchanged
	var conn net.Conn
	var keep *sspec
	for _, s := range first {
		if s.name == held {
			continue
		}
		for _, t := range second {
			if t == s {
				k := s
				keep = &k
			}
		}
	}
	// the server's read loop is busy with the held request: the other proxies of `first` register
	// only after the release, so the connection is opened after the second reload settled
	if err := e.reload(second); err != nil {
		return nil, err
	}
	time.Sleep(30 * time.Millisecond)
	release()
	e.quiesce(stable)
	if keep != nil {
		if conn, err = e.dial(*keep); err != nil || !echoOnce(conn, "after-held") {
			finds = append(finds, sysFinding{"system:tunnel-not-usable", fmt.Sprintf("no echo through p%d after the reply was released", keep.name), tag})
		}
		if conn != nil {
			conn.Close()
		}
	}
	if msg := e.converged(); msg != "" {
		finds = append(finds, sysFinding{"system:not-converged-after-late-reply", msg, tag})
	}
	// the proxies that are configured must carry traffic
	for _, s := range e.firsts() {
		c, err := e.dial(s)
		if err != nil || !echoOnce(c, "final") {
			finds = append(finds, sysFinding{"system:configured-proxy-carries-no-traffic", fmt.Sprintf("p%d (configuration %d) is configured but a user connection gets no echo", s.name, s.val), tag})
		}
		if c != nil {
			c.Close()
		}
	}
	return finds, nil
}

func genSysSeq(g *hx.Gen) [][]sspec {
	cur := []sspec{{0, 0}, {1, 0}}
	seq := [][]sspec{append([]sspec{}, cur...)}
	for i := 0; i < 3+g.Intn(2); i++ {
		c := append([]sspec{}, cur...)
		for k := 0; k < 1+g.Intn(2); k++ {
			switch x := g.Intn(10); {
			case x < 3 || len(c) == 0:
				c = append(c, sspec{g.Intn(4), g.Intn(4)})
			case x < 4 && len(c) > 1:
				j := g.Intn(len(c))
				c = append(c[:j], c[j+1:]...)
			case x < 6:
				c[g.Intn(len(c))].val = g.Intn(4)
			case x < 7:
				g.R.Shuffle(len(c), func(a, b int) { c[a], c[b] = c[b], c[a] })
			case x < 9:
				j := g.Intn(len(c))
				d := sspec{c[j].name, g.Intn(4)}
				c = append(c, d)
			}
		}
		if len(c) > 5 {
			c = c[:5]
		}
		cur = c
		seq = append(seq, append([]sspec{}, cur...))
	}
	return seq
}

func renderSys(steps []sysStep) string {
	parts := make([]string, len(steps))
	for i, s := range steps {
		cs := make([]string, len(s.specs))
		for j, sp := range s.specs {
			cs[j] = fmt.Sprintf("(%d, %d, false)", sp.name, sp.val)
		}
		es := make([]string, len(s.events))
		for j, ev := range s.events {
			es[j] = fmt.Sprintf("(%d, %s, 0)", ev[0], hx.Z(int64(ev[1])))
		}
		rs := make([]string, len(s.rows))
		for j, r := range s.rows {
			rs[j] = fmt.Sprintf("(%s, %s, %s)", hx.Z(int64(r[0])), hx.Z(int64(r[1])), hx.Z(int64(r[2])))
		}
		parts[i] = fmt.Sprintf("(%s, %s, %s)", hx.List(cs), hx.List(es), hx.List(rs))
	}
	return "CSys " + hx.List(parts)
}

func runSystem(cfg *hx.RunCfg) error {
	// logging is silenced in shim.go (no rotating file writer on /dev/null: at a date change it would rename the device)
	// worker iterations every 20 ms; no spontaneous re-sends while a reply is held
	proxy.VerifSetTiming(20*time.Millisecond, time.Hour, time.Hour)
	g := hx.NewGen(cfg.Seed)
	stables := []time.Duration{120 * time.Millisecond, 400 * time.Millisecond, 1200 * time.Millisecond}

	cf := &hx.CaseFile{
		Imports: "From FRP Require Import Corr.C19.\nOpen Scope Z_scope.\n",
		Typ:     "c19_case",
		Tail:    "Definition M := Eval vm_compute in mismatches c19_check_case cases.\nPrint M.\n",
	}
	var failures []map[string]any
	dist := map[string]int{}
	report := func(f sysFinding) {
		failures = append(failures, map[string]any{"key": f.key, "what": "real frpc + in-process frps: " + f.what, "case": f.where})
	}
	seqs := [][][]sspec{
		{{{0, 0}, {1, 0}}, {{0, 0}, {1, 1}}, {{0, 0}, {0, 1}, {1, 1}}, {{0, 0}, {0, 1}, {1, 1}}, {{1, 1}, {0, 0}}, {{0, 2}}},
	}
	for len(seqs) < cfg.N {
		seqs = append(seqs, genSysSeq(g))
	}
	continuity := 0
	for _, seq := range seqs {
		var steps []sysStep
		var finds []sysFinding
		var err error
		// a scenario whose Go-side checks fail is repeated with longer settling; reported only
		// if it fails every time
		for _, st := range stables {
			steps, finds, err = runQuiescent(seq, st)
			if err != nil {
				return err
			}
			if len(finds) == 0 {
				break
			}
			dist["rerun"]++
		}
		for _, f := range finds {
			report(f)
		}
		cf.Cases = append(cf.Cases, renderSys(steps))
		dist["quiescent-sequences"]++
		dist["reloads"] += len(seq) - 1
		continuity += len(seq) - 1
	}
	type held struct {
		first, second []sspec
		held          int
		reject        bool
	}
	helds := []held{
		{[]sspec{{0, 0}, {1, 0}}, []sspec{{0, 0}}, 1, false},                 // removed while its reply is outstanding
		{[]sspec{{0, 0}, {1, 0}}, []sspec{{0, 0}, {1, 1}}, 1, false},         // changed while outstanding
		{[]sspec{{0, 0}, {1, 0}}, []sspec{{1, 0}, {0, 0}}, 1, false},         // reordered, unchanged
		{[]sspec{{0, 0}, {1, 0}}, []sspec{{0, 0}, {1, 0}, {1, 1}}, 1, false}, // duplicate added
		{[]sspec{{0, 0}, {1, 0}}, []sspec{{0, 0}}, 1, true},                  // removed; the held registration is refused
	}
	for _, h := range helds {
		var finds []sysFinding
		var err error
		for _, st := range stables {
			finds, err = runHeld(h.first, h.second, h.held, h.reject, st)
			if err != nil {
				return err
			}
			if len(finds) == 0 {
				break
			}
			dist["rerun"]++
		}
		for _, f := range finds {
			report(f)
		}
		dist["held-reply-scenarios"]++
	}
	{
		var finds []sysFinding
		for _, w := range []time.Duration{2 * time.Second, 5 * time.Second, 12 * time.Second} {
			f, err := runHTTPRoutes(w)
			if err != nil {
				return err
			}
			finds = f
			if len(f) == 0 {
				break
			}
			dist["rerun"]++
		}
		for _, f := range finds {
			report(f)
		}
		dist["http-route-scenarios"]++
	}
	{
		var p0 []sspec
		var v0 []vsspec
		var steps []svcStep
		var finds []sysFinding
		for _, st := range stables {
			var err error
			p0, v0, steps, finds, err = runServicePath(st)
			if err != nil {
				return err
			}
			if len(finds) == 0 {
				break
			}
			dist["rerun"]++
		}
		for _, f := range finds {
			report(f)
		}
		if len(steps) > 0 {
			cf.Cases = append(cf.Cases, renderSvc(p0, v0, steps))
		}
		dist["service-path-scenarios"]++
	}
	{
		var finds []sysFinding
		for _, st := range stables {
			f, err := runHealthReload(st)
			if err != nil {
				return err
			}
			finds = f
			if len(f) == 0 {
				break
			}
			dist["rerun"]++
		}
		for _, f := range finds {
			report(f)
		}
		dist["health-checked-identical-reload-scenarios"]++
	}
	{
		probs, err := checkLegacyIni()
		if err != nil {
			return err
		}
		for _, p := range probs {
			failures = append(failures, map[string]any{"key": "system:legacy-ini-differs-from-toml", "what": "real config loader: " + p, "case": "legacy.go: legacyIni / modernToml"})
		}
		dist["legacy-ini-vs-toml-checks"]++
	}
	// F-C19c (Properties/C19.v: C19_converges_with_async_replies_refuted), replayed on the real code:
	// proxy p1 is changed by a reload while the NewProxy of the replaced wrapper is unanswered, and
	// that NewProxy is refused.  Reported through the recipe (known finding / fixed / pending).
	{
		var finds []sysFinding
		reproduced := 0
		for _, st := range stables {
			f, err := runHeld([]sspec{{0, 0}, {1, 0}}, []sspec{{0, 0}, {1, 1}}, 1, true, st)
			if err != nil {
				return err
			}
			if len(f) == 0 {
				break
			}
			finds = f
			reproduced++
		}
		whats := []string{}
		for _, f := range finds {
			whats = append(whats, f.key+": "+f.what)
		}
		cfg.St["fc19c"] = map[string]any{"reproduced": reproduced == len(stables), "observations": whats,
			"case": "reload [p0, p1(cfg0)] -> NewProxy(p1) held and refused at the server -> reload [p0, p1(cfg1)] -> release"}
	}
	if err := cf.Write(cfg.Out); err != nil {
		return err
	}
	cfg.St["cases"] = len(cf.Cases)
	cfg.St["distinct_nontrivial"] = len(cf.Cases)
	cfg.St["samples"] = []string{cf.Cases[0]}
	cfg.St["distribution"] = dist
	cfg.St["impl_failures"] = failures
	cfg.St["continuity_checks"] = continuity
	return nil
}
