(* C19 — reflective check of the structural facts the translator unit c19reload reads from
   client/control.go and client/service.go (gen/GenC19Reload.v).  Model/ClientSvc.v assumes exactly
   these: both managers' UpdateAll are called unconditionally on the start and on the reload path, each
   with its own parameter; the service stores both sets and forwards both to the current Control; the
   login closure reads the configured sets after the login succeeded and starts the session with them. *)
From Coq Require Import List Bool Arith String.
From FRP Require Import Model.GenTypes gen.GenC19Reload.
Import ListNotations.
Open Scope string_scope.

Fixpoint c19_contains (sub s : string) : bool :=
  String.prefix sub s || match s with EmptyString => false | String _ r => c19_contains sub r end.

Definition c19_ends_with (suf s : string) : bool :=
  let n := String.length s in let m := String.length suf in
  (m <=? n)%nat && String.eqb (substring (n - m) m s) suf.

Definition c19_nested (t : string) : bool := String.prefix "> " t || String.prefix "| " t.
Definition c19_top (toks : list string) : list string := filter (fun t => negb (c19_nested t)) toks.
Definition c19_mem (s : string) (l : list string) : bool := existsb (String.eqb s) l.

Fixpoint c19_find (p : string -> bool) (l : list string) (i : nat) : option (nat * string) :=
  match l with
  | [] => None
  | t :: r => if p t then Some (i, t) else c19_find p r (S i)
  end.

Fixpoint c19_follows (a b : string) (l : list string) : bool :=
  match l with
  | x :: ((y :: _) as r) => (String.eqb x a && String.eqb y b) || c19_follows a b r
  | _ => false
  end.

(* Control.Run / Control.UpdateAllConfigurer: both UpdateAll calls at the top level of the body *)
Definition c19_both_unconditional (toks : list string) : bool :=
  c19_mem "call ctl.pm.UpdateAll($1)" (c19_top toks) && c19_mem "call ctl.vm.UpdateAll($2)" (c19_top toks).

Definition c19_svc_reload_ok (toks : list string) : bool :=
  c19_mem "assign svr.proxyCfgs = $1" (c19_top toks) && c19_mem "assign svr.visitorCfgs = $2" (c19_top toks) &&
  (c19_follows "if ctl != nil" "> return svr.ctl.UpdateAllConfigurer($1, $2)" toks ||
   c19_follows "if ctl != nil" "> return ctl.UpdateAllConfigurer($1, $2)" toks).

(* variable assigned from a field: "assign X := svr.f" *)
Definition c19_assigned_from (field tok : string) : option string :=
  let suf := " := " ++ field in
  if String.prefix "assign " tok && c19_ends_with suf tok
  then Some (substring 7 (String.length tok - 7 - String.length suf) tok) else None.

Definition c19_login_ok (toks : list string) : bool :=
  let top := c19_top toks in
  match c19_find (c19_contains "svr.login()") top 0,
        c19_find (fun t => match c19_assigned_from "svr.proxyCfgs" t with Some _ => true | None => false end) top 0,
        c19_find (fun t => match c19_assigned_from "svr.visitorCfgs" t with Some _ => true | None => false end) top 0 with
  | Some (il, _), Some (ip, tp), Some (iv, tv) =>
      match c19_assigned_from "svr.proxyCfgs" tp, c19_assigned_from "svr.visitorCfgs" tv with
      | Some x, Some y =>
          match c19_find (String.eqb ("call ctl.Run(" ++ x ++ ", " ++ y ++ ")")) top 0 with
          | Some (ir, _) => (il <? ip)%nat && (il <? iv)%nat && (ip <? ir)%nat && (iv <? ir)%nat
          | None => false
          end
      | _, _ => false
      end
  | _, _, _ => false
  end.

Definition c19_outer_ok (toks : list string) : bool :=
  forallb (fun t => negb (c19_contains "svr.proxyCfgs" t || c19_contains "svr.visitorCfgs" t)) toks.

Definition c19_reload_facts_ok : bool :=
  C19Reload_translated &&
  c19_both_unconditional c19_ctl_run && c19_both_unconditional c19_ctl_reload &&
  c19_svc_reload_ok c19_svc_reload && c19_login_ok c19_login_closure && c19_outer_ok c19_login_outer.
