package main

// Driver "udprace" (C10): replays of the schedules of finding F-C10d (server/proxy/udp.go, repaired in
// /repo: Close ends the loop of Run first, and a work connection fetched while the proxy was being closed
// is closed on the spot; model and theorems: Model/UdpLoop.v).  A udp proxy is registered, served its work
// connection, and terminated at once.  Every trial that leaves a work connection open 2 s after the
// termination, or in which a closed proxy takes a connection out of the pool, is an implementation failure.
//
//	work/h_c10 udprace -seed 1 -n 20 -stats /tmp/x/udprace.json

import (
	"fmt"
	"net"
	"time"

	"github.com/fatedier/frp/pkg/config/types"
	"github.com/fatedier/frp/pkg/msg"

	"verifharness/hx"
)

func init() { drivers["udprace"] = runUDPRace }

type raceVariant struct {
	name, what, sequence string
}

var raceVariants = []raceVariant{
	{"drop-after-start",
		"the control connection is dropped right after StartWorkConn was read: UDPProxy.Run stores pxy.workConn a moment after GetWorkConnFromPool wrote StartWorkConn, without the lock; a Close in between sees workConn == nil and the connection is left to the reader's 60 s deadline",
		"Login; NewProxy udp; (500 ms) ReqWorkConn; NewWorkConn A; read StartWorkConn on A; close the control connection at once; A must be closed within 2 s"},
	{"closeproxy-after-start",
		"the same window, reached by CloseProxy on the live session",
		"Login; NewProxy udp; ReqWorkConn; NewWorkConn A; read StartWorkConn on A; CloseProxy at once; A must be closed within 2 s"},
	{"closeproxy-with-pooled-conn",
		"UDPProxy.Close closes pxy.workConn first and checkCloseCh last: the reader goroutine reports the read error through checkCloseCh, the Run loop takes it for 'work connection lost', and calls GetWorkConnFromPool after the proxy is closed; a pooled connection is taken (it receives a StartWorkConn), stored, and never closed (isClosed is already set) -- with an empty pool a ReqWorkConn goes to the client instead and the answer leaks the same way",
		"Login; NewProxy udp; ReqWorkConn; NewWorkConn A; StartWorkConn on A; wait 150 ms; NewWorkConn B (stays in the pool); CloseProxy; Ping/Pong; 300 ms later drop the control connection; B (no longer in the pool, so not closed by the teardown) must be closed within 2 s"},
}

func runUDPRace(cfg *hx.RunCfg) error {
	hx.Quiet()
	rec := newRecorder()
	n := cfg.N
	if n <= 0 || n > 50 {
		n = 4
	}
	out := []map[string]any{}
	for vi, v := range raceVariants {
		w, err := newWorld(worldOpts{addr: loop(7 + vi), ranges: []types.PortsRange{{Start: basePort, End: basePort + 3}},
			runTag: fmt.Sprintf("%d-race%d", cfg.Seed, vi), label: "udprace:" + v.name, rec: rec})
		if err != nil {
			return err
		}
		leaks, aborted, stolen := 0, 0, 0
		for t := 0; t < n; t++ {
			c := w.login()
			if w.broken {
				break
			}
			s := w.peers[c]
			q := preq{kind: "udp", name: "race", port: basePort + 1}
			if w.newProxy(c, q, npOpts{}) < 0 || w.broken {
				aborted++
				w.broken = false
				s.p.Close()
				delete(w.peers, c)
				time.Sleep(100 * time.Millisecond)
				continue
			}
			if !w.waitReq(s, 1500*time.Millisecond) {
				aborted++
				s.p.Close()
				delete(w.peers, c)
				continue
			}
			a, who, ok := w.serveWorkConn(s, 2*time.Second)
			if !ok || who != "race" {
				aborted++
				if a != nil {
					a.Close()
				}
				s.p.Close()
				delete(w.peers, c)
				continue
			}
			done := w.srv.Svc.VerifC10Done(s.runID)
			var watch net.Conn = a
			switch v.name {
			case "drop-after-start":
				s.p.Close()
			case "closeproxy-after-start":
				_ = s.p.CloseProxy("race")
			case "closeproxy-with-pooled-conn":
				time.Sleep(150 * time.Millisecond)
				b, err := s.p.WorkConn(true)
				if err != nil {
					aborted++
					a.Close()
					s.p.Close()
					delete(w.peers, c)
					continue
				}
				for i := 0; i < 200; i++ {
					if pool, _ := w.sessionInfo(s.runID); pool == 1 {
						break
					}
					time.Sleep(5 * time.Millisecond)
				}
				_ = s.p.CloseProxy("race")
				w.sync(s)
				time.Sleep(300 * time.Millisecond)
				// did the closed proxy take B out of the pool?
				_ = b.SetReadDeadline(time.Now().Add(50 * time.Millisecond))
				var sw msg.StartWorkConn
				if msg.ReadMsgInto(b, &sw) == nil && sw.ProxyName == "race" {
					stolen++
				}
				_ = b.SetReadDeadline(time.Time{})
				s.p.Close()
				watch = b
			}
			if !hx.ConnClosedWithin(watch, 2*time.Second) {
				leaks++
			}
			watch.Close()
			a.Close()
			s.p.Close()
			w.waitGone(s.runID, done, 3*time.Second)
			delete(w.peers, c)
		}
		w.shutdown()
		r := map[string]any{"variant": v.name, "what": v.what, "sequence": v.sequence, "trials": n, "aborted": aborted, "left_open_after_2s": leaks}
		if v.name == "closeproxy-with-pooled-conn" {
			r["pooled_conn_got_startworkconn_after_close"] = stolen
		}
		out = append(out, r)
	}
	cf := &hx.CaseFile{Imports: coqImports, Typ: "case", Tail: caseTail()}
	cfg.St["cases"] = 0
	cfg.St["distinct_nontrivial"] = 0
	cfg.St["samples"] = []string{}
	cfg.St["distribution"] = map[string]int{"variants": len(raceVariants), "trials_per_variant": n}
	cfg.St["variants"] = out
	fails := []map[string]string{}
	total := 0
	for _, r := range out {
		leaks, _ := r["left_open_after_2s"].(int)
		stolen, _ := r["pooled_conn_got_startworkconn_after_close"].(int)
		total += r["trials"].(int) - r["aborted"].(int)
		if leaks > 0 || stolen > 0 {
			fails = append(fails, map[string]string{
				"key":  "udp-closed-proxy-keeps-work-conn:" + r["variant"].(string),
				"what": fmt.Sprintf("%d of %d trials left a work connection open 2 s after the udp proxy terminated (%d pooled connections were taken by the closed proxy)", leaks, r["trials"], stolen),
				"case": r["sequence"].(string)})
		}
	}
	cfg.St["cases"] = total
	cfg.St["distinct_nontrivial"] = len(raceVariants)
	cfg.St["impl_failures"] = fails
	cfg.St["note"] = "replays the schedules of F-C10d (UDPProxy.Close vs the loop of Run) on the real server"
	return cf.Write(cfg.Out)
}
