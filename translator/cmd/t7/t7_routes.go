package main

// T7 (routes part): server/dashboard_api.go, client/admin_api.go, pkg/util/http/server.go -> GenRoutes.v
//
//	dashboard_routes, admin_routes, webserver_routes : list ha_wstmt
//
// Every gorilla/mux route registration is emitted with the router variable it hangs off, whether that
// router is the server's root router, whether the router (or the root it derives from) .Use()s the basic-auth
// middleware, the path pattern, the method restriction and the flag under which the registration happens.
// Anything touching a router that is not one of the recognised registration forms becomes WUnknown, on which
// the reflective checker (Proofs/HttpAuthProofs.v: ha_routes_guarded) answers false.
//
// Recognised forms (R a router expression):
//	R.HandleFunc("/p", h)[.Methods("M",…)]      R.Handle("/p", h)[.Methods(…)]
//	R.PathPrefix("/p").Handler(h)[.Methods(…)]   R.PathPrefix("/p").HandlerFunc(h)[.Methods(…)]
//	x := R.NewRoute().Subrouter()                R.Use(<expr naming the auth middleware>)
//	if <a.b.Flag> { … }                          a call of a method of the same file that registers routes

import (
	"veriftranslator/tx"

	"bytes"
	"fmt"
	"go/ast"
	"go/parser"
	"go/printer"
	"go/token"
	"path/filepath"
	"strconv"
	"strings"
)

func main() {
	tx.Main(tx.Unit{Name: "T7", File: "GenRoutes.v", Fn: genRoutes}, tx.Unit{Name: "T7S", File: "GenRouteSites.v", Fn: genRouteSites})
}

type router struct {
	name    string
	root    bool
	parent  *router
	mw      bool
	created string // condition under which the router was created ("" = unconditionally)
}

func (r *router) guarded() bool {
	for x := r; x != nil; x = x.parent {
		if x.mw {
			return true
		}
	}
	return false
}

type stmtOut struct {
	unknown string
	r       *router
	pat     string // "PExact" | "PPrefix" | "PUnknownPat"
	tpl     string
	methods []string
	cond    string // "" = always
}

type fileCtx struct {
	fset    *token.FileSet
	rel     string
	file    *ast.File
	routers map[string]*router
	funcs   map[string]*ast.FuncDecl
	out     []stmtOut
	visited map[string]bool
}

func srcFull(fset *token.FileSet, n ast.Node) string {
	var b bytes.Buffer
	_ = printer.Fprint(&b, fset, n)
	return strings.Join(strings.Fields(b.String()), " ")
}

func src(fset *token.FileSet, n ast.Node) string {
	s := srcFull(fset, n)
	if len(s) > 100 {
		s = s[:100]
	}
	return s
}

// exprName renders identifiers and selector chains ("helper.Router"); "" for anything else.
func exprName(e ast.Expr) string {
	switch x := e.(type) {
	case *ast.Ident:
		return x.Name
	case *ast.SelectorExpr:
		b := exprName(x.X)
		if b == "" {
			return ""
		}
		return b + "." + x.Sel.Name
	}
	return ""
}

type call struct {
	name string
	args []ast.Expr
}

// chain unrolls base.M1(a).M2(b)… into base and [M1, M2, …]
func chain(e ast.Expr) (ast.Expr, []call) {
	var cs []call
	for {
		ce, ok := e.(*ast.CallExpr)
		if !ok {
			break
		}
		se, ok := ce.Fun.(*ast.SelectorExpr)
		if !ok {
			break
		}
		cs = append([]call{{se.Sel.Name, ce.Args}}, cs...)
		e = se.X
	}
	return e, cs
}

func strLit(e ast.Expr) (string, bool) {
	bl, ok := e.(*ast.BasicLit)
	if !ok || bl.Kind != token.STRING {
		return "", false
	}
	s, err := strconv.Unquote(bl.Value)
	return s, err == nil
}

// mentions lists the expressions inside n that denote a known router, and says for each whether it is merely
// the value of a composite-literal field (Handler: router).  Selector names and field keys are not expressions.
func (c *fileCtx) mentions(n ast.Node) (all []ast.Expr, kv map[ast.Expr]bool) {
	kv = map[ast.Expr]bool{}
	var cb func(x ast.Node) bool
	cb = func(x ast.Node) bool {
		switch e := x.(type) {
		case *ast.KeyValueExpr:
			if nm := exprName(e.Value); nm != "" {
				if _, ok := c.routers[nm]; ok {
					kv[e.Value] = true
				}
			}
			if _, isIdent := e.Key.(*ast.Ident); !isIdent {
				ast.Inspect(e.Key, cb)
			}
			ast.Inspect(e.Value, cb)
			return false
		case *ast.SelectorExpr:
			if _, ok := c.routers[exprName(e)]; ok {
				all = append(all, e)
				return false
			}
			ast.Inspect(e.X, cb)
			return false
		case *ast.Ident:
			if _, ok := c.routers[e.Name]; ok {
				all = append(all, e)
			}
		}
		return true
	}
	ast.Inspect(n, cb)
	return
}

func (c *fileCtx) mentionsRouter(n ast.Node) bool {
	all, _ := c.mentions(n)
	return len(all) > 0
}

func isAuthMiddlewareExpr(s string) bool {
	return strings.Contains(s, "AuthMiddleware") || strings.Contains(s, "authMiddleware")
}

func (c *fileCtx) unknown(n ast.Node) {
	c.out = append(c.out, stmtOut{unknown: src(c.fset, n)})
}

// routeFromChain recognises the registration forms; ok=false means "not a registration form".
func (c *fileCtx) routeFromChain(r *router, cs []call, cond string) (stmtOut, bool) {
	o := stmtOut{r: r, cond: cond}
	i := 0
	switch {
	case len(cs) >= 1 && (cs[0].name == "HandleFunc" || cs[0].name == "Handle") && len(cs[0].args) == 2:
		p, ok := strLit(cs[0].args[0])
		if !ok {
			o.pat, o.tpl = "PUnknownPat", src(c.fset, cs[0].args[0])
		} else {
			o.pat, o.tpl = "PExact", p
		}
		i = 1
	case len(cs) >= 2 && cs[0].name == "PathPrefix" && len(cs[0].args) == 1 &&
		(cs[1].name == "Handler" || cs[1].name == "HandlerFunc") && len(cs[1].args) == 1:
		p, ok := strLit(cs[0].args[0])
		if !ok {
			o.pat, o.tpl = "PUnknownPat", src(c.fset, cs[0].args[0])
		} else {
			o.pat, o.tpl = "PPrefix", p
		}
		i = 2
	default:
		return o, false
	}
	if i < len(cs) {
		if cs[i].name != "Methods" || i+1 != len(cs) {
			return o, false
		}
		for _, a := range cs[i].args {
			m, ok := strLit(a)
			if !ok {
				return o, false
			}
			o.methods = append(o.methods, m)
		}
		if len(o.methods) == 0 {
			return o, false
		}
	}
	return o, true
}

func condName(fset *token.FileSet, e ast.Expr) string {
	if se, ok := e.(*ast.SelectorExpr); ok && exprName(se) != "" {
		return se.Sel.Name
	}
	if id, ok := e.(*ast.Ident); ok {
		return id.Name
	}
	return "?" + src(fset, e)
}

func joinCond(a, b string) string {
	if a == "" {
		return b
	}
	return "?" + a + " && " + b
}

func (c *fileCtx) walkBlock(stmts []ast.Stmt, cond string) {
	for _, s := range stmts {
		c.walkStmt(s, cond)
	}
}

func (c *fileCtx) walkStmt(s ast.Stmt, cond string) {
	switch st := s.(type) {
	case *ast.IfStmt:
		if st.Init != nil && c.mentionsRouter(st.Init) {
			c.unknown(st.Init)
		}
		c.walkBlock(st.Body.List, joinCond(cond, condName(c.fset, st.Cond)))
		if st.Else != nil {
			switch e := st.Else.(type) {
			case *ast.BlockStmt:
				c.walkBlock(e.List, joinCond(cond, "?!"+condName(c.fset, st.Cond)))
			default:
				c.walkStmt(e, joinCond(cond, "?!"+condName(c.fset, st.Cond)))
			}
		}
		return
	case *ast.BlockStmt:
		c.walkBlock(st.List, cond)
		return
	case *ast.AssignStmt:
		// x := R.NewRoute().Subrouter()   |   x := mux.NewRouter()
		if len(st.Lhs) == 1 && len(st.Rhs) == 1 {
			lhs := exprName(st.Lhs[0])
			base, cs := chain(st.Rhs[0])
			bn := exprName(base)
			if lhs != "" && bn == "mux" && len(cs) == 1 && cs[0].name == "NewRouter" {
				if _, ok := c.routers[lhs]; !ok {
					c.routers[lhs] = &router{name: lhs, root: true}
				}
				return
			}
			if p, ok := c.routers[bn]; ok && lhs != "" && len(cs) == 2 && cs[0].name == "NewRoute" && len(cs[0].args) == 0 &&
				cs[1].name == "Subrouter" && len(cs[1].args) == 0 {
				// a sub-router created under a condition only ever carries routes registered under that condition
				c.routers[lhs] = &router{name: lhs, parent: p, created: cond}
				return
			}
		}
	case *ast.ExprStmt:
		base, cs := chain(st.X)
		bn := exprName(base)
		if r, ok := c.routers[bn]; ok && len(cs) > 0 {
			if len(cs) == 1 && cs[0].name == "Use" {
				all := true
				for _, a := range cs[0].args {
					if !isAuthMiddlewareExpr(src(c.fset, a)) {
						all = false
					}
				}
				if all && len(cs[0].args) == 1 && (cond == "" || cond == r.created) {
					r.mw = true
				}
				// a Use of something else adds a middleware but no protection; a conditional Use protects nothing for sure
				return
			}
			if o, ok := c.routeFromChain(r, cs, cond); ok {
				c.out = append(c.out, o)
				return
			}
			c.unknown(st)
			return
		}
		// a call of a method of the same file: its registrations happen here, under this condition
		if ce, ok := st.X.(*ast.CallExpr); ok {
			if se, ok := ce.Fun.(*ast.SelectorExpr); ok {
				if fd, ok := c.funcs[se.Sel.Name]; ok && fd.Body != nil && c.registers(fd) {
					if c.visited[se.Sel.Name] {
						c.unknown(st)
						return
					}
					c.visited[se.Sel.Name] = true
					c.walkBlock(fd.Body.List, cond)
					return
				}
			}
		}
	}
	// any other statement: fine unless it does something with a router we do not understand
	if c.mentionsRouter(s) && !c.benignUse(s) {
		c.unknown(s)
	}
}

// registers: the function body contains an expression statement whose base is a known router
func (c *fileCtx) registers(fd *ast.FuncDecl) bool {
	found := false
	ast.Inspect(fd.Body, func(n ast.Node) bool {
		if es, ok := n.(*ast.ExprStmt); ok {
			base, cs := chain(es.X)
			if _, ok := c.routers[exprName(base)]; ok && len(cs) > 0 {
				found = true
			}
		}
		if as, ok := n.(*ast.AssignStmt); ok && len(as.Rhs) == 1 {
			base, cs := chain(as.Rhs[0])
			if _, ok := c.routers[exprName(base)]; ok && len(cs) > 0 {
				found = true // derives a sub-router
			}
		}
		return !found
	})
	return found
}

// benignUse: the router only appears as the value of a composite-literal field (Handler: router,
// router: router, Router: s.router) — the wiring of the server, checked separately in wiringOK.
func (c *fileCtx) benignUse(s ast.Stmt) bool {
	all, kv := c.mentions(s)
	for _, e := range all {
		if !kv[e] {
			return false
		}
	}
	return true
}

func analyse(rel string, roots []string, entry []string, requireAll bool) ([]stmtOut, error) {
	fset := token.NewFileSet()
	f, err := parser.ParseFile(fset, filepath.Join(tx.Repo, rel), nil, 0)
	if err != nil {
		return nil, err
	}
	c := &fileCtx{fset: fset, rel: rel, file: f, routers: map[string]*router{}, funcs: map[string]*ast.FuncDecl{}, visited: map[string]bool{}}
	// the root names of one file denote the same router object
	rootRouter := &router{name: roots[0], root: true}
	for _, r := range roots {
		c.routers[r] = rootRouter
	}
	for _, d := range f.Decls {
		if fd, ok := d.(*ast.FuncDecl); ok {
			c.funcs[fd.Name.Name] = fd
		}
	}
	for _, e := range entry {
		fd, ok := c.funcs[e]
		if !ok || fd.Body == nil {
			return nil, fmt.Errorf("%s: function %s not found", rel, e)
		}
		c.visited[e] = true
		c.walkBlock(fd.Body.List, "")
	}
	// functions that register routes but were reached from no entry point: their routes count as unconditional
	for _, d := range f.Decls {
		fd, ok := d.(*ast.FuncDecl)
		if !ok || fd.Body == nil || c.visited[fd.Name.Name] {
			continue
		}
		if c.registers(fd) {
			c.visited[fd.Name.Name] = true
			c.walkBlock(fd.Body.List, "")
		} else if requireAll && c.mentionsRouter(fd.Body) {
			// mentions a router without registering: only benign uses are accepted
			for _, s := range fd.Body.List {
				if c.mentionsRouter(s) && !c.benignUse(s) {
					c.unknown(s)
				}
			}
		}
	}
	for i := range c.out {
		if c.out[i].unknown != "" {
			c.out[i].unknown = rel + ": " + c.out[i].unknown
		}
	}
	// the guarded flag is read at the end: gorilla applies a router's middlewares whatever the order of Use and Handle
	return c.out, nil
}

// wiringOK checks, syntactically, the facts of pkg/util/http/server.go the route tables rely on:
// one mux.NewRouter() stored as the server's router and served; the helper handed to registerRouteHandlers carries
// that router and the middleware built from cfg.User / cfg.Password.
func wiringOK(rel string) []string {
	fset := token.NewFileSet()
	f, err := parser.ParseFile(fset, filepath.Join(tx.Repo, rel), nil, 0)
	if err != nil {
		return []string{rel + ": " + err.Error()}
	}
	want := map[string]bool{
		"kv Handler: router":                      false,
		"kv router: router":                       false,
		"kv Router: s.router":                     false,
		"kv AuthMiddleware: s.authMiddleware":     false,
		"assign router := mux.NewRouter()":        false,
		"assign s.authMiddleware = middleware":    false,
	}
	nNewRouter := 0
	ast.Inspect(f, func(n ast.Node) bool {
		switch x := n.(type) {
		case *ast.KeyValueExpr:
			k := "kv " + src(fset, x.Key) + ": " + src(fset, x.Value)
			if _, ok := want[k]; ok {
				want[k] = true
			}
		case *ast.AssignStmt:
			s := src(fset, x)
			if s == "router := mux.NewRouter()" {
				want["assign router := mux.NewRouter()"] = true
			}
			if len(x.Lhs) == 1 && src(fset, x.Lhs[0]) == "s.authMiddleware" && len(x.Rhs) == 1 {
				r := srcFull(fset, x.Rhs[0])
				if strings.HasPrefix(r, "netpkg.NewHTTPAuthMiddleware(cfg.User, cfg.Password)") && strings.HasSuffix(r, ".Middleware") {
					want["assign s.authMiddleware = middleware"] = true
				}
			}
		case *ast.CallExpr:
			if src(fset, x.Fun) == "mux.NewRouter" {
				nNewRouter++
			}
		}
		return true
	})
	var bad []string
	for k, ok := range want {
		if !ok {
			bad = append(bad, rel+": wiring fact missing: "+k)
		}
	}
	if nNewRouter != 1 {
		bad = append(bad, fmt.Sprintf("%s: %d calls of mux.NewRouter", rel, nNewRouter))
	}
	return bad
}

func emit(b *bytes.Buffer, name, rel string, outs []stmtOut, extraUnknown []string) {
	fmt.Fprintf(b, "Definition %s : list ha_wstmt := [\n", name)
	var items []string
	for _, u := range extraUnknown {
		items = append(items, fmt.Sprintf("  WUnknown %s %s", tx.CoqString(rel), tx.CoqString(u)))
	}
	for _, o := range outs {
		if o.unknown != "" {
			items = append(items, fmt.Sprintf("  WUnknown %s %s", tx.CoqString(rel), tx.CoqString(o.unknown)))
			continue
		}
		ms := make([]string, len(o.methods))
		for i, m := range o.methods {
			ms[i] = tx.CoqString(m)
		}
		cond := "CAlways"
		if o.cond != "" {
			cond = "CIf " + tx.CoqString(o.cond)
		}
		items = append(items, fmt.Sprintf("  WRoute {| wr_file := %s; wr_router := %s; wr_root := %v; wr_mw := %v; wr_pat := %s %s; wr_methods := [%s]; wr_cond := %s |}",
			tx.CoqString(rel), tx.CoqString(o.r.name), o.r.root, o.r.guarded(), o.pat, tx.CoqString(o.tpl), strings.Join(ms, "; "), cond))
	}
	b.WriteString(strings.Join(items, ";\n"))
	b.WriteString("\n].\n\n")
}

func genRoutes() ([]byte, error) {
	var b bytes.Buffer
	b.WriteString("(* generated by translator unit t7 from server/dashboard_api.go, client/admin_api.go, pkg/util/http/server.go — do not edit *)\n")
	b.WriteString("From FRP Require Import Model.HttpAuth.\nOpen Scope string_scope.\n\n")
	type unit struct {
		def, rel string
		roots    []string
		entry    []string
		all      bool
	}
	for _, u := range []unit{
		{"dashboard_routes", "server/dashboard_api.go", []string{"helper.Router"}, []string{"registerRouteHandlers"}, false},
		{"admin_routes", "client/admin_api.go", []string{"helper.Router"}, []string{"registerRouteHandlers"}, false},
		{"webserver_routes", "pkg/util/http/server.go", []string{"router", "s.router"}, []string{"NewServer"}, true},
	} {
		outs, err := analyse(u.rel, u.roots, u.entry, u.all)
		if err != nil {
			return nil, err
		}
		var extra []string
		if u.all {
			extra = wiringOK(u.rel)
		}
		emit(&b, u.def, u.rel, outs, extra)
	}
	b.WriteString("Definition T7_routes_translated : bool := true.\n")
	return b.Bytes(), nil
}
