(* C10 — UDPProxy.Close against the goroutines of UDPProxy.Run (server/proxy/udp.go), at lock / channel
   granularity.  Model only: no proofs here.

   Threads:
     loop    the goroutine `for { GetWorkConnFromPool; ...; pxy.workConn = ...; <-checkCloseCh }`
     reader  one per work connection handed to the proxy (workConnReaderFn): on a read error it closes the
             connection and sends on checkCloseCh (the send on a closed channel panics and is recovered)
     close   UDPProxy.Close under pxy.mu, two atomic halves (the reader can run between them)
     peer    the other end may close any connection at any time
   A schedule is a list of actions; an action that is not enabled leaves the state unchanged.
   [repaired = true]  (the code today): Close = { isClosed; close(checkCloseCh) } ; { workConn.Close() };
                      the loop stores the fetched connection under the lock and closes it instead when
                      isClosed is set.
   [repaired = false] (before the repair, kept for the witness): Close = { isClosed; workConn.Close() } ;
                      { close(checkCloseCh) }; the loop stores the connection unconditionally.
   GetWorkConnFromPool is an oracle: action AFetch true = a connection arrived (a fresh identifier),
   AFetch false = it failed (the loop then sleeps and looks at checkCloseCh). *)
From Coq Require Import List ZArith Bool.
Import ListNotations.

Inductive lpc := LFetch | LGot (c : nat) | LWait | LDone.
Inductive rpc := RReading | RSending | RDone.
Inductive cpc := CIdle | CMid | CDone.

Record ust := {
  u_closed : bool;              (* pxy.isClosed *)
  u_chk : bool;                 (* checkCloseCh is closed *)
  u_work : option nat;          (* pxy.workConn *)
  u_open : list nat;            (* connections that are open *)
  u_next : nat;                 (* next fresh connection *)
  u_loop : lpc;
  u_readers : list (nat * rpc);
  u_close : cpc }.

Definition u_init : ust :=
  {| u_closed := false; u_chk := false; u_work := None; u_open := []; u_next := 0; u_loop := LFetch; u_readers := [];
     u_close := CIdle |}.

Inductive uact :=
| AFetch (ok : bool)      (* loop: GetWorkConnFromPool returns *)
| AStore                  (* loop: the section that stores the fetched connection and starts its reader *)
| ARecv                   (* loop: <-checkCloseCh *)
| ARead (c : nat)         (* reader of c: read error seen, conn.Close(), send attempted *)
| AClose1 | AClose2       (* the two halves of UDPProxy.Close *)
| APeer (c : nat).        (* the peer closes c *)

Fixpoint nrem (c : nat) (l : list nat) : list nat :=
  match l with [] => [] | x :: r => if Nat.eqb c x then nrem c r else x :: nrem c r end.
Fixpoint nin (c : nat) (l : list nat) : bool :=
  match l with [] => false | x :: r => Nat.eqb c x || nin c r end.
Definition close_opt (w : option nat) (l : list nat) : list nat :=
  match w with Some c => nrem c l | None => l end.

Fixpoint rd_get (c : nat) (l : list (nat * rpc)) : option rpc :=
  match l with [] => None | (x, p) :: r => if Nat.eqb c x then Some p else rd_get c r end.
Fixpoint rd_set (c : nat) (p : rpc) (l : list (nat * rpc)) : list (nat * rpc) :=
  match l with [] => [] | (x, q) :: r => if Nat.eqb c x then (x, p) :: r else (x, q) :: rd_set c p r end.
(* the first reader blocked in its send *)
Fixpoint rd_sending (l : list (nat * rpc)) : option nat :=
  match l with [] => None | (x, RSending) :: _ => Some x | _ :: r => rd_sending r end.

Definition upd (s : ust) closed chk work open next loop readers cl : ust :=
  {| u_closed := closed; u_chk := chk; u_work := work; u_open := open; u_next := next; u_loop := loop;
     u_readers := readers; u_close := cl |}.

Definition ustep (repaired : bool) (s : ust) (a : uact) : ust :=
  match a with
  | AFetch ok =>
      match u_loop s with
      | LFetch =>
          if ok then upd s (u_closed s) (u_chk s) (u_work s) (u_next s :: u_open s) (S (u_next s)) (LGot (u_next s)) (u_readers s) (u_close s)
          else (* time.Sleep; select { case _, ok := <-checkCloseCh: if !ok { return } default: } *)
            if u_chk s then upd s (u_closed s) (u_chk s) (u_work s) (u_open s) (u_next s) LDone (u_readers s) (u_close s) else s
      | _ => s
      end
  | AStore =>
      match u_loop s with
      | LGot c =>
          if repaired && u_closed s then
            (* wrapped.Close(); return *)
            upd s (u_closed s) (u_chk s) (u_work s) (nrem c (u_open s)) (u_next s) LDone (u_readers s) (u_close s)
          else
            (* if pxy.workConn != nil { pxy.workConn.Close() }; pxy.workConn = c; go reader; then wait *)
            upd s (u_closed s) (u_chk s) (Some c) (close_opt (u_work s) (u_open s)) (u_next s) LWait ((c, RReading) :: u_readers s) (u_close s)
      | _ => s
      end
  | ARecv =>
      match u_loop s with
      | LWait =>
          if u_chk s then upd s (u_closed s) (u_chk s) (u_work s) (u_open s) (u_next s) LDone (u_readers s) (u_close s)
          else match rd_sending (u_readers s) with
               | Some c => upd s (u_closed s) (u_chk s) (u_work s) (u_open s) (u_next s) LFetch (rd_set c RDone (u_readers s)) (u_close s)
               | None => s
               end
      | _ => s
      end
  | ARead c =>
      match rd_get c (u_readers s) with
      | Some RReading =>
          if nin c (u_open s) then s       (* no read error while the connection is open *)
          else upd s (u_closed s) (u_chk s) (u_work s) (u_open s) (u_next s) (u_loop s)
                     (rd_set c (if u_chk s then RDone else RSending) (u_readers s)) (u_close s)
      | Some RSending =>
          (* a send blocked on a channel that has been closed panics: recovered, the reader ends *)
          if u_chk s then upd s (u_closed s) (u_chk s) (u_work s) (u_open s) (u_next s) (u_loop s) (rd_set c RDone (u_readers s)) (u_close s) else s
      | _ => s
      end
  | AClose1 =>
      match u_close s with
      | CIdle =>
          if repaired then upd s true true (u_work s) (u_open s) (u_next s) (u_loop s) (u_readers s) CMid
          else upd s true (u_chk s) (u_work s) (close_opt (u_work s) (u_open s)) (u_next s) (u_loop s) (u_readers s) CMid
      | _ => s
      end
  | AClose2 =>
      match u_close s with
      | CMid =>
          if repaired then upd s (u_closed s) (u_chk s) (u_work s) (close_opt (u_work s) (u_open s)) (u_next s) (u_loop s) (u_readers s) CDone
          else upd s (u_closed s) true (u_work s) (u_open s) (u_next s) (u_loop s) (u_readers s) CDone
      | _ => s
      end
  | APeer c => upd s (u_closed s) (u_chk s) (u_work s) (nrem c (u_open s)) (u_next s) (u_loop s) (u_readers s) (u_close s)
  end.

Definition urun (repaired : bool) (sched : list uact) (s : ust) : ust := fold_left (ustep repaired) sched s.

(* the schedule of finding F-C10d: the proxy has a work connection, CloseProxy arrives, the reader of the
   closed connection reports, the loop fetches another connection and keeps it *)
Definition u_witness : list uact :=
  [AFetch true; AStore; AClose1; ARead 0; ARecv; AFetch true; AStore; AClose2; ARecv].
