(* C05 — types of the tables translator unit t5w emits (coq/gen/GenWire.v).  Model only. *)
From FRP Require Export Model.Bytes.
Open Scope Z_scope.

(* kinds of secret a source expression may denote *)
Inductive skind := KTok | KSk | KPwd.

(* classification of a Go expression that flows into a message field or a cipher key *)
Inductive wexpr :=
| XAuthKey (k : skind)        (* util.GetAuthKey(<secret of kind k>, <timestamp>) : hex(md5(secret ++ ts)) *)
| XSecret (k : skind)         (* the secret itself (selector ending in Token / SecretKey / sk / HTTPPassword ...) *)
| XTimeNow                    (* time.Now().Unix() *)
| XParam (name : string)      (* a parameter of the enclosing function (resolved through wcall_keys) *)
| XOther (text : string)      (* an expression that mentions no secret-bearing identifier *)
| XUnknown (text : string).   (* mentions a secret-bearing identifier in a form the translator does not recognise *)

(* guard under which a layer is installed *)
Inductive wguard :=
| GUseEnc                     (* <cfg>.Transport.UseEncryption / useEncryption parameter / m.UseEncryption *)
| GUseComp                    (* ... UseCompression *)
| GConnEnc                    (* ctlConnEncrypted / sessionCtx.ConnEncrypted *)
| GAlways                     (* no guard *)
| GUnknown (text : string).

(* a libio.WithEncryption(rwc, key) call site *)
Record enc_site := mk_enc_site {
  es_file : string; es_func : string; es_guard : wguard; es_key : wexpr; es_target : string }.

(* a netpkg.NewCryptoReadWriter(conn, key) site followed by msg.NewDispatcher(...) in both branches *)
Record ctl_site := mk_ctl_site {
  cs_file : string; cs_func : string; cs_guard : wguard; cs_key : wexpr;
  cs_conn : string;          (* first argument of NewCryptoReadWriter *)
  cs_result : string;        (* variable the crypto rw is bound to *)
  cs_disp_then : string;     (* argument of msg.NewDispatcher in the guarded branch *)
  cs_disp_else : string }.   (* ... in the else branch *)

(* a call f(..., key) whose key argument resolves an XParam of the callee *)
Record call_key := mk_call_key { ck_file : string; ck_func : string; ck_callee : string; ck_key : wexpr }.

(* a composite literal msg.T{...} or an assignment x.F = e to a message variable *)
Record msg_lit := mk_msg_lit {
  ml_file : string; ml_func : string; ml_type : string; ml_fields : list (string * wexpr) }.

(* a msg.WriteMsg(conn, m) call: the message type is resolved inside the enclosing function *)
Record clear_write := mk_clear_write {
  cw_file : string; cw_func : string; cw_conn : string; cw_type : string }.

(* one assignment of a MarshalToMsg method: m.<field> = <cfg expression> *)
Record marshal_flow := mk_marshal_flow { mf_cfg : string; mf_field : string; mf_expr : wexpr }.

(* an assignment inside an auth setter (pkg/auth/token.go) *)
Record auth_set := mk_auth_set { as_func : string; as_field : string; as_expr : wexpr }.

(* shape of pkg/util/net/conn.go NewCryptoReadWriter(rw, key) *)
Inductive crw_shape :=
| CrwAlways      (* every non-error return is {Reader: crypto.NewReader(rw, key), Writer: crypto.NewWriter(rw, key)};
                    the only other return is the error return of NewWriter: the cipher exists for EVERY key value *)
| CrwUnknown (text : string).   (* any other statement / early return (e.g. returning rw itself for some keys) *)

(* the expression handed as tlsOnly to CheckAndEnableTLSServerConnWithTimeout (server/service.go) *)
Inductive force_expr :=
| FConfigForce               (* svr.cfg.Transport.TLS.Force, directly or through one local variable *)
| FUnknown (text : string).  (* anything else, e.g. "... && l != svr.websocketListener" *)
Inductive sniff_guard := SgNotInternal | SgNone | SgUnknown (text : string).
Record sniff_site := mk_sniff_site { ss_file : string; ss_func : string; ss_guard : sniff_guard; ss_force : force_expr }.
(* a call svr.HandleListener(<listener>, <internal>) *)
Record listener_call := mk_listener_call { lc_listener : string; lc_internal : string }.

(* the *tls.Config a listener construction site / the sniff receives (server/service.go) *)
Inductive tlscfg_expr :=
| TcOrigin                          (* the object returned by transport.NewServerTLSConfig(cfg.Transport.TLS.{CertFile,KeyFile,TrustedCaFile}) *)
| TcClone (assigned : list string)  (* <origin>.Clone() with exactly these fields assigned afterwards *)
| TcUnknown (text : string).        (* anything else, e.g. a fresh &tls.Config{...} literal *)
Record tls_use := mk_tls_use { tu_file : string; tu_func : string; tu_consumer : string; tu_cfg : tlscfg_expr }.

(* control-flow shape of pkg/util/net/tls.go CheckAndEnableTLSServerConnWithTimeout *)
Inductive sniff_shape :=
| SsOk             (* before the switch the only exit is "if err != nil { return }" (named results: out = nil);
                      the switch's default clause starts with "if <tlsOnly parameter> { err = ...; return }" *)
| SsUnknown (text : string).
