package main

// Part (i) of driver "visitors": the real exported server/visitor.Manager.

import (
	"bytes"
	"fmt"
	"io"
	"net"
	"strings"
	"time"

	libio "github.com/fatedier/golib/io"

	netpkg "github.com/fatedier/frp/pkg/util/net"
	"github.com/fatedier/frp/pkg/util/util"
	"github.com/fatedier/frp/server/visitor"
	"verifharness/hx"
)

type idAddr struct{ id int64 }

func (a idAddr) Network() string { return "c08" }
func (a idAddr) String() string  { return fmt.Sprintf("c08:%d", a.id) }

// idConn is one end of a net.Pipe that carries an id in its local address.
type idConn struct {
	net.Conn
	id int64
}

func (c *idConn) LocalAddr() net.Addr { return idAddr{c.id} }

type pending struct {
	peer   net.Conn
	ue, uc bool
	key    string
}

// mirror wraps the peer end the way a client holding key would (encryption first, compression on top).
func mirror(peer io.ReadWriteCloser, ue, uc bool, key string) (io.ReadWriteCloser, error) {
	var err error
	rwc := peer
	if ue {
		if rwc, err = libio.WithEncryption(rwc, []byte(key)); err != nil {
			return nil, err
		}
	}
	if uc {
		rwc = libio.WithCompression(rwc)
	}
	return rwc, nil
}

// transparent sends a payload a -> b and another b -> a and compares; deadline applies to each direction.
func transparent(a io.ReadWriter, b io.ReadWriter, setDeadline func(time.Time), payload []byte) bool {
	oneWay := func(w io.Writer, r io.Reader, p []byte) bool {
		setDeadline(time.Now().Add(10 * time.Second))
		go func() { _, _ = w.Write(p) }()
		// the read runs on its own goroutine: a wrapper that reads from some other connection than the one the
		// deadline was set on must make the observation fail, not hang the driver
		res := make(chan bool, 1)
		go func() {
			buf := make([]byte, len(p))
			_, err := io.ReadFull(r, buf)
			res <- err == nil && bytes.Equal(buf, p)
		}()
		select {
		case ok := <-res:
			return ok
		case <-time.After(12 * time.Second):
			return false
		}
	}
	rev := make([]byte, len(payload))
	for i := range payload {
		rev[i] = payload[len(payload)-1-i] ^ 0x5a
	}
	return oneWay(a, b, payload) && oneWay(b, a, rev)
}

var managerCases int

func managerCase(g *gen, dist map[string]int) (string, []map[string]string) {
	managerCases++
	vm := visitor.NewManager()
	listeners := map[string]*netpkg.InternalListener{} // current (or last) listener handed out per name
	sks := map[string]string{}
	allows := map[string][]string{}
	ht := newHTable()
	for _, s := range skPool {
		ht.addSk(s)
	}
	pend := map[int64]*pending{}
	var ops, obs []string
	var fails []map[string]string
	var cid int64
	forceName := ""
	pairName := ""
	var pairSeq []int
	n := 6 + g.Intn(18)
	flood := g.Chance(0.02) || managerCases == 2 // the second case of a run and one in ~50 overfill a queue
	for i := 0; i < n; i++ {
		r := g.Intn(100)
		if i < 2 {
			r = 0
		}
		if managerCases == 3 && i == 2 && len(sks) > 0 {
			// one history per run closes a live listener and then sends it a correctly signed, allowed visitor
			forceName = hx.SortedKeys(sks)[0]
			_ = listeners[forceName].Close()
			ops = append(ops, fmt.Sprintf("VmListenerClose %s", hx.HxS(forceName)))
			obs = append(obs, obsZ(0))
			r = 50
		}
		// one history per run: two compressed, correctly signed connections of an allowed user are queued on one live
		// listener one after the other and then accepted one after the other (both streams alive at the same time)
		if managerCases == 4 && i == 2 && len(pairSeq) == 0 && pairName == "" {
			for _, nme := range hx.SortedKeys(sks) {
				if len(allows[nme]) > 0 {
					pairName, pairSeq = nme, []int{50, 50, 95, 95}
					break
				}
			}
		}
		pairOp := false
		if len(pairSeq) > 0 {
			r, pairSeq = pairSeq[0], pairSeq[1:]
			pairOp = true
		}
		switch {
		case r < 15:
			name, sk, allow := g.Pick(namePool), g.sk(), g.allow()
			l, err := vm.Listen(name, sk, allow)
			z := int64(0)
			if err != nil {
				z = 1
				if !strings.Contains(err.Error(), "repeated") {
					z = 99
				}
			} else {
				listeners[name] = l
				sks[name] = sk
				allows[name] = allow
			}
			ops = append(ops, fmt.Sprintf("VmListen %s %s %s", hx.HxS(name), hx.HxS(sk), coqStrs(allow)))
			obs = append(obs, obsZ(z))
			dist[fmt.Sprintf("listen:%d", z)]++
		case r < 70:
			name := g.liveName(sks)
			if forceName != "" {
				name = forceName
			}
			if pairOp {
				name = pairName
			}
			ts := g.ts()
			ht.addTs(ts)
			realSk, live := sks[name]
			if !live {
				realSk = g.sk()
			}
			sign, kind := g.sign(realSk, ts, 0.7)
			user := g.userFor(allows[name])
			ue, uc := g.Chance(0.5), g.Chance(0.5)
			if pairOp {
				uc = true
			}
			reps := 1
			if pairOp && live && len(allows[name]) > 0 {
				sign, kind = util.GetAuthKey(realSk, ts), "right"
				user = allows[name][0]
			}
			if forceName != "" && name == forceName && live && len(allows[name]) > 0 {
				sign, kind = util.GetAuthKey(realSk, ts), "right"
				user = allows[name][0]
				forceName = ""
			}
			if flood && live && len(allows[name]) > 0 {
				reps = 131
				flood = false
				sign, kind = util.GetAuthKey(realSk, ts), "right"
				user = allows[name][0]
			}
			for k := 0; k < reps; k++ {
				cid++
				a, b := net.Pipe()
				err := vm.NewConn(name, &idConn{a, cid}, ts, sign, ue, uc, user)
				z := vmErrClass(err)
				if err == nil {
					// queued or silently dropped: a dropped connection is closed by PutConn
					_ = b.SetReadDeadline(time.Now().Add(time.Millisecond))
					_, rerr := b.Read(make([]byte, 1))
					if rerr == io.EOF || (rerr != nil && strings.Contains(rerr.Error(), "closed")) {
						z = 1
						b.Close()
					} else {
						pend[cid] = &pending{b, ue, uc, realSk}
					}
					_ = b.SetReadDeadline(time.Time{})
				} else {
					a.Close()
					b.Close()
				}
				if z == 0 && (kind != "right" || !(contains(allows[name], user) || contains(allows[name], "*"))) {
					fails = append(fails, map[string]string{"key": "manager:queued-without-key-or-user",
						"what": "visitor.Manager.NewConn queued a connection whose signature is wrong or whose user is outside allowUsers",
						"case": fmt.Sprintf("name=%s user=%q allowUsers=%q signature=%s", name, user, allows[name], kind)})
				}
				ops = append(ops, fmt.Sprintf("VmNewConn %s %s %s %s %s %s %s", hx.HxS(name), hx.Z(cid), hx.Z(ts), hx.HxS(sign),
					hx.Bool(ue), hx.Bool(uc), hx.HxS(user)))
				obs = append(obs, obsZ(z))
				dist[fmt.Sprintf("newconn:%d", z)]++
				dist["sign:"+kind]++
			}
		case r < 76:
			name := g.name()
			vm.CloseListener(name)
			delete(sks, name)
			ops = append(ops, fmt.Sprintf("VmCloseListener %s", hx.HxS(name)))
			obs = append(obs, obsZ(0))
			dist["closelistener"]++
		case r < 80:
			name := g.Pick(namePool)
			// InternalListener.Close of the listener currently in the table (as BaseProxy.Close does)
			if _, live := sks[name]; live {
				_ = listeners[name].Close()
				ops = append(ops, fmt.Sprintf("VmListenerClose %s", hx.HxS(name)))
				obs = append(obs, obsZ(0))
				dist["listenerclose"]++
			}
		default:
			name := g.Pick(namePool)
			if pairOp {
				name = pairName
			}
			if _, live := sks[name]; !live {
				continue
			}
			c, ok := listeners[name].VerifC08TryAccept()
			if !ok {
				ops = append(ops, fmt.Sprintf("VmAccept %s", hx.HxS(name)))
				obs = append(obs, obsAccept(-1, false, false, "", true))
				dist["accept:none"]++
				continue
			}
			id := int64(-2)
			if a, isID := c.LocalAddr().(idAddr); isID {
				id = a.id
			}
			p := pend[id]
			tr := false
			var ue, uc bool
			var key string
			if p != nil {
				ue, uc, key = p.ue, p.uc, p.key
				if m, err := mirror(p.peer, ue, uc, key); err == nil {
					tr = transparent(m, c, func(t time.Time) { _ = p.peer.SetDeadline(t); _ = c.SetDeadline(t) }, g.Bytes(1+g.Intn(3000)))
				}
				p.peer.Close()
				delete(pend, id)
			}
			c.Close()
			ops = append(ops, fmt.Sprintf("VmAccept %s", hx.HxS(name)))
			obs = append(obs, obsAccept(id, ue, uc, key, tr))
			dist["accept:conn"]++
			if !tr {
				fails = append(fails, map[string]string{"key": "manager:accepted-stream-not-transparent",
					"what": "a visitor connection admitted by visitor.Manager.NewConn does not carry bytes unchanged against a peer holding the key with the declared flags",
					"case": fmt.Sprintf("name=%s enc=%v comp=%v", name, ue, uc)})
			}
		}
	}
	for _, p := range pend {
		p.peer.Close()
	}
	return fmt.Sprintf("CVm %s %s %s", ht.coq(), hx.List(ops), hx.List(obs)), fails
}
