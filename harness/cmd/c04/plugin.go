package main

// A scripted server plugin (frp's HTTP plugin protocol) registered for the NewWorkConn operation: per
// request it answers "unchange", rewrites privilege_key/timestamp of the content, or rejects.

import (
	"encoding/json"
	"net"
	"net/http"
	"sync"
)

type plugBehaviour struct {
	kind string // same | rewrite | reject
	key  string
	ts   int64
}

type plugStub struct {
	addr  string
	ln    net.Listener
	srv   *http.Server
	mu    sync.Mutex
	next  plugBehaviour
	calls int
}

func (p *plugStub) set(b plugBehaviour) {
	p.mu.Lock()
	p.next = b
	p.mu.Unlock()
}

func (p *plugStub) close() { p.srv.Close() }

func newPlugStub(addr string) (*plugStub, error) {
	ln, err := net.Listen("tcp", net.JoinHostPort(addr, "0"))
	if err != nil {
		return nil, err
	}
	p := &plugStub{ln: ln, addr: ln.Addr().String(), next: plugBehaviour{kind: "same"}}
	mux := http.NewServeMux()
	mux.HandleFunc("/handler", func(rw http.ResponseWriter, r *http.Request) {
		var req struct {
			Content struct {
				User  json.RawMessage `json:"user"`
				RunID string          `json:"run_id"`
			} `json:"content"`
		}
		_ = json.NewDecoder(r.Body).Decode(&req)
		p.mu.Lock()
		b := p.next
		p.calls++
		p.mu.Unlock()
		rw.Header().Set("Content-Type", "application/json")
		switch b.kind {
		case "reject":
			_ = json.NewEncoder(rw).Encode(map[string]any{"reject": true, "reject_reason": "revoked by the c04 plugin stub"})
		case "rewrite":
			user := req.Content.User
			if len(user) == 0 {
				user = json.RawMessage(`{}`)
			}
			_ = json.NewEncoder(rw).Encode(map[string]any{"reject": false, "unchange": false, "content": map[string]any{
				"user": user, "run_id": req.Content.RunID, "privilege_key": b.key, "timestamp": b.ts}})
		default:
			_ = json.NewEncoder(rw).Encode(map[string]any{"reject": false, "unchange": true})
		}
	})
	p.srv = &http.Server{Handler: mux}
	go p.srv.Serve(ln)
	return p, nil
}
