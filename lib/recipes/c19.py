import os
import re
from vlib import Check, V

PID = "C19"

MANIFEST = dict(
    text="Machine-checked theorems (Coq 8.16.1) over executable models of the client's health monitor (checkWorker as a fold over "
         "probe outcomes), the proxy wrapper phase machine and the proxy/visitor managers' UpdateAll (delete-then-add over a "
         "name-keyed map, first duplicate wins, DeepEqual as decidable equality): withdrawal after exactly maxFailed consecutive "
         "failures for every outcome history, a success restarts the count, no registration before the first success, "
         "re-registration at the next success, legal phase transitions only, closed is absorbing and silent, work connections only "
         "while running, start errors retried after the back-off, convergence of the wrapper table to the last configuration set "
         "and stability of identical reloads (also with duplicate names). The models are tied to the code by differential runs of "
         "the real health.Monitor against a scripted backend and of the real proxy.Manager / visitor.Manager with a recording "
         "transporter.",
    note="Trusted: Coq kernel+VM; harness transcription. Time enters the models as operation arguments; the drivers shrink the "
         "timing constants through //go:build verif setters. The goroutine scheduling of wrapper workers is modelled as an "
         "arbitrary interleaving of per-wrapper ticks (theorems hold for all of them); real-time bounds and continuity of open "
         "tunnel connections across a reload are observed, not proved.",
    technique="Coq proof (induction over operation lists, invariants) + differential correspondence via vm_compute",
    design="4/C19")


def q(tier, quick, thorough):
    return quick if tier == "quick" else thorough


def recipe(c: Check):
    c.build(["Properties/C19.vo", "Corr/C19.vo"], harness=["c19"], units=["c19reload", "c19routes"])
    c.obligations("C19")
    st = c.run_driver("health", q(c.tier, 260, 0), shards=q(c.tier, 4, 16), timeout=q(c.tier, 300, 1500))
    if st:
        cc = c.cov.get("coq_counters", {}).get("health", {})
        for k in ("NWITHDRAWN", "NREREGISTERED", "NRESTARTEDCOUNT"):
            if cc.get(k, 0) <= 0:
                c.broken.append(dict(kind="coverage", name="health driver never reached %s" % k,
                                     detail="the generated outcome sequences did not exercise a branch the property names"))
    st2 = c.run_driver("reconcile", q(c.tier, 160, 1500), shards=q(c.tier, 4, 16), timeout=q(c.tier, 300, 1500))
    if st2:
        cc = c.cov.get("coq_counters", {}).get("reconcile", {})
        for k in ("NKEPT", "NREPLACED", "NDUPLICATE", "NRETRIED", "NRUNNING", "NWITHDRAWNWAITING"):
            if cc.get(k, 0) <= 0:
                c.broken.append(dict(kind="coverage", name="reconcile driver never reached %s" % k,
                                     detail="the generated reload histories did not exercise a branch the property names"))
    st3 = c.run_driver("visitors", q(c.tier, 70, 600), shards=q(c.tier, 2, 8), timeout=q(c.tier, 300, 1500))
    if st3:
        cc = c.cov.get("coq_counters", {}).get("visitors", {})
        for k in ("NVCLOSED", "NVSTARTFAILED", "NVKEEPRESTARTED", "NVDUPLICATE"):
            if cc.get(k, 0) <= 0:
                c.broken.append(dict(kind="coverage", name="visitors driver never reached %s" % k,
                                     detail="the generated visitor reload histories did not exercise a branch the property names"))
    st4 = c.run_driver("system", q(c.tier, 5, 40), shards=1, timeout=q(c.tier, 300, 1500))
    if st4:
        # F-C19c: late error reply taken by the wrapper that replaced the sender.  Decision is the lead's:
        # a "finding:" line with this key makes it a KNOWN-FINDING, a "fixed:" line mentioning F-C19c makes the
        # scenario a hard check; with neither it is carried as a note (the Coq side states it as a refuted theorem).
        key = "system:late-error-reply-after-replacement"
        kf = open(os.path.join(V, "KNOWN_FINDINGS.txt")).read() if os.path.exists(os.path.join(V, "KNOWN_FINDINGS.txt")) else ""
        fixed = re.search(r"^fixed:.*property=C19.*F-C19c", kf, re.M) is not None
        listed = re.search(r"^finding:\s+property=C19\s+key=" + re.escape(key), kf, re.M) is not None
        f = (st4.get("fc19c") or {})
        if f.get("reproduced"):
            if fixed or listed:
                c.failures.append(dict(key=key, driver="system", case=f.get("case"),
                                       what="a reload changes a proxy while the replaced wrapper's NewProxy is unanswered and that NewProxy is "
                                            "refused: " + "; ".join(f.get("observations", []))))
            else:
                c.notes.append("F-C19c reproduced on the real code (pending decision: fix or list): " + "; ".join(f.get("observations", [])))
        else:
            c.notes.append("F-C19c did not reproduce on this run")
    return c.finish(
        rule="health driver: real health.Monitor (tcp and http) against a scripted backend (accept / refuse / dial or answer "
             "timeout / http status), interval 40 ms, timeout 100 ms (a case whose callbacks look wrong is re-run once with 300/500 ms before it is reported); quick: directed sequences (incl. the F-C19 witness) plus "
             "sampled sequences of length 3..7 for maxFailed in {<=0, 1..4}; thorough: every sequence of length 7 over "
             "{ok, refuse, timeout, non-2xx} for maxFailed 1..4 and both kinds; per probe the callbacks invoked are compared "
             "with Model.Health.hm_run and with the specification monitor. distinct = distinct (kind, maxFailed, sequence); "
             "non-trivial = at least one callback fired. reconcile driver: real proxy.Manager with its Wrapper goroutines and a "
             "recording MessageTransporter; histories of UpdateAll (fresh objects; add, remove, change one field found by "
             "reflection over the five general-tcp proxy config types, reorder, duplicate names, identical reload), scripted "
             "StartProxy replies (ok, server error, Run() error via an uncreatable plugin, for absent names, for wrappers not "
             "waiting), health callbacks, work connections, expiry of waitResponseTimeout / startErrTimeout, Manager.Close; "
             "statusCheckInterval = 1 h and every live checkWorker woken twice per step through its notification channel; "
             "compared per step: set of NewProxy/CloseProxy messages, call result, status rows (name, wrapper identity, phase, "
             "Err set, configuration object). non-trivial = at least one message observed. visitors driver: real "
             "visitor.Manager with real STCP visitors on loopback ports; histories of UpdateAll (add, remove, change a field, "
             "reorder, duplicate names, identical reload) and keepVisitorsRunning rounds (4 ms period), start failures scripted "
             "by occupying the bind port; compared per step: configured names with configuration object, running or not, same "
             "visitor object as before, listeners of closed visitors gone. non-trivial = some visitor ran. system driver: real "
             "frpc against an in-process frps with a stub NewProxy/CloseProxy server plugin (records, holds, rejects): quiescent "
             "reload sequences compared with the model (requests seen by the server, client status rows), continuity of an open "
             "tunnel connection across every reload that leaves its proxy unchanged, reloads placed while a NewProxyResp is "
             "outstanding (removed / changed / reordered / duplicate added / refused), convergence of server registrations and "
             "client statuses afterwards; service path (Service.UpdateAllConfigurer with proxies AND visitors): reload to the empty "
             "visitor set, from empty, replace all, proxies to empty and back, outage + reload while the client retries + re-login, "
             "identical reload — tables of the current Control compared with Model.ClientSvc, removed visitors' bind ports free, server "
             "registrations = configured set; health-checked proxies with unset optional fields reloaded identically; http proxies (frps with vhostHTTPPort + "
             "subDomainHost) with subdomain / 1-2 custom domains / both x 0..3 locations through reload cycles (all changed, other "
             "location lists, removed, re-added, identical) and a health cycle (backend up, down, up): after every step the server's "
             "http route table = routes of the configured set, registered names = configured, all running; a failing scenario is repeated with 3x and 10x settling time and reported only if it fails "
             "every time",
        assumptions=["probe outcome, clock and the result of proxy.Run()/visitor.Run() are operation arguments (oracles)",
                     "failedTimes is a uint64 in Go and an unbounded Z in the model (2^63 consecutive failures are out of reach)"])
