(* C01: proofs about Model/Stream.v and Model/Stack.v. *)
From FRP Require Import Model.Stack Proofs.LimitProofs.
From Coq Require Import Lia.
Open Scope Z_scope.

Lemma st_prefix_refl s : st_prefix s s.
Proof. exists []. rewrite app_nil_r. reflexivity. Qed.

Lemma keyclass_eqb_eq a b : keyclass_eqb a b = true -> a = b.
Proof. destruct a, b; cbn; congruence. Qed.
Lemma lk_eqb_eq a b : lk_eqb a b = true -> a = b.
Proof. destruct a, b; cbn; try congruence. intros H. f_equal. apply keyclass_eqb_eq, H. Qed.
Lemma lks_eqb_eq : forall a b, lks_eqb a b = true -> a = b.
Proof.
  induction a as [|x a IH]; destruct b as [|y b]; cbn; try congruence.
  intros H. apply andb_prop in H. destruct H as [H1 H2]. f_equal; [apply lk_eqb_eq, H1|apply IH, H2].
Qed.

Section Sem.
  Variable cipher : keyclass -> codec.
  Variable comp : codec.
  Hypothesis cipher_lawful : forall k, codec_lawful (cipher k).
  Hypothesis comp_lawful : codec_lawful comp.

  Definition sems (b : Z) (l : list lk) : list st_layer := map (sem cipher comp b) l.

  (* every layer passes prefixes to prefixes, hence so does every stack *)
  Lemma sem_read_monotone : forall b x w w', st_prefix w w' ->
    st_prefix (lr (sem cipher comp b x) w) (lr (sem cipher comp b x) w').
  Proof.
    intros b x w w' H. destruct x as [k| |]; cbn.
    - apply (proj2 (cipher_lawful k)), H.
    - apply (proj2 comp_lawful), H.
    - exact H.
  Qed.

  Lemma stack_read_monotone : forall b l w w', st_prefix w w' ->
    st_prefix (st_read (sems b l) w) (st_read (sems b l) w').
  Proof.
    intros b l. induction l as [|x l IH]; intros w w' H; cbn; [exact H|].
    apply IH, sem_read_monotone, H.
  Qed.

  (* with a positive burst every stack accepts every history of writes *)
  Lemma stack_write_total : forall b l cs, 0 < b -> exists ws, st_write (sems b l) cs = Some ws.
  Proof.
    intros b l cs Hb. induction l as [|x l IH]; cbn; [eauto|].
    destruct IH as (ws & Hw). unfold sems in Hw. rewrite Hw.
    destruct x as [k| |]; cbn; eauto.
    destruct (limit_write_all_ok b ws Hb) as (y & Hy & _). eauto.
  Qed.

  (* a stack made of limiters only reads as the identity *)
  Lemma read_all_limit : forall b l w, erase_lim l = [] -> st_read (sems b l) w = w.
  Proof.
    intros b l. induction l as [|x l IH]; intros w H; cbn; [reflexivity|].
    destruct x; cbn in H; try discriminate. cbn. apply IH, H.
  Qed.

  Lemma mirror_read_write : forall ba bb sa sb cs ws, 0 < ba ->
    st_write (sems ba sa) cs = Some ws -> erase_lim sa = erase_lim sb ->
    st_read (sems bb sb) (st_flat ws) = st_flat cs.
  Proof.
    intros ba bb sa. induction sa as [|x sa IH]; intros sb cs ws Hb Hw He.
    - cbn in Hw. injection Hw as <-. apply read_all_limit. symmetry. exact He.
    - cbn in Hw. destruct (st_write (map (sem cipher comp ba) sa) cs) as [ws'|] eqn:Hw'; [|discriminate].
      destruct x as [k| |].
      + (* cipher layer on the writer side: find the matching layer on the reader side *)
        cbn in Hw. injection Hw as <-. cbn in He.
        revert He. induction sb as [|y sb IHb]; intros He; [cbn in He; discriminate|].
        destruct y as [k'| |]; cbn in He; try discriminate.
        * injection He as Hk He. subst k'. cbn.
          rewrite (proj1 (cipher_lawful k)). apply (IH sb cs ws' Hb Hw' He).
        * cbn. apply IHb, He.
      + cbn in Hw. injection Hw as <-. cbn in He.
        revert He. induction sb as [|y sb IHb]; intros He; [cbn in He; discriminate|].
        destruct y as [k'| |]; cbn in He; try discriminate.
        * injection He as He. cbn.
          rewrite (proj1 comp_lawful). apply (IH sb cs ws' Hb Hw' He).
        * cbn. apply IHb, He.
      + (* limiter on the writer side: it only re-chunks *)
        cbn in Hw. cbn in He.
        destruct (limit_write_all_ok ba ws' Hb) as (y & Hy & Hflat & _).
        rewrite Hy in Hw. injection Hw as <-. rewrite Hflat.
        apply (IH sb cs ws' Hb Hw' He).
  Qed.

  (* mirror_transparent: if the two ends' stacks agree modulo limiters then, for EVERY history of
     writes (every chunking) at one end, the stack accepts it, complete delivery of the wire
     bytes yields exactly the written bytes at the other end, and every partial delivery (any
     prefix of the wire bytes, i.e. any arrival pattern) yields a prefix of what was written *)
  Theorem mirror_transparent : forall ba bb sa sb cs, 0 < ba -> 0 < bb ->
    erase_lim sa = erase_lim sb ->
    exists ws, st_write (sems ba sa) cs = Some ws /\
      st_read (sems bb sb) (st_flat ws) = st_flat cs /\
      forall w, st_prefix w (st_flat ws) -> st_prefix (st_read (sems bb sb) w) (st_flat cs).
  Proof.
    intros ba bb sa sb cs Ha Hb He.
    destruct (stack_write_total ba sa cs Ha) as (ws & Hw). exists ws. split; [exact Hw|].
    pose proof (mirror_read_write ba bb sa sb cs ws Ha Hw He) as Hr. split; [exact Hr|].
    intros w Hp. rewrite <- Hr. apply stack_read_monotone, Hp.
  Qed.
End Sem.

(* the concrete toy codecs are lawful: the hypotheses of mirror_transparent are satisfiable *)
Lemma xor_stream_app : forall k s pos t, xor_stream k pos (s ++ t) = xor_stream k pos s ++ xor_stream k (pos + blen s) t.
Proof.
  intros k s. induction s as [|x s IH]; intros pos t; cbn [xor_stream app].
  - rewrite blen_nil, Z.add_0_r. reflexivity.
  - rewrite IH, blen_cons. f_equal. f_equal. f_equal. lia.
Qed.

Lemma Z_of_byte_range b : 0 <= Z_of_byte b < 256.
Proof. unfold Z_of_byte. pose proof (Byte.to_N_bounded b). lia. Qed.

Lemma byte_of_Z_of_byte b : byte_of_Z (Z_of_byte b) = b.
Proof.
  unfold byte_of_Z, Z_of_byte. pose proof (Byte.to_N_bounded b).
  rewrite Z.mod_small by lia. rewrite N2Z.id, Byte.of_to_N. reflexivity.
Qed.

Lemma Z_of_byte_of_Z z : 0 <= z < 256 -> Z_of_byte (byte_of_Z z) = z.
Proof.
  intros H. unfold byte_of_Z, Z_of_byte. rewrite Z.mod_small by lia.
  destruct (Byte.of_N (Z.to_N z)) eqn:E.
  - apply Byte.to_of_N in E. rewrite E. lia.
  - apply Byte.of_N_None_iff in E. lia.
Qed.

Lemma lxor_byte_range a m : 0 <= a < 256 -> 0 <= m < 256 -> 0 <= Z.lxor a m < 256.
Proof.
  intros Ha Hm. split; [apply Z.lxor_nonneg; lia|].
  destruct (Z.eq_dec (Z.lxor a m) 0) as [->|Hne]; [lia|].
  assert (Hnn : 0 <= Z.lxor a m) by (apply Z.lxor_nonneg; lia).
  apply Z.log2_lt_pow2 with (b := 8); [lia|].
  eapply Z.le_lt_trans; [apply Z.log2_lxor; lia|].
  apply Z.max_lub_lt.
  - destruct (Z.eq_dec a 0) as [->|]; [cbn; lia|]. apply Z.log2_lt_pow2; lia.
  - destruct (Z.eq_dec m 0) as [->|]; [cbn; lia|]. apply Z.log2_lt_pow2; lia.
Qed.

Lemma xor_stream_invol : forall k s pos, xor_stream k pos (xor_stream k pos s) = s.
Proof.
  intros k s. induction s as [|x s IH]; intros pos; cbn [xor_stream]; [reflexivity|].
  rewrite IH. f_equal.
  pose proof (Z_of_byte_range x). pose proof (Z.mod_pos_bound (k + pos) 256 ltac:(lia)).
  rewrite Z_of_byte_of_Z by (apply lxor_byte_range; lia).
  rewrite Z.lxor_assoc, Z.lxor_nilpotent, Z.lxor_0_r. apply byte_of_Z_of_byte.
Qed.

Lemma toy_cipher_lawful k : codec_lawful (toy_cipher k).
Proof.
  split.
  - intros cs. cbn. unfold st_flat at 1. cbn [List.concat]. rewrite app_nil_r. apply xor_stream_invol.
  - intros w w' [r ->]. cbn. rewrite xor_stream_app. eexists. reflexivity.
Qed.

Lemma toy_comp_lawful : codec_lawful toy_comp.
Proof. split; [reflexivity|]. intros w w' H. exact H. Qed.

(* ---- soundness of the reflective checker over the translator's table ---- *)

Definition pair_mirrors (sites : list sk_site) (p : stack_pair) : Prop :=
  exists sa sb, find_site (fst (sp_a p)) (snd (sp_a p)) sites = Some sa /\
                find_site (fst (sp_b p)) (snd (sp_b p)) sites = Some sb /\
    forall fe fc la lb, exists x y,
      build_site fe fc la (sp_ka p) sa = Some x /\ build_site fe fc lb (sp_kb p) sb = Some y /\
      erase_lim x = erase_lim y /\
      (* every cipher layer of the pair is keyed by the pair's key class on both ends *)
      enc_class_ok (sp_class p) x = true /\
      (fe = true -> fc = true -> erase_lim x = [LkEnc (sp_class p); LkComp]).

Lemma forall_bools (P : bool -> bool) : forallb P bools = true -> forall b, P b = true.
Proof. cbn. intros H b. repeat (apply andb_prop in H; destruct H as [? H]). destruct b; assumption. Qed.

Lemma pair_ok_sound sites p : pair_ok sites p = true -> pair_mirrors sites p.
Proof.
  unfold pair_ok, pair_mirrors. intros H.
  destruct (find_site (fst (sp_a p)) (snd (sp_a p)) sites) as [sa|]; [|discriminate].
  destruct (find_site (fst (sp_b p)) (snd (sp_b p)) sites) as [sb|]; [|discriminate].
  exists sa, sb. split; [reflexivity|]. split; [reflexivity|].
  intros fe fc la lb.
  pose proof (forall_bools _ (forall_bools _ (forall_bools _ (forall_bools _ H fe) fc) la) lb) as H'.
  cbv beta in H'.
  destruct (build_site fe fc la (sp_ka p) sa) as [x|]; [|discriminate].
  destruct (build_site fe fc lb (sp_kb p) sb) as [y|]; [|discriminate].
  exists x, y. split; [reflexivity|]. split; [reflexivity|].
  apply andb_prop in H'. destruct H' as [H' H3]. apply andb_prop in H'. destruct H' as [H1 H2].
  split; [apply lks_eqb_eq, H1|]. split; [exact H2|].
  intros -> ->. cbn in H3. apply lks_eqb_eq, H3.
Qed.

Theorem stacks_mirror_ok_sound : forall tr sites keyargs vf nc,
  stacks_mirror_ok tr sites keyargs vf nc = true ->
  forall p, In p (c01_pairs keyargs) -> pair_mirrors sites p.
Proof.
  intros tr sites keyargs vf nc H p Hin. unfold stacks_mirror_ok in H.
  apply andb_prop in H. destruct H as [H _]. apply andb_prop in H. destruct H as [_ H].
  rewrite forallb_forall in H. apply pair_ok_sound, H, Hin.
Qed.

(* mirroring (from the table) and transparency (from the codec laws) combined, both directions *)
Theorem tunnel_transparent_of_mirror : forall (cipher : keyclass -> codec) (comp : codec),
  (forall k, codec_lawful (cipher k)) -> codec_lawful comp ->
  forall sites p, pair_mirrors sites p ->
  exists sa sb, find_site (fst (sp_a p)) (snd (sp_a p)) sites = Some sa /\
                find_site (fst (sp_b p)) (snd (sp_b p)) sites = Some sb /\
  forall fe fc la lb ba bb cs, 0 < ba -> 0 < bb ->
  exists x y, build_site fe fc la (sp_ka p) sa = Some x /\ build_site fe fc lb (sp_kb p) sb = Some y /\
    (exists ws, st_write (sems cipher comp ba x) cs = Some ws /\
       st_read (sems cipher comp bb y) (st_flat ws) = st_flat cs /\
       forall w, st_prefix w (st_flat ws) -> st_prefix (st_read (sems cipher comp bb y) w) (st_flat cs)) /\
    (exists ws, st_write (sems cipher comp bb y) cs = Some ws /\
       st_read (sems cipher comp ba x) (st_flat ws) = st_flat cs /\
       forall w, st_prefix w (st_flat ws) -> st_prefix (st_read (sems cipher comp ba x) w) (st_flat cs)).
Proof.
  intros cipher comp Hc Hz sites p (sa & sb & Ha & Hb & H).
  exists sa, sb. split; [exact Ha|]. split; [exact Hb|]. intros fe fc la lb ba bb cs Hba Hbb.
  destruct (H fe fc la lb) as (x & y & Hx & Hy & He & _). exists x, y. split; [exact Hx|]. split; [exact Hy|]. split.
  - exact (mirror_transparent cipher comp Hc Hz ba bb x y cs Hba Hbb He).
  - exact (mirror_transparent cipher comp Hc Hz bb ba y x cs Hbb Hba (eq_sym He)).
Qed.
