package main

import (
	"crypto/tls"
	"fmt"
	"path/filepath"

	v1 "github.com/fatedier/frp/pkg/config/v1"
	"github.com/fatedier/frp/pkg/transport"
	"verifharness/hx"
)

func optBool(g *hx.Gen) *bool {
	switch g.Intn(3) {
	case 0:
		return nil
	case 1:
		t := true
		return &t
	}
	f := false
	return &f
}

func coqOptBool(p *bool) string {
	if p == nil {
		return "None"
	}
	return "(Some " + hx.Bool(*p) + ")"
}

func fromPtr(p *bool) bool { return p != nil && *p }

// lp: logical name of a generated file (the temp directory differs from run to run)
func lp(path string) string {
	if path == "" {
		return ""
	}
	return "pki/" + filepath.Base(path)
}

// runPolicy: the real config completion and TLS-config constructors on real files.
func runPolicy(cfg *hx.RunCfg) error {
	hx.Quiet()
	g := hx.NewGen(cfg.Seed)
	pki, err := NewPKI()
	if err != nil {
		return err
	}
	defer pki.Close()
	cf := &hx.CaseFile{Imports: caseImports, Typ: "case", Tail: caseTail +
		"Definition NREQUIRE := Eval vm_compute in count_if (fun c => match c with CServerPolicy _ _ _ _ _ _ _ true true _ _ => true | _ => false end) cases.\nPrint NREQUIRE.\n" +
		"Definition NVERIFY := Eval vm_compute in count_if (fun c => match c with CClientPolicy _ _ _ _ _ _ true false _ _ _ => true | _ => false end) cases.\nPrint NVERIFY.\n"}
	distinct := map[string]bool{}
	dist := map[string]int{}
	missing := pki.Dir + "/does-not-exist.pem"
	certChoices := [][2]string{{"", ""}, {pki.ServerCert, pki.ServerKey}, {pki.ServerCert, ""}, {"", pki.ServerKey}, {pki.ClientCert, pki.ClientKey}, {missing, pki.ServerKey}, {pki.ServerCert, pki.ClientKey}}
	caChoices := []string{"", pki.CA, pki.OtherCA, missing}
	add := func(s string) {
		cf.Cases = append(cf.Cases, s)
		distinct[s] = true
	}
	// exhaustive over the choices (7 x 4 x 2) for the server, (7 x 4 x 3 names) for the client
	for _, cc := range certChoices {
		for _, ca := range caChoices {
			pairOK := true
			if cc[0] != "" && cc[1] != "" {
				_, e := tls.LoadX509KeyPair(cc[0], cc[1])
				pairOK = e == nil
			}
			readOK := ca != missing
			for _, force := range []bool{false, true} {
				st := v1.ServerTransportConfig{}
				st.TLS.Force = force
				st.TLS.CertFile, st.TLS.KeyFile, st.TLS.TrustedCaFile = cc[0], cc[1], ca
				st.Complete()
				tc, e := transport.NewServerTLSConfig(st.TLS.CertFile, st.TLS.KeyFile, st.TLS.TrustedCaFile)
				ok := e == nil
				req, hasCAs, ncert := false, false, 0
				if ok {
					req = tc.ClientAuth == tls.RequireAndVerifyClientCert
					hasCAs = tc.ClientCAs != nil
					ncert = len(tc.Certificates)
				}
				add(fmt.Sprintf("CServerPolicy %s %s %s %s %s %s %s %s %s %s %d", hx.Bool(force), hx.Str(lp(cc[0])), hx.Str(lp(cc[1])), hx.Str(lp(ca)),
					hx.Bool(pairOK), hx.Bool(readOK), hx.Bool(st.TLS.Force), hx.Bool(ok), hx.Bool(req), hx.Bool(hasCAs), ncert))
				dist[fmt.Sprintf("server ok=%v require=%v force_out=%v", ok, req, st.TLS.Force)]++
			}
			for _, sn := range []string{"", goodServerName, "127.0.5.1"} {
				tc, e := transport.NewClientTLSConfig(cc[0], cc[1], ca, sn)
				ok := e == nil
				insecure, name, roots, ncert := false, "", false, 0
				if ok {
					insecure, name, roots, ncert = tc.InsecureSkipVerify, tc.ServerName, tc.RootCAs != nil, len(tc.Certificates)
				}
				add(fmt.Sprintf("CClientPolicy %s %s %s %s %s %s %s %s %s %s %d", hx.Str(lp(cc[0])), hx.Str(lp(cc[1])), hx.Str(lp(ca)), hx.Str(sn),
					hx.Bool(pairOK), hx.Bool(readOK), hx.Bool(ok), hx.Bool(insecure), hx.Str(name), hx.Bool(roots), ncert))
				dist[fmt.Sprintf("client ok=%v insecure=%v", ok, insecure)]++
			}
		}
	}
	// client transport completion: exhaustive over protocol x three option-bools
	for _, proto := range []string{"", "tcp", "kcp", "quic", "websocket", "wss"} {
		for i := 0; i < 27; i++ {
			pick := func(k int) *bool {
				switch k {
				case 0:
					return nil
				case 1:
					t := true
					return &t
				}
				f := false
				return &f
			}
			ct := v1.ClientTransportConfig{Protocol: proto, TCPMux: pick(i % 3)}
			ct.TLS.Enable, ct.TLS.DisableCustomTLSFirstByte = pick((i/3)%3), pick((i/9)%3)
			in := fmt.Sprintf("CClientComplete %s %s %s %s", hx.Str(proto), coqOptBool(ct.TCPMux), coqOptBool(ct.TLS.Enable), coqOptBool(ct.TLS.DisableCustomTLSFirstByte))
			ct.Complete()
			add(fmt.Sprintf("%s %s %s %s %s", in, hx.Str(ct.Protocol), hx.Bool(fromPtr(ct.TCPMux)), hx.Bool(fromPtr(ct.TLS.Enable)), hx.Bool(fromPtr(ct.TLS.DisableCustomTLSFirstByte))))
			dist["client-complete"]++
		}
	}
	_ = g
	if err := cf.Write(cfg.Out); err != nil {
		return err
	}
	cfg.St["cases"] = len(cf.Cases)
	cfg.St["distinct_nontrivial"] = len(distinct)
	cfg.St["samples"] = []string{cf.Cases[3], cf.Cases[len(cf.Cases)/2]}
	cfg.St["distribution"] = dist
	cfg.St["impl_failures"] = []map[string]string{}
	return nil
}
