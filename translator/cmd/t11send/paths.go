package main

// Third output of t11send (GenAcceptPaths.v):
//  (1) group listeners: in TCPGroupListener.Accept / TCPMuxGroupListener.Accept, the select clause that
//      receives a connection from the group's hand-off channel returns that connection on every path except
//      the "!ok" (channel closed) one — a connection taken out of the channel is always handed to the caller.
//  (2) every call site of libio.WithCompressionFromPool in server/, client/, pkg/: the pooled snappy objects
//      may be recycled only after the wrapped connection's last use.  Per site: does the enclosing function
//      have results (the wrapped value could be returned and outlive the call)?  is every call of the recycle
//      function deferred or placed after the Join that uses the connection?  is there such a Join after the wrap?

import (
	"bytes"
	"fmt"
	"go/ast"
	"go/parser"
	"go/token"
	"os"
	"path/filepath"
	"sort"
	"strings"

	"veriftranslator/tx"
)

func acceptReturnsReceived(path, recvType string) (found, ok bool) {
	fset := token.NewFileSet()
	f, err := parser.ParseFile(fset, path, nil, 0)
	if err != nil {
		return false, false
	}
	for _, d := range f.Decls {
		fd, isF := d.(*ast.FuncDecl)
		if !isF || fd.Name.Name != "Accept" || fd.Recv == nil || fd.Body == nil || len(fd.Recv.List) != 1 {
			continue
		}
		st, isStar := fd.Recv.List[0].Type.(*ast.StarExpr)
		if !isStar {
			continue
		}
		if id, isId := st.X.(*ast.Ident); !isId || id.Name != recvType {
			continue
		}
		found, ok = true, true
		clauses := 0
		ast.Inspect(fd.Body, func(n ast.Node) bool {
			cc, isC := n.(*ast.CommClause)
			if !isC || cc.Comm == nil {
				return true
			}
			as, isA := cc.Comm.(*ast.AssignStmt)
			if !isA || len(as.Lhs) != 2 || len(as.Rhs) != 1 {
				return true
			}
			if u, isU := as.Rhs[0].(*ast.UnaryExpr); !isU || u.Op != token.ARROW {
				return true
			}
			cName, okName := selPath(as.Lhs[0]), selPath(as.Lhs[1])
			clauses++
			// every return: first result is the received connection, or it sits under "if !ok"
			var walk func(n ast.Node, underNotOk bool)
			walk = func(n ast.Node, underNotOk bool) {
				switch v := n.(type) {
				case nil:
				case *ast.FuncLit:
				case *ast.ReturnStmt:
					if underNotOk {
						return
					}
					if len(v.Results) == 0 || selPath(v.Results[0]) != cName {
						ok = false
					}
				case *ast.IfStmt:
					isNotOk := false
					if u, isU := v.Cond.(*ast.UnaryExpr); isU && u.Op == token.NOT && selPath(u.X) == okName && v.Init == nil {
						isNotOk = true
					}
					for _, s := range v.Body.List {
						walk(s, underNotOk || isNotOk)
					}
					if v.Else != nil {
						walk(v.Else, underNotOk)
					}
				case *ast.BlockStmt:
					for _, s := range v.List {
						walk(s, underNotOk)
					}
				case *ast.SelectStmt:
					walk(v.Body, underNotOk)
				case *ast.SwitchStmt:
					walk(v.Body, underNotOk)
				case *ast.CaseClause:
					for _, s := range v.Body {
						walk(s, underNotOk)
					}
				case *ast.CommClause:
					for _, s := range v.Body {
						walk(s, underNotOk)
					}
				case *ast.ForStmt:
					walk(v.Body, underNotOk)
				case *ast.RangeStmt:
					walk(v.Body, underNotOk)
				case *ast.LabeledStmt:
					walk(v.Stmt, underNotOk)
				}
			}
			for _, s := range cc.Body {
				walk(s, false)
			}
			// falling off the end of the clause would return the named results: fine only if nothing reassigns; require an explicit return last
			if len(cc.Body) == 0 {
				ok = false
			} else if _, isR := cc.Body[len(cc.Body)-1].(*ast.ReturnStmt); !isR {
				ok = false
			}
			return false
		})
		if clauses != 1 {
			ok = false
		}
	}
	return
}

type csite struct {
	file, fn                   string
	hasResults, recycleOK, joins bool
}

func compressSites() ([]csite, bool) {
	var sites []csite
	unknown := false
	for _, root := range []string{"server", "client", "pkg", "cmd"} {
		_ = filepath.Walk(filepath.Join(tx.Repo, root), func(p string, info os.FileInfo, err error) error {
			if err != nil || info.IsDir() || !strings.HasSuffix(p, ".go") || strings.HasSuffix(p, "_test.go") {
				return nil
			}
			src, err := os.ReadFile(p)
			if err != nil || !bytes.Contains(src, []byte("WithCompressionFromPool")) {
				return nil
			}
			fset := token.NewFileSet()
			f, err := parser.ParseFile(fset, p, src, 0)
			if err != nil {
				unknown = true
				return nil
			}
			rel, _ := filepath.Rel(tx.Repo, p)
			for _, d := range f.Decls {
				fd, isF := d.(*ast.FuncDecl)
				if !isF || fd.Body == nil {
					continue
				}
				var wrapPos token.Pos
				recycle := ""
				inLit := false
				var lits []*ast.FuncLit
				ast.Inspect(fd.Body, func(n ast.Node) bool {
					if fl, isL := n.(*ast.FuncLit); isL {
						lits = append(lits, fl)
					}
					as, isA := n.(*ast.AssignStmt)
					if !isA || len(as.Rhs) != 1 {
						return true
					}
					call, isC := as.Rhs[0].(*ast.CallExpr)
					if !isC || !strings.HasSuffix(selPath(call.Fun), "WithCompressionFromPool") {
						return true
					}
					if wrapPos != 0 || len(as.Lhs) != 2 {
						unknown = true // two sites in one function, or an unexpected shape
					}
					wrapPos = as.Pos()
					if len(as.Lhs) == 2 {
						recycle = selPath(as.Lhs[1])
					}
					return true
				})
				if wrapPos == 0 {
					if bytes.Contains(src[fset.Position(fd.Pos()).Offset:fset.Position(fd.End()).Offset], []byte("WithCompressionFromPool")) {
						unknown = true
					}
					continue
				}
				for _, fl := range lits {
					if fl.Pos() < wrapPos && wrapPos < fl.End() {
						inLit = true
					}
				}
				if inLit {
					unknown = true
				}
				s := csite{file: rel, fn: fd.Name.Name}
				s.hasResults = fd.Type.Results != nil && len(fd.Type.Results.List) > 0
				var joinPos token.Pos
				ast.Inspect(fd.Body, func(n ast.Node) bool {
					if c, isC := n.(*ast.CallExpr); isC && c.Pos() > wrapPos {
						if sel, isS := c.Fun.(*ast.SelectorExpr); isS && sel.Sel.Name == "Join" && joinPos == 0 {
							joinPos = c.Pos()
						}
					}
					return true
				})
				s.joins = joinPos != 0
				calls, good := 0, 0
				deferred := map[*ast.CallExpr]bool{}
				ast.Inspect(fd.Body, func(n ast.Node) bool {
					if ds, isD := n.(*ast.DeferStmt); isD {
						deferred[ds.Call] = true
					}
					return true
				})
				ast.Inspect(fd.Body, func(n ast.Node) bool {
					c, isC := n.(*ast.CallExpr)
					if !isC || selPath(c.Fun) != recycle || recycle == "" {
						return true
					}
					calls++
					if deferred[c] && s.joins || (joinPos != 0 && c.Pos() > joinPos) {
						good++
					}
					return true
				})
				s.recycleOK = calls > 0 && calls == good
				sites = append(sites, s)
			}
			return nil
		})
	}
	sort.Slice(sites, func(i, j int) bool { return sites[i].file+sites[i].fn < sites[j].file+sites[j].fn })
	return sites, unknown
}

// vhostHandoffReleased: is the hand-off send of Muxer.handle released by Listener.Close?
func vhostHandoffReleased() (released bool, closes []string, found bool) {
	fset := token.NewFileSet()
	f, err := parser.ParseFile(fset, filepath.Join(tx.Repo, "pkg/util/vhost/vhost.go"), nil, 0)
	if err != nil {
		return false, nil, false
	}
	closed := map[string]bool{}
	var handle *ast.FuncDecl
	for _, d := range f.Decls {
		fd, ok := d.(*ast.FuncDecl)
		if !ok || fd.Body == nil || fd.Recv == nil {
			continue
		}
		if fd.Name.Name == "Close" && strings.Contains(selPathType(fd.Recv.List[0].Type), "Listener") {
			ast.Inspect(fd.Body, func(n ast.Node) bool {
				if c, ok := n.(*ast.CallExpr); ok {
					if id, ok := c.Fun.(*ast.Ident); ok && id.Name == "close" && len(c.Args) == 1 {
						if s, ok := c.Args[0].(*ast.SelectorExpr); ok {
							closed[s.Sel.Name] = true
						}
					}
				}
				return true
			})
		}
		if fd.Name.Name == "handle" && strings.Contains(selPathType(fd.Recv.List[0].Type), "Muxer") {
			handle = fd
		}
	}
	for k := range closed {
		closes = append(closes, k)
	}
	sort.Strings(closes)
	if handle == nil {
		return false, closes, false
	}
	sends := 0
	okAll := true
	var visit func(n ast.Node, inRecover bool, sel *ast.SelectStmt)
	visit = func(n ast.Node, inRecover bool, sel *ast.SelectStmt) {
		ast.Inspect(n, func(m ast.Node) bool {
			switch v := m.(type) {
			case *ast.CallExpr:
				if strings.HasSuffix(selPath(v.Fun), "PanicToError") {
					for _, a := range v.Args {
						if fl, ok := a.(*ast.FuncLit); ok {
							visit(fl.Body, true, nil)
						}
					}
					return false
				}
			case *ast.SelectStmt:
				for _, cc := range v.Body.List {
					c := cc.(*ast.CommClause)
					if ss, ok := c.Comm.(*ast.SendStmt); ok {
						if sx, ok := ss.Chan.(*ast.SelectorExpr); ok && sx.Sel.Name == "accept" {
							sends++
							// released if a sibling case receives from a channel Close closes
							rel := false
							for _, oc := range v.Body.List {
								o := oc.(*ast.CommClause)
								if o.Comm == nil {
									continue
								}
								var e ast.Expr
								switch w := o.Comm.(type) {
								case *ast.ExprStmt:
									e = w.X
								case *ast.AssignStmt:
									if len(w.Rhs) == 1 {
										e = w.Rhs[0]
									}
								}
								if u, ok := e.(*ast.UnaryExpr); ok && u.Op == token.ARROW {
									if sx2, ok := u.X.(*ast.SelectorExpr); ok && closed[sx2.Sel.Name] {
										rel = true
									}
								}
							}
							if !rel && !(inRecover && closed["accept"]) {
								okAll = false
							}
						}
					}
					for _, b := range c.Body {
						visit(b, inRecover, nil)
					}
				}
				return false
			case *ast.SendStmt:
				if sx, ok := v.Chan.(*ast.SelectorExpr); ok && sx.Sel.Name == "accept" {
					sends++
					if !(inRecover && closed["accept"]) {
						okAll = false
					}
				}
			}
			return true
		})
	}
	visit(handle.Body, false, nil)
	return okAll && sends == 1, closes, true
}

func selPathType(e ast.Expr) string {
	if st, ok := e.(*ast.StarExpr); ok {
		return selPath(st.X)
	}
	return selPath(e)
}

// legacyPoolFields: every assignment to Transport.MaxPoolCount / Transport.PoolCount in the legacy ini
// conversion, with the source field and that field's ini key.
func legacyPoolFields() [][3]string {
	var rows [][3]string
	dir := filepath.Join(tx.Repo, "pkg/config/legacy")
	fset := token.NewFileSet()
	tags := map[string]map[string]string{} // struct -> field -> ini key
	var convs []*ast.FuncDecl
	for _, name := range []string{"conversion.go", "server.go", "client.go"} {
		f, err := parser.ParseFile(fset, filepath.Join(dir, name), nil, 0)
		if err != nil {
			return [][3]string{{"unparsed", name, ""}}
		}
		for _, d := range f.Decls {
			switch v := d.(type) {
			case *ast.FuncDecl:
				if strings.HasPrefix(v.Name.Name, "Convert_") && strings.HasSuffix(v.Name.Name, "CommonConf_To_v1") {
					convs = append(convs, v)
				}
			case *ast.GenDecl:
				for _, sp := range v.Specs {
					ts, ok := sp.(*ast.TypeSpec)
					if !ok {
						continue
					}
					st, ok := ts.Type.(*ast.StructType)
					if !ok {
						continue
					}
					tags[ts.Name.Name] = map[string]string{}
					for _, fl := range st.Fields.List {
						if fl.Tag == nil {
							continue
						}
						tag := strings.Trim(fl.Tag.Value, "`")
						key := ""
						if i := strings.Index(tag, `ini:"`); i >= 0 {
							rest := tag[i+5:]
							if j := strings.Index(rest, `"`); j >= 0 {
								key = rest[:j]
							}
						}
						for _, n := range fl.Names {
							tags[ts.Name.Name][n.Name] = key
						}
					}
				}
			}
		}
	}
	for _, fd := range convs {
		confType := ""
		if len(fd.Type.Params.List) == 1 {
			confType = selPathType(fd.Type.Params.List[0].Type)
		}
		ast.Inspect(fd.Body, func(n ast.Node) bool {
			as, ok := n.(*ast.AssignStmt)
			if !ok || len(as.Lhs) != 1 || len(as.Rhs) != 1 {
				return true
			}
			lhs := selPath(as.Lhs[0])
			for _, target := range []string{"Transport.MaxPoolCount", "Transport.PoolCount"} {
				if strings.HasSuffix(lhs, "."+target) {
					src := selPath(as.Rhs[0])
					field := src
					if i := strings.LastIndex(src, "."); i >= 0 {
						field = src[i+1:]
					}
					if !strings.HasPrefix(src, "conf.") {
						field = "?" + tx.Sanitize(src)
					}
					rows = append(rows, [3]string{target, field, tags[confType][field]})
				}
			}
			return true
		})
	}
	sort.Slice(rows, func(i, j int) bool { return rows[i][0]+rows[i][1] < rows[j][0]+rows[j][1] })
	return rows
}

// visitorPathFacts: the visitor accept path (visitor connection -> InternalListener -> proxy accept loop).
func visitorPathFacts() [][2]string {
	b := func(v bool) string {
		if v {
			return "true"
		}
		return "false"
	}
	fset := token.NewFileSet()
	funcOf := func(file, recvType, name string) *ast.FuncDecl {
		f, err := parser.ParseFile(fset, filepath.Join(tx.Repo, file), nil, 0)
		if err != nil {
			return nil
		}
		for _, d := range f.Decls {
			fd, ok := d.(*ast.FuncDecl)
			if !ok || fd.Body == nil || fd.Name.Name != name || fd.Recv == nil || len(fd.Recv.List) != 1 {
				continue
			}
			if selPathType(fd.Recv.List[0].Type) == recvType {
				return fd
			}
		}
		return nil
	}
	// F1: PutConn on a closed listener returns an error: recover-wrapped send on acceptCh, "if err != nil { return <error> }", Close closes acceptCh
	f1 := false
	if put := funcOf("pkg/util/net/listener.go", "InternalListener", "PutConn"); put != nil {
		wrapped, retErr := false, false
		for i, st := range put.Body.List {
			as, ok := st.(*ast.AssignStmt)
			if ok && len(as.Rhs) == 1 && len(as.Lhs) == 1 {
				if call, ok := as.Rhs[0].(*ast.CallExpr); ok && strings.HasSuffix(selPath(call.Fun), "PanicToError") && len(call.Args) == 1 {
					if fl, ok := call.Args[0].(*ast.FuncLit); ok {
						ast.Inspect(fl.Body, func(n ast.Node) bool {
							if ss, ok := n.(*ast.SendStmt); ok {
								if sx, ok := ss.Chan.(*ast.SelectorExpr); ok && sx.Sel.Name == "acceptCh" {
									wrapped = true
								}
							}
							return true
						})
					}
					errName := selPath(as.Lhs[0])
					if i+1 < len(put.Body.List) {
						if ifs, ok := put.Body.List[i+1].(*ast.IfStmt); ok {
							if be, ok := ifs.Cond.(*ast.BinaryExpr); ok && be.Op == token.NEQ && selPath(be.X) == errName && selPath(be.Y) == "nil" && len(ifs.Body.List) > 0 {
								if rs, ok := ifs.Body.List[len(ifs.Body.List)-1].(*ast.ReturnStmt); ok && len(rs.Results) == 1 && selPath(rs.Results[0]) != "nil" {
									retErr = true
								}
							}
						}
					}
				}
			}
		}
		closesCh := false
		if cl := funcOf("pkg/util/net/listener.go", "InternalListener", "Close"); cl != nil {
			ast.Inspect(cl.Body, func(n ast.Node) bool {
				if c, ok := n.(*ast.CallExpr); ok {
					if id, ok := c.Fun.(*ast.Ident); ok && id.Name == "close" && len(c.Args) == 1 && strings.HasSuffix(selPath(c.Args[0]), ".acceptCh") {
						closesCh = true
					}
				}
				return true
			})
		}
		f1 = wrapped && retErr && closesCh
	}
	// F2: Manager.NewConn hands PutConn's result to its caller (assigned to the named result err, or returned)
	f2 := false
	if nc := funcOf("server/visitor/visitor.go", "Manager", "NewConn"); nc != nil {
		resName := ""
		if nc.Type.Results != nil && len(nc.Type.Results.List) == 1 && len(nc.Type.Results.List[0].Names) == 1 {
			resName = nc.Type.Results.List[0].Names[0].Name
		}
		calls, good := 0, 0
		ast.Inspect(nc.Body, func(n ast.Node) bool {
			switch v := n.(type) {
			case *ast.AssignStmt:
				if len(v.Rhs) == 1 {
					if c, ok := v.Rhs[0].(*ast.CallExpr); ok && strings.HasSuffix(selPath(c.Fun), ".PutConn") {
						calls++
						if len(v.Lhs) == 1 && resName != "" && selPath(v.Lhs[0]) == resName && v.Tok == token.ASSIGN {
							good++
						}
						return false
					}
				}
			case *ast.ReturnStmt:
				if len(v.Results) == 1 {
					if c, ok := v.Results[0].(*ast.CallExpr); ok && strings.HasSuffix(selPath(c.Fun), ".PutConn") {
						calls++
						good++
						return false
					}
				}
			case *ast.CallExpr:
				if strings.HasSuffix(selPath(v.Fun), ".PutConn") {
					calls++
				}
			}
			return true
		})
		f2 = calls == 1 && good == 1
	}
	// F3: Service.RegisterVisitorConn returns NewConn's result; F4: handleConnection closes the connection when it fails
	f3, f4 := false, false
	if rv := funcOf("server/service.go", "Service", "RegisterVisitorConn"); rv != nil && len(rv.Body.List) > 0 {
		if rs, ok := rv.Body.List[len(rv.Body.List)-1].(*ast.ReturnStmt); ok && len(rs.Results) == 1 {
			if c, ok := rs.Results[0].(*ast.CallExpr); ok && strings.HasSuffix(selPath(c.Fun), ".NewConn") {
				f3 = true
			}
		}
	}
	if hc := funcOf("server/service.go", "Service", "handleConnection"); hc != nil {
		ast.Inspect(hc.Body, func(n ast.Node) bool {
			ifs, ok := n.(*ast.IfStmt)
			if !ok || ifs.Init == nil {
				return true
			}
			as, ok := ifs.Init.(*ast.AssignStmt)
			if !ok || len(as.Rhs) != 1 {
				return true
			}
			c, ok := as.Rhs[0].(*ast.CallExpr)
			if !ok || !strings.HasSuffix(selPath(c.Fun), ".RegisterVisitorConn") || len(c.Args) < 1 {
				return true
			}
			connName := selPath(c.Args[0])
			be, ok := ifs.Cond.(*ast.BinaryExpr)
			if !ok || be.Op != token.NEQ || selPath(be.Y) != "nil" {
				return true
			}
			for _, st := range ifs.Body.List {
				if es, ok := st.(*ast.ExprStmt); ok {
					if cc, ok := es.X.(*ast.CallExpr); ok && selPath(cc.Fun) == connName+".Close" {
						f4 = true
					}
				}
			}
			return false
		})
	}
	return [][2]string{
		{"InternalListener.PutConn on a closed listener returns an error", b(f1)},
		{"visitor.Manager.NewConn propagates PutConn's error", b(f2)},
		{"Service.RegisterVisitorConn returns NewConn's result", b(f3)},
		{"Service.handleConnection closes the connection when RegisterVisitorConn fails", b(f4)},
	}
}

func runPaths() ([]byte, error) {
	var out bytes.Buffer
	fmt.Fprintf(&out, "(* generated by translator unit T11send (paths) from server/group/*.go and every WithCompressionFromPool call site; do not edit *)\n")
	fmt.Fprintf(&out, "From Coq Require Import String List Bool.\nImport ListNotations.\n\n")
	fmt.Fprintf(&out, "Definition T11paths_translated : bool := true.\n\n")
	fmt.Fprintf(&out, "(* (listener type, Accept found, the received connection is returned on every path but the !ok one) *)\n")
	fmt.Fprintf(&out, "Definition gen_group_accepts : list (string * bool * bool) := [\n")
	rows := [][2]string{{"server/group/tcp.go", "TCPGroupListener"}, {"server/group/tcpmux.go", "TCPMuxGroupListener"}}
	for i, r := range rows {
		found, ok := acceptReturnsReceived(filepath.Join(tx.Repo, r[0]), r[1])
		sep := ";"
		if i == len(rows)-1 {
			sep = ""
		}
		fmt.Fprintf(&out, "  (%q%%string, %v, %v)%s\n", r[1], found, found && ok, sep)
	}
	fmt.Fprintf(&out, "].\n\n")
	sites, unknown := compressSites()
	fmt.Fprintf(&out, "Definition gen_pool_compress_unknown : bool := %v.\n", unknown)
	fmt.Fprintf(&out, "(* (file, function, the function has results, every recycle call is deferred-with-Join or after the Join, a Join follows the wrap) *)\n")
	fmt.Fprintf(&out, "Definition gen_pool_compress_sites : list (string * string * bool * bool * bool) := [\n")
	for i, s := range sites {
		sep := ";"
		if i == len(sites)-1 {
			sep = ""
		}
		fmt.Fprintf(&out, "  (%q%%string, %q%%string, %v, %v, %v)%s\n", s.file, s.fn, s.hasResults, s.recycleOK, s.joins, sep)
	}
	fmt.Fprintf(&out, "].\n\n")
	rel, closes, found := vhostHandoffReleased()
	fmt.Fprintf(&out, "(* vhost.Muxer.handle: the hand-off send on Listener.accept is recover-wrapped and Close closes accept, or it is a select\n   case next to a receive from a channel Close closes; Listener.Close closes: %s *)\n", strings.Join(closes, ", "))
	fmt.Fprintf(&out, "Definition gen_vhost_handle_found : bool := %v.\n", found)
	fmt.Fprintf(&out, "Definition gen_vhost_handoff_released_by_close : bool := %v.\n\n", rel && found)
	fmt.Fprintf(&out, "(* visitor accept path: visitor connection -> visitor.Manager.NewConn -> InternalListener.PutConn -> proxy accept loop *)\n")
	fmt.Fprintf(&out, "Definition gen_visitor_path : list (string * bool) := [\n")
	vrows := visitorPathFacts()
	for i, r := range vrows {
		sep := ";"
		if i == len(vrows)-1 {
			sep = ""
		}
		fmt.Fprintf(&out, "  (%q%%string, %s)%s\n", r[0], r[1], sep)
	}
	fmt.Fprintf(&out, "].\n\n")
	fmt.Fprintf(&out, "(* legacy ini conversion: (target field of the v1 config, source field of the legacy struct, its ini key) *)\n")
	fmt.Fprintf(&out, "Definition gen_legacy_pool_fields : list (string * string * string) := [\n")
	lrows := legacyPoolFields()
	for i, r := range lrows {
		sep := ";"
		if i == len(lrows)-1 {
			sep = ""
		}
		fmt.Fprintf(&out, "  (%q%%string, %q%%string, %q%%string)%s\n", r[0], r[1], r[2], sep)
	}
	fmt.Fprintf(&out, "].\n")
	return out.Bytes(), nil
}
