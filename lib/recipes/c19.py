from vlib import Check

PID = "C19"

MANIFEST = dict(
    text="Machine-checked theorems (Coq 8.16.1) over executable models of the client's health monitor (checkWorker as a fold over "
         "probe outcomes), the proxy wrapper phase machine and the proxy/visitor managers' UpdateAll (delete-then-add over a "
         "name-keyed map, first duplicate wins, DeepEqual as decidable equality): withdrawal after exactly maxFailed consecutive "
         "failures for every outcome history, a success restarts the count, no registration before the first success, "
         "re-registration at the next success, legal phase transitions only, closed is absorbing and silent, work connections only "
         "while running, start errors retried after the back-off, convergence of the wrapper table to the last configuration set "
         "and stability of identical reloads (also with duplicate names). The models are tied to the code by differential runs of "
         "the real health.Monitor against a scripted backend and of the real proxy.Manager / visitor.Manager with a recording "
         "transporter.",
    note="Trusted: Coq kernel+VM; harness transcription. Time enters the models as operation arguments; the drivers shrink the "
         "timing constants through //go:build verif setters. The goroutine scheduling of wrapper workers is modelled as an "
         "arbitrary interleaving of per-wrapper ticks (theorems hold for all of them); real-time bounds and continuity of open "
         "tunnel connections across a reload are observed, not proved.",
    technique="Coq proof (induction over operation lists, invariants) + differential correspondence via vm_compute",
    design="4/C19")


def q(tier, quick, thorough):
    return quick if tier == "quick" else thorough


def recipe(c: Check):
    c.build(["Properties/C19.vo", "Corr/C19.vo"], harness=["c19"])
    c.obligations("C19")
    st = c.run_driver("health", q(c.tier, 260, 0), shards=q(c.tier, 4, 16), timeout=q(c.tier, 300, 1500))
    if st:
        cc = c.cov.get("coq_counters", {}).get("health", {})
        for k in ("NWITHDRAWN", "NREREGISTERED", "NRESTARTEDCOUNT"):
            if cc.get(k, 0) <= 0:
                c.broken.append(dict(kind="coverage", name="health driver never reached %s" % k,
                                     detail="the generated outcome sequences did not exercise a branch the property names"))
    st2 = c.run_driver("reconcile", q(c.tier, 160, 1500), shards=q(c.tier, 4, 16), timeout=q(c.tier, 300, 1500))
    if st2:
        cc = c.cov.get("coq_counters", {}).get("reconcile", {})
        for k in ("NKEPT", "NREPLACED", "NDUPLICATE", "NRETRIED", "NRUNNING"):
            if cc.get(k, 0) <= 0:
                c.broken.append(dict(kind="coverage", name="reconcile driver never reached %s" % k,
                                     detail="the generated reload histories did not exercise a branch the property names"))
    return c.finish(
        rule="health driver: real health.Monitor (tcp and http) against a scripted backend (accept / refuse / dial or answer "
             "timeout / http status), interval 40 ms, timeout 100 ms (a case whose callbacks look wrong is re-run once with 300/500 ms before it is reported); quick: directed sequences (incl. the F-C19 witness) plus "
             "sampled sequences of length 3..7 for maxFailed in {<=0, 1..4}; thorough: every sequence of length 7 over "
             "{ok, refuse, timeout, non-2xx} for maxFailed 1..4 and both kinds; per probe the callbacks invoked are compared "
             "with Model.Health.hm_run and with the specification monitor. distinct = distinct (kind, maxFailed, sequence); "
             "non-trivial = at least one callback fired. reconcile driver: real proxy.Manager with its Wrapper goroutines and a "
             "recording MessageTransporter; histories of UpdateAll (fresh objects; add, remove, change one field found by "
             "reflection over the five general-tcp proxy config types, reorder, duplicate names, identical reload), scripted "
             "StartProxy replies (ok, server error, Run() error via an uncreatable plugin, for absent names, for wrappers not "
             "waiting), health callbacks, work connections, expiry of waitResponseTimeout / startErrTimeout, Manager.Close; "
             "statusCheckInterval = 1 h and every live checkWorker woken twice per step through its notification channel; "
             "compared per step: set of NewProxy/CloseProxy messages, call result, status rows (name, wrapper identity, phase, "
             "Err set, configuration object). non-trivial = at least one message observed",
        assumptions=["probe outcome, clock and the result of proxy.Run()/visitor.Run() are operation arguments (oracles)",
                     "failedTimes is a uint64 in Go and an unbounded Z in the model (2^63 consecutive failures are out of reach)"])
