import json
import os
import re

from vlib import Check, V, WORK, sh

PID = "C04"

MANIFEST = dict(
    text="Machine-checked theorems (Coq 8.16.1) over an executable model of frps' credential checks (token key = H(token, ts) "
         "with constant-time compare, additional scopes, OIDC consumer with its shared subject list, always-pass verifier) and of "
         "the connection handler around them (first message on network / internal listener, later messages on a session, close, "
         "heartbeat sweep) as a step function; proved for all event histories: every session was admitted on a verified login "
         "or on the internal listener with the flag, the network cannot select the bypass, pings / work connections without the "
         "credential are refused when their scope is on, unknown run ids are refused, anything refused leaves the whole state "
         "unchanged and can be erased from a history, other sessions are untouched, proxies exist only on live sessions. The model "
         "is tied to the code by a differential run of a real in-process frps (real go-oidc verifier against a fake issuer) with "
         "scripted peers; reply class and the session table / pools / proxy table / OIDC subject list are compared after every step.",
    note="Trusted: Coq kernel+VM; harness transcription; MD5 preimage resistance and go-oidc signature checking (oracles H and oidc). "
         "'Proved knowledge of the credential' = presented md5(token||ts); replay of an old pair is not excluded (DESIGN 4a). "
         "The NewWorkConn plugin chain is an oracle whose OUTPUT is what gets verified (scripted http plugin in the driver); Login/Ping/NewProxy hooks are the identity (C15). Only observed, not proved: behaviour on websocket/tls/kcp/quic listeners, "
         "connection closure after a refusal, liveness of the victim session after a barrage; golang.org/x/crypto/ssh's server-side "
         "user authentication (none succeeds iff NoClientAuth, publickey iff callback accepts) is modelled, not verified.",
    technique="Coq proof (invariant by induction over fold_left step) + translator unit t4auth (token.go Verify*, ConstantTimeEqString, RegisterControl -> gen/GenAuth.v, reflective shape theorems) + differential correspondence via vm_compute + trace monitors",
    design="4/C04")


def q(tier, quick, thorough):
    return quick if tier == "quick" else thorough


# model branches the property names: the run must reach each of them, otherwise the correspondence says nothing about it
REQUIRED = ["NLOGINOK", "NLOGINREFUSED", "NWORKPOOLED", "NWORKSILENT", "NWORKAUTHREFUSED", "NPONG", "NPONGERR", "NPROXYOK",
            "NOTHERFIRST", "NINTERNALPASS", "NNETWORKCLAIM",
            # round 2: a once-valid OIDC token replayed after expiry and refused; NewWorkConn plugin rewrites the
            # credential to an invalid one (refused) / to a valid one (pooled) / rejects
            "NOIDCEXPIREDREFUSED", "NPLUGREWRITEREFUSED", "NPLUGREWRITEPOOLED", "NPLUGREJECT",
            # round 4: frps with an EMPTY auth.token still checks keys against md5("" ++ ts)
            "NEMPTYTOKENREFUSED",
            # round 6: Login plugin chain: credential replaced by an invalid one (refused) / by a valid one or user rewritten (session),
            # reject, reject on the internal listener with the always-pass flag
            "NLOGINPLUGBADKEY", "NLOGINPLUGOK", "NLOGINPLUGREJECT", "NINTERNALPASSPLUGREJECT"]


SSH_REQUIRED = ["NSSHATTACKREFUSED", "NSSHSESSIONKEY", "NSSHSESSIONTOKEN", "NSSHREFUSEDSSH", "NSSHREFUSEDLOGIN",
                # round 6: gateway sessions with a Login server plugin configured (reject honoured, rewritten user adopted)
                "NSSHPLUGINREFUSED", "NSSHPLUGINUSER"]
INI_REQUIRED = ["NINICASES", "NINIUNACCEPTABLEREFUSED", "NINIWAIVEDACCEPTED"]


def overlay_build(c: Check):
    """Rebuilds work/h_c04 with `go build -overlay`: golang.org/x/crypto/ssh/client_auth.go is replaced (at build time only,
    client side only, nothing on disk is modified) by a copy whose authentication loop starts with the first configured
    method instead of "none" when ClientConfig.ClientVersion starts with SSH-2.0-skipnone — the peer of the sshgw driver
    that goes straight to publickey (paramiko / libssh2 behaviour), which x/crypto's client API cannot express."""
    mod = os.path.join(WORK, "harness.mod")
    hdir = os.path.join(V, "harness")
    rc, out, _ = sh(["go", "list", "-modfile=" + mod, "-m", "-f", "{{.Dir}}", "golang.org/x/crypto"], cwd=hdir, timeout=120)
    d = out.strip().split("\n")[-1] if rc == 0 else ""
    src = os.path.join(d, "ssh", "client_auth.go")
    if rc != 0 or not os.path.exists(src):
        return "cannot locate golang.org/x/crypto: " + out[-300:]
    txt = open(src).read()
    anchor = "\tfor auth := AuthMethod(new(noneAuth)); auth != nil; {\n"
    if txt.count(anchor) != 1:
        return "x/crypto/ssh client_auth.go: authentication loop not found (library changed?)"
    txt = txt.replace(anchor, "\tfirstAuth := AuthMethod(new(noneAuth))\n"
                              "\tif strings.HasPrefix(config.ClientVersion, \"SSH-2.0-skipnone\") && len(config.Auth) > 0 {\n"
                              "\t\tfirstAuth = config.Auth[0]\n\t}\n"
                              "\tfor auth := firstAuth; auth != nil; {\n")
    if not re.search(r'^\s*"strings"$', txt, re.M):
        txt = txt.replace('import (\n', 'import (\n\t"strings"\n', 1)
    patched = os.path.join(c.wd, "client_auth_skipnone.go")
    open(patched, "w").write(txt)
    ov = os.path.join(c.wd, "overlay.json")
    json.dump({"Replace": {src: patched}}, open(ov, "w"))
    rc, out, _ = sh(["go", "build", "-modfile=" + mod, "-tags", "verif", "-overlay", ov, "-o", os.path.join(WORK, "h_c04"), "./cmd/c04"],
                    cwd=hdir, timeout=900)
    c.log.write(out)
    return None if rc == 0 else "go build -overlay failed: " + out[-600:]


def recipe(c: Check):
    c.build(["Properties/C04.vo", "Corr/C04.vo"], harness=["c04"], units=["t4auth"])
    c.obligations("C04")
    if c.harness_ok:
        err = overlay_build(c)
        if err:
            c.broken.append(dict(kind="harness-build", name="overlay build of harness c04 (ssh client that skips the none probe)", detail=err))
            c.harness_ok = False
    ist = c.run_driver("ini", 96, shards=2)
    if ist is not None:
        counters = c.cov.get("coq_counters", {}).get("ini", {})
        for k in INI_REQUIRED:
            if counters.get(k, 0) <= 0 and not c.broken:
                c.broken.append(dict(kind="coverage", name="driver ini never reached %s" % k,
                                     detail="counter %s = %s" % (k, counters.get(k))))
    sst = c.run_driver("sshgw", 57, shards=2)
    if sst is not None:
        counters = c.cov.get("coq_counters", {}).get("sshgw", {})
        for k in SSH_REQUIRED:
            if counters.get(k, 0) <= 0 and not c.broken:
                c.broken.append(dict(kind="coverage", name="driver sshgw never reached %s" % k,
                                     detail="counter %s = %s" % (k, counters.get(k))))
    st = c.run_driver("auth", q(c.tier, 200, 4000), shards=q(c.tier, 8, 16))
    if st is not None:
        counters = c.cov.get("coq_counters", {}).get("auth", {})
        for k in REQUIRED:
            if counters.get(k, 0) <= 0 and not c.broken:
                c.broken.append(dict(kind="coverage", name="driver auth never reached %s" % k,
                                     detail="counter %s = %s" % (k, counters.get(k))))
    return c.finish(
        rule="ini driver: 96 combinations of the authentication keys of a legacy frps.ini and the equivalent toml through the real "
             "config.LoadServerConfig (each key must arrive in the v1 field of the same meaning); for oidc a frps started from the ini-loaded "
             "configuration is presented valid / expired / other-issuer / other-audience / foreign-key tokens under every combination of "
             "oidc_audience, oidc_skip_expiry_check, oidc_skip_issuer_check and compared with au_oidc_policy_verify. sshgw driver (+12 cases "
             "with a Login server plugin configured: same / reject / rewrites user): fresh in-process frps with sshTunnelGateway per case, one golang.org/x/crypto/ssh connection each over "
             "authorized_keys {not configured, configured, unreadable} x client {none only, stock with unknown key, stock with authorised key, "
             "straight-to-publickey (no none probe; build-time overlay of x/crypto client_auth.go) with unknown key, ... with authorised key} x "
             "--token {right, wrong, absent}; compared with Model/SshGate.v: handshake accepted, session, proxy, always-pass flag, table size. "
             "auth driver: one fresh in-process frps per case (token or OIDC with the real go-oidc verifier against a fake issuer; every "
             "subset of {HeartBeats, NewWorkConns} plus a list with duplicates), 8-60 steps: Login / NewWorkConn / NewVisitorConn / 13 other "
             "message types as FIRST message on a network or internal (net.Pipe, HandleListener(l,true)) connection, Ping / NewProxy / "
             "CloseProxy / 8 unhandled types as LATER message, close; keys right / wrong / other timestamp / empty / other token / "
             "truncated / extended / one hex digit flipped / upper-case / the token itself; OIDC tokens valid (3 subjects), expired, foreign "
             "key, foreign issuer, alg none, spliced signature, garbage; client_spec.always_auth_pass from both listeners; run ids empty / "
             "fresh / live (takeover) / ended / unknown / near miss. Every 10th case: one victim session, 40 refused attempts, then proof "
             "of life. Compared after every step: reply class (error text class, silent close), run id, session table (run id, pool "
             "length, proxies, step of last liveness refresh, always-pass), proxy table, OIDC subject list. distinct = distinct case text; "
             "non-trivial = at least one accepted and one refused step",
        assumptions=["H (md5 of token++decimal timestamp) and oidc (go-oidc Verify) are oracles: Section variables in the theorems, tables "
                     "computed by the harness's own md5 / known by construction of the JWTs in the correspondence",
                     "the NewWorkConn plugin chain is an oracle (its outcome is observed/scripted; C15 owns the chain); Login/Ping/NewProxy hooks are the identity",
                     "replay of an old (timestamp, key) pair is not excluded by the property (DESIGN 4a)"])
