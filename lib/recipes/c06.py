from vlib import Check

PID = "C06"
GROUP_KEY = "server/group/http.go:HTTPGroup.Register-route-without-registration-id"

MANIFEST = dict(
    text="Machine-checked theorems (Coq 8.16.1) over an executable model of pkg/util/vhost/router.go (per-domain, per-user slices "
         "re-sorted descending by location, first HasPrefix hit), of the getVhost/getListener walk (exact host, wildcard walk, '*', "
         "at each step the request's user then ''), of CanonicalHost/SplitHostPort and of the HTTP layer with its backend connection "
         "pool (pool key incl. registration id, idle reuse before dial, in-flight connections across Register/UnRegister). Central "
         "theorem: for ALL histories get_vhost (run hist) = best_match (abs (run hist)) against a mechanism-free specification, with one "
         "corollary per clause of the property text; at the HTTP layer every request of every history reaches exactly the owner of "
         "the current most specific route, whatever the Transport reuses. The model is tied to the code on every run by differential "
         "drivers on the real Routers, HTTPReverseProxy, HTTPSMuxer, HTTPConnectTCPMuxer and ServeHTTP with labelled backends.",
    note="Trusted: Coq kernel+VM; harness transcription. Observed, not proved: net/http request parsing, crypto/tls ClientHello parsing, "
         "http.Transport's pool (its reuse decisions enter the model as an oracle), h2c framing, non-ASCII host names (model lower-cases "
         "ASCII only). One clause is REFUTED on the faithful model and replayed on the code (recorded finding, design/C06.md section 7): routes "
         "registered through server/group/http.go get no registration id, so a re-joined member is served by the former member's backend; the "
         "_partial theorems exclude exactly the group operations (hq_plain_op). F-C06d (route looked up for the pool key and again for the dial) "
         "was repaired in 4027c37; overtaken requests (HBeginRaced) are covered by full-strength theorems and a gated replay.",
    technique="Coq proof (invariant + refinement to a minimal spec, all histories) + differential correspondence via vm_compute + spec-only monitor on implementation traces",
    design="4/C06")


def q(tier, quick, thorough):
    return quick if tier == "quick" else thorough


def need(c, driver, counters, names):
    """sanity: the branches the property names must have been reached by the generated cases"""
    for n in names:
        if counters.get(n, 0) <= 0:
            c.broken.append(dict(kind="coverage", name="driver %s never reached branch %s" % (driver, n),
                                 detail="counter %s = %s" % (n, counters.get(n))))


def run_timing_tolerant(c, name, n, **kw):
    """router_http/group observe whether http.Transport reused an idle backend connection.  When a
    connection is put back a few milliseconds late the observed choice can differ from the one the
    model allows (reason code ..1) although nothing is wrong; such a run is repeated on the same seed
    (up to 2 more times) and reported only if it reproduces.  Every other reason code is reported at once."""
    for attempt in range(3):
        before = len(c.failures)
        nb = len(c.broken)
        st = c.run_driver(name, n, **kw)
        new = c.failures[before:]
        timing = [f for f in new if f.get("code") is not None and f["code"] % 10 == 1]
        if not new or len(timing) != len(new) or attempt == 2:
            return st
        c.notes.append("driver %s: %d observation(s) of a Transport choice the model does not allow (timing); re-run %d" % (name, len(new), attempt + 1))
        del c.failures[before:]
        del c.broken[nb:]
    return st


def recipe(c: Check):
    c.build(["Properties/C06.vo", "Corr/C06.vo"], harness=["c06"], units=["c06route"])
    c.obligations("C06")
    st = c.run_driver("router", q(c.tier, 480, 6000), shards=q(c.tier, 8, 16))
    if st:
        need(c, "router", c.cov.get("coq_counters", {}).get("router", {}),
             ["NCONFLICT", "NREFUSED", "NEXACT", "NWILDCARD", "NCATCHALL", "NUSERSPECIFIC", "NUSERFALLBACK", "NLONGLOC", "NDEEPWILD", "NDROPPED"])
    # goroutines released at the same instant register the same triple on the real Routers: some
    # sequential order of the calls must explain the answers (C06_concurrent_registrations_linearizable)
    st = c.run_driver("add_race", q(c.tier, 400, 6000), shards=q(c.tier, 2, 8), timeout=900)
    if st:
        need(c, "add_race", c.cov.get("coq_counters", {}).get("add_race", {}), ["NRACEREFUSED"])
        c.cov["add_race_rounds"] = st.get("rounds_run")
    st = run_timing_tolerant(c, "router_http", q(c.tier, 150, 1500), shards=q(c.tier, 8, 16), timeout=1500)
    if st:
        need(c, "router_http", c.cov.get("coq_counters", {}).get("router_http", {}),
             ["NREUSED", "NNOTFOUND", "NH2C", "NSTALE", "NCONNECT", "NDEEPHOST", "NKEYHOST"])
    st = c.run_driver("shared_port", q(c.tier, 20, 300), shards=q(c.tier, 4, 8), timeout=900)
    if st:
        need(c, "shared_port", c.cov.get("coq_counters", {}).get("shared_port", {}), ["NSYSREFUSED", "NSYSEXACT", "NSYSWILDCARD"])
    # routes registered through server/group/http.go: the model reproduces a genuine defect
    # (theorem C06_group_reregistered_route_reaches_old_owner_refuted); the driver replays the witness
    # on the real code.  M compares model and implementation only; NGROUPVIOL counts histories on which
    # the implementation violates the property.
    st = run_timing_tolerant(c, "group", q(c.tier, 60, 600), shards=q(c.tier, 4, 8), timeout=900)
    if st:
        nv = c.cov.get("coq_counters", {}).get("group", {}).get("NGROUPVIOL", 0)
        c.cov["group_route_finding_reproduced"] = nv
        if nv > 0:
            # recorded in KNOWN_FINDINGS.txt under exactly this key: vlib prints KNOWN-FINDING
            c.failures.append(dict(key=GROUP_KEY, driver="group", case=st.get("witness_case"),
                                   what="a route re-registered through a load-balancing group reaches the former member's backend over a reused connection"))
    # requests overtaken by a Register between routing and dial, replayed with a gate in front of
    # DialContext (F-C06d, repaired by 4027c37: the histories must agree with the model and the spec)
    st = c.run_driver("window", q(c.tier, 1, 20000), shards=1, timeout=300)
    if st:
        need(c, "window", c.cov.get("coq_counters", {}).get("window", {}), ["NRACED"])
        c.cov["window_gated_replay"] = st.get("gated_replay")
        c.cov["window_cross_wire_replay"] = st.get("cross_wire_replay")
    return c.finish(
        rule="router driver: random histories (8-30 ops) of Add/Del/Get over an adversarial alphabet (shared suffixes, nested wildcards, "
             "'*', mixed case, locations ''//a//ab//a/b, users) on real vhost.Routers + HTTPReverseProxy.Register/UnRegister/GetRouteConfig, "
             "and on real HTTPSMuxer / HTTPConnectTCPMuxer over loopback (which Listener accepts a ClientHello / CONNECT, or 404 / failed "
             "handshake); CanonicalHost on adversarial strings. router_http driver: real HTTPReverseProxy.ServeHTTP behind a listener, "
             "labelled blocking backends, keep-alive and h2c client connections, register/unregister/re-register between and during "
             "requests; observable = which backend received the request. shared_port driver: in-process frps with vhost HTTP/HTTPS port = bind "
             "port and a tcpmux port, a real in-process frpc with http/https/tcpmux proxies and labelled local backends; requests, ClientHellos "
             "and CONNECTs while the control session lives on the same port. group driver: single-member load-balancing groups joining/leaving "
             "(server/group/http.go) around requests. Every observation is compared with the model (Model/Router.v, "
             "Model/HttpPool.v) and, separately, with the specification alone (C06_holds). distinct = distinct case text; non-trivial = "
             "history with >= 3 operations / non-fixed host string",
        assumptions=["http.Transport's connection reuse is an oracle (observed per request: was CreateConnFn called); the theorems quantify over all its choices",
                     "net/http and crypto/tls parsing of Host / request line / SNI are exercised by the drivers, not modelled",
                     "host names are ASCII (the model's lower-casing is ASCII-only; Go's strings.ToLower also maps non-ASCII letters)"])
