package main

// Driver "release" (C10): one fresh in-process frps per scenario.  Scenario = proxy kind x termination
// path: a bystander is registered, the subject proxy is registered and terminated (CloseProxy, connection
// drop after / before the reply, replacement by re-login, heartbeat timeout, or a registration that fails
// half way), the identical subject is registered again, the bystander is checked and everything is torn
// down.  Every operation is a step of Model/SrvRes.v; after every step the server's tables and a bind
// scan of the allowed port range are recorded.  Implementation-level checks (work connections closed,
// ports free, bystander alive, re-registration accepted) are evaluated here.

import (
	"fmt"
	"net"
	"sort"
	"strings"
	"sync"
	"sync/atomic"
	"time"

	"github.com/fatedier/frp/pkg/config/types"
	"github.com/fatedier/frp/pkg/msg"
	"github.com/fatedier/frp/pkg/util/verifhook"

	"verifharness/hx"
)

func init() { drivers["release"] = runRelease }

var kinds = []string{"tcp", "udp", "http", "https", "tcpmux", "stcp", "sudp", "xtcp", "tcpgrp", "httpgrp", "muxgrp"}

const pOut = basePort + 50 // outside the allowed range

type scen struct {
	kind   string
	path   string
	own    bool // the subject runs in a session of its own
	grpBy  bool // a bystander member of the subject's group in session 1
	bw     bool // bandwidthLimit 1MB, mode server
	serve  bool // serve one work connection to the subject (http, udp) and check it is closed afterwards
	pool   int  // pooled work connections offered in the subject's session
	port0  bool // remotePort 0
	extras int  // further proxies in the subject's session
	locs   int  // http: number of locations
	user   bool // routeByHTTPUser set
	sub    bool // a subdomain in addition to the custom domains
	rnd    bool
	name   string // the subject's proxy name (an arbitrary string: blanks, case, non-ASCII)
	nb     bool   // a neighbour of the subject on the same domain, differing only by routeByHTTPUser (http, tcpmux)
}

func (s scen) label() string { return s.kind + ":" + s.path }

// subject names: the property quantifies over proxy names as arbitrary strings
var subjNames = []string{"subj", "Web ", " lead", "WEB", "we b", "w\u00e9b", "subj.x", "Subj"}

func (s scen) subjName() string {
	if s.name == "" {
		return "subj"
	}
	return s.name
}

func baseKind(kind string) string {
	switch kind {
	case "tcpgrp":
		return "tcp"
	case "httpgrp":
		return "http"
	case "muxgrp":
		return "tcpmux"
	}
	return kind
}

func isGrp(kind string) bool { return strings.HasSuffix(kind, "grp") }

func endsSession(path string) bool {
	return path == "drop" || path == "dropearly" || path == "dropinflight" || path == "dropclogged" || path == "replace" || path == "heartbeat"
}

func needsPort(kind string) bool { return kind == "tcp" || kind == "udp" || kind == "tcpgrp" }

// subjectReq: the subject proxy "subj" of a scenario; port = its explicit remote port (tcp, udp, tcp group)
func subjectReq(sc scen, port int) preq {
	q := preq{name: sc.subjName(), kind: baseKind(sc.kind), bw: sc.bw}
	locs := [][]string{nil, {"/x"}, {"/x", "/y"}}[sc.locs%3]
	switch sc.kind {
	case "tcp", "udp":
		q.port = port
	case "http":
		q.domains = []string{"s1.test", "s2.test"}
		q.locs = locs
		if sc.user {
			q.user = "u1"
		}
		if sc.sub {
			q.sub = "sub"
		}
	case "https":
		q.domains = []string{"s1.test", "s2.test"}
		if sc.sub {
			q.sub = "sub"
		}
	case "tcpmux":
		q.domains = []string{"s1.test", "s2.test"}
		if sc.user {
			q.user = "u1"
		}
		if sc.sub {
			q.sub = "sub"
		}
	case "tcpgrp":
		q.group, q.gkey, q.port = "g1", "k1", port
	case "httpgrp":
		q.group, q.gkey, q.domains = "g1", "k1", []string{"g.test"}
		if sc.locs%3 != 0 {
			q.locs = []string{"/x"}
		}
		if sc.user {
			q.user = "u1"
		}
	case "muxgrp":
		q.group, q.gkey, q.domains = "g1", "k1", []string{"g.test"}
		if sc.user {
			q.user = "u1"
		}
	}
	return q
}

func extraReq(w *world, i int, kind string) preq {
	n := fmt.Sprintf("x%d", i)
	q := preq{name: n, kind: kind}
	switch kind {
	case "tcp":
		q.port = w.pick()
	case "http", "https", "tcpmux":
		q.domains = []string{n + ".test"}
	}
	return q
}

type gate struct {
	hits    int32
	reached chan struct{}
	release chan struct{}
}

func installGate(at, key string) *gate {
	g := &gate{reached: make(chan struct{}), release: make(chan struct{})}
	verifhook.Install(func(point, k string) {
		if point != at || k != key {
			return
		}
		if atomic.AddInt32(&g.hits, 1) == 1 {
			close(g.reached)
			<-g.release
		}
	})
	return g
}

// runScen drives one scenario on w.
func runScen(w *world, g *hx.Gen, sc scen) {
	proto := "tcp"
	subjName := sc.subjName()
	mustOK := func(code int, key string) bool {
		if w.broken {
			return false
		}
		if code < 0 {
			w.fail(key, fmt.Sprintf("a registration that must succeed was refused (code %d)", code))
			return false
		}
		return true
	}
	expect := func(code, want int) {
		if !w.broken && code != want {
			w.rec.count(fmt.Sprintf("unexpected:%s:got%d:want%d", sc.label(), code, want))
		}
	}

	// ---------- setup: session 1 with the bystander(s) ----------
	s1 := w.login()
	if w.broken {
		return
	}
	by := preq{kind: "tcp", name: "by", port: w.pick()}
	if !mustOK(w.newProxy(s1, by, npOpts{}), "setup-refused:"+sc.label()) {
		return
	}
	sport := 0
	if needsPort(sc.kind) && !sc.port0 {
		sport = w.pick()
	}
	subj := subjectReq(sc, sport)
	if subj.kind == "udp" {
		proto = "udp"
	}
	if sc.nb && (sc.kind == "http" || sc.kind == "tcpmux") {
		// same domain (and locations) as the subject's first route, another routeByHTTPUser: its route must
		// survive whatever happens to the subject
		nb := preq{kind: sc.kind, name: "nb", domains: []string{subj.domains[0]}, locs: subj.locs, user: "nbuser"}
		if !mustOK(w.newProxy(s1, nb, npOpts{}), "setup-refused:"+sc.label()) {
			return
		}
	}
	if sc.grpBy && isGrp(sc.kind) {
		gby := subj
		gby.name = "gby"
		gby.bw = false
		if !mustOK(w.newProxy(s1, gby, npOpts{}), "setup-refused:"+sc.label()) {
			return
		}
	}
	var served []net.Conn
	checkServed := func(how string) {
		for _, wc := range served {
			lim := "nolimit"
			if sc.bw {
				lim = "limit"
			}
			if !hx.ConnClosedWithin(wc, 2*time.Second) {
				w.fail("workconn-not-closed:"+sc.kind+":"+lim, "the work connection a "+sc.kind+" proxy was using is still open 2 s after the proxy terminated ("+how+")")
			}
			wc.Close()
		}
		served = nil
	}
	checkPortFree := func(q preq, port int) {
		if !q.hasPort() || port <= 0 || (q.group != "" && sc.grpBy) {
			return
		}
		if len(osBusy(proto, w.addr, []int{port})) > 0 {
			time.Sleep(30 * time.Millisecond)
			if len(osBusy(proto, w.addr, []int{port})) > 0 {
				w.fail("port-still-bound:"+sc.label(), fmt.Sprintf("%s port %d of a terminated proxy cannot be bound", proto, port))
			}
		}
		if proto == "tcp" && hx.TCPBound(w.addr, port) {
			w.fail("port-still-bound:"+sc.label(), fmt.Sprintf("tcp port %d of a terminated proxy still accepts connections", port))
		}
	}
	serve := func(c int, q preq) {
		if !sc.serve || w.broken {
			return
		}
		switch sc.kind {
		case "http":
			path := ""
			if len(q.locs) > 0 {
				path = q.locs[0] + "/index"
			}
			if q.user != "" {
				return // routing by user needs credentials; not part of this check
			}
			wc, ok := w.serveHTTP(c, q.domains[0], path, q.name)
			if !ok {
				w.fail("http-request-not-served:"+sc.label(), "a request to the subject's domain was not forwarded over an offered work connection")
				return
			}
			served = append(served, wc)
			w.rec.count("served:http")
		case "udp":
			wc, why := w.serveUDP(c, q.name)
			if wc == nil {
				w.fail("udp-workconn-not-requested:"+sc.label(), "the udp proxy did not take the offered work connection: "+why)
				return
			}
			served = append(served, wc)
			w.rec.count("served:udp")
		}
	}

	iBase := w.last() // observation i: before the subject's session exists
	s2 := s1
	iLogin := -1
	if sc.own || endsSession(sc.path) {
		w.smallRcvNext = sc.path == "dropclogged"
		s2 = w.login()
		iLogin = w.last()
		if w.broken {
			return
		}
	}
	for i := 1; i <= sc.extras; i++ {
		xk := []string{"tcp", "http", "https", "tcpmux", "stcp", "sudp", "xtcp"}[g.Intn(7)]
		if len(w.allow) < 6 && xk == "tcp" {
			xk = "stcp"
		}
		if !mustOK(w.newProxy(s2, extraReq(w, i, xk), npOpts{}), "setup-refused:"+sc.label()) {
			return
		}
	}
	subjSess := s2
	finalReq := subj // the request that is registered at the end of the case

	switch sc.path {
	// ---------- termination paths of a registered subject ----------
	case "close":
		iPre := w.last()
		code := w.newProxy(s2, subj, npOpts{})
		if !mustOK(code, "subject-refused:"+sc.label()) {
			return
		}
		serve(s2, subj)
		if sc.kind == "https" && runTier == "thorough" {
			// thorough tier: a burst of user connections races the CloseProxy with no gate; whichever side of the
			// close each one lands on, none may stay open once userConnTimeout (2 s) has passed
			burst := w.helloBurst(subj.domains[0], 150)
			w.closeProxy(s2, subjName)
			w.pair(iPre, w.last())
			open := 0
			deadline := time.Now().Add(3500 * time.Millisecond)
			for _, uc := range burst {
				left := time.Until(deadline)
				if left < 10*time.Millisecond {
					left = 10 * time.Millisecond
				}
				if !hx.ConnClosedWithin(uc, left) {
					open++
				}
				uc.Close()
			}
			if open > 0 {
				w.fail("user-conn-open-after-proxy-close:https", fmt.Sprintf("%d of %d user connections that raced the close of an https proxy are still open 3.5 s later", open, len(burst)))
			}
			if w.broken {
				return
			}
			if !mustOK(w.newProxy(s2, subj, npOpts{}), "reregister-refused:"+sc.label()) {
				return
			}
			break
		}
		if sc.kind == "https" {
			// a user connection has been routed to the subject's listener and is about to be handed over (held at
			// vhost.mux.before_handoff) when the proxy closes: it must be closed, not left waiting for ever
			if uc := w.userConnAtHandoff(subj.domains[0]); uc != nil {
				defer func(uc net.Conn) {
					if !hx.ConnClosedWithin(uc, 2*time.Second) {
						w.fail("user-conn-open-after-proxy-close:https", "a user connection that was being handed to an https proxy when it closed is still open 2 s later")
					}
					uc.Close()
				}(uc)
				w.closeProxy(s2, subjName)
				verifhook.Install(nil)
				w.releaseHandoff()
				w.pair(iPre, w.last())
				if w.broken {
					return
				}
				if !mustOK(w.newProxy(s2, subj, npOpts{}), "reregister-refused:"+sc.label()) {
					return
				}
				break
			}
		}
		if sc.kind == "xtcp" {
			// a visitor's hole-punching request is in flight: the proxy's goroutine has taken the session id and
			// waits for a work connection of its owner (nobody answers).  Close must unregister the NAT-hole
			// client at once all the same.
			w.visitorInFlight(s1, subjName)
		}
		w.closeProxy(s2, subjName)
		w.pair(iPre, w.last())
		checkServed("CloseProxy")
		checkPortFree(subj, code)
		if w.broken {
			return
		}
		if !mustOK(w.newProxy(s2, subj, npOpts{}), "reregister-refused:"+sc.label()) {
			return
		}
	case "dropclogged":
		// the peer has sent heartbeats without reading the answers until the server's send queue is full and
		// its read loop is blocked in Send; then the connection drops.  The dispatcher must still finish
		// (the send loop keeps draining), so that the teardown runs.
		code := w.newProxy(s2, subj, npOpts{})
		if !mustOK(code, "subject-refused:"+sc.label()) {
			return
		}
		if !w.clog(s2) {
			w.rec.count("clog-not-reached")
		}
		w.end(s2, "CDrop")
		w.pair(iBase, w.last())
		checkPortFree(subj, code)
		subjSess = w.login()
		if w.broken {
			return
		}
		if !mustOK(w.newProxy(subjSess, subj, npOpts{}), "reregister-refused:"+sc.label()) {
			return
		}
	case "drop", "heartbeat", "replace":
		code := w.newProxy(s2, subj, npOpts{})
		if !mustOK(code, "subject-refused:"+sc.label()) {
			return
		}
		serve(s2, subj)
		for i := 0; i < sc.pool; i++ {
			w.offerPooled(s2)
		}
		if w.broken {
			return
		}
		switch sc.path {
		case "drop":
			w.end(s2, "CDrop")
			w.pair(iBase, w.last())
			subjSess = w.login()
		case "heartbeat":
			w.end(s2, "CHeartbeat")
			w.pair(iBase, w.last())
			subjSess = w.login()
		case "replace":
			subjSess = w.replace(s2)
			w.pair(iLogin, w.last())
		}
		checkServed(sc.path)
		checkPortFree(subj, code)
		if w.broken {
			return
		}
		if !mustOK(w.newProxy(subjSess, subj, npOpts{}), "reregister-refused:"+sc.label()) {
			return
		}
	case "dropearly":
		for i := 0; i < sc.pool; i++ {
			w.offerPooled(s2)
		}
		if w.broken {
			return
		}
		w.dropEarly(s2, subj)
		w.pair(iBase, w.last())
		checkPortFree(subj, subj.port)
		subjSess = w.login()
		if w.broken {
			return
		}
		if !mustOK(w.newProxy(subjSess, subj, npOpts{}), "reregister-refused:"+sc.label()) {
			return
		}

	// ---------- registrations that fail, then the corrected one ----------
	case "f:exists":
		rival := preq{kind: "tcp", name: subjName, port: w.pick()}
		if !mustOK(w.newProxy(s1, rival, npOpts{}), "setup-refused:"+sc.label()) {
			return
		}
		iPre := w.last()
		expect(w.newProxy(s2, subj, npOpts{}), -11)
		w.pair(iPre, w.last())
		w.closeProxy(s1, subjName)
		if !mustOK(w.newProxy(s2, subj, npOpts{}), "reregister-refused:"+sc.label()) {
			return
		}
	case "f:used":
		bad := subj
		if subj.kind == "udp" {
			by2 := preq{kind: "udp", name: "by2", port: w.pick()}
			if !mustOK(w.newProxy(s1, by2, npOpts{}), "setup-refused:"+sc.label()) {
				return
			}
			bad.port = by2.port
		} else {
			bad.port = by.port
		}
		iPre := w.last()
		expect(w.newProxy(s2, bad, npOpts{}), -1)
		w.pair(iPre, w.last())
		if !mustOK(w.newProxy(s2, finalReq, npOpts{}), "reregister-refused:"+sc.label()) {
			return
		}
	case "f:notallowed":
		bad := subj
		bad.port = pOut
		iPre := w.last()
		expect(w.newProxy(s2, bad, npOpts{}), -2)
		w.pair(iPre, w.last())
		if !mustOK(w.newProxy(s2, finalReq, npOpts{}), "reregister-refused:"+sc.label()) {
			return
		}
	case "f:squat":
		bad := subj
		if bad.port == 0 {
			bad.port = w.pick()
		}
		finalReq = bad
		if !w.squat(proto, bad.port) {
			return
		}
		iPre := w.last()
		expect(w.newProxy(s2, bad, npOpts{}), -3)
		w.pair(iPre, w.last())
		w.unsquat(proto, bad.port)
		if !mustOK(w.newProxy(s2, finalReq, npOpts{}), "reregister-refused:"+sc.label()) {
			return
		}
	case "f:noavail":
		// the allowed range of this case has two ports; every free one is taken by the squatter
		bad := subj
		bad.port = 0
		finalReq = bad
		used := usedPorts(w.rc.TCPPortManager)
		if proto == "udp" {
			used = usedPorts(w.rc.UDPPortManager)
		}
		sq := minus(w.allow, used)
		for _, p := range sq {
			if !w.squat(proto, p) {
				return
			}
		}
		iPre := w.last()
		expect(w.newProxy(s2, bad, npOpts{}), -4)
		w.pair(iPre, w.last())
		w.unsquat(proto, sq[len(sq)-1])
		if !mustOK(w.newProxy(s2, finalReq, npOpts{}), "reregister-refused:"+sc.label()) {
			return
		}
	case "f:listen":
		iPre := w.last()
		expect(w.newProxy(s2, subj, npOpts{listenFail: true}), -5)
		w.pair(iPre, w.last())
		if subj.port > 0 {
			checkPortFree(subj, subj.port)
		}
		if !mustOK(w.newProxy(s2, finalReq, npOpts{}), "reregister-refused:"+sc.label()) {
			return
		}
	case "f:dom2":
		// the subject's second domain belongs to a bystander: the first route is added, then rolled back
		by2 := preq{kind: subj.kind, name: "by2", domains: []string{"b2.test"}, user: subj.user}
		if len(subj.locs) > 0 {
			by2.locs = subj.locs[:1]
		}
		if !mustOK(w.newProxy(s1, by2, npOpts{}), "setup-refused:"+sc.label()) {
			return
		}
		bad := subj
		bad.domains = []string{"s1.test", "b2.test"}
		iPre := w.last()
		expect(w.newProxy(s2, bad, npOpts{}), -13)
		w.pair(iPre, w.last())
		if !mustOK(w.newProxy(s2, finalReq, npOpts{}), "reregister-refused:"+sc.label()) {
			return
		}
	case "f:loc2":
		by2 := preq{kind: "http", name: "by2", domains: []string{"s1.test"}, locs: []string{"/b"}, user: subj.user}
		if !mustOK(w.newProxy(s1, by2, npOpts{}), "setup-refused:"+sc.label()) {
			return
		}
		bad := subj
		bad.domains, bad.sub, bad.locs = []string{"s1.test"}, "", []string{"/a", "/b"}
		finalReq = bad
		finalReq.locs = []string{"/a", "/c"}
		iPre := w.last()
		expect(w.newProxy(s2, bad, npOpts{}), -13)
		w.pair(iPre, w.last())
		if !mustOK(w.newProxy(s2, finalReq, npOpts{}), "reregister-refused:"+sc.label()) {
			return
		}
	case "f:first":
		// the subject's only route belongs to a plain bystander: nothing was added before the refusal
		bad := subj
		bad.domains, bad.sub = subj.domains[:1], ""
		if len(bad.locs) > 1 {
			bad.locs = bad.locs[:1]
		}
		by2 := preq{kind: subj.kind, name: "by2", domains: bad.domains, locs: bad.locs, user: bad.user}
		if !mustOK(w.newProxy(s1, by2, npOpts{}), "setup-refused:"+sc.label()) {
			return
		}
		finalReq = bad
		finalReq.domains = []string{"s9.test"}
		iPre := w.last()
		expect(w.newProxy(s2, bad, npOpts{}), -13)
		w.pair(iPre, w.last())
		if !mustOK(w.newProxy(s2, finalReq, npOpts{}), "reregister-refused:"+sc.label()) {
			return
		}
	case "g:joinleave":
		// B (the subject) joins the group while A (gby, its only member) leaves: B's join is held between the
		// controller's lookup and the join itself (gate group.<kind>.after_lookup), A's CloseProxy is sent, 200 ms
		// pass, B goes on.  The controller keeps its lock across the join, so A's leave waits: B joins the live
		// group, A leaves it, the group lives on with B.  Then B stops: group, route / port and membership gone.
		iPre := w.last()
		s := w.peers[s2]
		gatePoint, gateKey := "group.http.after_lookup", subjName
		switch sc.kind {
		case "tcpgrp":
			gatePoint = "group.tcp.after_lookup"
		case "muxgrp":
			gatePoint, gateKey = "group.tcpmux.after_lookup", subj.group
		}
		gt := installGate(gatePoint, gateKey)
		released := false
		rel := func() {
			if !released {
				released = true
				close(gt.release)
			}
		}
		defer verifhook.Install(nil)
		defer rel()
		if err := s.p.Send(subj.toMsg()); err != nil {
			w.harnessFail("cannot send NewProxy")
			return
		}
		select {
		case <-gt.reached:
		case <-time.After(3 * time.Second):
			w.harnessFail("the gated join did not reach " + gatePoint)
			return
		}
		if err := w.peers[s1].p.CloseProxy("gby"); err != nil {
			w.harnessFail("cannot send CloseProxy")
			return
		}
		time.Sleep(200 * time.Millisecond)
		rel()
		m, err := s.p.RecvUntil(5*time.Second, func(m msg.Message) bool { _, ok := m.(*msg.NewProxyResp); return ok })
		if err != nil {
			w.harnessFail("no reply to the gated join")
			return
		}
		verifhook.Install(nil)
		codeB := respCode(subj, m.(*msg.NewProxyResp))
		if !w.sync(s) || !w.sync(w.peers[s1]) {
			w.harnessFail("ping round trip failed")
			return
		}
		if !mustOK(codeB, "subject-refused:"+sc.label()) {
			return
		}
		w.recordNew(s2, subj, codeB, m.(*msg.NewProxyResp).Error, true, noObs, "")
		w.emit(fmt.Sprintf("(SCloseProxy %d %s)", s1, hx.Str("gby")), 0, w.observe())
		w.closeProxy(s2, subjName)
		_ = iPre
		if !mustOK(w.newProxy(s2, finalReq, npOpts{}), "reregister-refused:"+sc.label()) {
			return
		}
	case "f:gkey":
		bad := subj
		bad.gkey = "wrong"
		iPre := w.last()
		expect(w.newProxy(s2, bad, npOpts{}), -8)
		w.pair(iPre, w.last())
		if !mustOK(w.newProxy(s2, finalReq, npOpts{}), "reregister-refused:"+sc.label()) {
			return
		}
	case "f:gport":
		bad := subj
		bad.port = w.pick()
		iPre := w.last()
		expect(w.newProxy(s2, bad, npOpts{}), -7)
		w.pair(iPre, w.last())
		if !mustOK(w.newProxy(s2, finalReq, npOpts{}), "reregister-refused:"+sc.label()) {
			return
		}
	case "f:gdom":
		bad := subj
		bad.domains = []string{"h.test"}
		iPre := w.last()
		expect(w.newProxy(s2, bad, npOpts{}), -6)
		w.pair(iPre, w.last())
		if !mustOK(w.newProxy(s2, finalReq, npOpts{}), "reregister-refused:"+sc.label()) {
			return
		}
	case "f:g2dom":
		// a grouped proxy with two domains: the join on the first domain is rolled back
		bad := subj
		bad.domains = []string{"g.test", "g2.test"}
		iPre := w.last()
		expect(w.newProxy(s2, bad, npOpts{}), -6)
		w.pair(iPre, w.last())
		if !mustOK(w.newProxy(s2, finalReq, npOpts{}), "reregister-refused:"+sc.label()) {
			return
		}
	case "f:grepeat":
		bad := subj
		bad.domains = []string{"g.test", "g.test"}
		iPre := w.last()
		expect(w.newProxy(s2, bad, npOpts{}), -9)
		w.pair(iPre, w.last())
		if !mustOK(w.newProxy(s2, finalReq, npOpts{}), "reregister-refused:"+sc.label()) {
			return
		}
	case "f:quota":
		// maxPortsPerClient = 2: two fillers, the subject is the third
		q1 := preq{kind: "tcp", name: "q1", port: w.pick()}
		q2 := preq{kind: "udp", name: "q2", port: w.pick()}
		if !mustOK(w.newProxy(s2, q1, npOpts{}), "setup-refused:"+sc.label()) ||
			!mustOK(w.newProxy(s2, q2, npOpts{}), "setup-refused:"+sc.label()) {
			return
		}
		iPre := w.last()
		expect(w.newProxy(s2, subj, npOpts{}), -10)
		w.pair(iPre, w.last())
		w.closeProxy(s2, "q1")
		if !mustOK(w.newProxy(s2, finalReq, npOpts{}), "reregister-refused:"+sc.label()) {
			return
		}
	case "dropinflight":
		// the control connection ends WHILE the NewProxy is being processed: the handler is held at
		// ctl.regproxy.after_exist, the connection is closed, 300 ms pass, the handler goes on.  The handler
		// runs inside the dispatcher's read loop, so the teardown can only start after the registration has
		// finished and stored its proxy: model = the registration (no reply can be read), then the session end.
		s := w.peers[s2]
		// a tcp proxy of the same session: a user connection to it after the drop makes the server SEND on the
		// dead control connection (ReqWorkConn) while the registration is still held: a write error must not
		// end the dispatcher before the handler in flight has returned
		trig := preq{kind: "tcp", name: "trig", port: w.pick()}
		if !mustOK(w.newProxy(s2, trig, npOpts{}), "setup-refused:"+sc.label()) {
			return
		}
		gt := installGate("ctl.regproxy.after_exist", subjName)
		released := false
		rel := func() {
			if !released {
				released = true
				close(gt.release)
			}
		}
		defer verifhook.Install(nil)
		defer rel()
		done := w.srv.Svc.VerifC10Done(s.runID)
		if err := s.p.Send(subj.toMsg()); err != nil {
			w.harnessFail("cannot send NewProxy")
			return
		}
		select {
		case <-gt.reached:
		case <-time.After(3 * time.Second):
			w.harnessFail("the gated registration did not reach ctl.regproxy.after_exist")
			return
		}
		s.p.Close()
		time.Sleep(50 * time.Millisecond)
		// three user connections 60 ms apart: the first write to a connection the peer has closed still succeeds
		// at the socket level, the later ones fail
		for i := 0; i < 3; i++ {
			if uc, err := net.DialTimeout("tcp", net.JoinHostPort(w.addr, fmt.Sprint(trig.port)), 300*time.Millisecond); err == nil {
				defer uc.Close()
			}
			time.Sleep(60 * time.Millisecond)
		}
		time.Sleep(200 * time.Millisecond)
		rel()
		gone := w.waitGone(s.runID, done, 3*time.Second)
		verifhook.Install(nil)
		delete(w.peers, s2)
		if !gone {
			w.fail("session-not-torn-down:"+w.label, "the session is still in the table after its connection was dropped during a registration")
		}
		time.Sleep(50 * time.Millisecond)
		w.recordNew(s2, subj, notObs, "", true, noObs, "")
		w.emit(fmt.Sprintf("(SEnd %d CDrop)", s2), notObs, w.observe())
		w.pair(iBase, w.last())
		checkPortFree(subj, subj.port)
		subjSess = w.login()
		if w.broken {
			return
		}
		if !mustOK(w.newProxy(subjSess, subj, npOpts{}), "reregister-refused:"+sc.label()) {
			return
		}

	case "f:addrace":
		// session 2's registration is held between Run and Add while session 1 takes the name
		iPre := w.last()
		s := w.peers[s2]
		gt := installGate("ctl.regproxy.after_run", subjName)
		released := false
		rel := func() {
			if !released {
				released = true
				close(gt.release)
			}
		}
		defer verifhook.Install(nil)
		defer rel()
		if err := s.p.Send(subj.toMsg()); err != nil {
			w.harnessFail("cannot send NewProxy")
			return
		}
		select {
		case <-gt.reached:
		case <-time.After(3 * time.Second):
			w.harnessFail("the gated registration did not reach ctl.regproxy.after_run")
			return
		}
		// a server-chosen port of the held registration: the manager remembers it under the proxy's name
		// (read now: session 1's proxy of the same name overwrites the memory)
		heldChoice := ""
		if subj.hasPort() && subj.port == 0 {
			if p, ok := w.reservedPort(subj); ok {
				heldChoice = fmt.Sprintf("(Some %d)", p)
			}
		}
		// the resources of the held registration exist although its name is not registered: a second
		// proxy of the same kind and name is refused by the keyed table itself (no model step: the
		// model's registration is atomic; nothing of this attempt may remain)
		if sc.kind == "stcp" || sc.kind == "sudp" || sc.kind == "xtcp" {
			twin := preq{kind: sc.kind, name: subjName}
			resp, err := w.peers[s1].p.NewProxy(twin.toMsg())
			want := -14
			if sc.kind == "xtcp" {
				want = -15
			}
			if err != nil {
				w.harnessFail("no reply to the twin registration")
				return
			}
			if got := respCode(twin, resp); got != want {
				w.fail("twin-not-refused:"+sc.kind, fmt.Sprintf("a second %s proxy of the same name was answered with code %d while the first one holds the listener", sc.kind, got))
			}
			w.rec.count(fmt.Sprintf("twin:%s:%d", sc.kind, respCode(twin, resp)))
		}
		rival := preq{kind: "tcp", name: subjName, port: w.pick()}
		resp1, err := w.peers[s1].p.NewProxy(rival.toMsg())
		if err != nil {
			w.harnessFail("no reply to the rival registration")
			return
		}
		rel()
		m, err := s.p.RecvUntil(5*time.Second, func(m msg.Message) bool { _, ok := m.(*msg.NewProxyResp); return ok })
		if err != nil {
			w.harnessFail("no reply to the gated registration")
			return
		}
		verifhook.Install(nil)
		code2 := respCode(subj, m.(*msg.NewProxyResp))
		expect(code2, -12)
		if !w.sync(s) || !w.sync(w.peers[s1]) {
			w.harnessFail("ping round trip failed")
			return
		}
		w.recordNew(s2, subj, code2, m.(*msg.NewProxyResp).Error, code2 != -12, noObs, heldChoice)
		w.recordNew(s1, rival, respCode(rival, resp1), resp1.Error, true, w.observe(), "")
		if subj.port > 0 {
			checkPortFree(subj, subj.port)
		}
		w.closeProxy(s1, subjName)
		w.pair(iPre, w.last())
		if !mustOK(w.newProxy(s2, finalReq, npOpts{}), "reregister-refused:"+sc.label()) {
			return
		}
	case "f:existrace":
		// session 2's registration is held between Exist and Run while session 1 registers the same kind and
		// name completely; session 2's Run then meets the occupied listener table (-14 / -15).  The model's
		// registration is atomic and answers EExists for this serialisation: the loser's RESULT is therefore
		// recorded as "not observed" (checked here instead), the STATE after it is compared as always: the
		// refused duplicate must leave the incumbent's listener entry alone.
		iPre := w.last()
		s := w.peers[s2]
		gt := installGate("ctl.regproxy.after_exist", subjName)
		released := false
		rel := func() {
			if !released {
				released = true
				close(gt.release)
			}
		}
		defer verifhook.Install(nil)
		defer rel()
		if err := s.p.Send(subj.toMsg()); err != nil {
			w.harnessFail("cannot send NewProxy")
			return
		}
		select {
		case <-gt.reached:
		case <-time.After(3 * time.Second):
			w.harnessFail("the gated registration did not reach ctl.regproxy.after_exist")
			return
		}
		twin := subj // same kind, name and (for a grouped http proxy) group, key and route
		twin.bw = false
		resp1, err := w.peers[s1].p.NewProxy(twin.toMsg())
		if err != nil {
			w.harnessFail("no reply to the twin registration")
			return
		}
		rel()
		m, err := s.p.RecvUntil(5*time.Second, func(m msg.Message) bool { _, ok := m.(*msg.NewProxyResp); return ok })
		if err != nil {
			w.harnessFail("no reply to the gated registration")
			return
		}
		verifhook.Install(nil)
		code2 := respCode(subj, m.(*msg.NewProxyResp))
		want := -14
		if sc.kind == "xtcp" {
			want = -15
		}
		if sc.kind == "httpgrp" {
			want = -9 // the group refuses a second member of the same name; the first one's membership must survive
		}
		expect(code2, want)
		if code2 != want && code2 != -11 {
			w.fail("existrace-loser-not-refused:"+sc.kind, fmt.Sprintf("the registration that lost the Exist/Run race was answered with code %d", code2))
		}
		if !w.sync(s) || !w.sync(w.peers[s1]) {
			w.harnessFail("ping round trip failed")
			return
		}
		w.recordNew(s1, twin, respCode(twin, resp1), resp1.Error, true, noObs, "")
		w.recordNew(s2, subj, notObs, m.(*msg.NewProxyResp).Error, true, w.observe(), "")
		w.closeProxy(s1, subjName)
		w.pair(iPre, w.last())
		if !mustOK(w.newProxy(s2, finalReq, npOpts{}), "reregister-refused:"+sc.label()) {
			return
		}
	}
	if w.broken {
		return
	}

	// ---------- the bystander still works; then everything goes ----------
	if !w.checkTCPBystander(s1, "by", by.port) {
		w.fail("bystander-dead:"+sc.kind, "a user connection to the bystander's port is no longer handed to the bystander ("+sc.path+")")
	}
	w.closeProxy(subjSess, subjName)
	if subjSess != s1 {
		w.end(subjSess, "CDrop")
	}
	w.end(s1, "CDrop")
	// every session is gone: the last observation must be the empty server
	if n := len(w.srv.Svc.VerifC10Names()); n != 0 {
		w.fail("names-left:"+sc.label(), fmt.Sprintf("%d proxy names are registered after every session ended", n))
	}
}

// ---------- the scenario matrix ----------

// withExistRace: the Exist/Run race of two stcp / sudp / xtcp registrations of one name (see "f:existrace")
var withExistRace = true

func pathsFor(kind string) []string {
	ps := []string{"close", "drop", "dropearly", "dropinflight", "replace", "heartbeat", "f:exists", "f:addrace"}
	if kind == "tcp" {
		ps = append(ps, "dropclogged") // costs ~3 s (megabytes of unread Pongs): one kind
	}
	if withExistRace && (kind == "stcp" || kind == "sudp" || kind == "xtcp" || kind == "httpgrp") {
		ps = append(ps, "f:existrace")
	}
	switch kind {
	case "tcp", "udp":
		ps = append(ps, "f:used", "f:notallowed", "f:squat", "f:noavail", "f:listen", "f:quota")
	case "tcpgrp":
		ps = append(ps, "f:used", "f:notallowed", "f:squat", "f:noavail", "f:listen", "f:quota", "f:gkey", "f:gport", "g:joinleave")
	case "http":
		ps = append(ps, "f:dom2", "f:loc2", "f:first")
	case "https", "tcpmux":
		ps = append(ps, "f:dom2", "f:first")
	case "httpgrp":
		ps = append(ps, "f:first", "f:gkey", "f:gdom", "f:g2dom", "f:grepeat", "g:joinleave")
	case "muxgrp":
		ps = append(ps, "f:first", "f:gkey", "f:gdom", "f:g2dom", "g:joinleave")
	}
	return ps
}

var allPaths = []string{"close", "drop", "dropearly", "dropinflight", "dropclogged", "replace", "heartbeat", "f:exists", "f:used", "f:notallowed", "f:squat",
	"f:noavail", "f:listen", "f:dom2", "f:loc2", "f:first", "f:gkey", "f:gport", "f:gdom", "f:g2dom", "f:grepeat", "g:joinleave", "f:quota", "f:addrace", "f:existrace"}

// normalise: settle the flags a path or kind forces
func normalise(sc scen) scen {
	if endsSession(sc.path) || sc.path == "f:exists" || sc.path == "f:addrace" || sc.path == "f:existrace" || sc.path == "f:quota" {
		sc.own = true
	}
	switch sc.path {
	case "f:gkey", "f:gport", "f:gdom":
		sc.grpBy = true
	case "g:joinleave":
		sc.grpBy, sc.own, sc.port0, sc.pool, sc.extras = true, true, false, 0, 0
	case "f:first", "f:used", "f:notallowed", "f:squat", "f:noavail", "f:listen":
		sc.grpBy = false // the subject must be the group's first member
	}
	if !isGrp(sc.kind) {
		sc.grpBy = false
	}
	if sc.kind == "udp" {
		sc.own = true // a closed udp proxy may go on asking its session for work connections for a while
	}
	if sc.path == "dropearly" || sc.path == "dropinflight" {
		sc.port0 = false
	}
	if sc.path == "dropclogged" {
		sc.pool, sc.serve = 0, false
	}
	if sc.path == "f:noavail" {
		sc.port0 = true
	}
	if sc.path == "f:listen" && !sc.rnd {
		// listen failing after the acquisition: a server-chosen port for udp (the roll-back must release the
		// ACQUIRED port, not the requested 0), an explicit one for tcp
		sc.port0 = sc.kind == "udp"
	}
	if sc.path == "f:gport" {
		sc.port0 = false
	}
	if !(sc.kind == "http" || sc.kind == "udp") || !(sc.path == "close" || sc.path == "drop" || sc.path == "replace" || sc.path == "heartbeat") {
		sc.serve = false
	}
	if sc.kind == "http" && sc.serve {
		sc.user = false
	}
	if sc.kind == "udp" || !endsSession(sc.path) {
		sc.pool = 0 // a udp proxy takes work connections out of the pool on its own
	}
	if sc.path == "f:quota" || sc.path == "f:noavail" {
		if sc.path == "f:quota" {
			sc.extras = 0
		}
	}
	if sc.path == "f:loc2" {
		sc.locs = 2
	}
	return sc
}

// matrix: every kind x every path that applies to it, ordered so that a short prefix already touches
// every path (the i-th kind of each path first)
func matrix(seed int64, tier string) []scen {
	per := map[string][]scen{}
	for ki, k := range kinds {
		for pi, p := range pathsFor(k) {
			sc := scen{kind: k, path: p}
			v := ki + pi + int(seed)
			sc.own = v%3 != 0
			sc.grpBy = (ki+pi)%2 == 0
			sc.bw = (k == "http" || k == "udp" || k == "tcp") && (pi+int(seed))%2 == 0
			sc.serve = true
			sc.port0 = v%4 == 1
			sc.locs = v % 3
			sc.user = v%5 == 2
			sc.sub = v%4 == 3
			if endsSession(p) && k != "udp" && !(k == "http") {
				sc.pool = 2 + v%2
			}
			sc.name = subjNames[(ki*3+pi)%len(subjNames)]
			sc.nb = k == "http" || k == "tcpmux"
			per[p] = append(per[p], normalise(sc))
		}
	}
	// heartbeat cases cost 2-3 s each: two in the quick tier
	if tier != "thorough" {
		hb := per["heartbeat"]
		a := hb[int(seed)%len(hb)]
		b := hb[(int(seed)+2)%len(hb)] // kinds 2 apart: never the same
		b.pool, a.pool = 2, 0
		if b.kind == "udp" || b.kind == "http" {
			b.pool = 0
		}
		per["heartbeat"] = []scen{a, b}
		// the gate-driven paths run one after the other (the gate controller is process-wide): six kinds each
		// in the quick tier, rotating with the seed; all eleven in the thorough tier
		for _, p := range []string{"dropinflight", "f:addrace"} {
			l := per[p]
			keep := []scen{}
			for i := 0; i < 6 && i < len(l); i++ {
				keep = append(keep, l[(i*2+int(seed))%len(l)])
			}
			per[p] = keep
		}
	}
	out := []scen{}
	for round := 0; ; round++ {
		added := false
		for _, p := range allPaths {
			if round < len(per[p]) {
				// rotate the kinds by the seed so that short runs differ between seeds
				l := per[p]
				out = append(out, l[(round+int(seed))%len(l)])
				added = true
			}
		}
		if !added {
			break
		}
	}
	return out
}

func randomScen(g *hx.Gen, tier string) scen {
	k := kinds[g.Intn(len(kinds))]
	ps := pathsFor(k)
	p := ps[g.Intn(len(ps))]
	for p == "heartbeat" && !(tier == "thorough" && g.Chance(0.3)) {
		p = ps[g.Intn(len(ps))]
	}
	sc := scen{kind: k, path: p, rnd: true, own: g.Chance(0.6), grpBy: g.Chance(0.5), bw: g.Chance(0.3), serve: g.Chance(0.3),
		port0: g.Chance(0.4), locs: g.Intn(3), user: g.Chance(0.25), sub: g.Chance(0.3), extras: 1 + g.Intn(2),
		name: subjNames[g.Intn(len(subjNames))], nb: g.Chance(0.6)}
	if g.Chance(0.5) {
		sc.pool = 1 + g.Intn(3)
	}
	return normalise(sc)
}

type caseResult struct {
	text  string
	oks   int
	sc    scen
	codes []int
	err   error
}

func runCase(seed int64, ci int, sc scen, addr string, rec *recorder) caseResult {
	g := hx.NewGen(seed*7919 + int64(ci))
	ranges := []types.PortsRange{{Start: basePort, End: basePort + 9}}
	maxp := 0
	switch sc.path {
	case "f:noavail":
		ranges = []types.PortsRange{{Start: basePort, End: basePort + 1}}
	case "f:quota":
		maxp = 2
	}
	if !sc.rnd && sc.path != "f:quota" && sc.path != "f:noavail" && ci%2 == 0 {
		// every other matrix scenario runs with a per-client quota that is never reached: the quota counter
		// is part of the observation, so a termination path or failure point that does not give it back shows
		maxp = 8
	}
	if sc.rnd && sc.path != "f:quota" && sc.path != "f:noavail" && g.Chance(0.3) {
		// a generous quota and a split range change nothing for the scenario but are other inputs
		maxp = 6
		ranges = []types.PortsRange{{Start: basePort, End: basePort + 4}, {Single: basePort + 5}, {Start: basePort + 6, End: basePort + 9}}
	}
	w, err := newWorld(worldOpts{addr: addr, ranges: ranges, maxp: maxp, hbeat: sc.path == "heartbeat",
		runTag: fmt.Sprintf("%d-%d", seed, ci), label: sc.label(), rec: rec})
	if err != nil {
		return caseResult{err: err}
	}
	runScen(w, g, sc)
	w.shutdown()
	// nothing of this case may hold a port of the range when the next case starts on this address
	for i := 0; i < 200; i++ {
		if len(osBusy("tcp", addr, w.allow)) == 0 && len(osBusy("udp", addr, w.allow)) == 0 {
			break
		}
		time.Sleep(5 * time.Millisecond)
	}
	return caseResult{text: w.caseText(), oks: w.oks, sc: sc, codes: w.codes}
}

// runTier: the tier of this run (set once before the workers start)
var runTier = "quick"

func runRelease(cfg *hx.RunCfg) error {
	runTier = cfg.Tier
	hx.Quiet()
	rec := newRecorder()
	only := ""
	for _, x := range strings.Split(cfg.Extra, ",") {
		switch {
		case x == "existrace":
			withExistRace = true
		case strings.HasPrefix(x, "only="):
			only = strings.TrimPrefix(x, "only=")
		}
	}
	scs := matrix(cfg.Seed, cfg.Tier)
	gr := hx.NewGen(cfg.Seed*104723 + 10)
	for len(scs) < cfg.N {
		scs = append(scs, randomScen(gr, cfg.Tier))
	}
	if cfg.N > 0 && len(scs) > cfg.N {
		scs = scs[:cfg.N]
	}
	// -extra only=<kind>:<path> replays the scenarios of one matrix cell (debugging aid)
	if only != "" {
		sel := []scen{}
		for _, sc := range append(matrix(cfg.Seed, "thorough"), scs...) {
			if sc.label() == only && len(sel) < cfg.N {
				sel = append(sel, sc)
			}
		}
		scs = sel
	}
	results := make([]caseResult, len(scs))

	// cases that need the (process-wide) gate controller run one at a time after the others; the
	// others run on a few loopback addresses side by side (heartbeat cases first: they take seconds)
	order := []int{}
	for i, sc := range scs {
		if sc.path == "heartbeat" {
			order = append(order, i)
		}
	}
	for i, sc := range scs {
		if sc.path != "heartbeat" && sc.path != "f:addrace" && sc.path != "f:existrace" && sc.path != "dropinflight" && sc.path != "g:joinleave" {
			order = append(order, i)
		}
	}
	const workers = 4
	var wg sync.WaitGroup
	jobs := make(chan int)
	for wk := 0; wk < workers; wk++ {
		wg.Add(1)
		go func(wk int) {
			defer wg.Done()
			addr := loop(11 + wk)
			for i := range jobs {
				results[i] = runCase(cfg.Seed, i, scs[i], addr, rec)
			}
		}(wk)
	}
	for _, i := range order {
		jobs <- i
	}
	close(jobs)
	wg.Wait()
	for i, sc := range scs {
		if sc.path == "f:addrace" || sc.path == "f:existrace" || sc.path == "dropinflight" || sc.path == "g:joinleave" {
			results[i] = runCase(cfg.Seed, i, sc, loop(1), rec)
		}
	}

	cf := &hx.CaseFile{Imports: coqImports, Typ: "case", Tail: caseTail()}
	seen := map[string]bool{}
	nontrivial := 0
	samples := []string{}
	for i, r := range results {
		if r.err != nil {
			return fmt.Errorf("case %d (%s): %v", i, scs[i].label(), r.err)
		}
		cf.Cases = append(cf.Cases, r.text)
		if !seen[r.text] {
			seen[r.text] = true
			if r.oks > 0 {
				nontrivial++
			}
		}
		if len(samples) < 3 && (i%17 == 0) {
			samples = append(samples, truncate(r.text, 1500))
		}
		rec.dist["kind:"+r.sc.kind]++
		rec.dist["path:"+r.sc.path]++
		for _, c := range r.codes {
			if c >= 0 {
				rec.dist["code:ok"]++
			} else {
				rec.dist[fmt.Sprintf("code:%d", c)]++
			}
		}
		if r.sc.rnd {
			rec.dist["random-cases"]++
		}
	}
	sort.Slice(rec.failures, func(i, j int) bool { return rec.failures[i]["key"] < rec.failures[j]["key"] })
	cfg.St["cases"] = len(cf.Cases)
	cfg.St["distinct_nontrivial"] = nontrivial
	cfg.St["samples"] = samples
	cfg.St["distribution"] = rec.dist
	cfg.St["impl_failures"] = rec.failures
	return cf.Write(cfg.Out)
}
