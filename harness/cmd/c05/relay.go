package main

import (
	"bytes"
	"io"
	"net"
	"sync"
)

// Relay is the observer on the network path: a TCP relay that records every byte of both
// directions of every connection (one buffer per connection and direction).
type Relay struct {
	L        net.Listener
	upstream string
	mu       sync.Mutex
	streams  []*bytes.Buffer
	firsts   []byte // first byte sent by the client on each connection (in accept order)
	conns    []net.Conn
}

func StartRelay(listenAddr, upstream string) (*Relay, error) {
	l, err := net.Listen("tcp", net.JoinHostPort(listenAddr, "0"))
	if err != nil {
		return nil, err
	}
	r := &Relay{L: l, upstream: upstream}
	go r.serve()
	return r, nil
}

func (r *Relay) Port() int { return r.L.Addr().(*net.TCPAddr).Port }

func (r *Relay) newBuf() *bytes.Buffer {
	b := &bytes.Buffer{}
	r.streams = append(r.streams, b)
	return b
}

func (r *Relay) serve() {
	for {
		c, err := r.L.Accept()
		if err != nil {
			return
		}
		u, err := net.Dial("tcp", r.upstream)
		if err != nil {
			c.Close()
			continue
		}
		r.mu.Lock()
		up, down := r.newBuf(), r.newBuf()
		r.conns = append(r.conns, c, u)
		r.mu.Unlock()
		go r.pipe(u, c, up, true)
		go r.pipe(c, u, down, false)
	}
}

func (r *Relay) pipe(dst, src net.Conn, rec *bytes.Buffer, fromClient bool) {
	buf := make([]byte, 32*1024)
	first := true
	for {
		n, err := src.Read(buf)
		if n > 0 {
			r.mu.Lock()
			rec.Write(buf[:n])
			if first && fromClient {
				r.firsts = append(r.firsts, buf[0])
			}
			first = false
			r.mu.Unlock()
			if _, werr := dst.Write(buf[:n]); werr != nil {
				break
			}
		}
		if err != nil {
			break
		}
	}
	if tc, ok := dst.(*net.TCPConn); ok {
		_ = tc.CloseWrite()
	}
	if err := error(nil); err == nil {
		_ = io.EOF
	}
}

// Contains reports whether needle occurs in any recorded stream.
func (r *Relay) Contains(needle []byte) bool {
	r.mu.Lock()
	defer r.mu.Unlock()
	for _, s := range r.streams {
		if bytes.Contains(s.Bytes(), needle) {
			return true
		}
	}
	return false
}

func (r *Relay) Firsts() []byte {
	r.mu.Lock()
	defer r.mu.Unlock()
	return append([]byte(nil), r.firsts...)
}

func (r *Relay) Total() int {
	r.mu.Lock()
	defer r.mu.Unlock()
	n := 0
	for _, s := range r.streams {
		n += s.Len()
	}
	return n
}

func (r *Relay) Close() {
	r.L.Close()
	r.mu.Lock()
	for _, c := range r.conns {
		c.Close()
	}
	r.mu.Unlock()
}
