package main

import (
	"bytes"
	"encoding/binary"
	"io"

	"github.com/fatedier/golib/crypto"
	"net"
	"sync"
)

// Relay is the observer on the network path: a TCP relay that records every byte of both
// directions of every connection (one buffer per connection and direction).
type Relay struct {
	L        net.Listener
	upstream string
	mu       sync.Mutex
	streams  []*bytes.Buffer
	firsts   []byte // first byte sent by the client on each connection (in accept order)
	conns    []net.Conn
	opened   map[int][]byte
}

func StartRelay(listenAddr, upstream string) (*Relay, error) {
	l, err := net.Listen("tcp", net.JoinHostPort(listenAddr, "0"))
	if err != nil {
		return nil, err
	}
	r := &Relay{L: l, upstream: upstream}
	go r.serve()
	return r, nil
}

func (r *Relay) Port() int { return r.L.Addr().(*net.TCPAddr).Port }

func (r *Relay) newBuf() *bytes.Buffer {
	b := &bytes.Buffer{}
	r.streams = append(r.streams, b)
	return b
}

func (r *Relay) serve() {
	for {
		c, err := r.L.Accept()
		if err != nil {
			return
		}
		u, err := net.Dial("tcp", r.upstream)
		if err != nil {
			c.Close()
			continue
		}
		r.mu.Lock()
		up, down := r.newBuf(), r.newBuf()
		r.conns = append(r.conns, c, u)
		r.mu.Unlock()
		go r.pipe(u, c, up, true)
		go r.pipe(c, u, down, false)
	}
}

func (r *Relay) pipe(dst, src net.Conn, rec *bytes.Buffer, fromClient bool) {
	buf := make([]byte, 32*1024)
	first := true
	for {
		n, err := src.Read(buf)
		if n > 0 {
			r.mu.Lock()
			rec.Write(buf[:n])
			if first && fromClient {
				r.firsts = append(r.firsts, buf[0])
			}
			first = false
			r.mu.Unlock()
			if _, werr := dst.Write(buf[:n]); werr != nil {
				break
			}
		}
		if err != nil {
			break
		}
	}
	if tc, ok := dst.(*net.TCPConn); ok {
		_ = tc.CloseWrite()
	}
}

// wsUnmask: a client->server websocket stream is XOR-masked frame by frame with a key that travels
// in the clear in each frame header (RFC 6455); the observer undoes it.  Returns nil if the stream is
// not a websocket upgrade.
func wsUnmask(s []byte) []byte {
	if !bytes.HasPrefix(s, []byte("GET ")) {
		return nil
	}
	i := bytes.Index(s, []byte("\r\n\r\n"))
	if i < 0 {
		return nil
	}
	s = s[i+4:]
	var out []byte
	for len(s) >= 2 {
		masked := s[1]&0x80 != 0
		n := int(s[1] & 0x7f)
		s = s[2:]
		switch n {
		case 126:
			if len(s) < 2 {
				return out
			}
			n = int(s[0])<<8 | int(s[1])
			s = s[2:]
		case 127:
			if len(s) < 8 {
				return out
			}
			n = 0
			for k := 0; k < 8; k++ {
				n = n<<8 | int(s[k])
			}
			s = s[8:]
		}
		var key []byte
		if masked {
			if len(s) < 4 {
				return out
			}
			key, s = s[:4], s[4:]
		}
		if n < 0 || n > len(s) {
			n = len(s)
		}
		for k := 0; k < n; k++ {
			c := s[k]
			if masked {
				c ^= key[k%4]
			}
			out = append(out, c)
		}
		s = s[n:]
	}
	return out
}

// Contains reports whether needle occurs in any recorded stream (or in its unmasked websocket payload).
func (r *Relay) Contains(needle []byte) bool {
	r.mu.Lock()
	defer r.mu.Unlock()
	for _, s := range r.streams {
		if bytes.Contains(s.Bytes(), needle) {
			return true
		}
		if u := wsUnmask(s.Bytes()); u != nil && bytes.Contains(u, needle) {
			return true
		}
	}
	return false
}

func (r *Relay) Firsts() []byte {
	r.mu.Lock()
	defer r.mu.Unlock()
	return append([]byte(nil), r.firsts...)
}

func (r *Relay) Total() int {
	r.mu.Lock()
	defer r.mu.Unlock()
	n := 0
	for _, s := range r.streams {
		n += s.Len()
	}
	return n
}

func (r *Relay) Close() {
	r.L.Close()
	r.mu.Lock()
	for _, c := range r.conns {
		c.Close()
	}
	r.mu.Unlock()
}

// skipFrame drops one leading protocol frame (type byte, 8-byte big-endian length, body) if there is one.
func skipFrame(s []byte) []byte {
	if len(s) < 9 {
		return nil
	}
	n := int64(binary.BigEndian.Uint64(s[1:9]))
	if n < 0 || n > 10240 || int64(len(s)) < 9+n {
		return nil
	}
	return s[9+n:]
}

// openWith: what an observer who knows key reads off a recorded stream: after the clear first message of a
// connection (Login / LoginResp / NewWorkConn / StartWorkConn) the rest is tried as a golib crypto stream
// (16-byte IV, AES-128-CFB, key = pbkdf2(key, salt "frp")) — exactly what frp's own reader does.
func openWith(stream, key []byte) []byte {
	rest := skipFrame(stream)
	if len(rest) <= 16 {
		return nil
	}
	out, _ := io.ReadAll(crypto.NewReader(bytes.NewReader(rest), key))
	return out
}

// ContainsOpened reports whether needle occurs in any recorded TCP stream after opening it with key.
func (r *Relay) ContainsOpened(needle, key []byte) bool {
	r.mu.Lock()
	defer r.mu.Unlock()
	if r.opened == nil {
		r.opened = map[int][]byte{}
		for i, s := range r.streams {
			r.opened[i] = openWith(s.Bytes(), key)
		}
	}
	for _, o := range r.opened {
		if bytes.Contains(o, needle) {
			return true
		}
	}
	return false
}
