(* C08 / T5v: meaning of the wrapper-stack tables the translator extracts (gen/GenVisitorStacks.v).
   A site is the list, in source order, of (wrapper, guard text, key text) for every
   libio.WithEncryption / WithCompression[FromPool] call of the function. Model only. *)
From Coq Require Import String.
From FRP Require Export Model.Visitor.

Definition gsite := list (string * string * string).

(* the stack a site builds when its guards evaluate as [genv] says and its key expressions as [kenv] says;
   None if the site contains something that is not one of the two wrappers *)
Fixpoint gsite_interp (genv : string -> bool) (kenv : string -> bytes) (s : gsite) : option (list vlayer) :=
  match s with
  | [] => Some []
  | (w, g, k) :: r =>
      match gsite_interp genv kenv r with
      | None => None
      | Some rest =>
          if String.eqb w "enc" then Some ((if genv g then [LEnc (kenv k)] else []) ++ rest)
          else if String.eqb w "comp" then Some ((if genv g then [LComp] else []) ++ rest)
          else None
      end
  end.

Fixpoint gassoc (k : string) (l : list (string * string)) : option string :=
  match l with
  | [] => None
  | (k', v) :: r => if String.eqb k k' then Some v else gassoc k r
  end.

Fixpoint gindex (x : string) (l : list string) (i : nat) : option nat :=
  match l with
  | [] => None
  | y :: r => if String.eqb x y then Some i else gindex x r (S i)
  end.

(* ---------- round 5: plumbing of allowUsers, Run defaults, key selection, response reader ---------- *)
From FRP Require Export Model.VisitorPath.

Definition gopt_is {A} (o : option A) : bool := match o with Some _ => true | None => false end.

(* (1) a stage hands the allowed-users value on unchanged iff its right-hand side is the plain field of its source *)
Definition gplumb_stage (rhs : string) : option plumb_stage :=
  if String.eqb rhs "v.AllowUsers" || String.eqb rhs "c.AllowUsers" || String.eqb rhs "m.AllowUsers"
  then Some (fun l => l) else None.

Fixpoint gplumb_interp (t : list (string * string * string)) : option (list plumb_stage) :=
  match t with
  | [] => Some []
  | (_, _, rhs) :: r =>
      match gplumb_stage rhs, gplumb_interp r with
      | Some f, Some fs => Some (f :: fs)
      | _, _ => None
      end
  end.

(* (2) Run of a secret proxy type on the server:
       (type, initial value of allowUsers, [condition; value assigned under it], arguments of Listen / ListenClient,
        calls deferred by Run, number of assignments to allowUsers) *)
Definition grun := (string * list string * list string * list string * list string * nat)%type.

(* what Run registers, as a function of the configured list, the owner's user and the configured key;
   None when Run has any other shape (in particular when it defers a call: a failing Run holds nothing to tear down) *)
Definition grun_interp (r : grun) (cfg_allow : list bytes) (owner_user sk : bytes) : option (bytes * list bytes) :=
  let '(_, inits, ifs, largs, defers, total) := r in
  match inits, ifs, largs, defers with
  | [i], [c; v], [_; k; a], [] =>
      if String.eqb i "pxy.cfg.AllowUsers" && String.eqb c "len(allowUsers) == 0" &&
         String.eqb v "[]string{pxy.GetUserInfo().User}" && String.eqb k "pxy.cfg.Secretkey" &&
         String.eqb a "allowUsers" && Nat.eqb total 2
      then Some (sk, match cfg_allow with [] => [owner_user] | _ => cfg_allow end)
      else None
  | _, _, _, _ => None
  end.

(* (3) key classes of source expressions *)
Definition gkey_class (text : string) : keyclass :=
  if String.eqb text "[]byte(l.sk)" || String.eqb text "[]byte(sv.cfg.SecretKey)" || String.eqb text "[]byte(pxy.cfg.Secretkey)"
  then KSecret
  else if String.eqb text "[]byte(pxy.clientCfg.Auth.Token)" || String.eqb text "[]byte(serverCfg.Auth.Token)"
  then KToken else KNoKey.

(* a wrapper site of the expected shape: encryption first, compression on top; its key expression *)
Definition gsite_key (s : gsite) : option string :=
  match s with
  | [(w1, _, k); (w2, _, _)] => if String.eqb w1 "enc" && String.eqb w2 "comp" then Some k else None
  | _ => None
  end.

(* the key an accepted tunnel stream / a work connection is served with: HandleTCPWorkConnection's third argument
   (its parameter [encKey] is what the wrapper site of HandleTCPWorkConnection uses) *)
Definition gcall_key (params : list string) (handle : gsite) (row : list string) : option string :=
  match gsite_key handle, gindex "encKey" params 0, row with
  | Some hk, Some 2%nat, [callee; _; _; k] =>
      if String.eqb hk "encKey" && String.eqb callee "pxy.HandleTCPWorkConnection" then Some k else None
  | _, _, _ => None
  end.

Record gtables := {
  gt_newconn : gsite; gt_vstcp : gsite; gt_vsudp : gsite; gt_vxtcp : gsite;
  gt_handle_params : list string; gt_handle : gsite; gt_inwork : list (list string);
  gt_sudp_owner : gsite; gt_server_work : gsite; gt_xtcp_streams : list (list string)
}.

Definition gclass (o : option string) : keyclass := match o with Some t => gkey_class t | None => KNoKey end.

(* key class at the two ends of a leg, read off the tables (first component: the end nearer to the visitor) *)
Definition gleg_ends (t : gtables) (l : leg) : list (keyclass * keyclass) :=
  match l with
  | LegVisitor KStcp => [(gclass (gsite_key (gt_vstcp t)), gclass (gsite_key (gt_newconn t)))]
  | LegVisitor KSudp => [(gclass (gsite_key (gt_vsudp t)), gclass (gsite_key (gt_newconn t)))]
  | LegVisitor KXtcp => []
  | LegWork KStcp =>
      map (fun row => (gclass (gsite_key (gt_server_work t)), gclass (gcall_key (gt_handle_params t) (gt_handle t) (tl row))))
          (map (fun r => "InWorkConn"%string :: r) (gt_inwork t))
  | LegWork KSudp => [(gclass (gsite_key (gt_server_work t)), gclass (gsite_key (gt_sudp_owner t)))]
  | LegWork KXtcp => []
  | LegTunnel =>
      (* one entry per listen function that serves accepted tunnel streams *)
      map (fun row => (gclass (gsite_key (gt_vxtcp t)), gclass (gcall_key (gt_handle_params t) (gt_handle t) (tl row))))
          (gt_xtcp_streams t)
  end.

Definition gall_legs : list leg := [LegVisitor KStcp; LegVisitor KSudp; LegWork KStcp; LegWork KSudp; LegTunnel].

(* (4) the visitor builds its stack on the very reader it decoded the response frame from *)
Definition gresp_reader_ok (t : list (string * string)) (v : string) : bool :=
  match gassoc v t, gassoc (v ++ ":stack-base")%string t with
  | Some r, Some b => String.eqb r b
  | _, _ => false
  end.

(* ---------- round 6: Login plugins, handshake deadline ---------- *)
(* (5) Manager.Login: (token, left side, right side) of every assignment to the login content inside the loop, the
   condition that guards it, and what the function returns at its end *)
Definition glogin_ok (assigns : list (string * string * string)) (guards finals : list string) : bool :=
  match assigns, guards, finals with
  | [(tok, l, r)], [g], [f] =>
      (* a plain assignment to the function's own variable: ":=" would declare a new one inside the block *)
      String.eqb tok "=" && String.eqb l "content" && String.eqb r "retContent.(*LoginContent)" &&
      String.eqb g "!res.Unchange" && String.eqb f "content"
  | _, _, _ => false
  end.

(* (6) handshake events as the translator names them *)
Definition ghs_event (s : string) : option hs_ev :=
  if String.eqb s "arm" then Some HArm else if String.eqb s "clear" then Some HClear
  else if String.eqb s "defer-arm" then Some HDeferArm else if String.eqb s "defer-clear" then Some HDeferClear
  else if String.eqb s "read" then Some HReadResp else if String.eqb s "join" then Some HJoin else None.

Fixpoint ghs_events (l : list string) : option (list hs_ev) :=
  match l with
  | [] => Some []
  | s :: r => match ghs_event s, ghs_events r with Some e, Some es => Some (e :: es) | _, _ => None end
  end.

(* one plugin's effect on the current user, and the chain *)
Definition plugin_step (cur : bytes) (a : plugin_ans) : option bytes :=
  match a with PReject => None | PUnchanged => Some cur | PRewrite u => Some u end.

Fixpoint plugin_chain (step : bytes -> plugin_ans -> option bytes) (cur : bytes) (answers : list plugin_ans) : option bytes :=
  match answers with
  | [] => Some cur
  | a :: r => match step cur a with Some c => plugin_chain step c r | None => None end
  end.

(* what today's Manager.Login does with one plugin answer: known only when the source has the recognised shape *)
Definition glogin_step (assigns : list (string * string * string)) (guards finals : list string)
  : option (bytes -> plugin_ans -> option bytes) :=
  if glogin_ok assigns guards finals then Some plugin_step else None.

Definition ghandshake_ok (evs : list string) : bool :=
  match ghs_events evs with
  | Some es =>
      match hs_armed_at HReadResp false es, hs_armed_at HJoin false es with
      | Some true, Some false => true
      | _, _ => false
      end
  | None => false
  end.

(* the secret key travels unchanged as well (same stages as the allowed users) *)
Definition gsk_stage_ok (rhs : string) : bool :=
  String.eqb rhs "v.Sk" || String.eqb rhs "c.Secretkey" || String.eqb rhs "m.Sk".
Definition gsk_plumbing_ok (t : list (string * string * string)) : bool :=
  Nat.eqb (length t) 9 && forallb (fun e : string * string * string => gsk_stage_ok (snd e)) t.
