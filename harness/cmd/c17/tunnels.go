package main

// Driver "tunnels" (C17): the two places where the codec's clauses are about a real tunnel rather than one frame.
//  (1) udpusers: a real frpc with ONE udp proxy and two users sending overlapping datagram streams through frps:
//      every frame of the work connection is decoded (msg.ReadMsgInto in client/proxy/udp.go) and handed to the
//      forwarder; each user must receive exactly the echoes of its own datagrams (sequence round trip with fresh
//      decode targets: C17_sequence_roundtrip_fresh_targets / C17_loop_decode_targets_fresh).
//  (2) layers: sudp and stcp tunnels (real frpc owner + real frpc visitor) for all four combinations of
//      useEncryption / useCompression: the visitor's stack and the server's stack of the visitor connection must be
//      layered alike (C17_wrapper_order_wire_stable pins the order against the released one).
// Go-side monitors only (the model side is the theorems); failures carry the scenario as replay.

import (
	"bytes"
	"fmt"
	"io"
	"net"
	"sync"
	"time"

	v1 "github.com/fatedier/frp/pkg/config/v1"

	"verifharness/hx"
)

func init() { drivers["tunnels"] = runTunnels }

func udpEcho(addr string) (*net.UDPConn, int, error) {
	c, err := net.ListenUDP("udp", &net.UDPAddr{IP: net.ParseIP(addr)})
	if err != nil {
		return nil, 0, err
	}
	go func() {
		buf := make([]byte, 65536)
		for {
			n, ra, err := c.ReadFromUDP(buf)
			if err != nil {
				return
			}
			_, _ = c.WriteToUDP(buf[:n], ra)
		}
	}()
	return c, c.LocalAddr().(*net.UDPAddr).Port, nil
}

// udpUser sends count datagrams "<tag>-<i>-<padding>" to port and collects what comes back.
func udpUser(addr string, port int, tag string, count int, gap time.Duration, sizes func(i int) int) (got map[string]int, foreign []string, err error) {
	c, err := net.DialUDP("udp", &net.UDPAddr{IP: net.ParseIP(addr)}, &net.UDPAddr{IP: net.ParseIP(addr), Port: port})
	if err != nil {
		return nil, nil, err
	}
	defer c.Close()
	got = map[string]int{}
	var mu sync.Mutex
	done := make(chan struct{})
	go func() {
		defer close(done)
		buf := make([]byte, 65536)
		for {
			_ = c.SetReadDeadline(time.Now().Add(700 * time.Millisecond))
			n, err := c.Read(buf)
			if err != nil {
				return
			}
			mu.Lock()
			s := string(buf[:n])
			if s == "" {
				// the echo of one of this user's empty datagrams (cannot be attributed; counted only)
			} else if len(s) < len(tag)+1 || s[:len(tag)+1] != tag+"-" {
				if len(foreign) < 5 {
					foreign = append(foreign, s[:min(len(s), 24)])
				}
			}
			got[s]++
			mu.Unlock()
		}
	}()
	for i := 0; i < count; i++ {
		p := []byte(fmt.Sprintf("%s-%d-", tag, i))
		if sizes(i) < 0 {
			p = nil // an EMPTY datagram: content omitted from the frame
		} else {
			p = append(p, bytes.Repeat([]byte{'.'}, sizes(i))...)
		}
		_, _ = c.Write(p)
		time.Sleep(gap)
	}
	<-done
	return got, foreign, nil
}

func runTunnels(cfg *runCfg) error {
	hx.Quiet()
	addr := "127.0.17.6"
	var implFail []any
	dist := map[string]int{}
	fail := func(key, what, c string) {
		implFail = append(implFail, map[string]any{"key": key, "what": what, "case": c})
	}
	s, err := hx.StartServer(addr, nil)
	if err != nil {
		return err
	}
	defer s.Close()

	// ---- (1) two overlapping users on one client-side udp proxy ----
	echo, eport, err := udpEcho(addr)
	if err != nil {
		return err
	}
	defer echo.Close()
	rport := hx.FreeUDPPort(addr)
	up := &v1.UDPProxyConfig{}
	up.Name, up.Type = "c17-udp", "udp"
	up.LocalIP, up.LocalPort, up.RemotePort = addr, eport, rport
	cl, err := s.StartClient([]v1.ProxyConfigurer{up}, nil, nil)
	if err != nil {
		return err
	}
	if !cl.WaitProxyRunning("c17-udp", 5*time.Second) {
		cl.Close()
		return fmt.Errorf("udp proxy did not start")
	}
	rounds := 1 + cfg.N/100
	cases := 0
	for r := 0; r < rounds; r++ {
		n := 150
		var wg sync.WaitGroup
		res := make([]map[string]int, 2)
		forg := make([][]string, 2)
		for u := 0; u < 2; u++ {
			wg.Add(1)
			go func(u int) {
				defer wg.Done()
				tag := []string{"alice", "bob"}[u]
				res[u], forg[u], _ = udpUser(addr, rport, tag, n, 300*time.Microsecond, func(i int) int {
					if i%17 == 5 {
						return -1 // empty datagram between two non-empty ones (omitted "c")
					}
					return (i * 37) % 200
				})
			}(u)
		}
		wg.Wait()
		for u := 0; u < 2; u++ {
			cases++
			tag := []string{"alice", "bob"}[u]
			dup, total := 0, 0
			for k, v := range res[u] {
				total += v
				if v > 1 && k != "" {
					dup++
				}
			}
			desc := fmt.Sprintf("udp proxy, users alice and bob send %d datagrams each 0.3 ms apart; user %s received %d (foreign %v, duplicated payloads %d)", n, tag, total, forg[u], dup)
			switch {
			case len(forg[u]) > 0:
				fail("tunnels:udp-cross-user", "a user of a udp proxy received datagrams answering ANOTHER user's datagrams (decoded frames are not the frames encoded)", desc)
				dist["udpusers foreign"]++
			case dup > 0:
				fail("tunnels:udp-duplicate", "a user of a udp proxy received the same payload more than once (a decoded message was overwritten by a later frame)", desc)
				dist["udpusers duplicate"]++
			case total < n/2:
				fail("tunnels:udp-lost", "more than half of a user's datagrams did not come back through the udp proxy on loopback", desc)
				dist["udpusers lost"]++
			default:
				dist["udpusers ok"]++
			}
		}
	}
	cl.Close()

	// ---- (2) layering of encryption and compression on visitor connections ----
	tcpEcho, err := hx.StartEcho(addr, "")
	if err != nil {
		return err
	}
	defer tcpEcho.Close()
	var proxies []v1.ProxyConfigurer
	var visitors []v1.VisitorConfigurer
	type combo struct {
		kind      string
		enc, comp bool
		bind      int
	}
	var combos []*combo
	for _, kind := range []string{"sudp", "stcp"} {
		for _, enc := range []bool{false, true} {
			for _, comp := range []bool{false, true} {
				name := fmt.Sprintf("c17-%s-%v-%v", kind, enc, comp)
				cb := &combo{kind: kind, enc: enc, comp: comp}
				if kind == "sudp" {
					p := &v1.SUDPProxyConfig{}
					p.Name, p.Type, p.Secretkey = name, "sudp", "c17-sk"
					p.LocalIP, p.LocalPort = addr, eport
					p.Transport.UseEncryption, p.Transport.UseCompression = enc, comp
					proxies = append(proxies, p)
					v := &v1.SUDPVisitorConfig{}
					v.Name, v.Type, v.ServerName, v.SecretKey = name+"-v", "sudp", name, "c17-sk"
					v.BindAddr, v.BindPort = addr, hx.FreeUDPPort(addr)
					v.Transport.UseEncryption, v.Transport.UseCompression = enc, comp
					cb.bind = v.BindPort
					visitors = append(visitors, v)
				} else {
					p := &v1.STCPProxyConfig{}
					p.Name, p.Type, p.Secretkey = name, "stcp", "c17-sk"
					p.LocalIP, p.LocalPort = addr, tcpEcho.Port()
					p.Transport.UseEncryption, p.Transport.UseCompression = enc, comp
					proxies = append(proxies, p)
					v := &v1.STCPVisitorConfig{}
					v.Name, v.Type, v.ServerName, v.SecretKey = name+"-v", "stcp", name, "c17-sk"
					v.BindAddr, v.BindPort = addr, hx.FreePort(addr)
					v.Transport.UseEncryption, v.Transport.UseCompression = enc, comp
					cb.bind = v.BindPort
					visitors = append(visitors, v)
				}
				combos = append(combos, cb)
			}
		}
	}
	owner, err := s.StartClient(proxies, nil, nil)
	if err != nil {
		return err
	}
	defer owner.Close()
	for _, p := range proxies {
		if !owner.WaitProxyRunning(p.GetBaseConfig().Name, 5*time.Second) {
			return fmt.Errorf("proxy %s did not start", p.GetBaseConfig().Name)
		}
	}
	vis, err := s.StartClient(nil, visitors, nil)
	if err != nil {
		return err
	}
	defer vis.Close()
	time.Sleep(300 * time.Millisecond)
	for _, cb := range combos {
		cases++
		payload := []byte(fmt.Sprintf("layer-check-%s-%v-%v-%s", cb.kind, cb.enc, cb.comp, bytes.Repeat([]byte("z"), 300)))
		ok := false
		for attempt := 0; attempt < 3 && !ok; attempt++ { // the visitor's listener may need a moment; datagrams may be dropped
			if cb.kind == "sudp" {
				c, err := net.DialUDP("udp", nil, &net.UDPAddr{IP: net.ParseIP(addr), Port: cb.bind})
				if err != nil {
					continue
				}
				_, _ = c.Write(payload)
				_ = c.SetReadDeadline(time.Now().Add(1500 * time.Millisecond))
				buf := make([]byte, 4096)
				n, err := c.Read(buf)
				ok = err == nil && bytes.Equal(buf[:n], payload)
				c.Close()
			} else {
				c, err := net.DialTimeout("tcp", net.JoinHostPort(addr, fmt.Sprint(cb.bind)), 2*time.Second)
				if err != nil {
					time.Sleep(200 * time.Millisecond)
					continue
				}
				_, _ = c.Write(payload)
				_ = c.SetReadDeadline(time.Now().Add(1500 * time.Millisecond))
				buf := make([]byte, len(payload))
				_, err = io.ReadFull(c, buf)
				ok = err == nil && bytes.Equal(buf, payload)
				c.Close()
			}
		}
		k := fmt.Sprintf("layers %s enc=%v comp=%v ok=%v", cb.kind, cb.enc, cb.comp, ok)
		dist[k]++
		if !ok {
			fail(fmt.Sprintf("tunnels:layering-%s", cb.kind),
				fmt.Sprintf("a %s tunnel with useEncryption=%v useCompression=%v does not carry bytes: the visitor's and the server's wrapper stacks are layered differently", cb.kind, cb.enc, cb.comp), k)
		}
	}
	// ---- (3) control-channel interop matrix: transport.protocol x transport.tls.enable ----
	// after Login/LoginResp both ends switch to the token-keyed control cipher; a tcp proxy must get registered
	// (phase running: NewProxy/NewProxyResp crossed the encrypted control channel) and carry bytes
	{
		kcpPort, quicPort := hx.FreeUDPPort(addr), hx.FreeUDPPort(addr)
		s2, err := hx.StartServer(addr, func(c *v1.ServerConfig) { c.KCPBindPort = kcpPort; c.QUICBindPort = quicPort })
		if err != nil {
			return err
		}
		defer s2.Close()
		type ic struct {
			proto string
			tls   bool
		}
		for _, c := range []ic{{"tcp", false}, {"tcp", true}, {"websocket", false}, {"websocket", true}, {"kcp", false}, {"kcp", true}, {"quic", true}} {
			cases++
			c := c
			name := fmt.Sprintf("c17-i-%s-%v", c.proto, c.tls)
			rp := hx.FreePort(addr)
			pc := &v1.TCPProxyConfig{}
			pc.Name, pc.Type = name, "tcp"
			pc.LocalIP, pc.LocalPort, pc.RemotePort = addr, tcpEcho.Port(), rp
			cl, err := s2.StartClient([]v1.ProxyConfigurer{pc}, nil, func(cc *v1.ClientCommonConfig) {
				cc.Transport.Protocol = c.proto
				t := c.tls
				cc.Transport.TLS.Enable = &t
				switch c.proto {
				case "kcp":
					cc.ServerPort = kcpPort
				case "quic":
					cc.ServerPort = quicPort
				}
			})
			ok := false
			why := "client did not start"
			if err == nil {
				why = "the proxy never reached phase running (nothing crosses the control channel after the login)"
				if cl.WaitProxyRunning(name, 4*time.Second) {
					why = "the tunnel does not echo"
					if conn, err := net.DialTimeout("tcp", net.JoinHostPort(addr, fmt.Sprint(rp)), 2*time.Second); err == nil {
						payload := []byte("interop-" + name)
						_, _ = conn.Write(payload)
						_ = conn.SetReadDeadline(time.Now().Add(2 * time.Second))
						buf := make([]byte, len(payload))
						_, rerr := io.ReadFull(conn, buf)
						ok = rerr == nil && bytes.Equal(buf, payload)
						conn.Close()
					}
				}
				cl.Close()
			}
			k := fmt.Sprintf("interop protocol=%s tls=%v ok=%v", c.proto, c.tls, ok)
			dist[k]++
			if !ok {
				fail("tunnels:control-interop-"+c.proto, fmt.Sprintf("frpc with transport.protocol=%s transport.tls.enable=%v against frps of the same build: %s", c.proto, c.tls, why), k)
			}
		}
	}

	// two overlapping users through a sudp visitor (owner side: client/proxy/sudp.go reader loop)
	for _, cb := range combos {
		if cb.kind != "sudp" || !cb.enc || !cb.comp {
			continue
		}
		var wg sync.WaitGroup
		res := make([]map[string]int, 2)
		forg := make([][]string, 2)
		for u := 0; u < 2; u++ {
			wg.Add(1)
			go func(u int) {
				defer wg.Done()
				res[u], forg[u], _ = udpUser(addr, cb.bind, []string{"carol", "dave"}[u], 150, 300*time.Microsecond, func(i int) int { return (i * 41) % 150 })
			}(u)
		}
		wg.Wait()
		for u := 0; u < 2; u++ {
			cases++
			dup, total := 0, 0
			for k, v := range res[u] {
				total += v
				if v > 1 && k != "" {
					dup++
				}
			}
			desc := fmt.Sprintf("sudp visitor (enc+comp), users carol and dave send 150 datagrams each 0.3 ms apart; user %d received %d (foreign %v, duplicated payloads %d)", u, total, forg[u], dup)
			switch {
			case len(forg[u]) > 0:
				fail("tunnels:udp-cross-user", "a user of a sudp visitor received datagrams answering ANOTHER user's datagrams", desc)
				dist["sudpusers foreign"]++
			case dup > 0:
				fail("tunnels:udp-duplicate", "a user of a sudp visitor received the same payload more than once (a decoded message was overwritten by a later frame)", desc)
				dist["sudpusers duplicate"]++
			default:
				dist["sudpusers ok"]++
			}
		}
	}
	cfg.St["cases"] = cases
	cfg.St["distinct_nontrivial"] = cases
	cfg.St["distribution"] = dist
	cfg.St["samples"] = []any{map[string]any{"scenario": "two users x 150 overlapping datagrams on one udp proxy; 8 visitor tunnels enc x comp"}}
	cfg.St["impl_failures"] = implFail
	return nil
}
