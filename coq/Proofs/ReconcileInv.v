(* C19 — the manager invariant over every history of manager operations: pm_wf is preserved by every
   step, no wrapper is ever stopped twice (no close of a closed channel), NewProxy is only ever sent
   for a name that is in the table with the configuration it was loaded with, a work connection
   is only handed over to a wrapper that is in the table and running. *)
From Coq Require Import List ZArith Bool Lia.
From FRP Require Import Model.Wrapper Model.Reconcile Proofs.WrapperProofs Proofs.ReconcileProofs.
Import ListNotations.
Open Scope Z_scope.

(* outputs a step may produce in a well-formed state *)
Definition pm_out_ok (s : pm_state) (o : pm_out) : Prop :=
  match o with
  | PMPanic _ => False
  | PMNewProxy n v => exists e, rc_get (pm_map s) n = Some e /\ rc_val (pe_cfg e) = v /\ pw_health (pe_w e) = 0
  | PMWorkAccepted n => exists e, rc_get (pm_map s) n = Some e /\ pw_ph (pe_w e) = PWRunning
  | _ => True
  end.

Lemma pm_wstep_live : forall t e o next n, pm_entry_ok next (n, e) -> o <> PWStop ->
  pm_entry_ok next (n, fst (pm_wstep t e o)) /\
  pe_id (fst (pm_wstep t e o)) = pe_id e /\ pe_cfg (fst (pm_wstep t e o)) = pe_cfg e /\
  Forall (fun x => match x with
                   | PMPanic _ => False
                   | PMNewProxy n' v => n' = n /\ v = rc_val (pe_cfg e) /\ pw_health (pe_w e) = 0
                   | PMWorkAccepted n' => n' = n /\ pw_ph (pe_w e) = PWRunning
                   | _ => True end) (snd (pm_wstep t e o)).
Proof.
  intros t e o next n (Hn & Hc & Hid) Ho. simpl in *. unfold pm_wstep.
  pose proof (pw_not_closed_step t (pe_w e) o Hc Ho) as [Hnc _].
  pose proof (pw_new_only_from_tick t (pe_w e) o) as Hnew.
  pose proof (pw_accept_only_running t (pe_w e) o) as Hacc.
  assert (Hpanic : pw_emits PWOPanic (snd (pw_step t (pe_w e) o)) = false)
    by (apply pw_not_closed_step; auto).
  destruct (pw_step t (pe_w e) o) as [w outs]. simpl in *.
  repeat split; auto.
  apply Forall_forall. intros x Hx. apply in_map_iff in Hx. destruct Hx as (y & Hy & Hin). subst x.
  assert (Hem : forall z, In z outs -> pw_emits z outs = true).
  { intros z Hz. unfold pw_emits. apply existsb_exists. exists z. split; auto. destruct z; reflexivity. }
  destruct y; simpl; auto.
  - destruct (Hnew (Hem _ Hin)) as (now & _ & Hh & _). auto.
  - destruct (Hacc (Hem _ Hin)) as [_ Hr]. auto.
  - rewrite (Hem _ Hin) in Hpanic. discriminate.
Qed.

Lemma pm_wstep_dead : forall t e o, pw_ph (pe_w e) = PWClosed -> o <> PWStop ->
  pw_ph (pe_w (fst (pm_wstep t e o))) = PWClosed /\ pe_id (fst (pm_wstep t e o)) = pe_id e /\
  Forall (fun x => match x with
                   | PMPanic _ | PMNewProxy _ _ | PMWorkAccepted _ | PMCloseProxy _ => False
                   | _ => True end) (snd (pm_wstep t e o)).
Proof.
  intros t e o Hc Ho. unfold pm_wstep.
  destruct o; simpl; unfold pw_should_send, pw_set_phase; rewrite ?Hc; try congruence;
    repeat match goal with |- context [if ?b then _ else _] => destruct b end; simpl; rewrite ?Hc;
    repeat split; auto; repeat constructor.
Qed.

Lemma pm_map_step_id_ok : forall t o next m id, o <> PWStop -> Forall (pm_entry_ok next) m ->
  let r := pm_map_step_id t m id o in
  rc_keys (fst r) = rc_keys m /\ Forall (pm_entry_ok next) (fst r) /\
  (forall n, rc_get (fst r) n = None <-> rc_get m n = None) /\
  Forall (fun x => match x with
                   | PMPanic _ => False
                   | PMNewProxy n v => exists e, In (n, e) m /\ rc_val (pe_cfg e) = v /\ pw_health (pe_w e) = 0
                   | PMWorkAccepted n => exists e, In (n, e) m /\ pw_ph (pe_w e) = PWRunning
                   | _ => True end) (snd r).
Proof.
  intros t o next m id Ho. induction m as [|[n e] r IH]; intros Hall; simpl.
  - repeat split; auto.
  - inversion Hall as [|? ? He Hr]; subst. destruct (pe_id e =? id).
    + destruct (pm_wstep_live t e o next n He Ho) as (H1 & H2 & H3 & H4).
      destruct (pm_wstep t e o) as [e' outs]. simpl in *. repeat split; auto.
      * intros Hn. destruct (n =? n0); [discriminate|auto].
      * intros Hn. destruct (n =? n0); [discriminate|auto].
      * eapply Forall_impl; [|exact H4]. intros x Hx. destruct x; auto.
        -- destruct Hx as (A & B & C). subst. exists e. auto.
        -- destruct Hx as (A & B). subst. exists e. auto.
    + destruct (IH Hr) as (I1 & I2 & I3 & I4).
      destruct (pm_map_step_id t r id o) as [r' outs]. simpl in *. repeat split; auto.
      * f_equal. exact I1.
      * intros Hn. destruct (n =? n0); [discriminate|]. apply I3. exact Hn.
      * intros Hn. destruct (n =? n0); [discriminate|]. apply I3. exact Hn.
      * eapply Forall_impl; [|exact I4]. intros x Hx. destruct x; auto.
        -- destruct Hx as (e0 & A & B). exists e0. auto.
        -- destruct Hx as (e0 & A & B). exists e0. auto.
Qed.

Lemma pm_dead_step_id_ok : forall t o next d id, o <> PWStop ->
  Forall (fun e => pw_ph (pe_w e) = PWClosed /\ pe_id e < next) d ->
  let r := pm_dead_step_id t d id o in
  Forall (fun e => pw_ph (pe_w e) = PWClosed /\ pe_id e < next) (fst r) /\
  Forall (fun x => match x with
                   | PMPanic _ | PMNewProxy _ _ | PMWorkAccepted _ | PMCloseProxy _ => False
                   | _ => True end) (snd r).
Proof.
  intros t o next d id Ho. induction d as [|e r IH]; intros Hall; simpl.
  - split; constructor.
  - inversion Hall as [|? ? [Hc Hi] Hr]; subst. destruct (pe_id e =? id).
    + destruct (pm_wstep_dead t e o Hc Ho) as (H1 & H2 & H3).
      destruct (pm_wstep t e o) as [e' outs]. simpl in *. split; auto. constructor; auto. split; auto. lia.
    + destruct (IH Hr) as [I1 I2]. destruct (pm_dead_step_id t r id o) as [r' outs]. simpl in *.
      split; auto.
Qed.

Lemma rc_keys_set_present : forall (V : Type) (m : rc_map V) k v v0,
  rc_get m k = Some v0 -> rc_keys (rc_set m k v) = rc_keys m.
Proof.
  intros V m. induction m as [|[k0 x] r IH]; intros k v v0 H; simpl in *; try discriminate.
  destruct (k0 =? k) eqn:E; simpl.
  - apply Z.eqb_eq in E. subst. reflexivity.
  - f_equal. eapply IH; eauto.
Qed.

Lemma pm_stop_all_spec : forall t next m, Forall (pm_entry_ok next) m ->
  Forall (fun e => pw_ph (pe_w e) = PWClosed /\ pe_id e < next) (fst (pm_stop_all t m)) /\
  Forall (fun x => exists n, x = PMCloseProxy n) (snd (pm_stop_all t m)).
Proof.
  intros t next m. induction m as [|[n e] r IH]; intros Hall; simpl.
  - split; constructor.
  - inversion Hall as [|? ? He Hr]; subst. rewrite (pm_wstep_stop t n e next He).
    destruct (IH Hr) as [I1 I2]. destruct (pm_stop_all t r) as [d outs]. simpl in *. split.
    + constructor; auto. destruct He as (_ & _ & Hid). simpl in *. split; auto.
    + constructor; auto. exists n. reflexivity.
Qed.

Lemma pm_single_step_inv : forall t s name e o, pm_wf s -> rc_get (pm_map s) name = Some e -> o <> PWStop ->
  let '(e', outs) := pm_wstep t e o in
  pm_wf {| pm_map := rc_set (pm_map s) name e'; pm_dead := pm_dead s; pm_next := pm_next s |} /\
  Forall (pm_out_ok s) outs.
Proof.
  intros t s name e o [[Hnd Hall] Hdead] Hg Ho.
  assert (He : pm_entry_ok (pm_next s) (name, e)).
  { rewrite Forall_forall in Hall. apply Hall. apply rc_get_in. exact Hg. }
  destruct (pm_wstep_live t e o (pm_next s) name He Ho) as (H1 & H2 & H3 & H4).
  destruct (pm_wstep t e o) as [e' outs]. simpl in *. split.
  - split; [split|]; simpl; auto.
    + rewrite (rc_keys_set_present _ _ _ _ _ Hg). exact Hnd.
    + apply pm_set_absent_forall; auto.
  - eapply Forall_impl; [|exact H4]. intros x Hx. destruct x; simpl; auto.
    + destruct Hx as (A & B & C). subst. exists e. auto.
    + destruct Hx as (A & B). subst. exists e. auto.
Qed.

(* every step from a well-formed state: well-formed again, and only admissible outputs *)
Theorem pm_step_inv : forall t s o, pm_wf s ->
  pm_wf (fst (pm_step t s o)) /\ Forall (pm_out_ok s) (snd (pm_step t s o)).
Proof.
  intros t s o Hwf. destruct o as [cfgs|id now|id h|name now re ro|name|]; simpl.
  - pose proof (pm_update_converges t s cfgs Hwf) as H.
    destruct (pm_update t s cfgs) as [[s' outs] evs]. destruct H as (H1 & _ & _ & _ & _ & H6). simpl. split; auto.
    apply Forall_forall. intros x Hx. destruct (H6 x Hx) as [n Hn]. subst x. exact I.
  - destruct Hwf as [[Hnd Hall] Hdead]. unfold pm_by_id.
    assert (Ho : PWTick now <> PWStop) by discriminate.
    destruct (pm_map_step_id_ok t (PWTick now) (pm_next s) (pm_map s) id Ho Hall) as (M1 & M2 & M3 & M4).
    destruct (pm_dead_step_id_ok t (PWTick now) (pm_next s) (pm_dead s) id Ho Hdead) as (D1 & D2).
    destruct (pm_map_step_id t (pm_map s) id (PWTick now)) as [m' o1].
    destruct (pm_dead_step_id t (pm_dead s) id (PWTick now)) as [d' o2]. simpl in *. split.
    + split; [split|]; simpl; auto. rewrite M1. exact Hnd.
    + apply Forall_app. split.
      * eapply Forall_impl; [|exact M4]. intros x Hx. destruct x; simpl; auto.
        -- destruct Hx as (e & A & B). exists e. split; auto. apply rc_in_get; auto.
        -- destruct Hx as (e & A & B). exists e. split; auto. apply rc_in_get; auto.
      * eapply Forall_impl; [|exact D2]. intros x Hx. destruct x; simpl; auto; destruct Hx.
  - destruct Hwf as [[Hnd Hall] Hdead]. unfold pm_by_id.
    assert (Ho : PWHealth h <> PWStop) by discriminate.
    destruct (pm_map_step_id_ok t (PWHealth h) (pm_next s) (pm_map s) id Ho Hall) as (M1 & M2 & M3 & M4).
    destruct (pm_dead_step_id_ok t (PWHealth h) (pm_next s) (pm_dead s) id Ho Hdead) as (D1 & D2).
    destruct (pm_map_step_id t (pm_map s) id (PWHealth h)) as [m' o1].
    destruct (pm_dead_step_id t (pm_dead s) id (PWHealth h)) as [d' o2]. simpl in *. split.
    + split; [split|]; simpl; auto. rewrite M1. exact Hnd.
    + apply Forall_app. split.
      * eapply Forall_impl; [|exact M4]. intros x Hx. destruct x; simpl; auto.
        -- destruct Hx as (e & A & B). exists e. split; auto. apply rc_in_get; auto.
        -- destruct Hx as (e & A & B). exists e. split; auto. apply rc_in_get; auto.
      * eapply Forall_impl; [|exact D2]. intros x Hx. destruct x; simpl; auto; destruct Hx.
  - destruct (rc_get (pm_map s) name) as [e|] eqn:Hg; simpl.
    + assert (Ho : PWResp now re ro <> PWStop) by discriminate.
      pose proof (pm_single_step_inv t s name e _ Hwf Hg Ho) as H.
      destruct (pm_wstep t e (PWResp now re ro)) as [e' outs]. simpl. exact H.
    + split; auto. constructor; simpl; auto.
  - destruct (rc_get (pm_map s) name) as [e|] eqn:Hg; simpl.
    + assert (Ho : PWWork <> PWStop) by discriminate.
      pose proof (pm_single_step_inv t s name e _ Hwf Hg Ho) as H.
      destruct (pm_wstep t e PWWork) as [e' outs]. simpl. exact H.
    + split; auto. constructor; simpl; auto.
  - destruct Hwf as [[Hnd Hall] Hdead].
    destruct (pm_stop_all_spec t (pm_next s) (pm_map s) Hall) as [S1 S2].
    destruct (pm_stop_all t (pm_map s)) as [d outs]. simpl in *. split.
    + split; [split; simpl; constructor|]. simpl. apply Forall_app. split; auto.
    + eapply Forall_impl; [|exact S2]. intros x [n Hx]. subst. exact I.
Qed.

(* every history from the initial manager: well-formed at the end; at every step only admissible
   outputs — in particular never a second Stop of a wrapper (PMPanic), never a NewProxy for a name
   that is not in the table with that configuration and a healthy flag, never a work connection
   handed to anything but a running wrapper in the table *)
Fixpoint pm_outs_ok (t : pw_timing) (s : pm_state) (ops : list pm_op) : Prop :=
  match ops with
  | [] => True
  | o :: r => Forall (pm_out_ok s) (snd (pm_step t s o)) /\ pm_outs_ok t (fst (pm_step t s o)) r
  end.

Theorem pm_history_inv : forall t ops s, pm_wf s ->
  pm_wf (fst (pm_run t s ops)) /\ pm_outs_ok t s ops.
Proof.
  intros t ops. induction ops as [|o r IH]; intros s Hwf; simpl.
  - auto.
  - destruct (pm_step_inv t s o Hwf) as [H1 H2].
    destruct (pm_step t s o) as [s1 out] eqn:E. simpl in *.
    destruct (IH s1 H1) as [I1 I2]. destruct (pm_run t s1 r) as [s2 outs]. simpl in *. auto.
Qed.

(* ---- the wrapper never writes into the configuration it was given ---- *)
Lemma pm_wstep_keeps_cfg : forall t e o,
  pe_cfg (fst (pm_wstep t e o)) = pe_cfg e /\ pe_id (fst (pm_wstep t e o)) = pe_id e.
Proof. intros t e o. unfold pm_wstep. destruct (pw_step t (pe_w e) o); split; reflexivity. Qed.

Lemma pm_map_step_id_cfg : forall t m id o n e',
  rc_get (fst (pm_map_step_id t m id o)) n = Some e' ->
  exists e, rc_get m n = Some e /\ pe_cfg e' = pe_cfg e /\ pe_id e' = pe_id e.
Proof.
  intros t m id o. induction m as [|[k e] r IH]; intros n e' H; simpl in *; try discriminate.
  destruct (pe_id e =? id).
  - destruct (pm_wstep_keeps_cfg t e o) as [Hc Hi]. destruct (pm_wstep t e o) as [e1 outs]. simpl in *.
    destruct (k =? n).
    + inversion H; subst. exists e. auto.
    + exists e'. auto.
  - destruct (pm_map_step_id t r id o) as [r' outs] eqn:E. simpl in *. destruct (k =? n).
    + inversion H; subst. exists e'. auto.
    + apply IH. exact H.
Qed.

(* after any step every table entry either was there before with the same configuration value and
   identity, or holds exactly the (first) configuration value of that name just loaded by UpdateAll *)
Theorem pm_step_keeps_cfg : forall t s o, pm_wf s ->
  forall n e', rc_get (pm_map (fst (pm_step t s o))) n = Some e' ->
  (exists e, rc_get (pm_map s) n = Some e /\ pe_cfg e' = pe_cfg e /\ pe_id e' = pe_id e) \/
  (exists cfgs, o = PMUpdate cfgs /\ rc_first cfgs n = Some (pe_cfg e')).
Proof.
  intros t s o Hwf n e' H. destruct o as [cfgs|id now|id h|name now re ro|name|]; simpl in H.
  - pose proof (pm_update_converges t s cfgs Hwf) as Hc.
    destruct (pm_update t s cfgs) as [[s' outs] evs]. simpl in H.
    destruct Hc as (_ & _ & C3 & C4 & _). right. exists cfgs. split; auto.
  - left. unfold pm_by_id in H.
    pose proof (pm_map_step_id_cfg t (pm_map s) id (PWTick now) n e') as Hm.
    destruct (pm_map_step_id t (pm_map s) id (PWTick now)) as [m' o1].
    destruct (pm_dead_step_id t (pm_dead s) id (PWTick now)) as [d' o2]. simpl in *. auto.
  - left. unfold pm_by_id in H.
    pose proof (pm_map_step_id_cfg t (pm_map s) id (PWHealth h) n e') as Hm.
    destruct (pm_map_step_id t (pm_map s) id (PWHealth h)) as [m' o1].
    destruct (pm_dead_step_id t (pm_dead s) id (PWHealth h)) as [d' o2]. simpl in *. auto.
  - left. destruct (rc_get (pm_map s) name) as [e|] eqn:Hg; simpl in H.
    + destruct (pm_wstep_keeps_cfg t e (PWResp now re ro)) as [Hc Hi].
      destruct (pm_wstep t e (PWResp now re ro)) as [e1 outs]. simpl in *.
      destruct (name =? n) eqn:E.
      * apply Z.eqb_eq in E. subst n. rewrite rc_get_set_same in H. inversion H; subst. exists e. auto.
      * rewrite rc_get_set_other in H; [exists e'; auto|]. intros Heq. subst. rewrite Z.eqb_refl in E. discriminate.
    + exists e'. auto.
  - left. destruct (rc_get (pm_map s) name) as [e|] eqn:Hg; simpl in H.
    + destruct (pm_wstep_keeps_cfg t e PWWork) as [Hc Hi].
      destruct (pm_wstep t e PWWork) as [e1 outs]. simpl in *.
      destruct (name =? n) eqn:E.
      * apply Z.eqb_eq in E. subst n. rewrite rc_get_set_same in H. inversion H; subst. exists e. auto.
      * rewrite rc_get_set_other in H; [exists e'; auto|]. intros Heq. subst. rewrite Z.eqb_refl in E. discriminate.
    + exists e'. auto.
  - destruct (pm_stop_all t (pm_map s)) as [d outs]. simpl in H. discriminate.
Qed.

Lemma pm_stored_cfg_history_gen : forall t (L : Z -> rc_cfg -> Prop) ops s, pm_wf s ->
  (forall n e, rc_get (pm_map s) n = Some e -> L n (pe_cfg e)) ->
  (forall cfgs n c, In (PMUpdate cfgs) ops -> rc_first cfgs n = Some c -> L n c) ->
  forall n e, rc_get (pm_map (fst (pm_run t s ops))) n = Some e -> L n (pe_cfg e).
Proof.
  intros t L ops. induction ops as [|o r IH]; intros s Hwf Hs Hl n e H; simpl in H.
  - apply Hs; auto.
  - destruct (pm_step_inv t s o Hwf) as [Hwf1 _].
    pose proof (pm_step_keeps_cfg t s o Hwf) as Hk.
    destruct (pm_step t s o) as [s1 out] eqn:E. simpl in *.
    assert (Hs1 : forall n0 e0, rc_get (pm_map s1) n0 = Some e0 -> L n0 (pe_cfg e0)).
    { intros n0 e0 Hg. destruct (Hk n0 e0 Hg) as [(e1 & A & B & _)|(cfgs & A & B)].
      - rewrite B. apply Hs; auto.
      - subst o. apply (Hl cfgs n0); [left; reflexivity|exact B]. }
    specialize (IH s1 Hwf1 Hs1). destruct (pm_run t s1 r) as [s2 outs]. simpl in *.
    apply IH; auto. intros cfgs n0 c Hin. apply Hl. right; assumption.
Qed.

(* over every history: the configuration value a wrapper holds is one that UpdateAll was given for
   that name (the first entry of the name in some loaded set) — no operation of the wrapper or the
   manager ever produces a different value *)
Theorem pm_stored_cfg_history : forall t ops n e,
  rc_get (pm_map (fst (pm_run t pm_init ops))) n = Some e ->
  exists cfgs, In (PMUpdate cfgs) ops /\ rc_first cfgs n = Some (pe_cfg e).
Proof.
  intros t ops n e H.
  apply (pm_stored_cfg_history_gen t (fun n c => exists cfgs, In (PMUpdate cfgs) ops /\ rc_first cfgs n = Some c)
           ops pm_init pm_wf_init); auto.
  - intros n0 e0 H0. discriminate.
  - intros cfgs n0 c Hin Hf. exists cfgs. auto.
Qed.
