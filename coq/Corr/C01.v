(* C01 correspondence: observations of the real limit.Reader/Writer, rate.Limiter and of whole tunnels
   (in-process frps + real frpc) against the model, and the property monitors on observed traces. *)
From FRP Require Export Corr.Common Model.Limit Model.Bucket Model.Stack Model.Bridge Model.Bandwidth gen.GenStacks.
Open Scope string_scope.
Open Scope list_scope.
Open Scope Z_scope.

Inductive case :=
(* real limit.Writer.Write(p) with burst b over a recording sink: returned count, inner writes *)
| CLimW (b : Z) (p : bytes) (n : Z) (inner : list bytes)
(* real limit.Reader with burst b over a scripted source holding s: reads (buffer length, source offer),
   slices returned, EOF seen *)
| CLimR (b : Z) (s : bytes) (reads : list (Z * Z)) (outs : list bytes) (eof : bool)
(* real rate.Limiter (rate, burst): ReserveN at scripted times (ns, n): act times in ns (-1 = refused) *)
| CBucket (rate burst : Z) (reqs : list (Z * Z)) (acts : list Z) (tol : Z)
(* real limit.Writer/Reader with a real clock: (time the bytes were passed on in ns, n); slack in bytes *)
| CRate (rate burst : Z) (evs : list (Z * Z)) (slack : Z)
(* the real vhost https / tcpmux muxer with a short sniffing timeout: kind (0 https, 1 tcpmux, 2 tcpmux with
   passthrough), routed connection shared (SharedConn) or raw, everything the user sent, length of the
   sniffed head, everything read from the routed connection, age of the connection when it was used,
   the muxer's timeout, did the write towards the user succeed, did the user receive it unchanged *)
| CMux (kind : Z) (shared : bool) (sent : bytes) (headlen : Z) (got : bytes) (age_ms timeout_ms : Z) (write_ok down_eq : bool)
(* the real tcpmux muxer (passthrough off), a backend that speaks first (writes [down] to the routed connection
   the moment it gets it) and a muxer goroutine whose write of the CONNECT answer is held back for delay_ms:
   everything the user received *)
| CMuxFirst (delay_ms : Z) (down : bytes) (user_got : bytes)
(* tcpMux on, one side writes [sent] bytes and closes at once, the other side drains through a bandwidth limit of
   [rate] B/s (dir 0: upload, client-side limit; 1: download, server-side limit): bytes the reader got before its
   end of stream, were they identical, was it a clean EOF *)
| CDrain (dir : Z) (limit : bytes) (sent got : Z) (identical eof : bool) (elapsed_ms : Z)
(* the real types.NewBandwidthQuantity on a configured string: accepted?, bytes *)
| CBw (s : bytes) (ok : bool) (n : Z)
(* stcp through a visitor whose frps->visitor traffic is batched by a relay (handshake answer and first tunnel bytes
   arrive in one read), backend speaks first: first banner as received; then the stream idles longer than the
   visitor's handshake deadline and the backend sends a second banner *)
| CVisitor (enc comp : bool) (banner1 got1 : bytes) (idle_ms : Z) (banner2 got2 : bytes)
(* one user connection through a real tunnel *)
| CTunnel (cfg : string)
    (proxies : list (string * Z * Z))      (* proxy name, public endpoint id, backend id *)
    (endpoint : Z) (reached : Z)           (* endpoint the user connected to, backend that got its stream (-1 none) *)
    (ppver : string) (usrc udst : br_addr) (* proxy-protocol version, user's source and destination address as frps saw them *)
    (hdr : bytes)                          (* bytes the backend received before the user's first byte *)
    (up_sent up_recv down_sent down_recv : Z) (up_eq down_eq : bool)   (* lengths and byte equality of both directions *)
    (up_head down_head : bytes * bytes)    (* first bytes sent / received, both directions *)
    (mode : Z) (complete_then_eof : bool)  (* 0 user closes last, 1 backend closes last, 2 half-close up, 3 half-close down *)
    (close_ms bound_ms : Z)                (* time until the other end saw the close (-1 never within the bound) *)
    (rate burst total elapsed_ms : Z).     (* limiter (0 = none), bytes through it both directions, time they took *)

Fixpoint chunks_eqb (a b : list bytes) : bool :=
  match a, b with
  | [], [] => true
  | x :: a', y :: b' => bytes_eqb x y && chunks_eqb a' b'
  | _, _ => false
  end.

Fixpoint acts_close (tol : Z) (m : list (Z * Z)) (o : list Z) : bool :=
  match m, o with
  | [], [] => true
  | (a, _) :: m', x :: o' => (Z.abs (a - x) <=? tol) && acts_close tol m' o'
  | _, _ => false
  end.

(* the bucket bound on an observed trace: for every j <= i the bytes passed on from event j to event i
   are at most burst + rate * (t_i - t_j) + slack *)
Fixpoint bound_from (rate burst slack tj : Z) (acc : Z) (l : list (Z * Z)) : bool :=
  match l with
  | [] => true
  | (ti, ni) :: r =>
      let acc' := acc + ni in
      (BK_G * acc' <=? BK_G * (burst + slack) + rate * (ti - tj) + rate) && bound_from rate burst slack tj acc' r
  end.
Fixpoint bound_all (rate burst slack : Z) (l : list (Z * Z)) : bool :=
  match l with
  | [] => true
  | (tj, nj) :: r => bound_from rate burst slack tj 0 l && bound_all rate burst slack r
  end.

Definition C01_rate_holds := bound_all.

Definition predicted_header (ppver : string) (usrc udst : br_addr) : option bytes :=
  match br_client_header ppver {| sw_name := ""; sw_src := Some usrc; sw_dst := Some udst |} with
  | PPNone => Some []
  | PPHeader h => Some h
  | PPError => None
  end.

Definition predicted_backend (proxies : list (string * Z * Z)) (endpoint : Z) : option Z :=
  match br_bridge (map (fun x => match x with (n, e, _) => (e, n) end) proxies)
                  (map (fun x => match x with (n, _, b) => (n, b) end) proxies)
                  0 [(0, true)] endpoint localhost localhost localhost localhost with
  | Some (_, b, _) => Some b
  | None => None
  end.

Definition head_ok (h : bytes * bytes) : bool := bytes_eqb (fst h) (snd h).

(* 0 = model and implementation agree and the property holds on the observation *)
Definition check_case (c : case) : Z :=
  match c with
  | CLimW b p n inner =>
      match limit_write_full b p with
      | Some (n', l) => if negb (n' =? n) then 1 else if chunks_eqb l inner then 0 else 2
      | None => 3
      end
  | CLimR b s reads outs eof =>
      let '(o, e, _) := limit_read_seq b s reads in
      if negb (chunks_eqb o outs) then 4 else if Bool.eqb e eof then 0 else 5
  | CBucket rate burst reqs acts tol =>
      match bk_run rate burst bk_init reqs with
      | Some m => if acts_close tol m acts then 0 else 6
      | None => if existsb (fun a => a =? -1) acts then 0 else 7
      end
  | CRate rate burst evs slack => if C01_rate_holds rate burst slack evs then 0 else 8
  | CMux _ shared sent headlen got _ _ write_ok down_eq =>
      (* the sniffer consumes the head (however segmented); afterwards the proxy reads everything *)
      let st := sc_handover shared (sc_sniff (sc_new sent) [(headlen, headlen)]) in
      let r := sc_reads st [(blen sent, blen sent); (blen sent, blen sent)] in
      if negb (bytes_eqb (List.concat (fst r)) got) then 30
      else if negb write_ok then 31 else if negb down_eq then 32 else 0
  | CMuxFirst _ down user_got =>
      (* whatever the schedule, the user's stream is the answer followed by the backend's bytes *)
      if bytes_eqb user_got (resp_bytes connect_ok_response (mux_prog_of muxer_handle_events) ++ down) then 0 else 33
  | CDrain _ limit sent got identical eof elapsed_ms =>
      match bw_parse limit with
      | BwOk rate =>
          if rate <=? 0 then 42
          else
            let inflight := Z.min sent 6291456 in
            if drain_delivered yamux_default_close_timeout_ms rate inflight =? inflight then
              if negb ((got =? sent) && identical && eof) then 40
              (* the limiter made from the configured string really throttled: sent - burst bytes need (sent - burst) / rate *)
              else if negb (1000 * (sent - rate) <=? rate * elapsed_ms + rate * elapsed_ms / 4 + 1000 * 65536) then 41
              else 0
            else 0   (* the model itself predicts a truncation for this rate (below window / StreamCloseTimeout) *)
      | _ => 42
      end
  | CBw s ok n =>
      match bw_parse s with
      | BwOk b => if ok && (n =? b) then 0 else 50
      | BwErr => if ok then 51 else 0
      | BwOutside => 0
      end
  | CVisitor _ _ banner1 got1 _ banner2 got2 =>
      if negb (bytes_eqb banner1 got1) then 60 else if negb (bytes_eqb banner2 got2) then 61 else 0
  | CTunnel _ proxies endpoint reached ppver usrc udst hdr us ur ds dr ueq deq uh dh mode cte close_ms bound_ms rate burst total elapsed_ms =>
      match predicted_backend proxies endpoint with
      | None => 20
      | Some b =>
          if negb (b =? reached) then 21
          else match predicted_header ppver usrc udst with
               | None => 22
               | Some h =>
                   if negb (bytes_eqb h hdr) then 23
                   else if negb (ueq && (us =? ur) && head_ok uh) then 24
                   else if negb (deq && (ds =? dr) && head_ok dh) then 25
                   else if negb cte then 26
                   else if (close_ms <? 0) || (bound_ms <? close_ms) then 27
                   else if (0 <? rate) && negb (1000 * (total - burst) <=? rate * elapsed_ms + rate * elapsed_ms / 4 + 1000 * 65536) then 28
                   else 0
               end
      end
  end.

Definition is_tunnel (c : case) : bool := match c with CTunnel _ _ _ _ _ _ _ _ _ _ _ _ _ _ _ _ _ _ _ _ _ _ _ _ => true | _ => false end.
Definition has_header (c : case) : bool :=
  match c with CTunnel _ _ _ _ _ _ _ (_ :: _) _ _ _ _ _ _ _ _ _ _ _ _ _ _ _ _ => true | _ => false end.
Definition is_aged_mux (c : case) : bool :=
  match c with CMux _ _ _ _ _ age timeout _ _ => timeout <? age | _ => false end.
(* finding F-C01c evaluated over TODAY's translated yamux configuration: is the configuration the one the model
   assumes, what is the lowest drain rate (B/s) that still gets a full window through before StreamCloseTimeout,
   and does the recorded witness (8 KB/s, 4 MiB written and closed) lose its tail *)
Definition yamux_window : Z := fold_right (fun x acc => match x with (_, _, w) => Z.max w acc end) 0 yamux_window_bytes.
Definition yamux_cfg_today_ok : bool := yamux_cfg_ok yamux_cfg_sites yamux_window_bytes yamux_default_close_timeout_ms.
Definition yamux_safe_rate : Z :=
  if 0 <? yamux_default_close_timeout_ms
  then (yamux_window * 1000 + yamux_default_close_timeout_ms - 1) / yamux_default_close_timeout_ms else -1.
Definition slow_receiver_witness_truncates : bool :=
  drain_delivered yamux_default_close_timeout_ms 8192 4194304 <? 4194304.

Definition is_first (c : case) : bool := match c with CMuxFirst _ _ _ => true | _ => false end.
Definition is_drain (c : case) : bool := match c with CDrain _ _ _ _ _ _ _ => true | _ => false end.
Definition is_visitor (c : case) : bool := match c with CVisitor _ _ _ _ _ _ _ => true | _ => false end.
Definition is_fraction (c : case) : bool :=
  match c with CBw s true n => match bw_parse s with BwOk b => (0 <? b) && existsb (fun x => Z_of_byte x =? 46) s | _ => false end | _ => false end.
Definition is_split (c : case) : bool :=
  match c with CLimW _ _ _ (_ :: _ :: _) => true | _ => false end.
Definition is_waiting (c : case) : bool :=
  match c with
  | CBucket rate burst reqs _ _ =>
      match bk_run rate burst bk_init reqs with
      | Some m => existsb (fun x => match x with ((a, _), (t, _)) => t <? a end) (combine m reqs)
      | None => false
      end
  | _ => false
  end.
