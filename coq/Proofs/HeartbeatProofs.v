(* Proofs about Model/Heartbeat.v (server and client watchdogs) and the tick schedule of wait.Until. *)
From Coq Require Import ZArith List Bool Lia.
From FRP Require Import Model.Heartbeat Model.Backoff.
Import ListNotations.
Open Scope Z_scope.

(* ------------------------------------------------------------------ *)
(* specification vocabulary                                            *)
(* ------------------------------------------------------------------ *)

(* the instants at which the watchdog callback ran in a history *)
Fixpoint hb_tick_times (evs : list hb_ev) : list Z :=
  match evs with
  | [] => []
  | HTick now :: r => now :: hb_tick_times r
  | _ :: r => hb_tick_times r
  end.

Fixpoint hc_tick_times (evs : list hc_ev) : list Z :=
  match evs with
  | [] => []
  | CTick now :: r => now :: hc_tick_times r
  | _ :: r => hc_tick_times r
  end.

(* clock readings never go backwards along the history, and start at or after [lo] *)
Fixpoint hb_sorted (lo : Z) (evs : list hb_ev) : Prop :=
  match evs with
  | [] => True
  | HTick now :: r => lo <= now /\ hb_sorted now r
  | HValidPing now :: r => lo <= now /\ hb_sorted now r
  | HInvalidPing :: r => hb_sorted lo r
  end.

Fixpoint hc_sorted (lo : Z) (evs : list hc_ev) : Prop :=
  match evs with
  | [] => True
  | CTick now :: r => lo <= now /\ hc_sorted now r
  | CPong now :: r => lo <= now /\ hc_sorted now r
  | CPongErr :: r => hc_sorted lo r
  end.

(* "valid heartbeats with gaps <= T": every run of the watchdog happens within T of the session
   start or of a valid heartbeat that precedes it in the history *)
Definition hb_covered (T start : Z) (evs : list hb_ev) : Prop :=
  forall e1 now e2, evs = e1 ++ HTick now :: e2 ->
    exists a, (a = start \/ In (HValidPing a) e1) /\ now - a <= T * hb_sec.

Definition hc_covered (T start : Z) (evs : list hc_ev) : Prop :=
  forall e1 now e2, evs = e1 ++ CTick now :: e2 ->
    exists a, (a = start \/ In (CPong a) e1) /\ now - a <= T * hb_sec.

Definition hb_not_invalid (e : hb_ev) : bool :=
  match e with HInvalidPing => false | _ => true end.

(* ------------------------------------------------------------------ *)
(* server                                                              *)
(* ------------------------------------------------------------------ *)

Lemma hb_srv_run_app : forall T a b s,
  hb_srv_run T s (a ++ b) = hb_srv_run T (hb_srv_run T s a) b.
Proof. intros. unfold hb_srv_run. apply fold_left_app. Qed.

Lemma hb_srv_closed_step : forall T s e,
  hs_closed s = true -> fst (hb_srv_step T s e) = s.
Proof. intros T s e H. unfold hb_srv_step. rewrite H. reflexivity. Qed.

Lemma hb_srv_closed_absorbing : forall T evs s,
  hs_closed s = true -> hs_closed (hb_srv_run T s evs) = true.
Proof.
  induction evs as [|e r IH]; intros s H; simpl; auto.
  unfold hb_srv_run in *. simpl. rewrite hb_srv_closed_step by exact H. apply IH. exact H.
Qed.

(* silence: while no valid heartbeat later than t0 arrives, lastPing stays <= t0 (or the session is closed) *)
Lemma hb_srv_silent_inv : forall T t0 evs s,
  (hs_closed s = true \/ hs_last s <= t0) ->
  (forall t, In (HValidPing t) evs -> t <= t0) ->
  let s' := hb_srv_run T s evs in hs_closed s' = true \/ hs_last s' <= t0.
Proof.
  intros T t0. induction evs as [|e r IH]; intros s Hs Hp; simpl; auto.
  unfold hb_srv_run. simpl. apply IH.
  - destruct Hs as [Hc|Hl].
    + left. rewrite hb_srv_closed_step by exact Hc. exact Hc.
    + unfold hb_srv_step. destruct (hs_closed s) eqn:Ec; [left; exact Ec|].
      destruct e as [now|now|]; simpl.
      * destruct (T <=? 0); [right; exact Hl|].
        destruct (now - hs_last s >? T * hb_sec); simpl; [left; reflexivity|right; exact Hl].
      * right. apply Hp. left. reflexivity.
      * right. exact Hl.
  - intros t Ht. apply Hp. right. exact Ht.
Qed.

Lemma hb_srv_silent_prefix : forall T t0 s e1 now,
  T > 0 -> hs_last s <= t0 ->
  (forall t, In (HValidPing t) e1 -> t <= t0) ->
  t0 + T * hb_sec < now ->
  hs_closed (hb_srv_run T s (e1 ++ [HTick now])) = true.
Proof.
  intros T t0 s e1 now HT Hl Hp Hn.
  rewrite hb_srv_run_app.
  pose proof (hb_srv_silent_inv T t0 e1 s (or_intror Hl) Hp) as H. simpl in H.
  set (s1 := hb_srv_run T s e1) in *.
  unfold hb_srv_run. simpl. unfold hb_srv_step.
  destruct (hs_closed s1) eqn:Ec; [exact Ec|].
  destruct H as [H|H]; [congruence|].
  destruct (T <=? 0) eqn:E0; [apply Z.leb_le in E0; lia|].
  destruct (now - hs_last s1 >? T * hb_sec) eqn:E1; [reflexivity|].
  rewrite Z.gtb_ltb in E1. apply Z.ltb_ge in E1. lia.
Qed.

Lemma hb_tick_times_in : forall evs now, In now (hb_tick_times evs) -> In (HTick now) evs.
Proof.
  induction evs as [|e r IH]; simpl; intros now H; [contradiction|].
  destruct e; simpl in H.
  - destruct H as [H|H]; [left; congruence|right; auto].
  - right; auto.
  - right; auto.
Qed.

(* wait.Until: the callback runs at [start] and then again [period] after each run returned;
   if one run takes at most [g], consecutive runs are at most period+g apart, hence every
   instant [lo] at or after the first run, and before the last, is followed by a run within period+g *)
Lemma until_ticks_dense : forall period g execs start lo,
  Forall (fun e => 0 <= e <= g) execs ->
  start <= lo ->
  (exists t, In t (until_ticks period start execs) /\ lo < t) ->
  exists t, In t (until_ticks period start execs) /\ lo < t <= lo + period + g.
Proof.
  intros period g. induction execs as [|e r IH]; intros start lo Hf Hs [t [Hin Hlt]].
  - simpl in Hin. destruct Hin as [H|[]]. lia.
  - simpl in Hin. inversion Hf as [|x l He Hr]; subst.
    destruct (Z_lt_dec lo (start + e + period)) as [Hd|Hd].
    + exists (start + e + period). split.
      * simpl. right. destruct r; simpl; auto.
      * lia.
    + destruct Hin as [H|H]; [lia|].
      destruct (IH (start + e + period) lo Hr ltac:(lia) (ex_intro _ t (conj H Hlt))) as [t' [Hi' Hb']].
      exists t'. split; [simpl; right; exact Hi'|exact Hb'].
Qed.

Theorem hb_srv_silent_within : forall T g t0 start execs s evs,
  T > 0 -> 0 <= g ->
  Forall (fun e => 0 <= e <= g) execs ->
  hb_tick_times evs = until_ticks hb_period start execs ->
  hs_last s <= t0 -> start <= t0 + T * hb_sec ->
  (forall t, In (HValidPing t) evs -> t <= t0) ->
  (exists t, In t (hb_tick_times evs) /\ t0 + T * hb_sec < t) ->
  exists e1 now e2,
    evs = e1 ++ HTick now :: e2 /\
    t0 + T * hb_sec < now <= t0 + T * hb_sec + hb_period + g /\
    hs_closed (hb_srv_run T s (e1 ++ [HTick now])) = true /\
    hs_closed (hb_srv_run T s evs) = true.
Proof.
  intros T g t0 start execs s evs HT Hg Hf Hticks Hl Hstart Hp Hex.
  rewrite Hticks in Hex.
  destruct (until_ticks_dense hb_period g execs start (t0 + T * hb_sec) Hf Hstart Hex) as [now [Hin Hb]].
  rewrite <- Hticks in Hin. apply hb_tick_times_in in Hin.
  destruct (in_split _ _ Hin) as [e1 [e2 He]].
  exists e1, now, e2. split; [exact He|]. split; [exact Hb|].
  assert (Hc : hs_closed (hb_srv_run T s (e1 ++ [HTick now])) = true).
  { apply hb_srv_silent_prefix with (t0 := t0); try lia; auto.
    intros t Ht. apply Hp. rewrite He. apply in_or_app. left. exact Ht. }
  split; [exact Hc|].
  rewrite He. replace (e1 ++ HTick now :: e2) with ((e1 ++ [HTick now]) ++ e2)
    by (rewrite <- app_assoc; reflexivity).
  rewrite hb_srv_run_app. apply hb_srv_closed_absorbing. exact Hc.
Qed.

(* liveness: operational form *)
Fixpoint hb_live (T l : Z) (evs : list hb_ev) : Prop :=
  match evs with
  | [] => True
  | HTick now :: r => now - l <= T * hb_sec /\ hb_live T l r
  | HValidPing now :: r => hb_live T now r
  | HInvalidPing :: r => hb_live T l r
  end.

Lemma hb_srv_live_inv : forall T evs s,
  hs_closed s = false -> hb_live T (hs_last s) evs ->
  hs_closed (hb_srv_run T s evs) = false.
Proof.
  intros T. induction evs as [|e r IH]; intros s Hc Hl; simpl; auto.
  assert (H : hs_closed (fst (hb_srv_step T s e)) = false /\
              hb_live T (hs_last (fst (hb_srv_step T s e))) r).
  { unfold hb_srv_step. rewrite Hc.
    destruct e as [now|now|]; simpl in Hl.
    - destruct Hl as [Hb Hr].
      destruct (T <=? 0); simpl; [auto|].
      destruct (now - hs_last s >? T * hb_sec) eqn:E1; simpl; [|auto].
      rewrite Z.gtb_ltb in E1. apply Z.ltb_lt in E1. lia.
    - simpl. auto.
    - simpl. auto. }
  destruct H as [H1 H2]. unfold hb_srv_run in *. simpl. apply IH; auto.
Qed.

Lemma hb_covered_live : forall T evs start,
  hb_sorted start evs -> hb_covered T start evs -> hb_live T start evs.
Proof.
  intros T. induction evs as [|e r IH]; intros start Hs Hc; simpl; auto.
  destruct e as [now|now|]; simpl in Hs.
  - destruct Hs as [Hlo Hs]. split.
    + destruct (Hc [] now r eq_refl) as [a [[Ha|[]] Hb]]. subst. exact Hb.
    + apply IH.
      * clear -Hs Hlo. revert Hs. generalize dependent now. revert start.
        induction r as [|e r IHr]; intros start now Hlo Hs; simpl; auto.
        destruct e as [n|n|]; simpl in *.
        -- destruct Hs. split; [lia|auto].
        -- destruct Hs. split; [lia|auto].
        -- eapply IHr; eauto.
      * intros e1 n e2 He. destruct (Hc (HTick now :: e1) n e2) as [a [Ha Hb]].
        { rewrite He. reflexivity. }
        exists a. split; [|exact Hb].
        destruct Ha as [Ha|[Ha|Ha]]; [left; exact Ha|discriminate|right; exact Ha].
  - destruct Hs as [Hlo Hs]. apply IH; [exact Hs|].
    intros e1 n e2 He. destruct (Hc (HValidPing now :: e1) n e2) as [a [Ha Hb]].
    { rewrite He. reflexivity. }
    destruct Ha as [Ha|[Ha|Ha]].
    + subst a. exists now. split; [left; reflexivity|lia].
    + inversion Ha; subst. exists a. split; [left; reflexivity|exact Hb].
    + exists a. split; [right; exact Ha|exact Hb].
  - apply IH; [exact Hs|].
    intros e1 n e2 He. destruct (Hc (HInvalidPing :: e1) n e2) as [a [Ha Hb]].
    { rewrite He. reflexivity. }
    exists a. split; [|exact Hb].
    destruct Ha as [Ha|[Ha|Ha]]; [left; exact Ha|discriminate|right; exact Ha].
Qed.

Theorem hb_srv_live_never_closed : forall T s evs,
  hs_closed s = false ->
  hb_sorted (hs_last s) evs ->
  hb_covered T (hs_last s) evs ->
  hs_closed (hb_srv_run T s evs) = false.
Proof.
  intros. apply hb_srv_live_inv; auto. apply hb_covered_live; auto.
Qed.

(* every prefix of a live history is live as well: never closed at any moment *)
Lemma hb_covered_prefix : forall T start a b, hb_covered T start (a ++ b) -> hb_covered T start a.
Proof.
  intros T start a b H e1 now e2 He. apply (H e1 now (e2 ++ b)).
  rewrite He. rewrite <- app_assoc. reflexivity.
Qed.

Lemma hb_sorted_prefix : forall a b lo, hb_sorted lo (a ++ b) -> hb_sorted lo a.
Proof.
  induction a as [|e r IH]; intros b lo H; simpl; auto.
  destruct e; simpl in *; try (destruct H; split; eauto); eauto.
Qed.

Theorem hb_srv_live_never_closed_prefix : forall T s a b,
  hs_closed s = false ->
  hb_sorted (hs_last s) (a ++ b) ->
  hb_covered T (hs_last s) (a ++ b) ->
  hs_closed (hb_srv_run T s a) = false.
Proof.
  intros. apply hb_srv_live_never_closed; auto.
  - eapply hb_sorted_prefix; eauto.
  - eapply hb_covered_prefix; eauto.
Qed.

(* an invalid ping is answered with an error Pong and changes nothing *)
Lemma hb_srv_invalid_step : forall T s,
  fst (hb_srv_step T s HInvalidPing) = s /\
  (hs_closed s = false -> snd (hb_srv_step T s HInvalidPing) = HOPongErr).
Proof.
  intros. unfold hb_srv_step. destruct (hs_closed s); simpl; split; auto; discriminate.
Qed.

Theorem hb_srv_invalid_erasable : forall T evs s,
  hb_srv_run T s evs = hb_srv_run T s (filter hb_not_invalid evs).
Proof.
  intros T. induction evs as [|e r IH]; intros s; simpl; auto.
  destruct e; simpl; unfold hb_srv_run in *; simpl; try apply IH.
  rewrite (proj1 (hb_srv_invalid_step T s)). apply IH.
Qed.

(* heartbeat disabled: the watchdog never closes anything *)
Theorem hb_srv_disabled_never_closes : forall T evs s,
  T <= 0 -> hs_closed s = false -> hs_closed (hb_srv_run T s evs) = false.
Proof.
  intros T. induction evs as [|e r IH]; intros s HT Hc; simpl; auto.
  unfold hb_srv_run. simpl. apply IH; auto.
  unfold hb_srv_step. rewrite Hc. destruct e; simpl; auto.
  destruct (T <=? 0) eqn:E; simpl; auto. apply Z.leb_gt in E. lia.
Qed.

(* which configurations enable the server watchdog *)
Theorem hb_server_enabled_iff : forall tcpmux t,
  hb_server_default tcpmux t > 0 <-> (t > 0 \/ (t = 0 /\ tcpmux = false)).
Proof.
  intros tcpmux t. unfold hb_server_default, hb_empty_or.
  destruct tcpmux; destruct (Z.eqb_spec t 0) as [E|E]; split; intros H; try lia;
    try (destruct H as [H|[H1 H2]]; try lia; discriminate); auto.
Qed.

Theorem hb_client_enabled_iff : forall tcpmux i t,
  (fst (hb_client_default tcpmux i t) > 0 /\ snd (hb_client_default tcpmux i t) > 0) <->
  ((i > 0 \/ (i = 0 /\ tcpmux = false)) /\ (t > 0 \/ (t = 0 /\ tcpmux = false))).
Proof.
  intros tcpmux i t. unfold hb_client_default, hb_empty_or.
  destruct tcpmux; destruct (Z.eqb_spec t 0) as [E|E]; destruct (Z.eqb_spec i 0) as [E2|E2];
    simpl; split; intros H; try lia;
    try (destruct H as [[H1|[H1 H1']] [H2|[H2 H2']]]; try lia; try discriminate); auto.
Qed.

(* ------------------------------------------------------------------ *)
(* client: the same rule, plus "a Pong carrying an error closes"       *)
(* ------------------------------------------------------------------ *)

Lemma hb_cli_run_app : forall I T a b s,
  hb_cli_run I T s (a ++ b) = hb_cli_run I T (hb_cli_run I T s a) b.
Proof. intros. unfold hb_cli_run. apply fold_left_app. Qed.

Lemma hb_cli_closed_step : forall I T s e,
  hc_closed s = true -> fst (hb_cli_step I T s e) = s.
Proof. intros I T s e H. unfold hb_cli_step. rewrite H. reflexivity. Qed.

Lemma hb_cli_closed_absorbing : forall I T evs s,
  hc_closed s = true -> hc_closed (hb_cli_run I T s evs) = true.
Proof.
  induction evs as [|e r IH]; intros s H; simpl; auto.
  unfold hb_cli_run in *. simpl. rewrite hb_cli_closed_step by exact H. apply IH. exact H.
Qed.

Lemma hb_cli_silent_inv : forall I T t0 evs s,
  (hc_closed s = true \/ hc_last s <= t0) ->
  (forall t, In (CPong t) evs -> t <= t0) ->
  let s' := hb_cli_run I T s evs in hc_closed s' = true \/ hc_last s' <= t0.
Proof.
  intros I T t0. induction evs as [|e r IH]; intros s Hs Hp; simpl; auto.
  unfold hb_cli_run. simpl. apply IH.
  - destruct Hs as [Hc|Hl].
    + left. rewrite hb_cli_closed_step by exact Hc. exact Hc.
    + unfold hb_cli_step. destruct (hc_closed s) eqn:Ec; [left; exact Ec|].
      destruct e as [now|now|]; simpl.
      * destruct ((I >? 0) && (T >? 0)); [|right; exact Hl].
        destruct (now - hc_last s >? T * hb_sec); simpl; [left; reflexivity|right; exact Hl].
      * right. apply Hp. left. reflexivity.
      * left. reflexivity.
  - intros t Ht. apply Hp. right. exact Ht.
Qed.

Lemma hb_cli_silent_prefix : forall I T t0 s e1 now,
  I > 0 -> T > 0 -> hc_last s <= t0 ->
  (forall t, In (CPong t) e1 -> t <= t0) ->
  t0 + T * hb_sec < now ->
  hc_closed (hb_cli_run I T s (e1 ++ [CTick now])) = true.
Proof.
  intros I T t0 s e1 now HI HT Hl Hp Hn.
  rewrite hb_cli_run_app.
  pose proof (hb_cli_silent_inv I T t0 e1 s (or_intror Hl) Hp) as H. simpl in H.
  set (s1 := hb_cli_run I T s e1) in *.
  unfold hb_cli_run. simpl. unfold hb_cli_step.
  destruct (hc_closed s1) eqn:Ec; [exact Ec|].
  destruct H as [H|H]; [congruence|].
  assert (E0 : (I >? 0) && (T >? 0) = true).
  { apply andb_true_intro. split; apply Z.gtb_lt; lia. }
  rewrite E0.
  destruct (now - hc_last s1 >? T * hb_sec) eqn:E1; [reflexivity|].
  rewrite Z.gtb_ltb in E1. apply Z.ltb_ge in E1. lia.
Qed.

Lemma hc_tick_times_in : forall evs now, In now (hc_tick_times evs) -> In (CTick now) evs.
Proof.
  induction evs as [|e r IH]; simpl; intros now H; [contradiction|].
  destruct e; simpl in H.
  - destruct H as [H|H]; [left; congruence|right; auto].
  - right; auto.
  - right; auto.
Qed.

Theorem hb_cli_silent_within : forall I T g t0 start execs s evs,
  I > 0 -> T > 0 -> 0 <= g ->
  Forall (fun e => 0 <= e <= g) execs ->
  hc_tick_times evs = until_ticks hb_period start execs ->
  hc_last s <= t0 -> start <= t0 + T * hb_sec ->
  (forall t, In (CPong t) evs -> t <= t0) ->
  (exists t, In t (hc_tick_times evs) /\ t0 + T * hb_sec < t) ->
  exists e1 now e2,
    evs = e1 ++ CTick now :: e2 /\
    t0 + T * hb_sec < now <= t0 + T * hb_sec + hb_period + g /\
    hc_closed (hb_cli_run I T s (e1 ++ [CTick now])) = true /\
    hc_closed (hb_cli_run I T s evs) = true.
Proof.
  intros I T g t0 start execs s evs HI HT Hg Hf Hticks Hl Hstart Hp Hex.
  rewrite Hticks in Hex.
  destruct (until_ticks_dense hb_period g execs start (t0 + T * hb_sec) Hf Hstart Hex) as [now [Hin Hb]].
  rewrite <- Hticks in Hin. apply hc_tick_times_in in Hin.
  destruct (in_split _ _ Hin) as [e1 [e2 He]].
  exists e1, now, e2. split; [exact He|]. split; [exact Hb|].
  assert (Hc : hc_closed (hb_cli_run I T s (e1 ++ [CTick now])) = true).
  { apply hb_cli_silent_prefix with (t0 := t0); try lia; auto.
    intros t Ht. apply Hp. rewrite He. apply in_or_app. left. exact Ht. }
  split; [exact Hc|].
  rewrite He. replace (e1 ++ CTick now :: e2) with ((e1 ++ [CTick now]) ++ e2)
    by (rewrite <- app_assoc; reflexivity).
  rewrite hb_cli_run_app. apply hb_cli_closed_absorbing. exact Hc.
Qed.

Fixpoint hc_live (T l : Z) (evs : list hc_ev) : Prop :=
  match evs with
  | [] => True
  | CTick now :: r => now - l <= T * hb_sec /\ hc_live T l r
  | CPong now :: r => hc_live T now r
  | CPongErr :: r => False
  end.

Lemma hb_cli_live_inv : forall I T evs s,
  hc_closed s = false -> hc_live T (hc_last s) evs ->
  hc_closed (hb_cli_run I T s evs) = false.
Proof.
  intros I T. induction evs as [|e r IH]; intros s Hc Hl; simpl; auto.
  assert (H : hc_closed (fst (hb_cli_step I T s e)) = false /\
              hc_live T (hc_last (fst (hb_cli_step I T s e))) r).
  { unfold hb_cli_step. rewrite Hc.
    destruct e as [now|now|]; simpl in Hl; [| |contradiction].
    - destruct Hl as [Hb Hr].
      destruct ((I >? 0) && (T >? 0)); simpl; [|auto].
      destruct (now - hc_last s >? T * hb_sec) eqn:E1; simpl; [|auto].
      rewrite Z.gtb_ltb in E1. apply Z.ltb_lt in E1. lia.
    - simpl. auto. }
  destruct H as [H1 H2]. unfold hb_cli_run in *. simpl. apply IH; auto.
Qed.

Lemma hc_sorted_weaken : forall r lo lo', lo' <= lo -> hc_sorted lo r -> hc_sorted lo' r.
Proof.
  induction r as [|e r IHr]; intros lo lo' Hlo Hs; simpl; auto.
  destruct e as [n|n|]; simpl in *.
  - destruct Hs. split; [lia|auto].
  - destruct Hs. split; [lia|auto].
  - eapply IHr; eauto.
Qed.

Lemma hc_covered_live : forall T evs start,
  ~ In CPongErr evs ->
  hc_sorted start evs -> hc_covered T start evs -> hc_live T start evs.
Proof.
  intros T. induction evs as [|e r IH]; intros start Hne Hs Hc; simpl; auto.
  assert (Hne' : ~ In CPongErr r) by (intro; apply Hne; right; auto).
  destruct e as [now|now|]; simpl in Hs.
  - destruct Hs as [Hlo Hs]. split.
    + destruct (Hc [] now r eq_refl) as [a [[Ha|[]] Hb]]. subst. exact Hb.
    + apply IH; auto.
      * eapply hc_sorted_weaken; eauto.
      * intros e1 n e2 He. destruct (Hc (CTick now :: e1) n e2) as [a [Ha Hb]].
        { rewrite He. reflexivity. }
        exists a. split; [|exact Hb].
        destruct Ha as [Ha|[Ha|Ha]]; [left; exact Ha|discriminate|right; exact Ha].
  - destruct Hs as [Hlo Hs]. apply IH; auto.
    intros e1 n e2 He. destruct (Hc (CPong now :: e1) n e2) as [a [Ha Hb]].
    { rewrite He. reflexivity. }
    destruct Ha as [Ha|[Ha|Ha]].
    + subst a. exists now. split; [left; reflexivity|lia].
    + inversion Ha; subst. exists a. split; [left; reflexivity|exact Hb].
    + exists a. split; [right; exact Ha|exact Hb].
  - exfalso. apply Hne. left. reflexivity.
Qed.

Theorem hb_cli_live_never_closed : forall I T s evs,
  hc_closed s = false ->
  ~ In CPongErr evs ->
  hc_sorted (hc_last s) evs ->
  hc_covered T (hc_last s) evs ->
  hc_closed (hb_cli_run I T s evs) = false.
Proof.
  intros. apply hb_cli_live_inv; auto. apply hc_covered_live; auto.
Qed.

Theorem hb_cli_pong_err_closes : forall I T s e1 e2,
  hc_closed (hb_cli_run I T s (e1 ++ CPongErr :: e2)) = true.
Proof.
  intros. rewrite hb_cli_run_app.
  set (s1 := hb_cli_run I T s e1).
  change (CPongErr :: e2) with ([CPongErr] ++ e2). rewrite hb_cli_run_app.
  apply hb_cli_closed_absorbing. unfold hb_cli_run. simpl. unfold hb_cli_step.
  destruct (hc_closed s1) eqn:E; simpl; auto.
Qed.

Theorem hb_cli_disabled_never_times_out : forall I T evs s,
  (I <= 0 \/ T <= 0) -> ~ In CPongErr evs ->
  hc_closed s = false -> hc_closed (hb_cli_run I T s evs) = false.
Proof.
  intros I T. induction evs as [|e r IH]; intros s HT Hne Hc; simpl; auto.
  unfold hb_cli_run. simpl. apply IH; auto.
  - intro; apply Hne; right; auto.
  - unfold hb_cli_step. rewrite Hc. destruct e; simpl; auto.
    + destruct ((I >? 0) && (T >? 0)) eqn:E; simpl; auto.
      apply andb_prop in E. destruct E as [E1 E2].
      apply Z.gtb_lt in E1. apply Z.gtb_lt in E2. lia.
    + exfalso. apply Hne. left. reflexivity.
Qed.

(* ------------------------------------------------------------------ *)
(* a peer that is silent from the very start: the creation instant of the Control is the
   initial value of lastPing / lastPong, so the same bound holds counted from the login       *)
(* ------------------------------------------------------------------ *)
Theorem hb_cli_silent_from_start : forall I T g start execs evs,
  I > 0 -> T > 0 -> 0 <= g ->
  Forall (fun e => 0 <= e <= g) execs ->
  hc_tick_times evs = until_ticks hb_period start execs ->
  (forall t, ~ In (CPong t) evs) ->
  (exists t, In t (hc_tick_times evs) /\ start + T * hb_sec < t) ->
  exists e1 now e2,
    evs = e1 ++ CTick now :: e2 /\
    start + T * hb_sec < now <= start + T * hb_sec + hb_period + g /\
    hc_closed (hb_cli_run I T (hb_cli_init start) (e1 ++ [CTick now])) = true /\
    hc_closed (hb_cli_run I T (hb_cli_init start) evs) = true.
Proof.
  intros I T g start execs evs HI HT Hg Hf Ht Hn Hex.
  apply (hb_cli_silent_within I T g start start execs (hb_cli_init start) evs); auto.
  - simpl. lia.
  - unfold hb_sec. lia.
  - intros t H. exfalso. exact (Hn t H).
Qed.

Theorem hb_srv_silent_from_start : forall T g start execs evs,
  T > 0 -> 0 <= g ->
  Forall (fun e => 0 <= e <= g) execs ->
  hb_tick_times evs = until_ticks hb_period start execs ->
  (forall t, ~ In (HValidPing t) evs) ->
  (exists t, In t (hb_tick_times evs) /\ start + T * hb_sec < t) ->
  exists e1 now e2,
    evs = e1 ++ HTick now :: e2 /\
    start + T * hb_sec < now <= start + T * hb_sec + hb_period + g /\
    hs_closed (hb_srv_run T (hb_srv_init start) (e1 ++ [HTick now])) = true /\
    hs_closed (hb_srv_run T (hb_srv_init start) evs) = true.
Proof.
  intros T g start execs evs HT Hg Hf Ht Hn Hex.
  apply (hb_srv_silent_within T g start start execs (hb_srv_init start) evs); auto.
  - simpl. lia.
  - unfold hb_sec. lia.
  - intros t H. exfalso. exact (Hn t H).
Qed.
