(* C11 — work connections: one user each, right proxy, bounded pool, never orphaned.
   Only statements here; proofs live in Proofs/PoolProofs.v.  The model (Model/Pool.v) is an interleaving
   model: [pl_exec cfg sched] runs the schedule [sched : list nat] (thread ids) from the state right
   after Control.Start; "every schedule" is [forall sched].  Thread programs ([cf_reqs cfg]) are an
   arbitrary list of work-connection arrivals, user connections, timers and session teardowns; the
   oracle [cf_dead] says which connections the peer has reset before the server writes on them.
   The hand-off channels of the group / vhost accept paths are the second model ([h_exec]). *)
From FRP Require Import Model.Pool Proofs.PoolProofs gen.GenPoolClamp gen.GenSendLoop gen.GenAcceptPaths.
Open Scope Z_scope.

(* pooled connections never exceed the session's capacity poolCount + 10, in every reachable state *)
Theorem C11_pool_bounded : forall cfg sched,
  let s := pl_exec cfg sched in
  let pc := pl_pool_count (cf_client_pc cfg) (cf_server_max cfg) in
  ps_pc s = pc /\ ch_cap (ps_ch s) = pc + 10 /\ 0 <= pl_pool_len s <= pc + 10.
Proof. exact pool_bounded. Qed.
Print Assumptions C11_pool_bounded.

(* the number of ReqWorkConn sent by Start is min(client poolCount, server maxPoolCount), clamped at 0 *)
Theorem C11_advance_requests : forall cfg,
  ps_req (pl_init cfg) = Z.max 0 (Z.min (cf_client_pc cfg) (cf_server_max cfg)).
Proof. exact advance_requests. Qed.
Print Assumptions C11_advance_requests.

(* no connection is bridged to two users, whatever the interleaving *)
Theorem C11_consumed_at_most_once : forall cfg sched u1 u2 c,
  let s := pl_exec cfg sched in
  ps_user s u1 = UBridged c -> ps_user s u2 = UBridged c -> u1 = u2.
Proof. exact consumed_at_most_once. Qed.
Print Assumptions C11_consumed_at_most_once.

(* the StartWorkConn written on the connection a user is bridged to carries the name of the proxy that
   accepted this user and the user's own address; every StartWorkConn ever written belongs to such a
   bridge; no connection is announced twice *)
Theorem C11_start_msg_names_proxy_and_user : forall cfg sched,
  let s := pl_exec cfg sched in
  (forall u c, ps_user s u = UBridged c ->
     exists e eof, In e (ps_log s) /\ st_conn e = c /\ st_user e = u /\
       pl_req_of cfg u = Some (RUser (st_proxy e) (st_src e) (st_sport e) eof)) /\
  (forall e, In e (ps_log s) -> ps_user s (st_user e) = UBridged (st_conn e) /\
       exists eof, pl_req_of cfg (st_user e) = Some (RUser (st_proxy e) (st_src e) (st_sport e) eof)) /\
  NoDup (map st_conn (ps_log s)).
Proof. exact start_msg_names_proxy_and_user. Qed.
Print Assumptions C11_start_msg_names_proxy_and_user.

(* direct accept path: a user connection whose handler has returned is closed or bridged to exactly the
   connection whose fate is "delivered to this user" *)
Theorem C11_user_conn_bridged_or_closed : forall cfg sched u,
  let s := pl_exec cfg sched in
  ps_thr s u = TU UDone ->
  ps_user s u = UClosed \/ exists c, ps_user s u = UBridged c /\ pl_view s c = VDelivered u.
Proof. exact user_bridged_or_closed. Qed.
Print Assumptions C11_user_conn_bridged_or_closed.

(* ... and while it waits for a work connection, the timer firing closes it at that very step
   (the wall-clock value of the timer is observed by the harness, not proved) *)
Theorem C11_user_conn_closed_on_timeout : forall cfg s t u i,
  ps_thr s t = TTimer -> pl_req_of cfg t = Some (RTimeout u) -> ps_thr s u = TU (UWait i) ->
  let s1 := pl_step cfg s t in ps_user s1 u = UClosed /\ ps_thr s1 u = TU UDone.
Proof.
  intros cfg s t u i Ht Hr Hu. unfold pl_step. rewrite Ht, Hr. unfold pl_step_timer. rewrite Hu.
  unfold pl_user_close. simpl. unfold upd. rewrite PeanoNat.Nat.eqb_refl. auto.
Qed.
Print Assumptions C11_user_conn_closed_on_timeout.

(* hand-off paths (vhost muxer, tcp group, tcpmux group), repaired call sites: whatever the interleaving of
   dispatchers and the closing listener, no user connection is dropped unclosed, and a dispatcher that has
   ended left its connection accepted by the member listener (then the direct path applies) or closed *)
Theorem C11_handoff_never_lost : forall cfg sched u,
  hc_close_on_fail cfg = true -> hs_fate (h_exec cfg sched) u <> HLost.
Proof. exact handoff_never_lost. Qed.
Print Assumptions C11_handoff_never_lost.

Theorem C11_handoff_accepted_or_closed : forall cfg sched u,
  hc_close_on_fail cfg = true -> hs_thr (h_exec cfg sched) u = Some HEnd ->
  let f := hs_fate (h_exec cfg sched) u in f = HAccepted \/ f = HClosedNoRoute \/ f = HClosedOnFail.
Proof. exact handoff_accepted_or_closed. Qed.
Print Assumptions C11_handoff_accepted_or_closed.

(* today's code is the repaired one (Model/Pool.v, tied by the hand-off driver) *)
Theorem C11_handoff_today : forall reqs sched u,
  hs_fate (h_exec (h_vhost_cfg reqs) sched) u <> HLost /\ hs_fate (h_exec (h_group_cfg reqs) sched) u <> HLost.
Proof. intros; split; apply handoff_never_lost; reflexivity. Qed.
Print Assumptions C11_handoff_today.

(* regression witness (F-C11b, repaired): with call sites that only log the failed send, the schedule
   lookup(0); close listener; send(0) leaves connection 0 open with no peer — vhost order and group order *)
Theorem C11_handoff_old_code_refuted :
  hs_fate (h_exec {| hc_reqs := [HDispatch; HCloser]; hc_chan_first := false; hc_close_on_fail := false |}
                  [0; 1; 1; 1; 0]%nat) 0%nat = HLost /\
  hs_fate (h_exec {| hc_reqs := [HDispatch; HCloser]; hc_chan_first := true; hc_close_on_fail := false |}
                  [1; 0; 0; 1; 1; 0]%nat) 0%nat = HLost.
Proof. vm_compute. split; reflexivity. Qed.
Print Assumptions C11_handoff_old_code_refuted.

(* in no reachable state is a work connection open, unpooled, unbridged and unreferenced *)
Theorem C11_no_conn_lost : forall cfg sched c, pl_view (pl_exec cfg sched) c <> VLost.
Proof. exact no_conn_lost. Qed.
Print Assumptions C11_no_conn_lost.

(* a session has one worker goroutine (Control.Start starts it once): then no schedule closes the pool twice *)
Theorem C11_single_teardown_never_crashes : forall cfg sched,
  one_teardown cfg -> ps_crashed (pl_exec cfg sched) = false.
Proof. exact single_teardown_never_crashes. Qed.
Print Assumptions C11_single_teardown_never_crashes.

(* once every thread has run to its end and the session has been torn down, every work connection that
   ever arrived is closed or bridged to the user it was delivered to *)
Theorem C11_no_orphan_after_teardown : forall cfg sched c,
  one_teardown cfg ->
  let s := pl_exec cfg sched in
  (forall t, pl_thread_finished (ps_thr s t) = true) ->
  (exists t, ps_thr s t = TT TFin) ->
  pl_view s c = VNone \/ pl_view s c = VClosed \/ exists u, pl_view s c = VDelivered u /\ ps_user s u = UBridged c.
Proof. exact no_orphan_after_teardown_single. Qed.
Print Assumptions C11_no_orphan_after_teardown.

(* a user connection that is neither bridged nor closed is still in the hands of its handler goroutine,
   in every reachable state: it is never left open with nobody serving it *)
Theorem C11_user_open_is_being_served : forall cfg sched u,
  let s := pl_exec cfg sched in
  ps_user s u = UOpen -> exists p, ps_thr s u = TU p /\ p <> UDone.
Proof. exact user_open_is_being_served. Qed.
Print Assumptions C11_user_open_is_being_served.

(* surplus offers (pool full), offers to a closed pool and offers for an unknown run id are refused ... *)
Theorem C11_surplus_refused : forall cfg s t,
  (ps_thr s t = TW WLookup /\ ps_mapped s = false) \/
  (ps_thr s t = TW WSend /\ (ch_closed (ps_ch s) = true \/ ch_cap (ps_ch s) <= pl_pool_len s)) ->
  let s1 := pl_step cfg s t in
  ps_thr s1 t = TW WCloseIt /\ ps_ch s1 = ps_ch s /\ ps_fate s1 = ps_fate s.
Proof. exact offer_refused. Qed.
Print Assumptions C11_surplus_refused.

(* ... and a refused connection is closed as soon as its goroutine runs, whatever runs in between, for good *)
Theorem C11_surplus_refused_and_closed : forall cfg sched1 sched2 t,
  let s1 := pl_exec cfg sched1 in
  ps_thr s1 t = TW WCloseIt -> In t sched2 ->
  let s2 := pl_run cfg sched2 s1 in
  ps_fate s2 t = PClosed /\ ps_thr s2 t = TW WDone.
Proof. exact refused_is_closed. Qed.
Print Assumptions C11_surplus_refused_and_closed.

(* a work connection that arrives once the pool has been closed (session ending or ended) is never parked:
   in every later state it is not in the pool, and when its goroutine has ended it is closed *)
Theorem C11_late_workconn_closed_not_parked : forall cfg sched1 sched2 t,
  let s1 := pl_exec cfg sched1 in
  ch_closed (ps_ch s1) = true -> ps_thr s1 t = TW WLookup ->
  let s2 := pl_run cfg sched2 s1 in
  ~ In t (ch_q (ps_ch s2)) /\ (ps_thr s2 t = TW WDone -> ps_fate s2 t = PClosed).
Proof. exact late_workconn_not_parked. Qed.
Print Assumptions C11_late_workconn_closed_not_parked.

(* non-vacuity: two arrivals, one user served from the pool, teardown, a late arrival; every thread ends,
   nothing crashes; connection 0 is bridged to user 2, 1 is closed by the drain, 4 is closed on refusal *)
Definition ex_cfg : pcfg :=
  {| cf_client_pc := 7; cf_server_max := 5;
     cf_reqs := [RWork; RWork; RUser (hx "7061") (hx "0a000001") 40000 false; RTeardown; RWork];
     cf_dead := fun _ => false; cf_qcap := 100; cf_wfail := fun _ => false; cf_sl_survives := true |}.
Definition ex_sched : list nat := List.concat (map (fun t => repeat t 8) [0; 1; 2; 3; 4]%nat).
Example C11_example :
  let s := pl_exec ex_cfg ex_sched in
  forallb (fun t => pl_thread_finished (ps_thr s t)) (seq 0 8) = true /\
  ps_thr s 3%nat = TT TFin /\ ps_crashed s = false /\ ps_req s = 6 /\
  pl_view s 0%nat = VDelivered 2 /\ pl_view s 1%nat = VClosed /\ pl_view s 4%nat = VClosed /\
  ps_user s 2%nat = UBridged 0 /\ length (ps_log s) = 1%nat.
Proof. vm_compute. repeat split; reflexivity. Qed.

Example C11_example_one_teardown : one_teardown ex_cfg.
Proof.
  assert (K : forall t, pl_req_of ex_cfg t = Some RTeardown -> t = 3%nat).
  { intros t H. unfold pl_req_of, ex_cfg in H. simpl in H.
    do 5 (destruct t as [|t]; simpl in H; try discriminate; auto). destruct t; discriminate. }
  intros t1 t2 H1 H2. rewrite (K _ H1), (K _ H2). reflexivity.
Qed.

(* the late arrival of the example meets the hypotheses of C11_late_workconn_closed_not_parked *)
Example C11_example_late :
  let s1 := pl_exec ex_cfg (List.concat (map (fun t => repeat t 8) [0; 1; 2]%nat) ++ [3; 3]%nat) in
  ch_closed (ps_ch s1) = true /\ ps_mapped s1 = true /\ ps_thr s1 4%nat = TW WLookup.
Proof. vm_compute. repeat split; reflexivity. Qed.

(* ---- visitor listener accept path (InternalListener + the proxy's accept loop), every order of
        PutConn / Close / Accept ---- *)

(* a connection sitting in the listener's queue is still going to be received: no accept loop has
   stopped while something is queued (Close only closes the channel; Accept drains it first) *)
Theorem C11_visitor_queued_will_be_received : forall cfg sched c t,
  let s := il_exec cfg sched in is_fate s c = IQueued -> is_thr s t <> Some ILEnd.
Proof. exact visitor_queued_will_be_received. Qed.
Print Assumptions C11_visitor_queued_will_be_received.

(* once the accept loop has stopped, every connection whose PutConn has returned was handed to
   handleUserTCPConnection (then C11_user_conn_bridged_or_closed applies) or closed *)
Theorem C11_visitor_conn_handled_or_closed : forall cfg sched c t,
  let s := il_exec cfg sched in
  is_thr s t = Some ILEnd -> is_thr s c = Some IPEnd -> is_fate s c = IHandled \/ is_fate s c = IClosed.
Proof. exact visitor_conn_handled_or_closed. Qed.
Print Assumptions C11_visitor_conn_handled_or_closed.

(* the loop takes the head of a non-empty queue at its next step, closed listener or not, and it stops
   at its next step once the listener is closed and drained *)
Theorem C11_visitor_loop_progress : forall s t c r,
  is_thr s t = Some ILRun -> ch_q (is_ch s) = c :: r -> is_fate (il_step s t) c = IHandled.
Proof. exact visitor_loop_progress. Qed.
Print Assumptions C11_visitor_loop_progress.

Theorem C11_visitor_loop_ends_after_close : forall s t,
  is_thr s t = Some ILRun -> ch_closed (is_ch s) = true -> ch_q (is_ch s) = [] -> is_thr (il_step s t) t = Some ILEnd.
Proof. exact visitor_loop_ends_after_close. Qed.
Print Assumptions C11_visitor_loop_ends_after_close.

(* non-vacuity: three visitors queued, listener closed, then the loop runs: all three handed over, loop ends;
   a fourth one arriving after Close is refused and closed by the caller *)
Example C11_example_visitor :
  let s := il_exec {| ic_cap := il_code_cap; ic_reqs := [IPut; IPut; IPut; IClose; ILoop; IPut] |}
                   [0; 1; 2; 3; 5; 5; 4; 4; 4; 4]%nat in
  is_fate s 0%nat = IHandled /\ is_fate s 1%nat = IHandled /\ is_fate s 2%nat = IHandled /\
  is_fate s 5%nat = IClosed /\ is_thr s 4%nat = Some ILEnd.
Proof. vm_compute. repeat split; reflexivity. Qed.


(* ---- the send path of GetWorkConn: Dispatcher.Send may block (queue of 100, doneCh), and the user's
        timer is created only after it has returned ---- *)

(* the send loop of a live session never stops — in particular not on a failed write; it ends with doneCh *)
Theorem C11_sendloop_alive_until_done : forall cfg sched k,
  cf_sl_survives cfg = true -> start_fits cfg -> pl_req_of cfg k = Some RSendLoop ->
  let s := pl_exec cfg sched in ps_thr s k = TS SLRun \/ ps_ddone s = true.
Proof. exact sendloop_alive_until_done. Qed.
Print Assumptions C11_sendloop_alive_until_done.

(* every schedule, every write-failure pattern [cf_wfail]: a user standing in Send (before its wait and its
   timer, or for the replacement request) has left it after one turn of the send loop and one of its own;
   together with C11_user_conn_closed_on_timeout and C11_user_open_is_being_served: bridged or closed
   within the bound, never parked in front of the timer *)
Theorem C11_send_returns_after_sendloop_turn : forall cfg sched u k,
  cf_sl_survives cfg = true -> start_fits cfg -> 0 < cf_qcap cfg -> pl_req_of cfg k = Some RSendLoop ->
  let s := pl_exec cfg sched in
  let s2 := pl_step cfg (pl_step cfg s k) u in
  (forall i, ps_thr s u = TU (UReq i) ->
     ps_thr s2 u = TU (UWait i) \/ (ps_thr s2 u = TU UDone /\ ps_user s2 u = UClosed)) /\
  (forall i c, ps_thr s u = TU (URepl i c) -> ps_thr s2 u = TU (UWrite i c)).
Proof. exact send_returns_after_sendloop_turn. Qed.
Print Assumptions C11_send_returns_after_sendloop_turn.

(* reflective, over today's translator output (unit T11send, pkg/msg/handler.go + server/control.go): the
   hypotheses of the two theorems above are what the source says — the sendCh clause of sendLoop cannot leave
   the loop, Send selects on doneCh and the queue, the queue has room, doneCh is closed by the read loop
   only, and GetWorkConn creates its timer after the Send *)
Theorem C11_sendloop_today :
  gen_sendloop_unknown = false /\ gen_sendloop_survives_write_error = true /\
  gen_send_selects_done_or_queue = true /\ 0 < gen_sendch_cap /\
  gen_done_closers = ["readLoop"%string] /\ gen_timer_created_after_send = true.
Proof. vm_compute. repeat split; reflexivity. Qed.
Print Assumptions C11_sendloop_today.

(* regression witness (seeded change "send loop returns on a write error"): queue of 2, every write fails,
   the loop dies on the first one; users 1..3 fill the queue and wait; user 4 stands in Send for ever — its
   timer (thread 5) cannot fire because it does not exist yet *)
Theorem C11_sendloop_dying_refuted :
  let cfg := {| cf_client_pc := 0; cf_server_max := 5;
                cf_reqs := [RSendLoop; RUser [] [] 1 false; RUser [] [] 2 false; RUser [] [] 3 false;
                            RUser [] [] 4 false; RTimeout 4];
                cf_dead := fun _ => false; cf_qcap := 2; cf_wfail := fun _ => true; cf_sl_survives := false |} in
  let s := pl_exec cfg (List.app [1; 1; 0; 2; 2; 3; 3; 4; 4] (List.concat (repeat [0; 4; 5] 20)))%nat in
  ps_thr s 0%nat = TS SLEnd /\ ps_ddone s = false /\ ps_thr s 4%nat = TU (UReq 0) /\ ps_user s 4%nat = UOpen.
Proof. vm_compute. repeat split; reflexivity. Qed.
Print Assumptions C11_sendloop_dying_refuted.

(* ---- NewControl's integer code as regenerated from today's source (translator unit T11send/clamp: every
        statement before the Control literal, any local names), for EVERY client value and EVERY server
        maximum, zero and negative included ---- *)
Theorem C11_generated_pool_code_bounded :
  gen11_unknown = false /\ gen11_start_bound_is_stored = true /\
  forall c m, gen11_stored c m = pl_pool_count c m /\
              gen11_stored c m = Z.max 0 (Z.min c m) /\
              gen11_chan_cap c m = pl_cap (pl_pool_count c m) /\
              gen11_chan_cap c m = Z.max 0 (Z.min c m) + 10.
Proof. exact generated_pool_code_bounded. Qed.
Print Assumptions C11_generated_pool_code_bounded.


(* ---- load-balancing groups: the accept worker, the unbuffered hand-off and the members' Accept ---- *)

(* every schedule of arrivals, member closes and member accept loops, every resolution of the selects in which
   closeCh and the hand-off are both ready: a connection accepted by the group is never dropped unclosed ... *)
Theorem C11_group_conn_never_lost : forall cfg sched u,
  gc_close_on_fail cfg = true -> gc_recheck_drops cfg = false ->
  gs_fate (g_exec cfg sched) u <> GLost /\ forall m, gs_fate (g_exec cfg sched) u <> GTaken m.
Proof. exact group_conn_never_lost. Qed.
Print Assumptions C11_group_conn_never_lost.

(* ... and once the worker is through with it, it was refused by the closed socket, closed by the worker,
   or returned by exactly one member's Accept (whose handler then runs: direct-path theorems) *)
Theorem C11_group_conn_handled_by_one_or_closed : forall cfg sched u,
  gc_close_on_fail cfg = true -> gc_recheck_drops cfg = false ->
  let s := g_exec cfg sched in
  gs_thr s u = Some GConnEnd ->
  gs_fate s u = GRefused \/ gs_fate s u = GClosedOnFail \/ exists m, gs_fate s u = GHandled m.
Proof. exact group_conn_handled_by_one_or_closed. Qed.
Print Assumptions C11_group_conn_handled_by_one_or_closed.

(* a pending connection is resolved by whoever comes next: an open member's Accept receives and returns it;
   once the hand-off channel is closed (last member gone) the worker's own step closes it *)
Theorem C11_group_pending_progress : forall cfg s u,
  gc_close_on_fail cfg = true -> gc_recheck_drops cfg = false -> gs_pending s = Some u ->
  (forall t m, gs_thr s t = Some GLRun -> nth_error (gc_reqs cfg) t = Some (GLoop m) ->
     gs_chclosed s = false -> gs_closech s m = false -> gs_fate (g_step cfg s t) u = GHandled m) /\
  (gs_thr s u = Some GSending -> gs_chclosed s = true -> gs_fate (g_step cfg s u) u = GClosedOnFail).
Proof. exact group_pending_progress. Qed.
Print Assumptions C11_group_pending_progress.

(* reflective, over today's translator output: in both group listeners' Accept the clause that receives from
   the hand-off channel returns the received connection on every path except "!ok" *)
Theorem C11_group_accept_today : group_accepts_ok gen_group_accepts = true.
Proof. vm_compute. reflexivity. Qed.
Print Assumptions C11_group_accept_today.

(* regression witness (seeded change "Accept re-checks closeCh after the receive"): arrival, member 0 receives,
   member 0 is closed, the re-check drops the connection *)
Theorem C11_group_recheck_refuted :
  gs_fate (g_exec {| gc_reqs := [GConn; GLoop 0; GLoop 1; GCloser 0]; gc_members := 2; gc_pick := fun _ => true;
                     gc_close_on_fail := true; gc_recheck_drops := true |} [0; 1; 3; 1]%nat) 0%nat = GLost.
Proof. vm_compute. reflexivity. Qed.
Print Assumptions C11_group_recheck_refuted.

(* ---- pooled compression wrappers (every WithCompressionFromPool call site of server/, client/, pkg/, cmd/) ----
   reflective over today's table: each site sits in a function without results (the wrapped connection is
   not returned), recycles only by a deferred call or after the Join that uses the connection, and does Join
   after the wrap; the direct-path handler handleUserTCPConnection is among them.  Hence no recycled snappy
   object is still attached to a live work connection when another user's wrapper takes it from the pool —
   the premise under which "one work connection, one user" carries over from sockets to byte streams. *)
Theorem C11_pool_compress_sites_ok :
  gen_pool_compress_unknown = false /\
  (forall f fn r c j, In (f, fn, r, c, j) gen_pool_compress_sites -> r = false /\ c = true /\ j = true) /\
  In ("server/proxy/proxy.go", "handleUserTCPConnection", false, true, true)%string gen_pool_compress_sites.
Proof.
  split; [reflexivity|]. split.
  - exact (compress_sites_sound gen_pool_compress_sites (eq_refl true <: forallb compress_site_ok gen_pool_compress_sites = true)).
  - vm_compute. tauto.
Qed.
Print Assumptions C11_pool_compress_sites_ok.


(* ---- vhost muxer accept path (https, tcpmux): Muxer.handle goroutines, the unbuffered Listener.accept, the
        proxy's accept loop, Listener.Close as a concurrent action ---- *)

(* every schedule: a routed connection still in the hand-off has its handle goroutine standing in the send;
   a handle goroutine that has ended left the connection delivered to Accept or closed *)
Theorem C11_vhost_conn_delivered_or_closed : forall cfg sched u,
  let s := v_exec cfg sched in
  (vs_fate s u = VhPending -> vs_thr s u = Some VhSending) /\
  (vs_thr s u = Some VhEnd ->
     vs_fate s u = VhHandled \/ vs_fate s u = VhClosedNoRoute \/ vs_fate s u = VhClosedOnFail).
Proof. exact vhost_conn_delivered_or_closed. Qed.
Print Assumptions C11_vhost_conn_delivered_or_closed.

(* ... and the send never stays blocked: once Close has run the waiting dispatcher is released and closes the
   connection; while the listener is open a running accept loop takes the sender its receive picks *)
Theorem C11_vhost_pending_progress : forall cfg s u,
  vs_fate s u = VhPending -> vs_thr s u = Some VhSending ->
  (vc_close_releases cfg = true -> vs_chclosed s = true -> vs_fate (v_step cfg s u) u = VhClosedOnFail) /\
  (forall t, vs_thr s t = Some VhLRun -> vs_chclosed s = false -> vc_pick cfg (vs_tick s) = u ->
     vs_fate (v_step cfg s t) u = VhHandled).
Proof. exact vhost_pending_progress. Qed.
Print Assumptions C11_vhost_pending_progress.

(* reflective (T11send/paths): in today's Muxer.handle the one send on Listener.accept is recover-wrapped and
   Listener.Close closes that channel (or it is a select case next to a receive from a channel Close closes) *)
Theorem C11_vhost_handoff_today :
  gen_vhost_handle_found = true /\ gen_vhost_handoff_released_by_close = true.
Proof. vm_compute. split; reflexivity. Qed.
Print Assumptions C11_vhost_handoff_today.

(* regression witness (seeded change "Close closes a new closeCh, handle does a plain blocking send"): two users
   in the hand-off, the listener closes, however often their goroutines are scheduled they stay in the send *)
Theorem C11_vhost_blocking_send_refuted :
  let s := v_exec {| vc_reqs := [VhConn; VhConn; VhLoop; VhCloser]; vc_pick := fun _ => 0%nat; vc_close_releases := false |}
                  (List.app [0; 1; 3; 3; 2]%nat (List.concat (repeat [0; 1; 2]%nat 20))) in
  vs_fate s 0%nat = VhPending /\ vs_fate s 1%nat = VhPending /\ vs_thr s 2%nat = Some VhLEnd /\ vs_chclosed s = true.
Proof. vm_compute. repeat split; reflexivity. Qed.
Print Assumptions C11_vhost_blocking_send_refuted.

(* ---- the bound as configured: legacy ini ----
   reflective (T11send/paths) over pkg/config/legacy: the v1 server maximum is assigned exactly once, from the
   legacy field whose ini key is max_pool_count; the v1 client poolCount from the field with key pool_count.
   With C11_generated_pool_code_bounded: the bound NewControl enforces is the configured one, toml or ini. *)
Theorem C11_legacy_pool_conversion_today : legacy_pool_fields_ok gen_legacy_pool_fields = true.
Proof. vm_compute. reflexivity. Qed.
Print Assumptions C11_legacy_pool_conversion_today.


(* ---- visitor accept path: visitor connection -> visitor.Manager.NewConn -> InternalListener.PutConn -> accept loop ----
   reflective (T11send/paths): PutConn on a closed listener returns an error (recover-wrapped send on the channel
   Close closes, error returned), NewConn hands that error to its caller, RegisterVisitorConn returns it, and
   handleConnection closes the connection when it is non-nil.  These are the code facts behind the model's
   IPSend/SPanic -> IPCloseIt -> IClosed branch (C11_visitor_conn_handled_or_closed): a visitor connection that
   arrives while the proxy is closing (listener closed, entry still registered) is closed, not left open. *)
Theorem C11_visitor_path_today : visitor_path_ok gen_visitor_path = true.
Proof. vm_compute. reflexivity. Qed.
Print Assumptions C11_visitor_path_today.
