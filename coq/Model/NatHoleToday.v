(* C20: the model's data as translated from today's source by unit T2.  Model only: no proofs here. *)
From FRP Require Export Model.NatHole gen.GenNatHole.

Definition nh_today_opt : option nh_data :=
  nh_resolve T2_translated nh_recommend_shape_ok nh_int_consts nh_str_consts nh_tables nh_mode_switch nh_mode_default nh_swaps
    (nh_resolve_timing nh_timeout_init nh_timeout_listen_guard nh_timeout_listen_add nh_vread_timeout nh_cread_timeout nh_staggers).

Definition nh_today : nh_data := match nh_today_opt with Some d => d | None => nh_no_data end.

Definition nh_today_source_as_modelled : bool :=
  nh_source_as_modelled nh_range_guard nh_range_from nh_range_to nh_port_reject.

(* server/proxy/xtcp.go as modelled by EvListen / EvProxyClose / EvLoopExit (Model/NatHoleCtl.v): XTCPProxy.Close calls
   CloseClient itself (a plain call: not in a goroutine, not deferred) and closes closeCh; Run registers with ListenClient
   before it starts its goroutine; that goroutine never calls into the controller (in particular it does not own the
   registration). *)
Definition nh_str_in (x : string) (l : list string) : bool := existsb (String.eqb x) l.
Definition nh_xtcp_registration_as_modelled (close run loop : list string) : bool :=
  nh_str_in "call:controller.CloseClient" close && nh_str_in "call:close:closeCh" close &&
  nh_str_in "assign-call:controller.ListenClient" run && nh_str_in "go" run &&
  match loop with [] => true | _ => false end.
Definition nh_today_xtcp_registration_sync : bool :=
  nh_xtcp_registration_as_modelled nh_xtcp_close nh_xtcp_run nh_xtcp_loop_calls.

(* pkg/transport/message.go, transporterImpl.Send as modelled by Model/NatHoleTr.v: the message is sent on sendCh by a
   plain (blocking) send or in a select whose only other case waits for doneCh -- no default clause, no other way out *)
Definition nh_tr_send_as_modelled (cases : list string) : bool :=
  (nh_str_in "send:sendCh" cases || nh_str_in "plain-send:sendCh" cases) &&
  forallb (fun c => String.eqb c "send:sendCh" || String.eqb c "plain-send:sendCh" || String.eqb c "recv:doneCh") cases.
Definition nh_today_tr_send_blocking : bool := nh_tr_send_as_modelled nh_tr_send.

(* server/control.go + pkg/msg/handler.go as modelled by EvNewProxy / EvCtlEnd: the NewProxy and CloseProxy handlers are
   registered as plain (synchronous) handlers, the dispatcher's read loop calls a handler inline, doneCh is closed in the
   read loop only, and Control.worker waits for the dispatcher's Done before it walks ctl.proxies: hence a registration
   cannot run for a control whose teardown has started. *)
Definition nh_ctl_registration_in_read_loop (handlers worker readloop close_done : list string) : bool :=
  nh_str_in "NewProxy:sync" handlers && nh_str_in "CloseProxy:sync" handlers &&
  negb (nh_str_in "NewProxy:async" handlers) && negb (nh_str_in "CloseProxy:async" handlers) &&
  forallb (fun c => String.eqb c "call:handler") readloop && nh_str_in "call:handler" readloop &&
  forallb (fun f => String.eqb f "readLoop") close_done && nh_str_in "readLoop" close_done &&
  (fix before (l : list string) : bool :=
     match l with
     | [] => false
     | x :: r => if String.eqb x "wait:dispatcher.Done" then nh_str_in "range:proxies" r
                 else if String.eqb x "range:proxies" then false else before r
     end) worker.
Definition nh_today_ctl_registration_in_read_loop : bool :=
  nh_ctl_registration_in_read_loop nh_ctl_handlers nh_ctl_worker nh_disp_readloop nh_disp_close_done_in.

(* pkg/nathole/utils.go as modelled by Model/NatHoleSid.v: exactly frame-then-encrypt and decrypt-then-unframe, with the
   caller's key, and no branch on the key (the empty key takes the same path) *)
Local Open Scope string_scope.
Fixpoint nh_strs_eqb (a b : list string) : bool :=
  match a, b with
  | [], [] => true
  | x :: a', y :: b' => String.eqb x y && nh_strs_eqb a' b'
  | _, _ => false
  end.
Definition nh_today_sid_codec_symmetric : bool :=
  nh_strs_eqb nh_sid_encode ["call:msg.WriteMsg"; "call:crypto.Encode:key"] &&
  nh_strs_eqb nh_sid_decode ["call:crypto.Decode:key"; "call:msg.ReadMsgInto"].
