package main

// Driver "sendfault": a session whose control connection starts failing every WRITE while its read side
// stays open and silent (a net.Conn wrapper around the server's end of an in-memory pipe, registered
// through the exported Service.RegisterControl).  After the fault more users than Dispatcher.sendCh has
// slots arrive on a proxy of that session; the client delivers nothing.  Every user must be closed by the
// server's userConnTimeout: GetWorkConn's Send has to return for its timer to exist at all.

import (
	"errors"
	"fmt"
	"net"
	"sync"
	"sync/atomic"
	"time"

	v1 "github.com/fatedier/frp/pkg/config/v1"
	"github.com/fatedier/frp/pkg/msg"
	"github.com/fatedier/frp/pkg/util/util"
	"verifharness/hx"
)

func init() { drivers["sendfault"] = runSendFault }

type faultConn struct {
	net.Conn
	fail atomic.Bool
}

func (f *faultConn) Write(b []byte) (int, error) {
	if f.fail.Load() {
		return 0, errors.New("injected write error")
	}
	return f.Conn.Write(b)
}

func sendFaultCase(g *hx.Gen, idx int, before, after int) (string, []map[string]any, error) {
	addr := "127.0.11.220"
	s, err := hx.StartServer(addr, func(c *v1.ServerConfig) { c.UserConnTimeout = userTimeout })
	if err != nil {
		return "", nil, err
	}
	defer s.Close()
	a, b := net.Pipe()
	fc := &faultConn{Conn: a}
	var reqCnt atomic.Int64
	resp := make(chan *msg.NewProxyResp, 4)
	loginResp := make(chan *msg.LoginResp, 1)
	go func() {
		for {
			m, err := msg.ReadMsg(b)
			if err != nil {
				return
			}
			switch v := m.(type) {
			case *msg.ReqWorkConn:
				reqCnt.Add(1)
			case *msg.NewProxyResp:
				resp <- v
			case *msg.LoginResp:
				loginResp <- v
			}
		}
	}()
	ts := time.Now().Unix()
	cpc := g.Intn(3)
	lm := &msg.Login{Version: "0.61.0", PrivilegeKey: util.GetAuthKey(hx.DefaultToken, ts), Timestamp: ts, PoolCount: cpc, Metas: map[string]string{}}
	go func() { _ = s.Svc.RegisterControl(fc, lm, true) }()
	var runID string
	select {
	case lr := <-loginResp:
		if lr.Error != "" {
			return "", nil, fmt.Errorf("login refused: %s", lr.Error)
		}
		runID = lr.RunID
	case <-time.After(3 * time.Second):
		return "", nil, fmt.Errorf("no LoginResp")
	}
	defer b.Close()
	port := hx.FreePort(addr)
	name := fmt.Sprintf("sf%d", idx)
	if err := msg.WriteMsg(b, &msg.NewProxy{ProxyName: name, ProxyType: "tcp", RemotePort: port}); err != nil {
		return "", nil, err
	}
	select {
	case r := <-resp:
		if r.Error != "" {
			return "", nil, fmt.Errorf("new proxy: %s", r.Error)
		}
	case <-time.After(3 * time.Second):
		return "", nil, fmt.Errorf("no NewProxyResp")
	}
	ctl := s.Svc.VerifC11Control(runID)
	if ctl == nil {
		return "", nil, fmt.Errorf("no control")
	}
	smax := int(s.Cfg.Transport.MaxPoolCount)
	reqs := []string{"RSendLoop"}
	var phases []string
	checkpoint := func(sched string, observeReqs bool) {
		var r, l int64 = -2, -2
		stable := 0
		for i := 0; i < 24 && stable < 2; i++ {
			time.Sleep(settleStep)
			r2, l2 := reqCnt.Load(), int64(ctl.VerifC11PoolLen())
			if r2 == r && l2 == l {
				stable++
			} else {
				stable = 0
			}
			r, l = r2, l2
		}
		if !observeReqs {
			r = -1
		}
		phases = append(phases, fmt.Sprintf("(%s, %s, %s)", sched, hx.Z(r), hx.Z(l)))
	}
	checkpoint(steps(), true)
	type urec struct {
		tid   int
		c     net.Conn
		since time.Time
		done  chan time.Time
	}
	var users []*urec
	var mu sync.Mutex
	dialUser := func() error {
		ip := fmt.Sprintf("127.0.11.%d", 100+len(users)%100)
		d := net.Dialer{LocalAddr: &net.TCPAddr{IP: net.ParseIP(ip)}, Timeout: 2 * time.Second}
		c, err := d.Dial("tcp", net.JoinHostPort(addr, fmt.Sprint(port)))
		if err != nil {
			return err
		}
		la := c.LocalAddr().(*net.TCPAddr)
		mu.Lock()
		tid := len(reqs)
		reqs = append(reqs, fmt.Sprintf("RUser %s %s %d false", hx.HxS(name), hx.HxS(la.IP.String()), la.Port))
		u := &urec{tid: tid, c: c, since: time.Now(), done: make(chan time.Time, 1)}
		users = append(users, u)
		mu.Unlock()
		go func() {
			buf := make([]byte, 64)
			for {
				if _, err := c.Read(buf); err != nil {
					u.done <- time.Now()
					return
				}
			}
		}()
		return nil
	}
	var sched []int
	for i := 0; i < before; i++ {
		if err := dialUser(); err != nil {
			return "", nil, err
		}
		sched = append(sched, users[len(users)-1].tid, runAll)
	}
	if before > 0 {
		checkpoint(steps(sched...), true)
	}
	// from here on every write on the control connection fails; what was written so far has arrived
	wfailFrom := int(reqCnt.Load())
	fc.fail.Store(true)
	first := len(users)
	sched = nil
	for i := 0; i < after; i++ {
		if err := dialUser(); err != nil {
			return "", nil, err
		}
		// each user's Send is followed by a turn of the send loop (it runs concurrently and drains the queue)
		sched = append(sched, users[len(users)-1].tid, 4, 0, 4)
	}
	checkpoint(steps(sched...), true)
	// every user's timer
	sched = nil
	var fails []map[string]any
	stranded := 0
	var codes []string
	for i, u := range users {
		closed := false
		select {
		case <-u.done:
			closed = true
		case <-time.After(time.Until(u.since.Add(userTimeout*time.Second + 2500*time.Millisecond))):
		}
		mu.Lock()
		t := len(reqs)
		reqs = append(reqs, fmt.Sprintf("RTimeout %d%%nat", u.tid))
		mu.Unlock()
		sched = append(sched, t, 1, u.tid, 4)
		code := 1
		if !closed {
			code = 0
			if i >= first {
				stranded++
			}
		}
		codes = append(codes, fmt.Sprintf("(%d, %d)", u.tid, code))
	}
	checkpoint(steps(sched...), true)
	if stranded > 0 {
		fails = append(fails, map[string]any{"key": "user-stranded-in-send",
			"what": fmt.Sprintf("%d of %d user connections that arrived after the control connection's writes began to fail were neither bridged nor closed %.1f s after the %d s user-connection timeout", stranded, after, 2.5, userTimeout),
			"case": fmt.Sprintf("sendfault: login(pc=%d) %d users, write fault, %d users, no work connection delivered", cpc, before, after)})
	}
	for _, u := range users {
		u.c.Close()
	}
	text := fmt.Sprintf("CPool %d %d %s [] %d %s false [] %s [] []", cpc, smax, hx.List(reqs), wfailFrom, hx.List(phases), hx.List(codes))
	return text, fails, nil
}

func runSendFault(cfg *hx.RunCfg) error {
	quiet()
	g := hx.NewGen(cfg.Seed)
	var cases []string
	var fails []map[string]any
	dist := map[string]int{}
	for i := 0; i < cfg.N; i++ {
		before := g.Intn(3)
		after := 104 + g.Intn(20) // more than sendCh has slots (100), plus the one the loop holds
		text, f, err := sendFaultCase(g, i, before, after)
		if err != nil {
			fails = append(fails, map[string]any{"key": "sendfault-setup", "what": err.Error(), "case": fmt.Sprint(i)})
			continue
		}
		cases = append(cases, text)
		fails = append(fails, f...)
		dist["users-after-fault"] += after
		dist["users-before-fault"] += before
	}
	cf := &hx.CaseFile{
		Imports: "From FRP Require Import Corr.C11.\n",
		Typ:     "case",
		Cases:   cases,
		Tail: "Definition M := Eval vm_compute in mismatches check_case cases.\nPrint M.\n" +
			"Definition SMON := Eval vm_compute in (Z.of_nat (length (mismatches C11_holds cases)) : Z).\nPrint SMON.\n" +
			"Definition NWFAIL := Eval vm_compute in (count_if case_wfail cases : Z).\nPrint NWFAIL.\n",
	}
	if err := cf.Write(cfg.Out); err != nil {
		return err
	}
	cfg.St["cases"] = len(cases)
	cfg.St["distinct_nontrivial"] = len(cases)
	cfg.St["samples"] = []string{fmt.Sprintf("%d write-fault case(s)", len(cases))}
	cfg.St["distribution"] = dist
	cfg.St["impl_failures"] = fails
	return nil
}
