from vlib import Check

PID = "C04"

MANIFEST = dict(
    text="Machine-checked theorems (Coq 8.16.1) over an executable model of frps' credential checks (token key = H(token, ts) "
         "with constant-time compare, additional scopes, OIDC consumer with its shared subject list, always-pass verifier) and of "
         "the connection handler around them (first message on network / internal listener, later messages on a session, close, "
         "heartbeat sweep) as a step function; proved for all event histories: every session was admitted on a verified login "
         "or on the internal listener with the flag, the network cannot select the bypass, pings / work connections without the "
         "credential are refused when their scope is on, unknown run ids are refused, anything refused leaves the whole state "
         "unchanged and can be erased from a history, other sessions are untouched, proxies exist only on live sessions. The model "
         "is tied to the code by a differential run of a real in-process frps (real go-oidc verifier against a fake issuer) with "
         "scripted peers; reply class and the session table / pools / proxy table / OIDC subject list are compared after every step.",
    note="Trusted: Coq kernel+VM; harness transcription; MD5 preimage resistance and go-oidc signature checking (oracles H and oidc). "
         "'Proved knowledge of the credential' = presented md5(token||ts); replay of an old pair is not excluded (DESIGN 4a). "
         "The NewWorkConn plugin chain is an oracle whose OUTPUT is what gets verified (scripted http plugin in the driver); Login/Ping/NewProxy hooks are the identity (C15). Only observed, not proved: behaviour on websocket/tls/kcp/quic listeners, "
         "connection closure after a refusal, liveness of the victim session after a barrage.",
    technique="Coq proof (invariant by induction over fold_left step) + translator unit t4auth (token.go Verify*, ConstantTimeEqString, RegisterControl -> gen/GenAuth.v, reflective shape theorems) + differential correspondence via vm_compute + trace monitors",
    design="4/C04")


def q(tier, quick, thorough):
    return quick if tier == "quick" else thorough


# model branches the property names: the run must reach each of them, otherwise the correspondence says nothing about it
REQUIRED = ["NLOGINOK", "NLOGINREFUSED", "NWORKPOOLED", "NWORKSILENT", "NWORKAUTHREFUSED", "NPONG", "NPONGERR", "NPROXYOK",
            "NOTHERFIRST", "NINTERNALPASS", "NNETWORKCLAIM",
            # round 2: a once-valid OIDC token replayed after expiry and refused; NewWorkConn plugin rewrites the
            # credential to an invalid one (refused) / to a valid one (pooled) / rejects
            "NOIDCEXPIREDREFUSED", "NPLUGREWRITEREFUSED", "NPLUGREWRITEPOOLED", "NPLUGREJECT"]


def recipe(c: Check):
    c.build(["Properties/C04.vo", "Corr/C04.vo"], harness=["c04"], units=["t4auth"])
    c.obligations("C04")
    st = c.run_driver("auth", q(c.tier, 240, 4000), shards=q(c.tier, 8, 16))
    if st is not None:
        counters = c.cov.get("coq_counters", {}).get("auth", {})
        for k in REQUIRED:
            if counters.get(k, 0) <= 0 and not c.broken:
                c.broken.append(dict(kind="coverage", name="driver auth never reached %s" % k,
                                     detail="counter %s = %s" % (k, counters.get(k))))
    return c.finish(
        rule="auth driver: one fresh in-process frps per case (token or OIDC with the real go-oidc verifier against a fake issuer; every "
             "subset of {HeartBeats, NewWorkConns} plus a list with duplicates), 8-60 steps: Login / NewWorkConn / NewVisitorConn / 13 other "
             "message types as FIRST message on a network or internal (net.Pipe, HandleListener(l,true)) connection, Ping / NewProxy / "
             "CloseProxy / 8 unhandled types as LATER message, close; keys right / wrong / other timestamp / empty / other token / "
             "truncated / extended / one hex digit flipped / upper-case / the token itself; OIDC tokens valid (3 subjects), expired, foreign "
             "key, foreign issuer, alg none, spliced signature, garbage; client_spec.always_auth_pass from both listeners; run ids empty / "
             "fresh / live (takeover) / ended / unknown / near miss. Every 10th case: one victim session, 40 refused attempts, then proof "
             "of life. Compared after every step: reply class (error text class, silent close), run id, session table (run id, pool "
             "length, proxies, step of last liveness refresh, always-pass), proxy table, OIDC subject list. distinct = distinct case text; "
             "non-trivial = at least one accepted and one refused step",
        assumptions=["H (md5 of token++decimal timestamp) and oidc (go-oidc Verify) are oracles: Section variables in the theorems, tables "
                     "computed by the harness's own md5 / known by construction of the JWTs in the correspondence",
                     "the NewWorkConn plugin chain is an oracle (its outcome is observed/scripted; C15 owns the chain); Login/Ping/NewProxy hooks are the identity",
                     "replay of an old (timestamp, key) pair is not excluded by the property (DESIGN 4a)"])
