(* C01: pkg/util/limit Writer.Write and Reader.Read.  Model only: no proofs here.

   Go (writer.go):                                   model
     b := w.limiter.Burst()                            b
     for { end := len(p); if end == 0 { break }        p = [] -> done
           if b < len(p) { end = b }                   e := if b <? |p| then b else |p|
           err = WaitN(ctx, end)                       reservation of e tokens (e <= b, so WaitN's "n > burst" error is unreachable)
           nn, err = w.w.Write(p[:end]); n += nn       chunk firstn e p, count += e (inner writer accepts the whole slice or the connection is dead)
           p = p[end:] }                               continue with skipn e p
   The loop does not terminate for b = 0 and panics on p[:b] for b < 0: both are [None] here
   (fuel [S (length p)] is enough for every b > 0, see Proofs/LimitProofs.v). *)
From FRP Require Export Model.Stream.
Open Scope Z_scope.

Fixpoint lim_write_go (fuel : nat) (b : Z) (p : bytes) : option (Z * list bytes) :=
  match p with
  | [] => Some (0, [])
  | _ :: _ =>
      match fuel with
      | O => None
      | S f =>
          let e := if b <? blen p then b else blen p in
          if e <=? 0 then None
          else match lim_write_go f b (skipn (Z.to_nat e) p) with
               | Some (n, r) => Some (e + n, firstn (Z.to_nat e) p :: r)
               | None => None
               end
      end
  end.

(* returned byte count and the sequence of inner Write calls (= the sequence of reservations) *)
Definition limit_write_full (b : Z) (p : bytes) : option (Z * list bytes) := lim_write_go (S (length p)) b p.
Definition limit_write (b : Z) (p : bytes) : option (list bytes) :=
  match limit_write_full b p with Some (_, l) => Some l | None => None end.

(* a whole history of Write calls through the limiter *)
Fixpoint limit_write_all (b : Z) (cs : chunks) : option chunks :=
  match cs with
  | [] => Some []
  | p :: r =>
      match limit_write b p, limit_write_all b r with
      | Some x, Some y => Some (x ++ y)
      | _, _ => None
      end
  end.

(* Go (reader.go):  b := Burst(); if b < len(p) { p = p[:b] }; n, err = r.r.Read(p); if err != nil { return }
                    err = WaitN(ctx, n)
   One Read call with a buffer of [plen] bytes while the inner reader would hand over at most
   [offer] bytes (>= 1: a blocking reader returns at least one byte) of the remaining stream [s].
   Result: (bytes returned, EOF seen, remaining stream, tokens reserved). *)
Definition limit_read1 (b : Z) (s : bytes) (plen offer : Z) : bytes * bool * bytes * Z :=
  let want := if b <? plen then b else plen in
  if (0 <? want) && (blen s =? 0) then ([], true, s, 0)      (* inner Read: 0, io.EOF; returned before WaitN *)
  else
    let n := Z.max 0 (Z.min want (Z.min offer (blen s))) in
    (firstn (Z.to_nat n) s, false, skipn (Z.to_nat n) s, n).

(* a sequence of Read calls (buffer length, inner offer) on the stream s, stopping at EOF *)
Fixpoint limit_read_seq (b : Z) (s : bytes) (reads : list (Z * Z)) : list bytes * bool * bytes :=
  match reads with
  | [] => ([], false, s)
  | (plen, offer) :: r =>
      let '(out, eof, s', _) := limit_read1 b s plen offer in
      if eof then ([], true, s')
      else let '(outs, e, rest) := limit_read_seq b s' r in (out :: outs, e, rest)
  end.

(* the limiter as a layer: re-chunks writes, passes reads through byte for byte *)
Definition limit_layer (b : Z) : st_layer := {| lw := limit_write_all b; lr := fun w => w |}.
