package main

// T3C (fourth unit of this binary): pkg/config/legacy/conversion.go, common sections -> GenLegacyConv.v
//
//   legacy_conv : for Convert_ClientCommonConf_To_v1 and Convert_ServerCommonConf_To_v1, every assignment:
//                 (section, ini key of the legacy source field, legacy field path, v1 root struct,
//                  canonical v1 Go path, form, ini key of the guarding field or "")
//                 forms: copy | cast | ptr | appendif:<const> | newif | portsparse | elem (inside the plugin loop)
//   legacy_keys : every field of the legacy common structs with its ini tag (flattened through `extends`),
//                 so that a key that is not converted at all is visible
// A statement that is not one of the recognised forms becomes an entry of form "Unknown:<text>".

import (
	"veriftranslator/tx"

	"bytes"
	"fmt"
	"go/ast"
	"go/parser"
	"go/token"
	"os"
	"path/filepath"
	"reflect"
	"sort"
	"strconv"
	"strings"
)

type lfield struct {
	name, typ, ini string
	embedded       bool
}

type convEntry struct {
	section, ini, lpath, root string
	vpath                     []string
	form, guard               string
}

func parseLegacyStructs(dirs ...string) (map[string][]lfield, error) {
	out := map[string][]lfield{}
	fset := token.NewFileSet()
	for _, dir := range dirs {
		ents, err := os.ReadDir(dir)
		if err != nil {
			return nil, err
		}
		var names []string
		for _, e := range ents {
			if !e.IsDir() && strings.HasSuffix(e.Name(), ".go") && !strings.HasSuffix(e.Name(), "_test.go") {
				names = append(names, e.Name())
			}
		}
		sort.Strings(names)
		for _, n := range names {
			f, err := parser.ParseFile(fset, filepath.Join(dir, n), nil, 0)
			if err != nil {
				return nil, err
			}
			for _, d := range f.Decls {
				gd, ok := d.(*ast.GenDecl)
				if !ok || gd.Tok != token.TYPE {
					continue
				}
				for _, s := range gd.Specs {
					ts := s.(*ast.TypeSpec)
					st, ok := ts.Type.(*ast.StructType)
					if !ok {
						continue
					}
					var fs []lfield
					for _, fl := range st.Fields.List {
						tag := ""
						if fl.Tag != nil {
							tag, _ = strconv.Unquote(fl.Tag.Value)
						}
						ini := strings.Split(reflect.StructTag(tag).Get("ini"), ",")[0]
						typ := exprStr(fl.Type)
						short := typ
						if i := strings.LastIndex(short, "."); i >= 0 {
							short = short[i+1:]
						}
						if len(fl.Names) == 0 {
							fs = append(fs, lfield{strings.TrimPrefix(short, "*"), strings.TrimPrefix(short, "*"), ini, true})
						}
						for _, nm := range fl.Names {
							fs = append(fs, lfield{nm.Name, short, ini, false})
						}
					}
					if _, dup := out[ts.Name.Name]; !dup {
						out[ts.Name.Name] = fs
					}
				}
			}
		}
	}
	return out, nil
}

// resolve a legacy field path (promotion through embedded structs); returns the ini key of the last field
func legacyKey(tbl map[string][]lfield, sname string, path []string) (string, bool) {
	var find func(sname, fname string) (lfield, bool)
	find = func(sname, fname string) (lfield, bool) {
		for _, f := range tbl[sname] {
			if f.name == fname {
				return f, true
			}
		}
		for _, f := range tbl[sname] {
			if f.embedded {
				if r, ok := find(f.typ, fname); ok {
					return r, true
				}
			}
		}
		return lfield{}, false
	}
	cur := sname
	var last lfield
	for _, p := range path {
		f, ok := find(cur, p)
		if !ok {
			return "", false
		}
		last = f
		cur = f.typ
	}
	if last.ini == "" || last.ini == "-" {
		return "-:" + last.name, true
	}
	return last.ini, true
}

func flattenKeys(tbl map[string][]lfield, sname, prefix string, out *[][2]string, depth int) {
	if depth > 5 {
		return
	}
	for _, f := range tbl[sname] {
		p := f.name
		if prefix != "" {
			p = prefix + "." + f.name
		}
		if f.embedded {
			flattenKeys(tbl, f.typ, p, out, depth+1)
			continue
		}
		k := f.ini
		if k == "" || k == "-" {
			k = "-:" + f.name
		}
		*out = append(*out, [2]string{k, p})
	}
}

func selPath(e ast.Expr) (string, []string, bool) {
	var names []string
	for {
		switch x := e.(type) {
		case *ast.SelectorExpr:
			names = append([]string{x.Sel.Name}, names...)
			e = x.X
			continue
		case *ast.Ident:
			return x.Name, names, true
		}
		return "", nil, false
	}
}

func genLegacyConv() ([]byte, error) {
	t, err := loadTables()
	if err != nil {
		return nil, err
	}
	ltbl, err := parseLegacyStructs(filepath.Join(tx.Repo, "pkg/config/legacy"), filepath.Join(tx.Repo, "pkg/auth/legacy"))
	if err != nil {
		return nil, err
	}
	f, err := parser.ParseFile(t.fset, filepath.Join(tx.Repo, "pkg/config/legacy/conversion.go"), nil, 0)
	if err != nil {
		return nil, err
	}
	var entries []convEntry
	type sec struct{ fn, name, lroot, vroot string }
	secs := []sec{
		{"Convert_ClientCommonConf_To_v1", "client", "ClientCommonConf", "ClientCommonConfig"},
		{"Convert_ServerCommonConf_To_v1", "server", "ServerCommonConf", "ServerConfig"},
	}
	for _, sc := range secs {
		var fd *ast.FuncDecl
		for _, d := range f.Decls {
			if x, ok := d.(*ast.FuncDecl); ok && x.Name.Name == sc.fn {
				fd = x
			}
		}
		if fd == nil {
			return nil, fmt.Errorf("%s not found", sc.fn)
		}
		unknown := func(s ast.Stmt, guard string) {
			entries = append(entries, convEntry{section: sc.name, form: "Unknown:" + tx.Sanitize((&tr{}).stmtText(s)), guard: guard})
		}
		vpathOf := func(e ast.Expr) ([]string, bool) {
			a, ok := t.access(e, &env{vars: map[string]string{"out": sc.vroot}})
			if !ok || a.root != "out" || len(a.path) == 0 {
				return nil, false
			}
			return a.path, true
		}
		lkeyOf := func(e ast.Expr) (string, string, bool) {
			root, p, ok := selPath(e)
			if !ok || root != "conf" || len(p) == 0 {
				return "", "", false
			}
			k, ok := legacyKey(ltbl, sc.lroot, p)
			return k, strings.Join(p, "."), ok
		}
		var walk func(list []ast.Stmt, guard string)
		walk = func(list []ast.Stmt, guard string) {
			for _, s := range list {
				switch x := s.(type) {
				case *ast.ReturnStmt:
					continue
				case *ast.AssignStmt:
					// out := &v1.X{}
					if x.Tok == token.DEFINE && len(x.Lhs) == 1 && exprStr(x.Lhs[0]) == "out" {
						continue
					}
					// out.AllowPorts, _ = types.NewPortsRangeSliceFromString(conf.AllowPortsStr)
					if x.Tok == token.ASSIGN && len(x.Lhs) == 2 && len(x.Rhs) == 1 && exprStr(x.Lhs[1]) == "_" {
						if ce, ok := x.Rhs[0].(*ast.CallExpr); ok && exprStr(ce.Fun) == "types.NewPortsRangeSliceFromString" && len(ce.Args) == 1 {
							vp, ok1 := vpathOf(x.Lhs[0])
							k, lp, ok2 := lkeyOf(ce.Args[0])
							if ok1 && ok2 {
								entries = append(entries, convEntry{sc.name, k, lp, sc.vroot, vp, "portsparse", guard})
								continue
							}
						}
					}
					if x.Tok != token.ASSIGN || len(x.Lhs) != 1 || len(x.Rhs) != 1 {
						unknown(s, guard)
						continue
					}
					vp, ok := vpathOf(x.Lhs[0])
					if !ok {
						unknown(s, guard)
						continue
					}
					rhs := x.Rhs[0]
					form := "copy"
					// out.P = append(out.P, v1.Const)   (under a guard)
					if ce, ok := rhs.(*ast.CallExpr); ok && exprStr(ce.Fun) == "append" && len(ce.Args) == 2 && guard != "" {
						if exprStr(ce.Args[0]) == exprStr(x.Lhs[0]) {
							if se, ok := ce.Args[1].(*ast.SelectorExpr); ok && exprStr(se.X) == "v1" {
								entries = append(entries, convEntry{sc.name, guard, "", sc.vroot, vp, "appendif:" + se.Sel.Name, guard})
								continue
							}
						}
						unknown(s, guard)
						continue
					}
					// out.P = &v1.T{}   (under a guard)
					if u, ok := rhs.(*ast.UnaryExpr); ok && u.Op == token.AND && guard != "" {
						if cl, ok := u.X.(*ast.CompositeLit); ok && len(cl.Elts) == 0 {
							entries = append(entries, convEntry{sc.name, guard, "", sc.vroot, vp, "newif", guard})
							continue
						}
					}
					if ce, ok := rhs.(*ast.CallExpr); ok && len(ce.Args) == 1 {
						switch fn := exprStr(ce.Fun); {
						case fn == "lo.ToPtr":
							form, rhs = "ptr", ce.Args[0]
						case strings.HasPrefix(fn, "v1."):
							form, rhs = "cast", ce.Args[0]
						}
					}
					k, lp, ok := lkeyOf(rhs)
					if !ok {
						unknown(s, guard)
						continue
					}
					entries = append(entries, convEntry{sc.name, k, lp, sc.vroot, vp, form, guard})
				case *ast.IfStmt:
					// if conf.X { ... }
					if x.Init == nil && x.Else == nil {
						if k, _, ok := lkeyOf(x.Cond); ok && guard == "" {
							walk(x.Body.List, k)
							continue
						}
					}
					unknown(s, guard)
				case *ast.RangeStmt:
					// for _, v := range conf.HTTPPlugins { out.HTTPPlugins = append(out.HTTPPlugins, v1.T{A: v.A, ...}) }
					k, lp, ok := lkeyOf(x.X)
					val, _ := x.Value.(*ast.Ident)
					if !ok || val == nil || len(x.Body.List) != 1 {
						unknown(s, guard)
						continue
					}
					as, ok := x.Body.List[0].(*ast.AssignStmt)
					if !ok || len(as.Lhs) != 1 || len(as.Rhs) != 1 {
						unknown(s, guard)
						continue
					}
					vp, ok1 := vpathOf(as.Lhs[0])
					ce, ok2 := as.Rhs[0].(*ast.CallExpr)
					if !ok1 || !ok2 || exprStr(ce.Fun) != "append" || len(ce.Args) != 2 {
						unknown(s, guard)
						continue
					}
					cl, ok := ce.Args[1].(*ast.CompositeLit)
					if !ok {
						unknown(s, guard)
						continue
					}
					for _, el := range cl.Elts {
						kv, ok := el.(*ast.KeyValueExpr)
						r, p, ok2 := selPath(kv.Value)
						if !ok || !ok2 || r != val.Name || len(p) != 1 {
							unknown(s, guard)
							continue
						}
						entries = append(entries, convEntry{sc.name, k + "[]." + p[0], lp + "[]." + p[0], sc.vroot,
							append(append([]string{}, vp...), "[]", exprStr(kv.Key)), "elem", guard})
					}
				default:
					unknown(s, guard)
				}
			}
		}
		walk(fd.Body.List, "")
	}

	var b bytes.Buffer
	b.WriteString("(* GENERATED by translator unit T3C from pkg/config/legacy/conversion.go, pkg/config/legacy/*.go, pkg/auth/legacy/*.go -- do not edit *)\n")
	b.WriteString("From FRP Require Import Model.Bytes.\nLocal Open Scope string_scope.\n")
	b.WriteString("Definition T3C_translated : bool := true.\n")
	b.WriteString("(* (section, ini key, legacy field path, v1 root struct, canonical v1 Go path, form, guarding ini key) *)\n")
	b.WriteString("Definition legacy_conv : list (string * string * string * string * list string * string * string) := [\n")
	for i, e := range entries {
		ps := []string{}
		for _, p := range e.vpath {
			ps = append(ps, tx.CoqString(p))
		}
		sep := ";"
		if i == len(entries)-1 {
			sep = ""
		}
		fmt.Fprintf(&b, "  (%s, %s, %s, %s, [%s], %s, %s)%s\n", tx.CoqString(e.section), tx.CoqString(e.ini), tx.CoqString(e.lpath),
			tx.CoqString(e.root), strings.Join(ps, "; "), tx.CoqString(e.form), tx.CoqString(e.guard), sep)
	}
	b.WriteString("].\n")
	b.WriteString("(* (section, ini key or \"-:Field\" for a field without an ini tag, legacy field path) *)\n")
	b.WriteString("Definition legacy_keys : list (string * string * string) := [\n")
	var all [][3]string
	for _, sc := range secs {
		var ks [][2]string
		flattenKeys(ltbl, sc.lroot, "", &ks, 0)
		for _, k := range ks {
			all = append(all, [3]string{sc.name, k[0], k[1]})
		}
	}
	for i, k := range all {
		sep := ";"
		if i == len(all)-1 {
			sep = ""
		}
		fmt.Fprintf(&b, "  (%s, %s, %s)%s\n", tx.CoqString(k[0]), tx.CoqString(k[1]), tx.CoqString(k[2]), sep)
	}
	b.WriteString("].\n")
	return b.Bytes(), nil
}
