// C16 drivers.  The frps under test always runs in a CHILD process (this binary re-executed
// with the sub-command "serve"), so that a crash of the implementation is an observation of
// the driver, not the end of it.
//
//	alloc    Login.PoolCount x Transport.MaxPoolCount grid: number of ReqWorkConn the real server
//	         sends in advance vs Model/Alloc.v; negative / huge values must not kill the server.
//	barrage  field-level mutation of every message type, sent as first message of fresh
//	         connections and on authenticated control channels, interleaved with concurrent
//	         registration / closure / group / visitor / NAT-hole traffic; after every batch a
//	         watchdog login + tunnel must still work and the child must still be alive.
package main

import (
	"bufio"
	"bytes"
	"context"
	"fmt"
	"io"
	"math"
	"net"
	"os"
	"os/exec"
	"path/filepath"
	"reflect"
	"regexp"
	"sort"
	"strings"
	"sync"
	"syscall"
	"time"

	"github.com/fatedier/frp/pkg/config"
	v1 "github.com/fatedier/frp/pkg/config/v1"
	"github.com/fatedier/frp/pkg/msg"
	netpkg "github.com/fatedier/frp/pkg/util/net"
	"github.com/fatedier/frp/pkg/util/util"
	"github.com/fatedier/frp/server"
	"golang.org/x/net/websocket"
	"verifharness/hx"
)

var drivers = map[string]hx.DriverFn{"alloc": runAlloc, "barrage": runBarrage, "clientbarrage": runClientBarrage, "racebarrage": runRaceBarrage, "clientrace": runClientRace}

func main() {
	if len(os.Args) >= 2 && os.Args[1] == "serve" {
		serve(os.Args[2:])
		return
	}
	if len(os.Args) >= 2 && os.Args[1] == "serveini" {
		serveINI(os.Args[2:])
		return
	}
	if len(os.Args) >= 2 && os.Args[1] == "vnetplugin" {
		vnetPluginMain(os.Args[2:])
		return
	}
	if len(os.Args) >= 2 && os.Args[1] == "client" {
		clientMain(os.Args[2:])
		return
	}
	hx.Main(drivers)
}

// ---- child: an frps that lives until stdin is closed ----

func serve(args []string) {
	hx.Quiet()
	// few descriptors: connections or sockets the server keeps although it should have let go of them exhaust the limit
	// within a check, and the watchdog notices
	_ = syscall.Setrlimit(syscall.RLIMIT_NOFILE, &syscall.Rlimit{Cur: 1024, Max: 1024})
	addr := args[0]
	maxPool := int64(5)
	if len(args) > 1 {
		fmt.Sscan(args[1], &maxPool)
	}
	// ssh tunnel gateway: host key generated into a directory of its own (inside the directory the parent names), removed on exit
	keyDir := ""
	if len(args) > 2 {
		keyDir, _ = os.MkdirTemp(args[2], "c16sshkey")
	}
	if keyDir != "" {
		defer os.RemoveAll(keyDir)
	}
	sshPort := 0
	var s *hx.Server
	var err error
	// the ports are probed and bound a moment later: another process on the machine can take one in between
	// (seen once in several hundred parallel runs); a start that fails with "address already in use" is retried
	// with freshly probed ports
	for attempt := 0; attempt < 4; attempt++ {
		s, err = hx.StartServer(addr, func(c *v1.ServerConfig) {
			if keyDir != "" {
				sshPort = hx.FreePort(addr)
				c.SSHTunnelGateway.BindPort = sshPort
				c.SSHTunnelGateway.AutoGenPrivateKeyPath = filepath.Join(keyDir, "host_key")
			}
			c.Transport.MaxPoolCount = maxPool
			c.VhostHTTPPort = hx.FreePort(addr)
			c.SubDomainHost = "sub.test"
			c.TCPMuxHTTPConnectPort = hx.FreePort(addr)
			c.VhostHTTPSPort = hx.FreePort(addr)
			c.UserConnTimeout = 2
			c.AllowPorts = nil
			// the dashboard switches the in-memory statistics (shared maps updated per user connection) on
			c.WebServer.Addr = addr
			c.WebServer.Port = hx.FreePort(addr)
		})
		if err == nil || !strings.Contains(err.Error(), "address already in use") {
			break
		}
	}
	if err != nil {
		fmt.Println("ERR", err)
		if keyDir != "" {
			os.RemoveAll(keyDir)
		}
		os.Exit(3)
	}
	fmt.Printf("READY %d %d %d %d %d\n", s.Port, s.Cfg.VhostHTTPPort, sshPort, s.Cfg.TCPMuxHTTPConnectPort, s.Cfg.VhostHTTPSPort)
	_, _ = io.Copy(io.Discard, os.Stdin)
	s.Close()
}

// serveINI: an frps configured by a LEGACY ini file through the real loader (pkg/config LoadServerConfig ->
// legacy conversion): c16 serveini <addr> <max_pool_count> <dir for the file>.
func serveINI(args []string) {
	hx.Quiet()
	addr, maxPool, dir := args[0], args[1], args[2]
	fail := func(err error) {
		fmt.Println("ERR", err)
		os.Exit(3)
	}
	d, err := os.MkdirTemp(dir, "c16ini")
	if err != nil {
		fail(err)
	}
	defer os.RemoveAll(d)
	port := hx.FreePort(addr)
	ini := fmt.Sprintf("[common]\nbind_addr = %s\nproxy_bind_addr = %s\nbind_port = %d\ntoken = %s\ntcp_mux = false\nmax_pool_count = %s\nlog_file = /dev/null\nlog_level = error\n",
		addr, addr, port, hx.DefaultToken, maxPool)
	path := filepath.Join(d, "frps.ini")
	if err := os.WriteFile(path, []byte(ini), 0o600); err != nil {
		fail(err)
	}
	cfg, legacy, err := config.LoadServerConfig(path, false)
	if err != nil || !legacy {
		os.RemoveAll(d)
		fail(fmt.Errorf("legacy ini not loaded: legacy=%v err=%v", legacy, err))
	}
	svc, err := server.NewService(cfg)
	if err != nil {
		os.RemoveAll(d)
		fail(err)
	}
	ctx, cancel := context.WithCancel(context.Background())
	go svc.Run(ctx)
	for i := 0; i < 100 && !hx.TCPBound(addr, port); i++ {
		time.Sleep(10 * time.Millisecond)
	}
	fmt.Printf("READY %d 0 0 0 0\n", port)
	_, _ = io.Copy(io.Discard, os.Stdin)
	cancel()
	_ = svc.Close()
}

type child struct {
	cmd    *exec.Cmd
	stdin  io.WriteCloser
	addr   string
	port   int
	vhost  int
	ssh    int // port of the ssh tunnel gateway (0 = not enabled)
	tcpmux int // tcpmuxHTTPConnectPort
	https  int // vhostHTTPSPort
	errBuf *strings.Builder
	done   chan struct{}
	mu     sync.Mutex
}

func startChild(addr string, maxPool int) (*child, error) { return startChildSSH(addr, maxPool, "") }

// startChildSSH: keyDir != "" switches the ssh tunnel gateway on (the child creates and removes its key directory inside keyDir).
func startChildSSH(addr string, maxPool int, keyDir string) (*child, error) {
	args := []string{"serve", addr, fmt.Sprint(maxPool)}
	if keyDir != "" {
		args = append(args, keyDir)
	}
	c, line, err := startChildProc(args...)
	if err != nil {
		return nil, err
	}
	c.addr = addr
	fmt.Sscanf(line, "READY %d %d %d %d %d", &c.port, &c.vhost, &c.ssh, &c.tcpmux, &c.https)
	return c, nil
}

// lockedBuf collects the child's stderr.  It is handed to exec as a Writer (not read from a pipe by us), so
// cmd.Wait returns only after everything the child wrote has been copied: a panic message is never cut.
type lockedBuf struct {
	c *child
}

func (w lockedBuf) Write(b []byte) (int, error) {
	w.c.mu.Lock()
	if w.c.errBuf.Len() < 1<<20 {
		w.c.errBuf.Write(b)
	}
	w.c.mu.Unlock()
	return len(b), nil
}

// startChildProc re-executes this binary (or VERIF_C16_CHILD, e.g. the same binary built with -race) with the
// given sub-command and waits for its READY line.
func startChildProc(args ...string) (*child, string, error) {
	bin := os.Args[0]
	if b := os.Getenv("VERIF_C16_CHILD"); b != "" {
		bin = b
	}
	cmd := exec.Command(bin, args...)
	in, _ := cmd.StdinPipe()
	out, _ := cmd.StdoutPipe()
	c := &child{cmd: cmd, stdin: in, errBuf: &strings.Builder{}, done: make(chan struct{})}
	cmd.Stderr = lockedBuf{c}
	if err := cmd.Start(); err != nil {
		return nil, "", err
	}
	br := bufio.NewReader(out)
	lineCh := make(chan string, 1)
	go func() {
		line, _ := br.ReadString('\n')
		lineCh <- line
		_, _ = io.Copy(io.Discard, br)
		_ = cmd.Wait()
		close(c.done)
	}()
	var line string
	select {
	case line = <-lineCh:
	case <-time.After(20 * time.Second):
	}
	if !strings.HasPrefix(line, "READY") {
		_ = cmd.Process.Kill()
		return nil, "", fmt.Errorf("child %v did not start: %q %s", args, line, firstLines(c.stderr(), 5))
	}
	return c, line, nil
}

func (c *child) alive() bool {
	select {
	case <-c.done:
		return false
	default:
		return true
	}
}

func (c *child) stderr() string {
	c.mu.Lock()
	defer c.mu.Unlock()
	return c.errBuf.String()
}

func (c *child) stop() {
	c.stdin.Close()
	select {
	case <-c.done:
	case <-time.After(3 * time.Second):
		_ = c.cmd.Process.Kill()
	}
}

// crashClass extracts the first panic / fatal line of the child's stderr.
func crashClass(s string) string {
	for _, l := range strings.Split(s, "\n") {
		if strings.HasPrefix(l, "panic:") || strings.HasPrefix(l, "fatal error:") {
			return strings.TrimSpace(l)
		}
	}
	if len(s) > 200 {
		s = s[:200]
	}
	return "exited: " + strings.TrimSpace(s)
}

// a pseudo hx.Server that points at the child (only Addr/Port/Cfg.Auth.Token are used by the peer helpers)
func (c *child) server() *hx.Server {
	cfg := &v1.ServerConfig{}
	cfg.Auth.Token = hx.DefaultToken
	return &hx.Server{Cfg: cfg, Addr: c.addr, Port: c.port}
}

// ---- alloc driver ----

func runAlloc(cfg *hx.RunCfg) error {
	hx.Quiet()
	cf := &hx.CaseFile{Imports: "From FRP Require Import Corr.C16.\n", Typ: "case",
		Tail: "Definition M := Eval vm_compute in mismatches check_case cases.\nPrint M.\n" +
			"Definition NCLAMPLOW := Eval vm_compute in count_if clamped_low cases.\nPrint NCLAMPLOW.\n" +
			"Definition NCLAMPHIGH := Eval vm_compute in count_if clamped_high cases.\nPrint NCLAMPHIGH.\n"}
	var fails []map[string]any
	dist := map[string]int{}
	samples := []string{}
	distinct := map[string]bool{}
	pools := []int64{0, 1, 2, 3, 5, 6, 7, 50, 1000, math.MaxInt32, math.MaxInt64, -1, -9, -10, -11, -12, -100, math.MinInt32, math.MinInt64}
	// one child per server maximum, run side by side (they are independent; cases are collected in the old order)
	// the last child gets its maximum (2) from a LEGACY ini file through the real loader instead of a ServerConfig value
	maxima := []int{1, 3, 5, 50, 2} // 0 would be replaced by the default 5 in ServerConfig.Complete
	iniDir := ""
	if cfg.Stats != "" {
		iniDir = filepath.Dir(cfg.Stats)
	}
	if iniDir == "" {
		maxima = maxima[:4]
	}
	type allocOut struct {
		cases []string
		fails []map[string]any
		err   error
	}
	outs := make([]allocOut, len(maxima))
	var awg sync.WaitGroup
	for mi, maxPool := range maxima {
		awg.Add(1)
		go func(mi, maxPool int) {
			defer awg.Done()
			o := &outs[mi]
			var c *child
			var err error
			if mi == 4 {
				var line string
				c, line, err = startChildProc("serveini", fmt.Sprintf("127.0.16.%d", 10+mi), fmt.Sprint(maxPool), iniDir)
				if err == nil {
					c.addr = fmt.Sprintf("127.0.16.%d", 10+mi)
					fmt.Sscanf(line, "READY %d", &c.port)
				}
			} else {
				c, err = startChild(fmt.Sprintf("127.0.16.%d", 10+mi), maxPool)
			}
			if err != nil {
				o.err = err
				return
			}
			defer c.stop()
			s := c.server()
			for _, p := range pools {
				if !c.alive() {
					break
				}
				got := int64(-1)
				peer, resp, err := s.Login(hx.LoginOpts{Mutate: func(l *msg.Login) { l.PoolCount = int(p) }})
				crashed := false
				if err != nil || peer == nil {
					time.Sleep(100 * time.Millisecond)
					if !c.alive() {
						crashed = true
					} else if resp != nil {
						got = -2 // refused
					}
				} else {
					got = 0
					for {
						m, err := peer.Recv(250 * time.Millisecond)
						if err != nil {
							break
						}
						if _, ok := m.(*msg.ReqWorkConn); ok {
							got++
						}
					}
					peer.Close()
				}
				cs := fmt.Sprintf("CAlloc %s %d %s %s", hx.Z(p), maxPool, hx.Z(got), hx.Bool(crashed))
				o.cases = append(o.cases, cs)
				if crashed {
					o.fails = append(o.fails, map[string]any{"key": "frps-crash:login-poolcount", "what": "frps terminated after Login{PoolCount:" + fmt.Sprint(p) + "}: " + crashClass(c.stderr()),
						"case": cs})
					break
				}
			}
		}(mi, maxPool)
	}
	awg.Wait()
	for mi, o := range outs {
		if o.err != nil {
			return o.err
		}
		for _, cs := range o.cases {
			cf.Cases = append(cf.Cases, cs)
			distinct[cs] = true
			if mi == 4 {
				dist[fmt.Sprintf("legacy-ini max=%d", maxima[mi])]++
			} else {
				dist[fmt.Sprintf("max=%d", maxima[mi])]++
			}
			if len(samples) < 4 {
				samples = append(samples, cs)
			}
		}
		fails = append(fails, o.fails...)
	}
	cfg.St["cases"] = len(cf.Cases)
	cfg.St["distinct_nontrivial"] = len(distinct)
	cfg.St["distribution"] = dist
	cfg.St["samples"] = samples
	cfg.St["impl_failures"] = fails
	return cf.Write(cfg.Out)
}

// ---- barrage driver ----

var msgProtos = []func() msg.Message{
	func() msg.Message { return &msg.Login{} }, func() msg.Message { return &msg.LoginResp{} },
	func() msg.Message { return &msg.NewProxy{} }, func() msg.Message { return &msg.NewProxyResp{} },
	func() msg.Message { return &msg.CloseProxy{} }, func() msg.Message { return &msg.NewWorkConn{} },
	func() msg.Message { return &msg.ReqWorkConn{} }, func() msg.Message { return &msg.StartWorkConn{} },
	func() msg.Message { return &msg.NewVisitorConn{} }, func() msg.Message { return &msg.NewVisitorConnResp{} },
	func() msg.Message { return &msg.Ping{} }, func() msg.Message { return &msg.Pong{} },
	func() msg.Message { return &msg.UDPPacket{} }, func() msg.Message { return &msg.NatHoleVisitor{} },
	func() msg.Message { return &msg.NatHoleClient{} }, func() msg.Message { return &msg.NatHoleResp{} },
	func() msg.Message { return &msg.NatHoleSid{} }, func() msg.Message { return &msg.NatHoleReport{} },
}

var advStrings = []string{"", "a", "p1", "tcp", "udp", "http", "https", "tcpmux", "stcp", "sudp", "xtcp", "*", "..", "a.sub.test", "A.SUB.TEST",
	"\x00", "\xff\xfe\xfd", strings.Repeat("x", 9000), strings.Repeat("é", 300), "127.0.0.1:70000", "1.2.3.4:-5", "[::1]:0", ":", "::::", "{}", `"`, "client", "server", "1KB", "-1MB", "999999999999GB"}
var advInts = []int64{0, 1, -1, -9, -10, -11, -100, 7, 80, 65535, 65536, 70000, math.MaxInt32, math.MinInt32, math.MaxInt64, math.MinInt64}

func mutate(g *hx.Gen, v reflect.Value) {
	for i := 0; i < v.NumField(); i++ {
		f := v.Field(i)
		if !f.CanSet() || g.Chance(0.35) {
			continue
		}
		switch f.Kind() {
		case reflect.String:
			f.SetString(g.Pick(advStrings))
		case reflect.Int, reflect.Int64:
			f.SetInt(advInts[g.Intn(len(advInts))])
		case reflect.Uint16:
			f.SetUint(uint64(advInts[g.Intn(len(advInts))]) & 0xffff)
		case reflect.Bool:
			f.SetBool(g.Chance(0.5))
		case reflect.Map:
			if f.Type().Key().Kind() == reflect.String && f.Type().Elem().Kind() == reflect.String && g.Chance(0.6) {
				m := reflect.MakeMap(f.Type())
				for k := 0; k < g.Intn(4); k++ {
					m.SetMapIndex(reflect.ValueOf(g.Pick(advStrings)), reflect.ValueOf(g.Pick(advStrings)))
				}
				f.Set(m)
			}
		case reflect.Slice:
			if f.Type().Elem().Kind() == reflect.String && g.Chance(0.7) {
				n := g.Intn(5)
				s := reflect.MakeSlice(f.Type(), n, n)
				for k := 0; k < n; k++ {
					s.Index(k).SetString(g.Pick(advStrings))
				}
				f.Set(s)
			}
		case reflect.Struct:
			mutate(g, f)
		}
	}
}

var proxyTypes = []string{"tcp", "udp", "http", "http", "https", "https", "tcpmux", "tcpmux", "stcp", "sudp", "xtcp"}
var someDomains = []string{"x.test", "x.test", "y.test", "*.x.test", "a.sub.test", "X.TEST", "*", ""}

// structuredNewProxy: valid in shape for its type, adversarial in the values that select resources.
func structuredNewProxy(g *hx.Gen, i int) *msg.NewProxy {
	np := &msg.NewProxy{ProxyName: fmt.Sprintf("sp%d", g.Intn(6)), ProxyType: proxyTypes[g.Intn(len(proxyTypes))]}
	switch np.ProxyType {
	case "tcp", "udp":
		np.RemotePort = []int{0, 0, -1, 65536, 70000, 1}[g.Intn(6)]
	case "http", "https", "tcpmux":
		n := 1 + g.Intn(3)
		for k := 0; k < n; k++ {
			np.CustomDomains = append(np.CustomDomains, someDomains[g.Intn(len(someDomains))])
		}
		if g.Chance(0.35) { // a later domain fails after an earlier one succeeded: the same domain twice
			d := []string{"x.test", "dup.test", "y.test"}[g.Intn(3)]
			np.CustomDomains = []string{d, d}
		}
		if g.Chance(0.3) {
			np.SubDomain = []string{"sd", "a.b", "*", ""}[g.Intn(4)]
		}
		if np.ProxyType == "http" {
			np.Locations = [][]string{nil, {"/"}, {"/a", "/a"}, {"/a", "/b"}}[g.Intn(4)]
			np.RouteByHTTPUser = []string{"", "u"}[g.Intn(2)]
		}
		if np.ProxyType == "tcpmux" {
			np.Multiplexer = []string{"httpconnect", "httpconnect", "httpconnect", "", "bogus"}[g.Intn(5)]
		}
	default:
		np.Sk = "k"
		np.AllowUsers = [][]string{nil, {"*"}, {"u"}}[g.Intn(3)]
	}
	if g.Chance(0.3) && (np.ProxyType == "tcp" || np.ProxyType == "http" || np.ProxyType == "tcpmux") {
		np.Group = []string{"g1", "g2"}[g.Intn(2)]
		np.GroupKey = []string{"gk", "other"}[g.Intn(2)]
	}
	if g.Chance(0.2) {
		np.BandwidthLimit = []string{"1KB", "-1MB", "x", "1MB"}[g.Intn(4)]
		np.BandwidthLimitMode = []string{"server", "client", "bogus"}[g.Intn(3)]
	}
	return np
}

// reloginScenario: login (run id R); then a second login with run id R whose connection is closed by
// the peer at a random point (before / right after sending, so the LoginResp write may fail); then an
// ordinary re-login with R must be answered.  Returns "ok…" or what went wrong.
func reloginScenario(g *hx.Gen, s *hx.Server) string {
	p, _, err := s.Login(hx.LoginOpts{})
	if err != nil || p == nil {
		return "ok (first login refused)"
	}
	rid := p.RunID
	how := g.Intn(3)
	conn, err := s.Dial()
	if err == nil {
		ts := time.Now().Unix()
		lm := &msg.Login{Version: "0.61.0", RunID: rid, PrivilegeKey: util.GetAuthKey(hx.DefaultToken, ts), Timestamp: ts}
		switch how {
		case 0:
			_ = msg.WriteMsg(conn, lm)
			conn.Close()
		case 1:
			_ = msg.WriteMsg(conn, lm)
			if tc, ok := conn.(*net.TCPConn); ok {
				_ = tc.SetLinger(0) // RST
			}
			conn.Close()
		default:
			_ = msg.WriteMsg(conn, lm)
			time.Sleep(time.Duration(g.Intn(5)) * time.Millisecond)
			conn.Close()
		}
	}
	p.Close()
	// The dropped login may be processed after a later one and then legitimately replaces it (the run id
	// designates the session stored last), so one unanswered attempt proves nothing: the server is stalled
	// only if NO attempt is answered.
	last := ""
	for attempt := 0; attempt < 3; attempt++ {
		done := make(chan string, 1)
		go func() {
			p2, resp, err := s.Login(hx.LoginOpts{RunID: rid})
			switch {
			case err != nil:
				done <- "no answer: " + err.Error()
			case p2 == nil:
				done <- "ok (refused: " + resp.Error + ")"
			default:
				p2.Close()
				done <- "ok"
			}
		}()
		select {
		case last = <-done:
		case <-time.After(6 * time.Second):
			last = "no LoginResp within 6 s"
		}
		if strings.HasPrefix(last, "ok") {
			break
		}
		time.Sleep(50 * time.Millisecond)
	}
	return fmt.Sprintf("%s [drop variant %d]", last, how)
}

func raceReports(stderr string) []string {
	var out []string
	parts := strings.Split(stderr, "WARNING: DATA RACE")
	for _, p := range parts[1:] {
		if i := strings.Index(p, "=================="); i >= 0 {
			p = p[:i]
		}
		out = append(out, p)
	}
	return out
}

// lockSites: (type, function, line) of every access site of a listed shared table, read from today's
// coq/gen/GenLocks.v (path in -extra); a race whose top frame is one of these sites is a race ON a listed table.
func lockSites(path string) map[string]string {
	out := map[string]string{}
	b, err := os.ReadFile(path)
	if err != nil {
		return out
	}
	re := regexp.MustCompile(`\("([^"]+)", "([^"]+)", "([^"]+)", (\d+), (true|false), "[a-z]+"\)`)
	for _, m := range re.FindAllStringSubmatch(string(b), -1) {
		out[m[1]+"|"+m[3]+"|"+m[4]] = m[1] + "." + m[2]
	}
	return out
}

var frameRe = regexp.MustCompile(`github\.com/fatedier/frp/([A-Za-z0-9_/]+)\.\(\*?([A-Za-z0-9_]+)\)\.([A-Za-z0-9_]+)`)
var lineRe = regexp.MustCompile(`\.go:(\d+)`)

// sharedTableType: the listed table (type.field) accessed by the TOP frame of either racing access, or "".
func sharedTableType(report string, sites map[string]string) string {
	lines := strings.Split(report, "\n")
	for i, l := range lines {
		if (strings.Contains(l, "ead at") || strings.Contains(l, "rite at")) && i+2 < len(lines) {
			f := frameRe.FindStringSubmatch(lines[i+1])
			ln := lineRe.FindStringSubmatch(lines[i+2])
			if f != nil && ln != nil {
				if t, ok := sites[f[1]+"."+f[2]+"|"+f[3]+"|"+ln[1]]; ok {
					return t
				}
			}
		}
	}
	return ""
}

func firstLines(s string, n int) string {
	ls := strings.Split(strings.TrimSpace(s), "\n")
	if len(ls) > n {
		ls = ls[:n]
	}
	return strings.Join(ls, "\n")
}

func wsDial(s *hx.Server) (net.Conn, error) {
	addr := fmt.Sprintf("%s:%d", s.Addr, s.Port)
	raw, err := net.DialTimeout("tcp", addr, 2*time.Second)
	if err != nil {
		return nil, err
	}
	cfg, err := websocket.NewConfig("ws://"+addr+netpkg.FrpWebsocketPath, "http://"+addr)
	if err != nil {
		raw.Close()
		return nil, err
	}
	_ = raw.SetDeadline(time.Now().Add(3 * time.Second))
	ws, err := websocket.NewClient(cfg, raw)
	if err != nil {
		raw.Close()
		return nil, err
	}
	_ = raw.SetDeadline(time.Time{})
	ws.PayloadType = websocket.BinaryFrame
	return ws, nil
}

// wsLogin logs in over a fresh websocket connection and reports whether LoginResp arrived in time.
func wsLogin(s *hx.Server, d time.Duration) (bool, string) {
	ws, err := wsDial(s)
	if err != nil {
		return false, "dial: " + err.Error()
	}
	defer ws.Close()
	ts := time.Now().Unix()
	if err := msg.WriteMsg(ws, &msg.Login{Version: "0.61.0", PrivilegeKey: util.GetAuthKey(hx.DefaultToken, ts), Timestamp: ts}); err != nil {
		return false, "write: " + err.Error()
	}
	_ = ws.SetReadDeadline(time.Now().Add(d))
	var resp msg.LoginResp
	if err := msg.ReadMsgInto(ws, &resp); err != nil {
		return false, "no LoginResp: " + err.Error()
	}
	return resp.Error == "", resp.Error
}

// watchdog: a fresh login, a tcp proxy, a user connection bridged to an offered work connection.
func watchdog(s *hx.Server) error {
	p, resp, err := s.Login(hx.LoginOpts{})
	if err != nil {
		return fmt.Errorf("login: %v", err)
	}
	if p == nil {
		return fmt.Errorf("login refused: %s", resp.Error)
	}
	defer p.Close()
	port := hx.FreePort(s.Addr)
	r, err := p.NewProxy(&msg.NewProxy{ProxyName: "wd-" + fmt.Sprint(port), ProxyType: "tcp", RemotePort: port})
	if err != nil || r.Error != "" {
		return fmt.Errorf("new proxy: %v %v", err, r)
	}
	gdone := make(chan error, 1)
	go func() {
		gr, gerr := p.NewProxy(&msg.NewProxy{ProxyName: "wdg-" + fmt.Sprint(port), ProxyType: "tcp", RemotePort: 0, Group: "wd-group-" + fmt.Sprint(port%3), GroupKey: "k"})
		if gerr != nil {
			gdone <- fmt.Errorf("grouped new proxy: %v", gerr)
			return
		}
		_ = gr
		gdone <- nil
	}()
	select {
	case gerr := <-gdone:
		if gerr != nil {
			return gerr
		}
	case <-time.After(4 * time.Second):
		return fmt.Errorf("a grouped tcp registration got no answer within 4 s (group controller wedged?)")
	}
	u, err := net.DialTimeout("tcp", fmt.Sprintf("%s:%d", s.Addr, port), time.Second)
	if err != nil {
		return fmt.Errorf("user dial: %v", err)
	}
	defer u.Close()
	w, err := p.WorkConn(true)
	if err != nil {
		return err
	}
	defer w.Close()
	var sw msg.StartWorkConn
	_ = w.SetReadDeadline(time.Now().Add(3 * time.Second))
	if err := msg.ReadMsgInto(w, &sw); err != nil {
		return fmt.Errorf("no StartWorkConn: %v", err)
	}
	go io.WriteString(u, "ok?")
	b := make([]byte, 3)
	if _, err := io.ReadFull(w, b); err != nil || string(b) != "ok?" {
		return fmt.Errorf("tunnel dead: %v", err)
	}
	return nil
}

func runBarrage(cfg *hx.RunCfg) error { return barrage(cfg, false) }

// runRaceBarrage: the barrage weighted towards the structured scenarios (same-run-id re-logins overlapping
// registrations, concurrent NewProxy/CloseProxy, groups, visitors, NAT-hole traffic); meant for a child built with
// the race detector (VERIF_C16_CHILD), whose reports are classified after the child has stopped.
func runRaceBarrage(cfg *hx.RunCfg) error { return barrage(cfg, true) }

func barrage(cfg *hx.RunCfg, raceMode bool) error {
	hx.Quiet()
	g := hx.NewGen(cfg.Seed)
	cf := &hx.CaseFile{Imports: "From FRP Require Import Corr.C16.\n", Typ: "case",
		Tail: "Definition M := Eval vm_compute in mismatches check_case cases.\nPrint M.\n"}
	childAddr := "127.0.16.2"
	if raceMode {
		childAddr = "127.0.16.3"
	}
	keyParent := ""
	if cfg.Stats != "" {
		keyParent = filepath.Dir(cfg.Stats)
	}
	c, err := startChildSSH(childAddr, 5, keyParent)
	if err != nil {
		return err
	}
	defer func() { // a crashed child cannot remove its key directory
		c.stop()
		if keyParent != "" {
			if left, _ := filepath.Glob(filepath.Join(keyParent, "c16sshkey*")); len(left) > 0 {
				for _, d := range left {
					os.RemoveAll(d)
				}
			}
		}
	}()
	s := c.server()
	var fails []map[string]any
	dist := map[string]int{}
	distinct := map[string]bool{}
	samples := []string{}
	_ = s
	record := func(kind, typ, detail string, alive, wd bool) {
		cs := fmt.Sprintf("CBarrage %s %s %s %s", hx.Str(kind), hx.Str(typ), hx.Bool(alive), hx.Bool(wd))
		cf.Cases = append(cf.Cases, cs)
		distinct[kind+typ+detail] = true
		dist[kind]++
		if len(samples) < 6 {
			samples = append(samples, cs+" (* "+strings.ReplaceAll(detail, "*", "_")+" *)")
		}
	}
	crashReported := false
	crashed := func(kind, detail string) bool {
		if c.alive() {
			return false
		}
		if crashReported {
			return true
		}
		crashReported = true
		time.Sleep(30 * time.Millisecond)
		// stable key: the first frame inside frp of the panicking goroutine (the same defect has the same key whatever
		// message happened to be in flight); the kind of the last case only if the stderr shows no such frame
		key, where := "frps-crash:"+kind, crashFrame(c.stderr())
		if where != "" {
			key = "frps-crash:" + where
		}
		fails = append(fails, map[string]any{"key": key, "what": "frps terminated (" + kind + "): " + crashClass(c.stderr()) + " in " + where, "case": fmt.Sprintf("seed %d case %d: %s", cfg.Seed, len(cf.Cases), detail)})
		st := c.stderr()
		if len(st) > 6000 {
			st = st[:6000]
		}
		cfg.St["crash_stderr"] = st
		return true
	}
	// background traffic: concurrent registration / closure of xtcp, stcp, grouped tcp and http proxies,
	// visitor pre-checks, same-run-id re-logins
	ctx, cancel := context.WithCancel(context.Background())
	var wg sync.WaitGroup
	bg := func(f func(i int)) {
		wg.Add(1)
		go func() {
			defer wg.Done()
			for i := 0; ctx.Err() == nil; i++ {
				f(i)
			}
		}()
	}
	for w := 0; w < 2; w++ {
		w := w
		bg(func(i int) {
			p, _, err := s.Login(hx.LoginOpts{User: "u"})
			if err != nil || p == nil {
				time.Sleep(20 * time.Millisecond)
				return
			}
			defer p.Close()
			name := fmt.Sprintf("x%d", w)
			_, _ = p.NewProxy(&msg.NewProxy{ProxyName: name, ProxyType: "xtcp", Sk: "k", AllowUsers: []string{"*"}})
			_, _ = p.NewProxy(&msg.NewProxy{ProxyName: name + "s", ProxyType: "stcp", Sk: "k"})
			_, _ = p.NewProxy(&msg.NewProxy{ProxyName: name + "g", ProxyType: "tcp", RemotePort: 0, Group: "g1", GroupKey: "gk"})
			_, _ = p.NewProxy(&msg.NewProxy{ProxyName: name + "h", ProxyType: "http", CustomDomains: []string{"h.test"}, Group: "hg", GroupKey: "gk"})
			_ = p.CloseProxy(name)
			time.Sleep(time.Duration(g.Intn(3)) * time.Millisecond)
		})
		bg(func(i int) {
			p, _, err := s.Login(hx.LoginOpts{User: "v"})
			if err != nil || p == nil {
				time.Sleep(20 * time.Millisecond)
				return
			}
			defer p.Close()
			for k := 0; k < 20 && ctx.Err() == nil; k++ {
				ts := time.Now().Unix()
				_ = p.Send(&msg.NatHoleVisitor{TransactionID: fmt.Sprint(k), ProxyName: fmt.Sprintf("x%d", k%2), PreCheck: true, Timestamp: ts, SignKey: util.GetAuthKey("k", ts)})
				_, _ = p.Recv(50 * time.Millisecond)
			}
		})
	}
	// user traffic: one session with three tcp proxies, each hammered by overlapping short user connections
	// (statistics of several proxies updated concurrently)
	wg.Add(1)
	go func() {
		defer wg.Done()
		for ctx.Err() == nil {
			p, _, err := s.Login(hx.LoginOpts{PoolCount: 0})
			if err != nil || p == nil {
				time.Sleep(50 * time.Millisecond)
				continue
			}
			ports := []int{}
			for k := 0; k < 3; k++ {
				port := hx.FreePort(s.Addr)
				if r, err := p.NewProxy(&msg.NewProxy{ProxyName: fmt.Sprintf("ut%d", k), ProxyType: "tcp", RemotePort: port}); err == nil && r.Error == "" {
					ports = append(ports, port)
				}
			}
			// serve ReqWorkConn by offering work connections that echo nothing and close
			stop := make(chan struct{})
			go func() {
				for {
					m, err := p.Recv(300 * time.Millisecond)
					select {
					case <-stop:
						return
					default:
					}
					if err != nil {
						if ne, ok := err.(net.Error); ok && ne.Timeout() {
							continue
						}
						return
					}
					if _, ok := m.(*msg.ReqWorkConn); ok {
						go func() {
							w, err := p.WorkConn(true)
							if err != nil {
								return
							}
							var sw msg.StartWorkConn
							_ = w.SetReadDeadline(time.Now().Add(2 * time.Second))
							if msg.ReadMsgInto(w, &sw) == nil {
								_, _ = w.Write([]byte("x"))
							}
							time.Sleep(5 * time.Millisecond)
							w.Close()
						}()
					}
				}
			}()
			var uw sync.WaitGroup
			for round := 0; round < 40 && ctx.Err() == nil; round++ {
				for _, port := range ports {
					for k := 0; k < 4; k++ {
						uw.Add(1)
						go func(port int) {
							defer uw.Done()
							u, err := net.DialTimeout("tcp", fmt.Sprintf("%s:%d", s.Addr, port), 500*time.Millisecond)
							if err != nil {
								return
							}
							_, _ = u.Write([]byte("hello"))
							_ = u.SetReadDeadline(time.Now().Add(300 * time.Millisecond))
							b := make([]byte, 8)
							_, _ = u.Read(b)
							u.Close()
						}(port)
					}
				}
				uw.Wait()
			}
			close(stop)
			p.Close()
		}
	}()
	n := cfg.N
	for i := 0; i < n; i++ {
		mk := msgProtos[g.Intn(len(msgProtos))]
		m := mk()
		mutate(g, reflect.ValueOf(m).Elem())
		typ := reflect.TypeOf(m).Elem().Name()
		detail := fmt.Sprintf("%+v", m)
		if len(detail) > 300 {
			detail = detail[:300]
		}
		kind := ""
		scenario := []int{0, 0, 1, 2, 2, 3, 3, 3, 3, 4}[g.Intn(10)]
		if raceMode {
			scenario = []int{0, 1, 2, 2, 3, 3, 3, 3, 4, 4, 5, 5, 5, 5, 5, 5}[g.Intn(16)]
		}
		switch scenario {
		case 5: // structured: two more logins with the run id of a session that is registering proxies
			kind = "structured-relogin-race"
			typ = "Login"
			detail = reloginRaceScenario(g, s)
			if !strings.HasPrefix(detail, "ok") && c.alive() {
				fails = append(fails, map[string]any{"key": "frps-stalled:relogin-while-registering", "what": "a login with a known run id got no LoginResp after logins with that run id overlapped registrations: " + detail,
					"case": detail})
			}
		case 3: // structured: a mostly valid NewProxy of a random type with adversarial route/port/group fields
			kind = "structured-newproxy"
			np := structuredNewProxy(g, i)
			m = np
			typ = "NewProxy:" + np.ProxyType
			detail = fmt.Sprintf("%+v", np)
			if len(detail) > 300 {
				detail = detail[:300]
			}
			p, _, _ := s.Login(hx.LoginOpts{PoolCount: g.Intn(2)})
			if p != nil {
				_ = p.Send(np)
				if g.Chance(0.5) { // the same registration again (duplicate name / conflicting routes)
					_ = p.Send(np)
				}
				_, _ = p.Recv(60 * time.Millisecond)
				if g.Chance(0.5) {
					_ = p.CloseProxy(np.ProxyName)
					_ = p.CloseProxy(np.ProxyName)
				}
				p.Close()
			}
		case 4: // structured: connection dropped at a random point of the login / re-login exchange
			kind = "structured-relogin"
			typ = "Login"
			detail = reloginScenario(g, s)
			if !strings.HasPrefix(detail, "ok") && c.alive() {
				fails = append(fails, map[string]any{"key": "frps-stalled:relogin-after-dropped-login", "what": "a re-login with a known run id got no LoginResp in 4 s after an earlier login with that run id was dropped mid-exchange: " + detail,
					"case": detail})
			}
		case 0: // unauthenticated first message
			kind = "first-message"
			conn, err := s.Dial()
			if err == nil {
				_ = msg.WriteMsg(conn, m)
				_ = conn.SetReadDeadline(time.Now().Add(30 * time.Millisecond))
				io.Copy(io.Discard, conn)
				conn.Close()
			}
		case 1: // authenticated: mutated Login with a valid key
			kind = "login-valid-key"
			if l, ok := m.(*msg.Login); ok {
				lm := *l
				p, _, _ := s.Login(hx.LoginOpts{Mutate: func(x *msg.Login) {
					k, ts := x.PrivilegeKey, x.Timestamp
					*x = lm
					x.PrivilegeKey, x.Timestamp = k, ts
				}})
				if p != nil {
					p.Close()
				}
			} else {
				kind = "on-session"
				p, _, _ := s.Login(hx.LoginOpts{PoolCount: g.Intn(3)})
				if p != nil {
					_ = p.Send(m)
					_, _ = p.Recv(30 * time.Millisecond)
					p.Close()
				}
			}
		default: // authenticated session, several mutated messages in a row
			kind = "on-session"
			p, _, _ := s.Login(hx.LoginOpts{})
			if p != nil {
				_ = p.Send(m)
				m2 := msgProtos[g.Intn(len(msgProtos))]()
				mutate(g, reflect.ValueOf(m2).Elem())
				_ = p.Send(m2)
				_, _ = p.Recv(30 * time.Millisecond)
				p.Close()
			}
		}
		alive := c.alive()
		wdOK := true
		if !alive {
			record(kind, typ, detail, false, false)
			crashed(kind+":"+typ, detail)
			break
		}
		if i%25 == 24 || i == n-1 {
			if err := watchdog(s); err != nil {
				// re-try twice: the watchdog shares the server with the background load
				ok := false
				for r := 0; r < 2 && !ok; r++ {
					time.Sleep(200 * time.Millisecond)
					ok = watchdog(s) == nil
				}
				if !ok && !crashed("watchdog", detail) {
					wdOK = false
					fails = append(fails, map[string]any{"key": "frps-wedged", "what": "after the barrage a fresh login + tcp tunnel no longer works: " + err.Error(), "case": detail})
				}
			}
		}
		record(kind, typ, detail, c.alive(), wdOK)
	}
	cancel()
	wg.Wait()
	// a silent peer on the websocket transport must not delay the login of another websocket client
	if c.alive() {
		silent, err1 := wsDial(s)
		t0 := time.Now()
		ok, detail := wsLogin(s, 4*time.Second)
		dt := time.Since(t0)
		if silent != nil {
			silent.Close()
		}
		if err1 == nil {
			record("ws-silent-peer", "Login", fmt.Sprintf("login over websocket next to a silent websocket peer: ok=%v after %v %s", ok, dt.Round(time.Millisecond), detail), c.alive(), ok)
			if !ok {
				fails = append(fails, map[string]any{"key": "frps-stalled:websocket-silent-peer", "what": "a silent unauthenticated websocket peer delays other websocket clients: login got no answer within 4 s (" + detail + ")",
					"case": "dial ws (silent); dial ws; Login"})
			}
		}
	}
	time.Sleep(100 * time.Millisecond)
	crashed("background-traffic", "concurrent xtcp/stcp/group registration, closure, visitor pre-checks")
	// directed phases (srvdirected.go): raw user requests on the vhost / tcpmux ports, structured NAT-hole exchanges, a peer
	// that writes without reading
	if c.alive() {
		runServerDirected(cfg, c, s, raceMode, record, crashed, &fails)
	}
	// directed, last (a crash here costs no random case): udp proxies closed (CloseProxy / session end) while user datagrams
	// pour into their ports
	if c.alive() {
		rounds := 40
		if cfg.Tier == "thorough" {
			rounds = 200
		}
		ug := hx.NewGen(cfg.Seed + 977)
		for r := 0; r < rounds && c.alive(); r++ {
			detail := udpCloseScenario(ug, s)
			if crashed("directed:udp-close-under-traffic", detail) {
				break
			}
			record("directed:udp-close-under-traffic", "CloseProxy", detail, true, true)
		}
		time.Sleep(50 * time.Millisecond)
		crashed("directed:udp-close-under-traffic", "udp proxies closed under datagram traffic")
	}
	// directed, last: the ssh tunnel gateway (anonymous ssh clients)
	if c.alive() && c.ssh > 0 {
		rounds := 30
		if cfg.Tier == "thorough" {
			rounds = 600
		}
		if raceMode {
			rounds /= 2
		}
		sg := hx.NewGen(cfg.Seed + 4441)
		for r := 0; r < rounds && c.alive(); r++ {
			typ, detail := sshScenario(sg, c.addr, c.ssh, r)
			time.Sleep(2 * time.Millisecond)
			if crashed("directed:ssh-gateway:"+typ, detail) {
				break
			}
			wd := true
			if r%15 == 14 || r == rounds-1 {
				var werr error
				for try := 0; try < 3; try++ {
					if werr = sshWatchdog(c.addr, c.ssh); werr == nil {
						break
					}
					time.Sleep(200 * time.Millisecond)
				}
				if werr != nil && !crashed("directed:ssh-gateway:watchdog", detail) {
					wd = false
					fails = append(fails, map[string]any{"key": "frps-wedged:ssh-gateway", "what": "after the ssh barrage a well-formed ssh tunnel no longer works: " + werr.Error(), "case": detail})
				}
			}
			record("directed:ssh-gateway", typ, detail, c.alive(), wd)
		}
		time.Sleep(50 * time.Millisecond)
		crashed("directed:ssh-gateway", "ssh gateway barrage")
	}
	// race detector reports of a -race child (thorough tier): a race whose stack touches one of the shared
	// tables' owner types is a violation; the others are listed in the stats
	c.stop()
	races := raceReports(c.stderr())
	sites := lockSites(cfg.Extra)
	other := []string{}
	frpOwned := []string{}
	closeSend := []string{}
	seenKey := map[string]bool{}
	for _, r := range races {
		if t := sharedTableType(r, sites); t != "" {
			fails = append(fails, map[string]any{"key": "data-race:" + t, "what": "race detector: unsynchronised access in " + t, "case": firstLines(r, 14)})
		} else if key, where := frpOwnedRace(r); strings.HasPrefix(key, "chan-close-vs-send:") {
			// measured on the unchanged tree: exactly one such pair (server/control.go worker's close(workConnCh) against
			// RegisterWorkConn's recover-wrapped send); recorded, not a violation
			if !seenKey[key] {
				seenKey[key] = true
				closeSend = append(closeSend, where)
			}
		} else if strings.HasPrefix(key, "unprotected-send:") {
			if !seenKey[key] {
				seenKey[key] = true
				fn := strings.TrimPrefix(key, "unprotected-send:")
				fails = append(fails, map[string]any{"key": "frps-crash:" + fn, "what": "race detector: a channel is closed while " + fn + " sends on it without recover (panic: send on closed channel): " + where,
					"case": fmt.Sprintf("seed %d, %d barrage cases (race mode %v); report:\n%s", cfg.Seed, len(cf.Cases), raceMode, firstLines(r, 30))})
			}
		} else if key != "" {
			// rule: any other race one of whose accesses is made by frp code is a violation even if the object is not one
			// of the listed shared tables (the unchanged tree produces none)
			frpOwned = append(frpOwned, where)
			if !seenKey[key] {
				seenKey[key] = true
				fails = append(fails, map[string]any{"key": key, "what": "race detector: unsynchronised accesses by frp code at " + where,
					"case": fmt.Sprintf("seed %d, %d barrage cases (race mode %v); report:\n%s", cfg.Seed, len(cf.Cases), raceMode, firstLines(r, 30))})
			}
		} else {
			other = append(other, firstLines(r, 8))
		}
	}
	cfg.St["race_reports_frp_owned"] = frpOwned
	cfg.St["race_reports_chan_close_vs_send"] = closeSend
	cfg.St["race_reports"] = len(races)
	if len(other) > 6 {
		other = other[:6]
	}
	cfg.St["race_reports_outside_listed_tables"] = other
	cfg.St["cases"] = len(cf.Cases)
	cfg.St["distinct_nontrivial"] = len(distinct)
	cfg.St["distribution"] = dist
	cfg.St["samples"] = samples
	cfg.St["impl_failures"] = fails
	return cf.Write(cfg.Out)
}

// ---- race reports on objects outside the listed tables ----

var raceAccessRe = regexp.MustCompile(`^(Previous )?(read|write|atomic read|atomic write|Read|Write) at 0x[0-9a-f]+ by `)
var raceFuncRe = regexp.MustCompile(`^  (\S+)\(\)\s*$`)
var repoPathRe = regexp.MustCompile(`/((?:server|client|pkg|cmd)/[^/].*)$`)
var raceFileRe = regexp.MustCompile(`^      (\S+\.go:\d+)`)

// ownerFrame: of one access stack (the lines after its header), the first frame that belongs to a module
// (import path whose first element contains a dot), i.e. neither runtime nor standard library nor this harness.
func ownerFrame(stack []string) (fn, file string) {
	for i := 0; i+1 < len(stack); i++ {
		m := raceFuncRe.FindStringSubmatch(stack[i])
		if m == nil {
			continue
		}
		first := m[1]
		if j := strings.Index(first, "/"); j >= 0 {
			first = first[:j]
		}
		if !strings.Contains(first, ".") || !strings.Contains(m[1], "/") {
			continue // runtime., sync., net/http., main., verifharness/hx.
		}
		f := raceFileRe.FindStringSubmatch(stack[i+1])
		file := ""
		if f != nil {
			file = f[1]
		}
		return m[1], file
	}
	return "", ""
}

// explicitRecover: senders whose recover is a deferred function of their own (not golib's PanicToError, which shows in the stack)
var explicitRecover = map[string]bool{"server.(*Control).RegisterWorkConn": true}

// frpOwnedRace: key and location pair of a report one of whose accesses is made by code of github.com/fatedier/frp.
// A report whose two accesses are runtime.closechan and runtime.chansend (close of a channel against a send on it) gets
// the key prefix "chan-close-vs-send:": that interleaving shows as "panic: send on closed channel" unless the send is
// recover-wrapped, which is what the crash watch of the barrage observes; it is not a memory-safety hazard by itself.
func frpOwnedRace(report string) (key, where string) {
	lines := strings.Split(report, "\n")
	var fns, files, tops []string
	sendFn, sendWrapped := "", false
	for i, l := range lines {
		if !raceAccessRe.MatchString(strings.TrimSpace(l)) {
			continue
		}
		end := i + 1
		for end < len(lines) && strings.TrimSpace(lines[end]) != "" {
			end++
		}
		fn, file := ownerFrame(lines[i+1 : end])
		fns = append(fns, fn)
		files = append(files, file)
		if end > i+1 && strings.Contains(lines[i+1], "runtime.chansend") {
			sendFn = fn
			sendWrapped = strings.Contains(strings.Join(lines[i+1:end], "\n"), "golib/errors.PanicToError")
		}
		top := ""
		if end > i+1 {
			if m := raceFuncRe.FindStringSubmatch(lines[i+1]); m != nil {
				top = m[1]
			}
		}
		tops = append(tops, top)
	}
	const pfx = "github.com/fatedier/frp/"
	owned := false
	for _, fn := range fns {
		if strings.HasPrefix(fn, pfx) {
			owned = true
		}
	}
	if !owned {
		return "", ""
	}
	short := []string{}
	locs := []string{}
	for i, fn := range fns {
		fn = strings.TrimPrefix(fn, pfx)
		if j := strings.Index(fn, ".func"); j > 0 {
			fn = fn[:j]
		}
		short = append(short, fn)
		if m := repoPathRe.FindStringSubmatch(files[i]); m != nil { // keep the path inside the repository
			files[i] = m[1]
		}
		locs = append(locs, fn+" ("+files[i]+")")
	}
	sort.Strings(short)
	sort.Strings(tops)
	if len(tops) == 2 && tops[0] == "runtime.chansend" && tops[1] == "runtime.closechan" {
		sendFn = strings.TrimPrefix(sendFn, pfx)
		if j := strings.Index(sendFn, ".func"); j > 0 {
			sendFn = sendFn[:j]
		}
		if sendWrapped || explicitRecover[sendFn] {
			return "chan-close-vs-send:" + strings.Join(short, "|"), strings.Join(locs, " <-> ")
		}
		// the sender has no recover around it: this interleaving IS "panic: send on closed channel" in sendFn; same key as
		// the crash itself would get ("frps-crash:" / "frpc-crash:" is put in front by the caller)
		return "unprotected-send:" + sendFn, strings.Join(locs, " <-> ")
	}
	return "data-race:frp:" + strings.Join(short, "|"), strings.Join(locs, " <-> ")
}

// reloginRaceScenario: session A (run id R) sends a row of NewProxy without waiting; at the same time two more
// logins with R arrive (each replaces the session stored last).  Then an ordinary login with R must be answered.
func reloginRaceScenario(g *hx.Gen, s *hx.Server) string {
	p, _, err := s.Login(hx.LoginOpts{User: "rr"})
	if err != nil || p == nil {
		return "ok (first login refused)"
	}
	rid := p.RunID
	k := 2 + g.Intn(6)
	d1, d2 := time.Duration(g.Intn(3000))*time.Microsecond, time.Duration(g.Intn(3000))*time.Microsecond
	typ := []string{"tcp", "stcp", "xtcp", "http"}[g.Intn(4)]
	var wg sync.WaitGroup
	wg.Add(3)
	go func() {
		defer wg.Done()
		for i := 0; i < k; i++ {
			np := &msg.NewProxy{ProxyName: fmt.Sprintf("rr%d", i), ProxyType: typ, Sk: "k", CustomDomains: []string{fmt.Sprintf("rr%d.test", i)}}
			if p.Send(np) != nil {
				return
			}
		}
		_, _ = p.Recv(20 * time.Millisecond)
	}()
	relogin := func(d time.Duration) {
		defer wg.Done()
		time.Sleep(d)
		if p2, _, _ := s.Login(hx.LoginOpts{User: "rr", RunID: rid}); p2 != nil {
			_ = p2.Send(&msg.NewProxy{ProxyName: "rr-late", ProxyType: "stcp", Sk: "k"})
			_, _ = p2.Recv(10 * time.Millisecond)
			p2.Close()
		}
	}
	go relogin(d1)
	go relogin(d2)
	wg.Wait()
	p.Close()
	last := ""
	for attempt := 0; attempt < 3; attempt++ {
		done := make(chan string, 1)
		go func() {
			p3, resp, err := s.Login(hx.LoginOpts{User: "rr", RunID: rid})
			switch {
			case err != nil:
				done <- "no answer: " + err.Error()
			case p3 == nil:
				done <- "ok (refused: " + resp.Error + ")"
			default:
				p3.Close()
				done <- "ok"
			}
		}()
		select {
		case last = <-done:
		case <-time.After(6 * time.Second):
			last = "no LoginResp within 6 s"
		}
		if strings.HasPrefix(last, "ok") {
			break
		}
		time.Sleep(50 * time.Millisecond)
	}
	return fmt.Sprintf("%s [%d x NewProxy %s, re-logins after %v and %v]", last, k, typ, d1, d2)
}

// udpCloseScenario: register a udp proxy, stream datagrams at its remote port, close it (CloseProxy, or the control
// connection) a few milliseconds later; twice per session.
func udpCloseScenario(g *hx.Gen, s *hx.Server) string {
	p, _, err := s.Login(hx.LoginOpts{User: "uc"})
	if err != nil || p == nil {
		return "login refused"
	}
	defer p.Close()
	how := g.Intn(2)
	rounds := 0
	for r := 0; r < 2; r++ {
		port := hx.FreeUDPPort(s.Addr)
		resp, err := p.NewProxy(&msg.NewProxy{ProxyName: fmt.Sprintf("uc%d", r), ProxyType: "udp", RemotePort: port})
		if err != nil || resp.Error != "" {
			continue
		}
		rounds++
		stop := make(chan struct{})
		done := make(chan struct{})
		go func() {
			defer close(done)
			c, err := net.DialUDP("udp", nil, &net.UDPAddr{IP: net.ParseIP(s.Addr), Port: port})
			if err != nil {
				return
			}
			defer c.Close()
			b := bytes.Repeat([]byte("udp-user-datagram"), 80) // 1360 bytes: the forwarder spends its time encoding, not waiting
			for {
				select {
				case <-stop:
					return
				default:
					_, _ = c.Write(b)
				}
			}
		}()
		time.Sleep(time.Duration(3+g.Intn(15)) * time.Millisecond)
		if how == 0 || r == 0 {
			_ = p.CloseProxy(fmt.Sprintf("uc%d", r))
		} else {
			p.Close()
		}
		time.Sleep(20 * time.Millisecond)
		close(stop)
		<-done
	}
	return fmt.Sprintf("%d udp proxies closed under datagram traffic (%s)", rounds, []string{"CloseProxy", "CloseProxy, then session end"}[how])
}
