package main

// T3L (third unit of this binary): the lock discipline around the package-level strict switch
// v1.DisallowUnknownFields -> GenLoadShape.v
//
//   load_events : the events of config.LoadConfigure in source order:
//                 "Lock" | "DeferUnlock" | "Unlock" | "Set:strict" | "Set:other" | "Decode" | "SwitchUse"
//                 (Decode = any call that receives the destination parameter; nested blocks are walked in
//                 source order, alternative branches therefore appear as consecutive Decode events)
//   switch_uses : every use of the variable anywhere in the repository (non-test files):
//                 (file, enclosing function, "read" | "write")
//   mutex_uses  : every use of v1.DisallowUnknownFieldsMu: (file, function, method)

import (
	"veriftranslator/tx"

	"bytes"
	"fmt"
	"go/ast"
	"go/parser"
	"go/token"
	"os"
	"path/filepath"
	"sort"
	"strings"
)

const switchName = "DisallowUnknownFields"
const mutexName = "DisallowUnknownFieldsMu"

func funcName(fd *ast.FuncDecl) string {
	if fd.Recv != nil && len(fd.Recv.List) == 1 {
		return strings.TrimPrefix(exprStr(fd.Recv.List[0].Type), "*") + "." + fd.Name.Name
	}
	return fd.Name.Name
}

// is e the switch variable (v1.X from outside, bare X inside package v1)?
func isVar(e ast.Expr, name string, inV1 bool) bool {
	switch x := e.(type) {
	case *ast.SelectorExpr:
		if id, ok := x.X.(*ast.Ident); ok && id.Name == "v1" && x.Sel.Name == name {
			return true
		}
	case *ast.Ident:
		return inV1 && x.Name == name
	}
	return false
}

func genLoadShape() ([]byte, error) {
	fset := token.NewFileSet()
	type use struct{ file, fn, kind string }
	var uses, mus []use
	var events []string
	foundLoad := false

	var files []string
	err := filepath.Walk(tx.Repo, func(p string, info os.FileInfo, err error) error {
		if err != nil {
			return nil
		}
		if info.IsDir() {
			n := info.Name()
			if n == ".git" || n == "node_modules" || n == "web" || n == "test" || n == "hack" {
				return filepath.SkipDir
			}
			return nil
		}
		if strings.HasSuffix(p, ".go") && !strings.HasSuffix(p, "_test.go") && !strings.HasSuffix(p, "_verif.go") {
			files = append(files, p)
		}
		return nil
	})
	if err != nil {
		return nil, err
	}
	sort.Strings(files)
	for _, p := range files {
		src, err := os.ReadFile(p)
		if err != nil {
			return nil, err
		}
		if !bytes.Contains(src, []byte(switchName)) {
			continue
		}
		f, err := parser.ParseFile(fset, p, src, 0)
		if err != nil {
			return nil, err
		}
		rel, _ := filepath.Rel(tx.Repo, p)
		inV1 := f.Name.Name == "v1"
		for _, d := range f.Decls {
			fd, ok := d.(*ast.FuncDecl)
			if !ok || fd.Body == nil {
				// a package-level initialiser mentioning the switch other than its own declaration
				continue
			}
			fn := funcName(fd)
			isLoad := rel == "pkg/config/load.go" && fn == "LoadConfigure"
			dest := ""
			if isLoad {
				foundLoad = true
				if fd.Type.Params != nil && len(fd.Type.Params.List) >= 2 && len(fd.Type.Params.List[1].Names) == 1 {
					dest = fd.Type.Params.List[1].Names[0].Name
				}
			}
			writes := map[ast.Expr]bool{}
			ast.Inspect(fd.Body, func(n ast.Node) bool {
				switch x := n.(type) {
				case *ast.AssignStmt:
					for i, l := range x.Lhs {
						if isVar(l, switchName, inV1) {
							writes[l] = true
							uses = append(uses, use{rel, fn, "write"})
							if isLoad {
								if i < len(x.Rhs) && exprStr(x.Rhs[i]) == "strict" && x.Tok == token.ASSIGN {
									events = append(events, "Set:strict")
								} else {
									events = append(events, "Set:other")
								}
							}
						}
					}
				case *ast.IncDecStmt:
					if isVar(x.X, switchName, inV1) {
						writes[x.X] = true
						uses = append(uses, use{rel, fn, "write"})
					}
				case *ast.DeferStmt:
					if se, ok := x.Call.Fun.(*ast.SelectorExpr); ok && isVar(se.X, mutexName, inV1) {
						mus = append(mus, use{rel, fn, "defer " + se.Sel.Name})
						if isLoad {
							events = append(events, "Defer"+se.Sel.Name)
						}
						return false
					}
				case *ast.CallExpr:
					if se, ok := x.Fun.(*ast.SelectorExpr); ok && isVar(se.X, mutexName, inV1) {
						mus = append(mus, use{rel, fn, se.Sel.Name})
						if isLoad {
							events = append(events, se.Sel.Name)
						}
						return false
					}
					if isLoad && dest != "" {
						for _, a := range x.Args {
							if id, ok := a.(*ast.Ident); ok && id.Name == dest {
								events = append(events, "Decode")
							}
						}
					}
				case *ast.SelectorExpr:
					if isVar(x, switchName, inV1) && !writes[x] {
						uses = append(uses, use{rel, fn, "read"})
						if isLoad {
							events = append(events, "SwitchUse")
						}
					}
					if isVar(x, mutexName, inV1) {
						mus = append(mus, use{rel, fn, "other"})
						if isLoad {
							events = append(events, "MutexOther")
						}
					}
					return false
				case *ast.Ident:
					if isVar(x, switchName, inV1) && !writes[x] {
						uses = append(uses, use{rel, fn, "read"})
					}
					if isVar(x, mutexName, inV1) {
						mus = append(mus, use{rel, fn, "other"})
					}
				}
				return true
			})
		}
	}
	if !foundLoad {
		return nil, fmt.Errorf("config.LoadConfigure not found")
	}
	// every UnmarshalJSON method of package v1 (the typed levels of a document), whether or not it still reads the switch
	var typed []use
	var renderEv []string
	for _, p := range files {
		rel, _ := filepath.Rel(tx.Repo, p)
		if filepath.Dir(rel) != "pkg/config/v1" && rel != "pkg/config/load.go" {
			continue
		}
		f, err := parser.ParseFile(fset, p, nil, 0)
		if err != nil {
			return nil, err
		}
		for _, d := range f.Decls {
			fd, ok := d.(*ast.FuncDecl)
			if !ok || fd.Body == nil {
				continue
			}
			if fd.Name.Name == "UnmarshalJSON" && fd.Recv != nil && filepath.Dir(rel) == "pkg/config/v1" {
				typed = append(typed, use{rel, funcName(fd), "UnmarshalJSON"})
			}
			if rel == "pkg/config/load.go" && fd.Name.Name == "RenderWithTemplate" && fd.Recv == nil {
				renderEv = renderEvents(fd)
			}
		}
	}
	var b bytes.Buffer
	b.WriteString("(* GENERATED by translator unit T3L from pkg/config/load.go and every use of v1.DisallowUnknownFields[Mu] -- do not edit *)\n")
	b.WriteString("From FRP Require Import Model.Bytes.\nLocal Open Scope string_scope.\n")
	b.WriteString("Definition T3L_translated : bool := true.\n")
	b.WriteString("Definition load_events : list string := [")
	for i, e := range events {
		if i > 0 {
			b.WriteString("; ")
		}
		b.WriteString(tx.CoqString(e))
	}
	b.WriteString("].\n")
	emit := func(name string, l []use) {
		fmt.Fprintf(&b, "Definition %s : list (string * string * string) := [\n", name)
		for i, u := range l {
			sep := ";"
			if i == len(l)-1 {
				sep = ""
			}
			fmt.Fprintf(&b, "  (%s, %s, %s)%s\n", tx.CoqString(u.file), tx.CoqString(u.fn), tx.CoqString(u.kind), sep)
		}
		b.WriteString("].\n")
	}
	emit("switch_uses", uses)
	emit("mutex_uses", mus)
	emit("typed_unmarshalers", typed)
	b.WriteString("Definition render_events : list string := [")
	for i, e := range renderEv {
		if i > 0 {
			b.WriteString("; ")
		}
		b.WriteString(tx.CoqString(e))
	}
	b.WriteString("].\n")
	return b.Bytes(), nil
}

// events of config.RenderWithTemplate in source order:
//   "Buffer:fresh:<var>"  the output buffer is created in the function (bytes.NewBufferString / NewBuffer / new / &bytes.Buffer{})
//   "Buffer:shared:<var>" it comes from anywhere else (a pool's Get, a package variable, a parameter)
//   "Put" / "DeferPut"    a pool Put; "Execute:<var>" the template writes into it; "Return:Bytes:<var>" the result is its bytes;
//   "Return:copy:<var>"   the result is a copy (append([]byte(nil), buf.Bytes()...) / bytes.Clone); "Return:other"
func renderEvents(fd *ast.FuncDecl) []string {
	var ev []string
	bufs := map[string]bool{}
	ast.Inspect(fd.Body, func(n ast.Node) bool {
		switch x := n.(type) {
		case *ast.AssignStmt:
			if len(x.Lhs) == 1 && len(x.Rhs) == 1 {
				id, ok := x.Lhs[0].(*ast.Ident)
				if !ok {
					return true
				}
				r := exprStr(x.Rhs[0])
				switch {
				case strings.HasPrefix(r, "bytes.NewBufferString(") || strings.HasPrefix(r, "bytes.NewBuffer(") ||
					r == "new(bytes.Buffer)" || r == "&bytes.Buffer{...}":
					ev = append(ev, "Buffer:fresh:"+id.Name)
					bufs[id.Name] = true
				case strings.Contains(r, "Buffer") || strings.Contains(r, ".Get()"):
					ev = append(ev, "Buffer:shared:"+id.Name)
					bufs[id.Name] = true
				}
			}
		case *ast.DeferStmt:
			if se, ok := x.Call.Fun.(*ast.SelectorExpr); ok && se.Sel.Name == "Put" {
				ev = append(ev, "DeferPut")
				return false
			}
		case *ast.CallExpr:
			if se, ok := x.Fun.(*ast.SelectorExpr); ok {
				if se.Sel.Name == "Put" {
					ev = append(ev, "Put")
				}
				if se.Sel.Name == "Execute" && len(x.Args) >= 1 {
					ev = append(ev, "Execute:"+exprStr(x.Args[0]))
				}
			}
		case *ast.ReturnStmt:
			if len(x.Results) == 2 && exprStr(x.Results[1]) == "nil" {
				r := exprStr(x.Results[0])
				switch {
				case strings.HasSuffix(r, ".Bytes()") && bufs[strings.TrimSuffix(r, ".Bytes()")]:
					ev = append(ev, "Return:Bytes:"+strings.TrimSuffix(r, ".Bytes()"))
				case strings.HasPrefix(r, "bytes.Clone(") || strings.HasPrefix(r, "append([]byte(nil), "):
					ev = append(ev, "Return:copy")
				default:
					ev = append(ev, "Return:other")
				}
			}
		}
		return true
	})
	return ev
}
