(* PINNED: the layering of the stream wrappers of the released protocol at every site that builds a tunnel
   stack on a visitor / work connection: encryption is applied FIRST (innermost, next to the connection),
   compression on top of it: bytes on the wire = Enc(Snappy(payload)).  A build that layers them the other
   way round cannot talk to a released peer. *)
From Coq Require Import String List.
Import ListNotations.
Local Open Scope string_scope.
Definition golden_wrapper_order : list string := ["enc"; "comp"].
