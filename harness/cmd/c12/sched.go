package main

// Gate-driven schedules.  All C12 gates are held; every helper releases one goroutine of frps,
// waits until it is parked again (or has ended), and writes the model steps this corresponds to
// (Corr/C12.v: IRun = run the thread to its next gate, IAct (AStep ..) = one atomic step,
// IBlocked = the thread made no progress).

import (
	"fmt"
	"net"
	"time"

	"github.com/fatedier/frp/pkg/msg"
	"verifharness/hx"
)

type schedule struct {
	name string
	run  func(g *hx.Gen, w *world, gc *gateCtl)
}

const arriveTimeout = 3 * time.Second
const blockedWait = 25 * time.Millisecond

type abortCase struct{}

func runSchedule(g *hx.Gen, w *world, sc schedule) {
	gc := installGates()
	defer gc.uninstall()
	defer func() {
		if r := recover(); r != nil {
			if _, ok := r.(abortCase); !ok {
				panic(r)
			}
		}
	}()
	sc.run(g, w, gc)
	if u := gc.unclaimed(); len(u) > 0 {
		w.fail("sched-unclaimed-arrival", fmt.Sprintf("goroutines parked at gates the schedule did not expect: %v", u))
	}
}

type sched struct {
	w     *world
	gc    *gateCtl
	login map[int]*arrival // RegisterControl goroutine of a session
	sess  map[int]*arrival // reader/worker goroutine
	late  map[int]*arrival // late Del goroutine
	pend  map[int]*pendingLogin
}

func newSched(w *world, gc *gateCtl) *sched {
	return &sched{w: w, gc: gc, login: map[int]*arrival{}, sess: map[int]*arrival{}, late: map[int]*arrival{}, pend: map[int]*pendingLogin{}}
}

func (s *sched) must(a *arrival, what string) *arrival {
	if a == nil {
		s.w.fail("sched-missing-arrival", "the implementation did not reach "+what)
		panic(abortCase{})
	}
	return a
}

func (s *sched) ridStr(sid int) string { return s.w.ridNames[s.w.peerRid[sid]] }

// loginSend: a Login arrives; its goroutine runs Add and parks at after_add (an old session was
// stored) or at after_wait (none).  hasOld is the schedule's expectation.
func (s *sched) loginSend(rid string, hasOld bool) int {
	w := s.w
	pl := w.startLogin(rid)
	s.pend[pl.sid] = pl
	var a *arrival
	if hasOld {
		a = s.must(s.gc.expect("svc.regctl.after_add", rid, arriveTimeout), "after_add for session "+fmt.Sprint(pl.sid))
	} else {
		key := rid
		if rid == "" {
			key = "*"
		}
		a = s.must(s.gc.expect("svc.regctl.after_wait", key, arriveTimeout), "after_wait for session "+fmt.Sprint(pl.sid))
	}
	w.loginItem(pl, w.ridIndex(a.key))
	w.item(fmt.Sprintf("IRun (TLogin %d)", pl.sid))
	s.login[pl.sid] = a
	if hasOld {
		// let it enter WaitClosed; the model's LWait step is the arrival at after_wait
		s.gc.release(a)
		s.login[pl.sid] = nil
	}
	return pl.sid
}

// replacedRuns: the session whose conn was closed by Replaced (and that had been started) runs
// from its read loop into the teardown and parks at its first teardown gate.
func (s *sched) sessToTeardown(sid int) {
	a := s.must(s.gc.expectAny([]string{"ctl.teardown.proxy", "ctl.teardown.before_done"}, arriveTimeout),
		fmt.Sprintf("a teardown gate for session %d", sid))
	s.sess[sid] = a
	s.w.item(fmt.Sprintf("IRun (TSess %d)", sid))
}

// loginBlocked: session sid's RegisterControl must still sit in WaitClosed.
func (s *sched) loginBlocked(sid int) {
	if a := s.gc.expect("svc.regctl.after_wait", s.ridStr(sid), blockedWait); a != nil {
		// it went through although the model says it cannot: record what happened
		s.login[sid] = a
		s.w.item(fmt.Sprintf("IRun (TLogin %d)", sid))
		s.w.fail("monitor:login-proceeds-before-old-session-done",
			fmt.Sprintf("RegisterControl of session %d left WaitClosed while an earlier session of its run id was not done", sid))
		return
	}
	// ... and its peer must not have been answered yet
	if pl := s.pend[sid]; pl != nil {
		select {
		case res := <-pl.resp:
			pl.resp <- res
			if res.err == nil && res.peer != nil {
				s.w.fail("monitor:login-acknowledged-before-old-session-done",
					fmt.Sprintf("session %d received its LoginResp while an earlier session of its run id was not done", sid))
			}
		default:
		}
	}
	s.w.item(fmt.Sprintf("IBlocked (TLogin %d)", sid))
	s.w.kind("blocked-check")
}

// teardownStep: the worker parked at ctl.teardown.proxy(name) closes that proxy, deletes the
// name and parks at the next teardown gate.
func (s *sched) teardownStep(sid int) {
	a := s.sess[sid]
	if a == nil || a.point != "ctl.teardown.proxy" {
		s.w.fail("sched-script", fmt.Sprintf("session %d is not at ctl.teardown.proxy", sid))
		panic(abortCase{})
	}
	name := nameIndex(a.key)
	s.gc.release(a)
	s.sess[sid] = s.must(s.gc.expectAny([]string{"ctl.teardown.proxy", "ctl.teardown.before_done"}, arriveTimeout),
		fmt.Sprintf("the next teardown gate of session %d", sid))
	s.w.item(fmt.Sprintf("IAct (AStep (TSess %d) %d)", sid, name))
	s.w.item(fmt.Sprintf("IRun (TSess %d)", sid))
}

func (s *sched) atBeforeDone(sid int) bool {
	return s.sess[sid] != nil && s.sess[sid].point == "ctl.teardown.before_done"
}

// done: the worker parked at before_done closes doneCh.  The late goroutine parks at before_del;
// waiter (if >= 0) is the session whose RegisterControl was in WaitClosed on sid: it parks at after_wait.
func (s *sched) done(sid int, waiter int) {
	if !s.atBeforeDone(sid) {
		s.w.fail("sched-script", fmt.Sprintf("session %d is not at before_done", sid))
		panic(abortCase{})
	}
	s.gc.release(s.sess[sid])
	s.sess[sid] = nil
	s.w.item(fmt.Sprintf("IAct (AStep (TSess %d) 0)", sid))
	s.late[sid] = s.must(s.gc.expect("svc.regctl.before_del", s.ridStr(sid), arriveTimeout), fmt.Sprintf("before_del of session %d", sid))
	s.w.item(fmt.Sprintf("IRun (TLate %d)", sid))
	if waiter >= 0 {
		s.login[waiter] = s.must(s.gc.expect("svc.regctl.after_wait", s.ridStr(waiter), arriveTimeout), fmt.Sprintf("after_wait of session %d", waiter))
		s.w.item(fmt.Sprintf("IRun (TLogin %d)", waiter))
	}
}

// start: ctl.Start().  delivered = the schedule expects the peer to get its LoginResp.
func (s *sched) start(sid int, delivered bool) {
	w := s.w
	s.gc.release(s.login[sid])
	s.login[sid] = nil
	w.item(fmt.Sprintf("IAct (AStep (TLogin %d) 0)", sid))
	pl := s.pend[sid]
	var res loginRes
	select {
	case res = <-pl.resp:
	case <-time.After(arriveTimeout):
		w.fail("sched-no-login-result", fmt.Sprintf("login of session %d neither answered nor failed", sid))
		panic(abortCase{})
	}
	got := res.err == nil && res.peer != nil
	if got {
		w.peers[sid] = res.peer
		w.alive[sid] = true
		ri := w.ridIndex(res.resp.RunID)
		if old, ok := w.stored[ri]; ok && old < sid {
			w.alive[old] = false
		}
		if cur, ok := w.stored[ri]; !ok || cur < sid {
			w.stored[ri] = sid
		}
		w.outs = append(w.outs, outRec{sid, fmt.Sprintf("OLoginResp %d (Some %d) true", sid, ri)})
	}
	if got != delivered {
		w.kind("login-delivery-unexpected")
	}
	if !delivered {
		// replaced before it was started: its worker starts, finds the conn closed and tears down
		s.sessToTeardown(sid)
	}
}

func (s *sched) lateDel(sid int) {
	s.gc.release(s.late[sid])
	s.late[sid] = nil
	a := s.must(s.gc.expect("svc.regctl.after_del", s.ridStr(sid), arriveTimeout), fmt.Sprintf("after_del of session %d", sid))
	s.gc.release(a)
	s.w.item(fmt.Sprintf("IAct (AStep (TLate %d) 0)", sid))
}

// eof: the peer closes its control connection; the worker parks at its first teardown gate.
func (s *sched) eof(sid int) {
	w := s.w
	w.peers[sid].Close()
	w.alive[sid] = false
	w.item(fmt.Sprintf("IAct (AEof %d)", sid))
	s.sessToTeardown(sid)
}

// a whole login when nothing is stored under the run id
func (s *sched) freshLogin(rid string) int {
	sid := s.loginSend(rid, false)
	s.start(sid, true)
	s.w.observe()
	return sid
}

// regSend .. regAdd: the three windows of RegisterProxy
func (s *sched) regSend(sid, name int) (att int, passedExist bool) {
	return s.regSendK(sid, name, false)
}

func (s *sched) regSendK(sid, name int, stcp bool) (att int, passedExist bool) {
	return s.regSendKind(sid, name, map[bool]int{false: 0, true: 1}[stcp])
}

// kind: 0 tcp | 1 stcp (visitor listener keyed by name) | 2 http proxy of a load-balancing group (membership keyed by name)
func (s *sched) regSendKind(sid, name, kind int) (att int, passedExist bool) {
	w := s.w
	stcp := kind != 0
	_, present := w.s.Svc.VerifC12Names()[pname(name)]
	var err error
	typ := "tcpT"
	if stcp {
		att = len(w.ports)
		w.ports = append(w.ports, 0)
		w.stcpName = append(w.stcpName, name)
		typ = "stcpT"
		if kind == 2 {
			w.grpAtt[att] = true
			err = w.peers[sid].Send(&msg.NewProxy{ProxyName: pname(name), ProxyType: "http", CustomDomains: []string{groupHost}, Group: groupName, GroupKey: "c12-group-key"})
		} else {
			err = w.peers[sid].Send(&msg.NewProxy{ProxyName: pname(name), ProxyType: "stcp", Sk: stcpKey})
		}
	} else {
		var port int
		att, port, _ = w.newPort(-1)
		err = w.sendNewProxy(sid, name, port, true)
	}
	if err != nil {
		w.fail("sched-send-failed", err.Error())
		panic(abortCase{})
	}
	w.item(fmt.Sprintf("IAct (AReq %d (RNew %d %d %s true true))", sid, name, att, typ))
	w.item(fmt.Sprintf("IRun (TSess %d)", sid))
	if present {
		// the Exist check must refuse: the answer is on its way
		cls, err := w.recvNewProxyResp(sid, name)
		if err != nil {
			w.fail("monitor:registration-of-taken-name-not-refused", fmt.Sprintf("session %d asked for the taken name %d and got no refusal: %v", sid, name, err))
			panic(abortCase{})
		}
		w.ports[att] = 0
		w.outs = append(w.outs, outRec{sid, fmt.Sprintf("ONewProxyResp %d %d %d %d true", sid, name, att, cls)})
		w.kind(fmt.Sprintf("newproxy-class-%d", cls))
		return att, false
	}
	s.sess[sid] = s.must(s.gc.expect("ctl.regproxy.after_exist", pname(name), arriveTimeout), fmt.Sprintf("after_exist of session %d", sid))
	return att, true
}

func (s *sched) regRun(sid, name int) {
	s.gc.release(s.sess[sid])
	s.sess[sid] = s.must(s.gc.expect("ctl.regproxy.after_run", pname(name), arriveTimeout), fmt.Sprintf("after_run of session %d", sid))
	s.w.item(fmt.Sprintf("IRun (TSess %d)", sid))
}

func (s *sched) regAdd(sid, name, att int) int {
	w := s.w
	s.gc.release(s.sess[sid])
	s.sess[sid] = nil
	w.item(fmt.Sprintf("IRun (TSess %d)", sid))
	cls, err := w.recvNewProxyResp(sid, name)
	if err != nil {
		w.fail("sched-no-newproxyresp", fmt.Sprintf("session %d got no NewProxyResp: %v", sid, err))
		panic(abortCase{})
	}
	w.outs = append(w.outs, outRec{sid, fmt.Sprintf("ONewProxyResp %d %d %d %d true", sid, name, att, cls)})
	w.kind(fmt.Sprintf("newproxy-class-%d", cls))
	return cls
}

func (s *sched) register(sid, name int) (att, cls int) {
	att, ok := s.regSend(sid, name)
	if !ok {
		s.w.observe()
		return att, 2
	}
	s.regRun(sid, name)
	cls = s.regAdd(sid, name, att)
	s.w.observe()
	return att, cls
}

func (s *sched) expectClass(got, want int, what string) {
	if got != want {
		s.w.fail("monitor:"+what, fmt.Sprintf("%s: NewProxyResp class %d, expected %d", what, got, want))
	}
}

func (s *sched) expectCarry(sid, att int, want bool, what string) {
	got := s.w.carries(sid, s.w.ports[att])
	s.w.kind("carry-check")
	if got != want {
		s.w.fail("monitor:"+what, fmt.Sprintf("%s: proxy of session %d (attempt %d) carries a byte = %v, expected %v", what, sid, att, got, want))
	}
}

func nameKeyedDuplicate(g *hx.Gen, w *world, gc *gateCtl, kind int) {
	probe := func(k int) bool {
		if kind == 2 {
			return w.groupMember()
		}
		return w.stcpListening(k)
	}
	// visitor listeners are keyed and closed BY NAME: a duplicate that passed Exist fails in Run
	// ("listener exists") and must leave the incumbent's listener alone
	s := newSched(w, gc)
	a := s.freshLogin("")
	b := s.freshLogin("")
	k := g.Intn(len(oddNames))
	attA, okA := s.regSendKind(a, k, kind)
	attB, okB := s.regSendKind(b, k, kind)
	if !okA || !okB {
		w.fail("sched-script", "free name refused")
		return
	}
	s.regRun(a, k) // a's listener exists now
	w.stcpCur[k] = attA
	addFirst := g.Intn(2) == 0
	if addFirst {
		s.expectClass(s.regAdd(a, k, attA), 0, "incumbent-registration")
		w.observe()
	}
	// b's Run fails: no gate, the answer comes
	gc.release(s.sess[b])
	s.sess[b] = nil
	w.item(fmt.Sprintf("IRun (TSess %d)", b))
	cls, err := w.recvNewProxyResp(b, k)
	if err != nil {
		w.fail("sched-no-newproxyresp", err.Error())
		return
	}
	w.outs = append(w.outs, outRec{b, fmt.Sprintf("ONewProxyResp %d %d %d %d true", b, k, attB, cls)})
	w.kind(fmt.Sprintf("newproxy-stcp-class-%d", cls))
	s.expectClass(cls, 3, "duplicate-visitor-proxy-refused-in-run")
	w.observe()
	if !probe(k) {
		w.fail("monitor:refused-duplicate-removed-incumbent-listener",
			fmt.Sprintf("after session %d's registration of %q was refused, visitors of session %d's proxy of that name are turned away", b, pname(k), a))
	}
	if !addFirst {
		s.expectClass(s.regAdd(a, k, attA), 0, "incumbent-registration")
		w.observe()
	}
	// a later duplicate is refused at Exist and changes nothing either
	_, ok := s.regSendKind(b, k, kind)
	if ok {
		w.fail("monitor:registration-of-taken-name-not-refused", "duplicate passed Exist")
		return
	}
	w.observe()
	if !probe(k) || w.s.Svc.VerifC12Names()[pname(k)] != tagOf(a) {
		w.fail("monitor:incumbent-lost-name-or-listener", fmt.Sprintf("session %d no longer holds a working %q", a, pname(k)))
	}
}

var schedules = []schedule{
	{"relogin-while-old-drains", func(g *hx.Gen, w *world, gc *gateCtl) {
		s := newSched(w, gc)
		s0 := s.freshLogin("")
		nn := 1 + g.Intn(3)
		for k := 0; k < nn; k++ {
			s.register(s0, k)
		}
		rid := s.ridStr(s0)
		s1 := s.loginSend(rid, true)
		w.alive[s0] = false
		s.sessToTeardown(s0)
		w.observe()
		s.loginBlocked(s1)
		for !s.atBeforeDone(s0) {
			s.teardownStep(s0)
			w.observe()
			if g.Intn(2) == 0 {
				s.loginBlocked(s1)
			}
		}
		s.loginBlocked(s1)
		s.done(s0, s1)
		lateFirst := g.Intn(2) == 0
		if lateFirst {
			s.lateDel(s0)
			w.observe()
		}
		s.start(s1, true)
		w.observe()
		// the client's own earlier names are free the moment it is acknowledged
		var att int
		for k := 0; k < nn; k++ {
			a, cls := s.register(s1, k)
			att = a
			s.expectClass(cls, 0, "re-registration-of-own-old-name-after-ack")
		}
		if !lateFirst {
			s.lateDel(s0)
			w.observe()
		}
		if tag, ok := w.s.Svc.VerifC12GetByID(rid); !ok || tag != tagOf(s1) {
			w.fail("monitor:runid-does-not-designate-newest", fmt.Sprintf("GetByID(%s) = %q,%v after re-login, expected %s", rid, tag, ok, tagOf(s1)))
		}
		s.expectCarry(s1, att, true, "new-session-proxy-carries")
	}},
	{"two-simultaneous-relogins", func(g *hx.Gen, w *world, gc *gateCtl) {
		s := newSched(w, gc)
		s0 := s.freshLogin("")
		s.register(s0, 0)
		rid := s.ridStr(s0)
		s1 := s.loginSend(rid, true)
		w.alive[s0] = false
		s.sessToTeardown(s0)
		s2 := s.loginSend(rid, true) // replaces s1, which has not been started
		w.observe()
		s.loginBlocked(s1)
		s.loginBlocked(s2)
		s.teardownStep(s0)
		w.observe()
		s.loginBlocked(s2)
		s.done(s0, s1)
		s.loginBlocked(s2)
		s.start(s1, false) // its conn was closed by Replaced: no LoginResp reaches the peer
		w.observe()
		s.loginBlocked(s2)
		if g.Intn(2) == 0 {
			s.lateDel(s0)
			w.observe()
			s.done(s1, s2)
		} else {
			s.done(s1, s2)
			s.lateDel(s0)
			w.observe()
		}
		s.start(s2, true)
		w.observe()
		s.lateDel(s1)
		w.observe()
		att, cls := s.register(s2, 0)
		s.expectClass(cls, 0, "re-registration-of-own-old-name-after-ack")
		s.expectCarry(s2, att, true, "new-session-proxy-carries")
	}},
	{"late-del-after-new-stored", func(g *hx.Gen, w *world, gc *gateCtl) {
		s := newSched(w, gc)
		s0 := s.freshLogin("")
		if g.Intn(2) == 0 {
			s.register(s0, 1)
		}
		rid := s.ridStr(s0)
		s.eof(s0)
		for !s.atBeforeDone(s0) {
			s.teardownStep(s0)
		}
		s.done(s0, -1)
		w.observe() // s0 is done but still stored: its late Del is parked
		s1 := s.loginSend(rid, true)
		s.login[s1] = s.must(gc.expect("svc.regctl.after_wait", rid, arriveTimeout), "after_wait (old already done)")
		w.item(fmt.Sprintf("IRun (TLogin %d)", s1))
		s.start(s1, true)
		w.observe()
		s.lateDel(s0) // must not remove s1
		w.observe()
		if tag, ok := w.s.Svc.VerifC12GetByID(rid); !ok || tag != tagOf(s1) {
			w.fail("monitor:late-del-removed-new-session", fmt.Sprintf("GetByID(%s) = %q,%v after the old session's late Del, expected %s", rid, tag, ok, tagOf(s1)))
		}
		att, cls := s.register(s1, 1)
		s.expectClass(cls, 0, "registration-on-new-session")
		s.expectCarry(s1, att, true, "new-session-proxy-carries")
	}},
	{"two-sessions-race-for-one-name", func(g *hx.Gen, w *world, gc *gateCtl) {
		s := newSched(w, gc)
		a := s.freshLogin("")
		b := s.freshLogin("")
		name := g.Intn(3)
		attA, okA := s.regSend(a, name)
		attB, okB := s.regSend(b, name)
		if !okA || !okB {
			w.fail("monitor:exist-refused-free-name", "Exist refused a name nobody holds")
			return
		}
		s.regRun(a, name)
		s.regRun(b, name)
		w.observe() // both listeners run, the name table is still empty
		first, second, attF, attS := a, b, attA, attB
		if g.Intn(2) == 0 {
			first, second, attF, attS = b, a, attB, attA
		}
		s.expectClass(s.regAdd(first, name, attF), 0, "winner-of-the-add-race")
		w.observe()
		s.expectClass(s.regAdd(second, name, attS), 4, "loser-of-the-add-race")
		w.observe()
		s.expectCarry(first, attF, true, "incumbent-still-carries-after-refused-duplicate")
		// the loser may not close the winner's proxy
		if err := w.peers[second].CloseProxy(pname(name)); err == nil && w.sync(second) == nil {
			w.item(fmt.Sprintf("IAct (AReq %d (RClose %d))", second, name))
			w.observe()
		}
		s.expectCarry(first, attF, true, "incumbent-still-carries-after-foreign-close")
		// a third attempt, now refused by Exist
		_, cls := s.register(second, name)
		s.expectClass(cls, 2, "duplicate-refused-by-exist")
	}},
	{"teardown-races-registration", func(g *hx.Gen, w *world, gc *gateCtl) {
		s := newSched(w, gc)
		a := s.freshLogin("")
		b := s.freshLogin("")
		s.register(a, 0)
		s.register(a, 1)
		s.eof(a)
		w.observe()
		// a is parked before closing a proxy: both names are still taken
		_, cls := s.register(b, 0)
		s.expectClass(cls, 2, "name-of-draining-session-still-refused")
		for !s.atBeforeDone(a) {
			s.teardownStep(a)
			w.observe()
		}
		att, cls2 := s.register(b, 0)
		s.expectClass(cls2, 0, "name-free-after-owner-teardown")
		s.done(a, -1)
		s.lateDel(a)
		w.observe()
		s.expectCarry(b, att, true, "proxy-registered-during-foreign-teardown-carries")
	}},
	{"registration-in-flight-when-replaced", func(g *hx.Gen, w *world, gc *gateCtl) {
		// the NewProxy handler runs inside the read loop: while it is in flight the session's teardown
		// cannot start, so the registration lands in ctl.proxies and is torn down before the ack
		s := newSched(w, gc)
		s0 := s.freshLogin("")
		attOther, _ := s.register(s0, 2)
		k := g.Intn(2)
		att0, ok := s.regSend(s0, k)
		if !ok {
			w.fail("sched-script", "free name refused")
			return
		}
		rid := s.ridStr(s0)
		var s1, t int = -1, -1
		drop := g.Intn(2) == 0
		if drop {
			t = s.freshLogin("")
			w.peers[s0].Close() // the peer goes away while its registration is being processed
			w.alive[s0] = false
		} else {
			s1 = s.loginSend(rid, true) // Replaced(s0) closes its connection
			w.alive[s0] = false
		}
		// something is sent on the dead control connection meanwhile: a user connection of the session's other proxy
		// asks for a work connection (ReqWorkConn); the failed write must not end the dispatcher
		if u, err := net.DialTimeout("tcp", fmt.Sprintf("%s:%d", bindAddr, w.ports[attOther]), time.Second); err == nil {
			defer u.Close()
			w.kind("outbound-message-on-dead-control")
		}
		if a := gc.expectAny([]string{"ctl.teardown.proxy", "ctl.teardown.before_done"}, 80*time.Millisecond); a != nil {
			w.fail("monitor:teardown-started-while-registration-in-flight",
				fmt.Sprintf("session %d reached %s(%s) while its NewProxy handler was still parked before pxy.Run()", s0, a.point, a.key))
			return
		}
		if s1 >= 0 {
			s.loginBlocked(s1)
		}
		w.observe()
		s.regRun(s0, k)
		w.observe()
		// Add + store (+ an answer nobody receives), then the read loop fails and the worker parks
		gc.release(s.sess[s0])
		if drop {
			// the server answers a peer that has gone (its EOF is only read after the handler returns)
			w.item(fmt.Sprintf("IRun (TSess %d)", s0))
			w.item(fmt.Sprintf("IAct (AEof %d)", s0))
			w.outs = append(w.outs, outRec{s0, fmt.Sprintf("ONewProxyResp %d %d %d 0 true", s0, k, att0)})
		}
		s.sess[s0] = nil
		s.sessToTeardown(s0)
		if s.sess[s0].point != "ctl.teardown.proxy" {
			w.fail("monitor:in-flight-registration-missed-by-teardown", "the teardown found no proxy although a registration had completed")
		}
		w.observe()
		if s1 >= 0 {
			s.loginBlocked(s1)
		} else {
			_, cls := s.register(t, k)
			s.expectClass(cls, 2, "name-of-draining-session-still-refused")
		}
		for !s.atBeforeDone(s0) {
			s.teardownStep(s0)
			w.observe()
		}
		s.done(s0, s1)
		who := t
		if s1 >= 0 {
			s.start(s1, true)
			w.observe()
			who = s1
		}
		s.lateDel(s0)
		w.observe()
		att, cls := s.register(who, k)
		s.expectClass(cls, 0, "name-free-after-in-flight-registration-of-dead-session")
		s.expectCarry(who, att, true, "proxy-after-in-flight-registration-of-dead-session-carries")
	}},
	{"add-race-spin-barrier", func(g *hx.Gen, w *world, gc *gateCtl) {
		// pxyManager.Add decides uniqueness: two sessions are let into it within nanoseconds, many rounds
		gc.passThrough()
		a := w.seqLogin("")
		b := w.seqLogin("")
		if a < 0 || b < 0 {
			return
		}
		rounds := 60
		for r := 0; r < rounds && len(w.fails) == 0; r++ {
			k := g.Intn(3)
			gc.armSpin("ctl.regproxy.after_run")
			attA, portA, _ := w.newPort(-1)
			attB, portB, _ := w.newPort(-1)
			if w.sendNewProxy(a, k, portA, true) != nil || w.sendNewProxy(b, k, portB, true) != nil {
				w.fail("sched-send-failed", "NewProxy")
				return
			}
			if !gc.waitSpinArrived(2, arriveTimeout) {
				gc.fireSpin()
				w.fail("sched-missing-arrival", "two registrations of a free name did not both reach after_run")
				return
			}
			gc.fireSpin()
			cA, errA := w.recvNewProxyResp(a, k)
			cB, errB := w.recvNewProxyResp(b, k)
			gc.armSpin("")
			if errA != nil || errB != nil {
				w.fail("sched-no-newproxyresp", fmt.Sprintf("%v %v", errA, errB))
				return
			}
			w.item(fmt.Sprintf("IAct (AReq %d (RNew %d %d tcpT true true))", a, k, attA))
			w.item(fmt.Sprintf("IAct (AReq %d (RNew %d %d tcpT true true))", b, k, attB))
			for _, x := range []int{a, a, b, b} {
				w.item(fmt.Sprintf("IRun (TSess %d)", x))
			}
			first, second := a, b
			if cB == 0 && cA != 0 {
				first, second = b, a
			}
			w.item(fmt.Sprintf("IRun (TSess %d)", first))
			w.item(fmt.Sprintf("IRun (TSess %d)", second))
			w.outs = append(w.outs, outRec{a, fmt.Sprintf("ONewProxyResp %d %d %d %d true", a, k, attA, cA)})
			w.outs = append(w.outs, outRec{b, fmt.Sprintf("ONewProxyResp %d %d %d %d true", b, k, attB, cB)})
			w.kind("add-race-round")
			if cA == 0 && cB == 0 {
				w.fail("monitor:two-registrations-of-one-name-both-accepted",
					fmt.Sprintf("round %d: sessions %d and %d both got NewProxyResp without error for name %d (ports %d and %d both listening: %v %v)",
						r, a, b, k, portA, portB, !hx.TCPBindable(bindAddr, portA), !hx.TCPBindable(bindAddr, portB)))
			}
			w.observe()
			w.seqClose(first, k)
			w.ports[attA], w.ports[attB] = 0, 0 // observed closed; stop probing them
		}
	}},
	{"stcp-duplicate-passes-exist", func(g *hx.Gen, w *world, gc *gateCtl) { nameKeyedDuplicate(g, w, gc, 1) }},
	{"http-group-duplicate-passes-exist", func(g *hx.Gen, w *world, gc *gateCtl) { nameKeyedDuplicate(g, w, gc, 2) }},
}
