(* C17: line-oriented runner for the extracted model (c17model.ml, produced by extract.v).
   Reads cases written by the Go harness (driver codecx), one per line, rebuilds the Coq value
   [case] with the extracted constructors only (no Obj.magic), evaluates the extracted
   [check_case] and prints

     MISMATCH <line number from 1> <reason code>
     DONE <cases> <mismatches> <message cases>

   Line grammar (tokens separated by one space):
     F <hex|-> <class> <consumed> <type>
     M <name> <back_equal 0|1> <wire hex> <gvlist> <jvobj>
     gv     ::= S<hex|-> | I<dec> | B0 | B1 | M<n> (<hex|-> <hex|->)^n | L<n> (<hex|->)^n
              | T<n> gv^n | A<n> (T<k> gv^k)^n | P0 | P1 T<k> gv^k
     gvlist ::= T<n> gv^n
     jv     ::= n | b0 | b1 | i<dec> | s<hex|-> | a<n> jv^n | o<n> (<hex|-> jv)^n
     jvobj  ::= o<n> (<hex|-> jv)^n                                                       *)

module M = C17model
module S = Stdlib.String

exception Bad of string

(* ---- OCaml values -> extracted inductives ---- *)

let rec pos_of_int (i : int) : M.positive =
  if i = 1 then M.XH
  else if i land 1 = 1 then M.XI (pos_of_int (i lsr 1))
  else M.XO (pos_of_int (i lsr 1))

let z_of_int (i : int) : M.z =
  if i = 0 then M.Z0 else if i > 0 then M.Zpos (pos_of_int i) else M.Zneg (pos_of_int (-i))

(* decimal text of any size (int64 extremes do not fit OCaml's 63-bit int): digit by digit
   with the extracted arithmetic *)
let z_ten = z_of_int 10

let z_of_dec (s : string) : M.z =
  let n = S.length s in
  if n = 0 then raise (Bad "empty number");
  let neg = s.[0] = '-' in
  let start = if neg then 1 else 0 in
  if start >= n then raise (Bad "no digits");
  let acc = ref M.Z0 in
  for i = start to n - 1 do
    let c = Char.code s.[i] - 48 in
    if c < 0 || c > 9 then raise (Bad ("digit in " ^ s));
    acc := M.Z.add (M.Z.mul !acc z_ten) (z_of_int c)
  done;
  if neg then M.Z.opp !acc else !acc

let byte_table : M.byte array = Array.init 256 (fun i -> M.byte_of_Z (z_of_int i))

let hexval c =
  match c with
  | '0' .. '9' -> Char.code c - 48
  | 'a' .. 'f' -> Char.code c - 87
  | _ -> raise (Bad "hex digit")

let bytes_of_hex (s : string) : M.byte list =
  if s = "-" then []
  else begin
    let n = S.length s in
    if n land 1 = 1 then raise (Bad "odd hex");
    let r = ref [] in
    let i = ref (n - 2) in
    while !i >= 0 do
      r := byte_table.((hexval s.[!i] * 16) + hexval s.[!i + 1]) :: !r;
      i := !i - 2
    done;
    !r
  end

let ascii_of_char (c : char) : M.ascii =
  let k = Char.code c in
  let b i = (k lsr i) land 1 = 1 in
  M.Ascii (b 0, b 1, b 2, b 3, b 4, b 5, b 6, b 7)

let coq_string (s : string) : M.string =
  let r = ref M.EmptyString in
  for i = S.length s - 1 downto 0 do
    r := M.String (ascii_of_char s.[i], !r)
  done;
  !r

(* ---- token stream ---- *)

type toks = { a : string array; mutable i : int }

let next t =
  if t.i >= Array.length t.a then raise (Bad "unexpected end of line");
  let x = t.a.(t.i) in
  t.i <- t.i + 1;
  x

let tail_of s = S.sub s 1 (S.length s - 1)
let count s = try int_of_string (tail_of s) with _ -> raise (Bad ("count in " ^ s))

let rec times n f = if n <= 0 then [] else let x = f () in x :: times (n - 1) f

let rec gv t : M.gv =
  let s = next t in
  if S.length s = 0 then raise (Bad "empty token");
  match s.[0] with
  | 'S' -> M.VStr (bytes_of_hex (tail_of s))
  | 'I' -> M.VInt (z_of_dec (tail_of s))
  | 'B' -> M.VBool (s = "B1")
  | 'M' ->
      M.VMap (times (count s) (fun () ->
          let k = bytes_of_hex (next t) in
          let v = bytes_of_hex (next t) in
          (k, v)))
  | 'L' -> M.VStrs (times (count s) (fun () -> bytes_of_hex (next t)))
  | 'T' -> M.VStruct (times (count s) (fun () -> gv t))
  | 'A' -> M.VStructs (times (count s) (fun () -> gvlist t))
  | 'P' -> if s = "P0" then M.VPtr None else M.VPtr (Some (gvlist t))
  | _ -> raise (Bad ("gv token " ^ s))

and gvlist t : M.gv list =
  let s = next t in
  if S.length s = 0 || s.[0] <> 'T' then raise (Bad ("expected T<n>, got " ^ s));
  times (count s) (fun () -> gv t)

let rec jv t : M.jv =
  let s = next t in
  if S.length s = 0 then raise (Bad "empty token");
  match s.[0] with
  | 'n' -> M.JNull
  | 'b' -> M.JBool (s = "b1")
  | 'i' -> M.JNum (z_of_dec (tail_of s))
  | 's' -> M.JStr (bytes_of_hex (tail_of s))
  | 'a' -> M.JArr (times (count s) (fun () -> jv t))
  | 'o' -> M.JObj (jvobj_items (count s) t)
  | _ -> raise (Bad ("jv token " ^ s))

and jvobj_items n t =
  times n (fun () ->
      let k = bytes_of_hex (next t) in
      let v = jv t in
      (k, v))

let jvobj t : (M.byte list * M.jv) list =
  let s = next t in
  if S.length s = 0 || s.[0] <> 'o' then raise (Bad ("expected o<n>, got " ^ s));
  jvobj_items (count s) t

let parse_case (line : string) : M.case =
  let t = { a = Array.of_list (S.split_on_char ' ' line); i = 0 } in
  let c =
    match next t with
    | "F" ->
        let input = bytes_of_hex (next t) in
        let cls = z_of_dec (next t) in
        let consumed = z_of_dec (next t) in
        let ty = z_of_dec (next t) in
        M.CFrame (input, cls, consumed, ty)
    | "M" ->
        let name = coq_string (next t) in
        let back = next t = "1" in
        let wire = bytes_of_hex (next t) in
        let vals = gvlist t in
        let obj = jvobj t in
        M.CMsg (name, vals, wire, obj, back)
    | k -> raise (Bad ("case kind " ^ k))
  in
  if t.i <> Array.length t.a then raise (Bad "trailing tokens");
  c

(* the result is 0 or a small reason code *)
let rec int_of_pos (p : M.positive) : int =
  match p with M.XH -> 1 | M.XO q -> 2 * int_of_pos q | M.XI q -> (2 * int_of_pos q) + 1

let int_of_z (z : M.z) : int =
  match z with M.Z0 -> 0 | M.Zpos p -> int_of_pos p | M.Zneg p -> -int_of_pos p

let () =
  let ic = if Array.length Sys.argv > 1 then open_in Sys.argv.(1) else stdin in
  let n = ref 0 and bad = ref 0 and msgs = ref 0 in
  (try
     while true do
       let line = input_line ic in
       if line <> "" then begin
         incr n;
         match parse_case line with
         | c ->
             if M.is_msg c then incr msgs;
             let code = int_of_z (M.check_case c) in
             if code <> 0 then begin
               incr bad;
               Printf.printf "MISMATCH %d %d\n" !n code
             end
         | exception Bad why ->
             incr bad;
             Printf.printf "MISMATCH %d 99 unparsable: %s\n" !n why
       end
     done
   with End_of_file -> ());
  Printf.printf "DONE %d %d %d\n" !n !bad !msgs
