package main

// Driver "httpauth" (C07).  The grid is finite and enumerated completely:
//   3 request forms x credential kinds (Authorization) x credential kinds (Proxy-Authorization) x
//   {HTTP/1.0, HTTP/1.1 with three header-name casings, h2c stream} x targets of every route table.
// The seed only chooses the additional random route tables.

import (
	"fmt"
	"net"
	"net/http"
	"os"
	"time"

	netpkg "github.com/fatedier/frp/pkg/util/net"

	"verifharness/hx"
)

func init() { drivers["httpauth"] = runHTTPAuth }

const corrImports = "From FRP Require Import Corr.C07.\nOpen Scope Z_scope.\n"

func runHTTPAuth(cfg *hx.RunCfg) error {
	hx.Quiet()
	r := &run{cfg: cfg, sym: newSymtab(), dist: map[string]int{}, seenF: map[string]bool{}, nontr: map[string]bool{}, notes: map[string]any{}}
	g := hx.NewGen(cfg.Seed)
	grid := credGrid()
	h2grid := grid
	tables := fixedTables()
	nrand := 1
	if cfg.Tier == "thorough" {
		nrand = 12
	}
	if cfg.Extra == "vhost-only" {
		nrand = 0
	}
	for k := 0; k < nrand; k++ {
		tables = append(tables, randomTable(g, k))
	}
	t0 := time.Now()
	if err := r.vhostPart(tables, grid, h2grid); err != nil {
		return err
	}
	tv := time.Since(t0)
	if cfg.Extra != "vhost-only" {
		if err := r.muxPart(grid); err != nil {
			return err
		}
		if err := r.mwPart(grid); err != nil {
			return err
		}
		for _, part := range extraParts {
			if err := part(r, grid); err != nil {
				return err
			}
		}
	}
	cf := hx.CaseFile{
		Typ:   "case",
		Cases: r.cases,
		Tail: "Definition M := Eval vm_compute in mismatches check_case cases.\nPrint M.\n" +
			"Definition NUNAUTH := Eval vm_compute in count_if is_unauth cases.\nPrint NUNAUTH.\n" +
			"Definition NFORWARD_PROTECTED := Eval vm_compute in count_if is_forward_protected cases.\nPrint NFORWARD_PROTECTED.\n" +
			"Definition NFORWARD_OPEN := Eval vm_compute in count_if is_forward_open cases.\nPrint NFORWARD_OPEN.\n" +
			"Definition NNOTFOUND := Eval vm_compute in count_if is_notfound cases.\nPrint NNOTFOUND.\n" +
			"Definition NSPLIT_USER := Eval vm_compute in count_if is_split_user cases.\nPrint NSPLIT_USER.\n" +
			"Definition NH2 := Eval vm_compute in count_if is_h2 cases.\nPrint NH2.\n" +
			"Definition NMUX_AUTHFAIL := Eval vm_compute in count_if is_mux_authfail cases.\nPrint NMUX_AUTHFAIL.\n" +
			"Definition NMUX_FORWARD_PROTECTED := Eval vm_compute in count_if is_mux_forward_protected cases.\nPrint NMUX_FORWARD_PROTECTED.\n" +
			"Definition NGRP_REFUSED_JOIN := Eval vm_compute in count_if is_grp_refused_join cases.\nPrint NGRP_REFUSED_JOIN.\n" +
			"Definition NGRP_PROTECTED_DELIVERY := Eval vm_compute in count_if is_grp_protected_delivery cases.\nPrint NGRP_PROTECTED_DELIVERY.\n" +
			"Definition NSYS_SUBDOMAIN_REFUSED := Eval vm_compute in count_if is_sys_subdomain_refused cases.\nPrint NSYS_SUBDOMAIN_REFUSED.\n" +
			"Definition NSYS_SUBDOMAIN_FORWARDED := Eval vm_compute in count_if is_sys_subdomain_forwarded cases.\nPrint NSYS_SUBDOMAIN_FORWARDED.\n" +
			"Definition NHGRP := Eval vm_compute in count_if is_hgrp_case cases.\nPrint NHGRP.\n" +
			"Definition NHGRP_REFUSED_JOIN := Eval vm_compute in count_if is_hgrp_refused_join cases.\nPrint NHGRP_REFUSED_JOIN.\n" +
			"Definition NHGRP_PROTECTED_DELIVERY := Eval vm_compute in count_if is_hgrp_protected_delivery cases.\nPrint NHGRP_PROTECTED_DELIVERY.\n" +
			"Definition NMUXRACE_CLOSED := Eval vm_compute in count_if is_muxrace_closed cases.\nPrint NMUXRACE_CLOSED.\n" +
			"Definition NMUXRACE_DELIVERED := Eval vm_compute in count_if is_muxrace_delivered cases.\nPrint NMUXRACE_DELIVERED.\n" +
			"Definition NWEB_UNAUTH := Eval vm_compute in count_if is_web_unauth cases.\nPrint NWEB_UNAUTH.\n" +
			"Definition NWEB_PUBLIC := Eval vm_compute in count_if is_web_public cases.\nPrint NWEB_PUBLIC.\n",
	}
	// the symbol definitions go into the header of every shard
	cf.Imports = corrImports
	for _, d := range r.sym.defs {
		cf.Imports += d + "\n"
	}
	if err := cf.Write(cfg.Out); err != nil {
		return err
	}
	samples := []string{}
	for i := 0; i < len(r.cases) && len(samples) < 4; i += 1 + len(r.cases)/4 {
		samples = append(samples, r.cases[i])
	}
	cfg.St["cases"] = len(r.cases)
	cfg.St["distinct_nontrivial"] = len(r.nontr)
	cfg.St["samples"] = samples
	cfg.St["distribution"] = sortedDist(r.dist)
	if r.fails == nil {
		r.fails = []map[string]string{}
	}
	cfg.St["impl_failures"] = r.fails
	cfg.St["exhaustive"] = r.errs == 0
	cfg.St["grid"] = map[string]any{"credential_kinds": len(grid), "forms": 3, "h1_proto_casing": 4, "tables": len(tables),
		"vhost_seconds": tv.Seconds()}
	cfg.St["extra_observations"] = r.notes
	fmt.Fprintf(os.Stderr, "httpauth: %d cases, %d impl failures, %d driver errors, vhost part %.1fs, total %.1fs\n",
		len(r.cases), len(r.fails), r.errs, tv.Seconds(), time.Since(t0).Seconds())
	return nil
}

var extraParts []func(r *run, grid []credKind) error

// ---- HTTPAuthMiddleware around a marker handler ----

func (r *run) mwPart(grid []credKind) error {
	cfgs := [][2]string{{"alice", "apw"}, {"", ""}, {"", "apw"}, {"alice", ""}}
	methods := []string{"GET", "POST", "HEAD", "OPTIONS", "PUT", "DELETE", "PATCH"}
	for ci, c := range cfgs {
		arr := newArrivals()
		h := netpkg.NewHTTPAuthMiddleware(c[0], c[1]).Middleware(http.HandlerFunc(func(w http.ResponseWriter, req *http.Request) {
			arr.add(req.Header.Get("X-Case"), 1)
			w.WriteHeader(200)
		}))
		ln, err := net.Listen("tcp", "127.0.7.230:0")
		if err != nil {
			return err
		}
		srv := &http.Server{Handler: h}
		go func() { _ = srv.Serve(ln) }()
		type item struct {
			rq     areq
			id     string
			status int
			err    string
		}
		var items []*item
		n := 0
		for _, m := range methods {
			for _, a := range grid {
				for _, pc := range []struct {
					proto  string
					casing int
				}{{"PH10", 0}, {"PH11", 0}, {"PH11", 1}, {"PH11", 2}} {
					n++
					// the other header carries the right credentials: the middleware must not look at it
					rq := areq{form: "FOrigin", proto: pc.proto, method: m, hdrHost: "api.test", path: "/x", auth: a.raw, pauth: basic(c[0], c[1]), casing: pc.casing}
					items = append(items, &item{rq: rq, id: fmt.Sprintf("w%d-%d", ci, n)})
				}
			}
		}
		parallel(len(items), 16, func(i int) {
			it := items[i]
			res := rawDo(ln.Addr().String(), it.rq.wire(it.id), it.rq.method, nil)
			it.status = res.status
			if res.err != nil {
				it.err = res.err.Error()
			}
		})
		csym := fmt.Sprintf("(mk_cfg %s %s)", r.sym.b(c[0]), r.sym.b(c[1]))
		for _, it := range items {
			if it.err != "" {
				r.errs++
				r.fail("zz-driver-io:middleware", "the driver could not complete a request against the middleware: "+it.err, it.rq.String())
				continue
			}
			reached := len(arr.get(it.id)) > 0
			if reached && (c[0] != "" || c[1] != "") {
				u, p, ok := parseBasicRef(it.rq.auth)
				if !ok || u != c[0] || p != c[1] {
					r.fail("handler-reached-without-credentials:middleware:"+it.rq.method,
						fmt.Sprintf("middleware configured with %q:%q let a request with Authorization user=%q password=%q (parsed=%v) through", c[0], c[1], u, p, ok), it.rq.String())
				}
			}
			r.addCase(fmt.Sprintf("CMw %s %s %d %s", csym, it.rq.coq(r.sym), it.status, hx.Bool(reached)), it.rq.auth != "",
				"mw:"+it.rq.method, fmt.Sprintf("mw:status-%d", it.status))
		}
		_ = srv.Close()
	}
	return nil
}
