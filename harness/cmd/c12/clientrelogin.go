package main

// Driver "clientrelogin": the CLIENT half of the re-login protocol.  A real frpc (client.Service) talks to
// a real in-process frps through a relay owned by the driver.  The relay reads the first message of every
// connection; for a Login it records the run id the message carries, and either answers it itself with an
// error (a refused login: frps sends no run id with a refusal) or forwards it, reads the LoginResp,
// records the run id given, and then pipes bytes.  It can cut the CLIENT side of the control connection
// while keeping the server side open, so that frps still holds the old session when the client comes back.
// Compared with Model/ClientLogin.v (Corr.C12.check_client); the consequence for the server-side clause
// ("the client's own earlier registrations never block its new ones") is checked directly.

import (
	"fmt"
	"io"
	"net"
	"sync"
	"time"

	v1 "github.com/fatedier/frp/pkg/config/v1"
	"github.com/fatedier/frp/pkg/msg"
	"verifharness/hx"
)

func init() { drivers["clientrelogin"] = runClientRelogin }

type relay struct {
	s        *hx.Server
	l        net.Listener
	mu       sync.Mutex
	refuse   int      // refuse the next n logins
	attempts []string // Coq items, in order
	rids     []string
	ctlCli   net.Conn // client side of the current control connection
	events   chan string
}

func (r *relay) ridOpt(id string) string {
	if id == "" {
		return "None"
	}
	for i, x := range r.rids {
		if x == id {
			return fmt.Sprintf("(Some %d)", i)
		}
	}
	r.rids = append(r.rids, id)
	return fmt.Sprintf("(Some %d)", len(r.rids)-1)
}

func (r *relay) serve() {
	for {
		c, err := r.l.Accept()
		if err != nil {
			return
		}
		go r.handle(c)
	}
}

func (r *relay) handle(c net.Conn) {
	_ = c.SetReadDeadline(time.Now().Add(5 * time.Second))
	m, err := msg.ReadMsg(c)
	_ = c.SetReadDeadline(time.Time{})
	if err != nil {
		c.Close()
		return
	}
	up, err := r.s.Dial()
	if err != nil {
		c.Close()
		return
	}
	lm, isLogin := m.(*msg.Login)
	if !isLogin {
		_ = msg.WriteMsg(up, m)
		go func() { _, _ = io.Copy(up, c); up.Close() }()
		_, _ = io.Copy(c, up)
		c.Close()
		return
	}
	r.mu.Lock()
	refuse := r.refuse > 0
	if refuse {
		r.refuse--
	}
	r.mu.Unlock()
	if refuse {
		up.Close()
		_ = msg.WriteMsg(c, &msg.LoginResp{Version: "0", Error: "c12 relay: login refused"})
		r.mu.Lock()
		r.attempts = append(r.attempts, fmt.Sprintf("CAttempt (CL.ORefused None) %s", r.ridOpt(lm.RunID)))
		r.mu.Unlock()
		r.events <- "refused"
		time.Sleep(50 * time.Millisecond)
		c.Close()
		return
	}
	_ = msg.WriteMsg(up, lm)
	var resp msg.LoginResp
	_ = up.SetReadDeadline(time.Now().Add(5 * time.Second))
	if err := msg.ReadMsgInto(up, &resp); err != nil {
		r.mu.Lock()
		r.attempts = append(r.attempts, fmt.Sprintf("CAttempt CL.OIoError %s", r.ridOpt(lm.RunID)))
		r.mu.Unlock()
		c.Close()
		up.Close()
		r.events <- "ioerror"
		return
	}
	_ = up.SetReadDeadline(time.Time{})
	r.mu.Lock()
	pres := r.ridOpt(lm.RunID)
	if resp.Error != "" {
		r.attempts = append(r.attempts, fmt.Sprintf("CAttempt (CL.ORefused %s) %s", r.ridOpt(resp.RunID), pres))
	} else {
		r.attempts = append(r.attempts, fmt.Sprintf("CAttempt (CL.OAccepted %s) %s", r.ridOpt(resp.RunID), pres))
		r.ctlCli = c
	}
	r.mu.Unlock()
	_ = msg.WriteMsg(c, &resp)
	r.events <- "accepted"
	// pipe; when the client side is cut the server side stays open (frps keeps the old session)
	go func() { _, _ = io.Copy(c, up) }()
	_, _ = io.Copy(up, c)
}

// cut closes the client side of the current control connection only.
func (r *relay) cut() {
	r.mu.Lock()
	c := r.ctlCli
	r.ctlCli = nil
	r.attempts = append(r.attempts, "CLost")
	r.mu.Unlock()
	if c != nil {
		c.Close()
	}
}

func (r *relay) waitEvent(want string, d time.Duration) bool {
	deadline := time.After(d)
	for {
		select {
		case e := <-r.events:
			if e == want {
				return true
			}
		case <-deadline:
			return false
		}
	}
}

func runClientRelogin(cfg *hx.RunCfg) error {
	hx.Quiet()
	g := hx.NewGen(cfg.Seed)
	var cases []string
	var fails []map[string]any
	kinds := map[string]int{}
	for i := 0; i < cfg.N; i++ {
		s, err := hx.StartServer("127.0.12.4", nil)
		if err != nil {
			return err
		}
		l, err := net.Listen("tcp", "127.0.12.4:0")
		if err != nil {
			s.Close()
			return err
		}
		r := &relay{s: s, l: l, events: make(chan string, 64)}
		go r.serve()
		rport := hx.FreePort(s.Addr)
		pc := &v1.TCPProxyConfig{}
		pc.Name, pc.Type = "c12-cli", "tcp"
		pc.LocalIP, pc.LocalPort, pc.RemotePort = s.Addr, 9, rport
		c, err := s.StartClient([]v1.ProxyConfigurer{pc}, nil, func(cc *v1.ClientCommonConfig) {
			cc.ServerPort = l.Addr().(*net.TCPAddr).Port
		})
		fail := func(key, what string) {
			r.mu.Lock()
			fails = append(fails, map[string]any{"key": key, "what": what, "case": hx.List(r.attempts)})
			r.mu.Unlock()
		}
		if err != nil {
			return err
		}
		ok := r.waitEvent("accepted", 5*time.Second) && c.WaitProxyRunning("c12-cli", 5*time.Second)
		if !ok {
			fail("client-setup", "first login / proxy did not come up")
		} else {
			rounds := 1 + g.Intn(2)
			for k := 0; k < rounds && ok; k++ {
				nref := g.Intn(3) // 0, 1 or 2 refused attempts before the accepted one
				if k == 0 {
					nref = 1 + g.Intn(2) // every case has a refused attempt while frps still holds the old session
				}
				r.mu.Lock()
				r.refuse = nref
				r.mu.Unlock()
				kinds[fmt.Sprintf("refusals-%d", nref)]++
				r.cut()
				for j := 0; j < nref; j++ {
					if !r.waitEvent("refused", 30*time.Second) {
						fail("client-no-retry", "the client did not try again after a refused login")
						ok = false
						break
					}
				}
				if ok && !r.waitEvent("accepted", 30*time.Second) {
					fail("client-no-retry", "the client did not log in again")
					ok = false
				}
				if ok && !c.WaitProxyRunning("c12-cli", 8*time.Second) {
					st, _ := c.Svc.StatusExporter().GetProxyStatus("c12-cli")
					what := "?"
					if st != nil {
						what = st.Phase + ": " + st.Err
					}
					fail("monitor:own-old-registration-blocks-after-relogin",
						fmt.Sprintf("after the re-login (%d refused attempts before it) the client's proxy is %q; sessions held by frps: %d", nref, what, len(s.Svc.VerifC12Sessions())))
					ok = false
				}
				if ok && len(s.Svc.VerifC12Sessions()) != 1 {
					fail("monitor:client-owns-two-sessions", fmt.Sprintf("frps holds %d sessions for one client", len(s.Svc.VerifC12Sessions())))
				}
			}
		}
		c.Close()
		l.Close()
		s.Close()
		r.mu.Lock()
		cases = append(cases, hx.List(r.attempts))
		r.mu.Unlock()
	}
	cf := &hx.CaseFile{
		Imports: "From FRP Require Import Corr.C12.\nOpen Scope N_scope.\n",
		Typ:     "(list cobs)",
		Cases:   cases,
		Tail: "Open Scope Z_scope.\nDefinition M := Eval vm_compute in mismatches check_client cases.\nPrint M.\n" +
			"Definition NREFUSED := Eval vm_compute in (count_if (existsb is_refused) cases : Z).\nPrint NREFUSED.\n",
	}
	if err := cf.Write(cfg.Out); err != nil {
		return err
	}
	cfg.St["cases"] = len(cases)
	cfg.St["distinct_nontrivial"] = len(cases)
	cfg.St["samples"] = cases
	cfg.St["distribution"] = kinds
	cfg.St["impl_failures"] = fails
	return nil
}
