package main

// Driver "codecx" (C17, volume): the same generators as "codec", written as lines for the OCaml
// runner built from the extracted model (ocaml/c17/driver.ml documents the grammar).

import (
	"bufio"
	"bytes"
	"encoding/hex"
	"encoding/json"
	"fmt"
	"io"
	"net"
	"os"
	"reflect"
	"strings"

	"github.com/fatedier/frp/pkg/msg"
)

func init() { drivers["codecx"] = runCodecX }

func hexTok(b []byte) string {
	if len(b) == 0 {
		return "-"
	}
	return hex.EncodeToString(b)
}

// gvTok renders a Go value as gv tokens (same traversal as gvOf).
func gvTok(v reflect.Value, out *[]string) {
	switch v.Kind() {
	case reflect.String:
		*out = append(*out, "S"+hexTok([]byte(v.String())))
	case reflect.Int, reflect.Int64, reflect.Int32:
		*out = append(*out, fmt.Sprintf("I%d", v.Int()))
	case reflect.Uint16, reflect.Uint32, reflect.Uint64:
		*out = append(*out, fmt.Sprintf("I%d", v.Uint()))
	case reflect.Bool:
		if v.Bool() {
			*out = append(*out, "B1")
		} else {
			*out = append(*out, "B0")
		}
	case reflect.Map:
		m := map[string]string{}
		it := v.MapRange()
		for it.Next() {
			m[it.Key().String()] = it.Value().String()
		}
		*out = append(*out, fmt.Sprintf("M%d", len(m)))
		for _, k := range sortedKeys(m) {
			*out = append(*out, hexTok([]byte(k)), hexTok([]byte(m[k])))
		}
	case reflect.Slice:
		if v.Type().Elem().Kind() == reflect.String {
			*out = append(*out, fmt.Sprintf("L%d", v.Len()))
			for i := 0; i < v.Len(); i++ {
				*out = append(*out, hexTok([]byte(v.Index(i).String())))
			}
			return
		}
		*out = append(*out, fmt.Sprintf("A%d", v.Len()))
		for i := 0; i < v.Len(); i++ {
			gvFieldsTok(v.Index(i), out)
		}
	case reflect.Struct:
		gvFieldsTok(v, out)
	case reflect.Ptr:
		if v.IsNil() {
			*out = append(*out, "P0")
			return
		}
		if v.Type() == udpAddrType {
			a := v.Interface().(*net.UDPAddr)
			ip := ""
			if len(a.IP) > 0 {
				ip = a.IP.String()
			}
			*out = append(*out, "P1", "T3", "S"+hexTok([]byte(ip)), fmt.Sprintf("I%d", a.Port), "S"+hexTok([]byte(a.Zone)))
			return
		}
		*out = append(*out, "P1")
		gvFieldsTok(v.Elem(), out)
	default:
		*out = append(*out, "X"+v.Kind().String())
	}
}

func gvFieldsTok(v reflect.Value, out *[]string) {
	*out = append(*out, fmt.Sprintf("T%d", v.NumField()))
	for i := 0; i < v.NumField(); i++ {
		gvTok(v.Field(i), out)
	}
}

// jvTok parses JSON text (key order preserved) into jv tokens (same traversal as jvOf).
func jvTok(body []byte) ([]string, error) {
	dec := json.NewDecoder(bytes.NewReader(body))
	dec.UseNumber()
	var out []string
	if err := jvTokValue(dec, &out); err != nil {
		return nil, err
	}
	if _, err := dec.Token(); err != io.EOF {
		return nil, fmt.Errorf("trailing data")
	}
	return out, nil
}

func jvTokValue(dec *json.Decoder, out *[]string) error {
	tok, err := dec.Token()
	if err != nil {
		return err
	}
	switch t := tok.(type) {
	case json.Delim:
		switch t {
		case '{':
			at := len(*out)
			*out = append(*out, "")
			n := 0
			for dec.More() {
				kt, err := dec.Token()
				if err != nil {
					return err
				}
				*out = append(*out, hexTok([]byte(kt.(string))))
				if err := jvTokValue(dec, out); err != nil {
					return err
				}
				n++
			}
			if _, err := dec.Token(); err != nil {
				return err
			}
			(*out)[at] = fmt.Sprintf("o%d", n)
			return nil
		case '[':
			at := len(*out)
			*out = append(*out, "")
			n := 0
			for dec.More() {
				if err := jvTokValue(dec, out); err != nil {
					return err
				}
				n++
			}
			if _, err := dec.Token(); err != nil {
				return err
			}
			(*out)[at] = fmt.Sprintf("a%d", n)
			return nil
		}
		return fmt.Errorf("unexpected delimiter")
	case string:
		*out = append(*out, "s"+hexTok([]byte(t)))
	case json.Number:
		if n, err := t.Int64(); err == nil {
			*out = append(*out, fmt.Sprintf("i%d", n))
		} else {
			*out = append(*out, "n")
		}
	case bool:
		if t {
			*out = append(*out, "b1")
		} else {
			*out = append(*out, "b0")
		}
	case nil:
		*out = append(*out, "n")
	default:
		return fmt.Errorf("unexpected token")
	}
	return nil
}

func runCodecX(cfg *runCfg) error {
	g := newGen(cfg.Seed + 1000003)
	path := strings.TrimSuffix(cfg.Out, ".v") + ".lines"
	f, err := os.Create(path)
	if err != nil {
		return err
	}
	defer f.Close()
	w := bufio.NewWriterSize(f, 1<<20)
	defer w.Flush()
	clsCount := map[string]int{}
	typeCount := map[string]int{}
	var implFail []string
	lines, nontrivial := 0, 0
	validBody := []byte(`{"version":"1","run_id":"abc"}`)
	emitFrame := func(kind string, in []byte) {
		cls, consumed, typ, _ := readClass(in)
		fmt.Fprintf(w, "F %s %d %d %d\n", hexTok(in), cls, consumed, typ)
		clsCount[fmt.Sprintf("%s cls=%d", kind, cls)]++
		lines++
		if len(in) > 0 {
			nontrivial++
		}
	}
	for i := 0; i < cfg.N; i++ {
		if i%2 == 0 {
			proto := msgProtos[(i/2)%len(msgProtos)]
			pv := reflect.New(reflect.TypeOf(proto).Elem())
			g.fill(pv.Elem(), g.chance(0.3))
			var wire bytes.Buffer
			if err := msg.WriteMsg(&wire, pv.Interface()); err != nil {
				return fmt.Errorf("WriteMsg(%T): %v", proto, err)
			}
			wb := wire.Bytes()
			name := pv.Elem().Type().Name()
			if len(wb) < 9 {
				implFail = append(implFail, "short wire for "+name)
				continue
			}
			if len(wb)-9 > 10240 {
				emitFrame("oversize-valid", wb)
				continue
			}
			obj, err := jvTok(wb[9:])
			if err != nil || len(obj) == 0 || !strings.HasPrefix(obj[0], "o") {
				implFail = append(implFail, "body of "+name+" is not a JSON object")
				continue
			}
			back, err := msg.ReadMsg(bytes.NewReader(wb))
			backEqual := "0"
			if err == nil && reflect.TypeOf(back) == pv.Type() && gvFields(reflect.ValueOf(back).Elem()) == gvFields(pv.Elem()) {
				backEqual = "1"
			}
			var vals []string
			gvFieldsTok(pv.Elem(), &vals)
			fmt.Fprintf(w, "M %s %s %s %s %s\n", name, backEqual, hexTok(wb), strings.Join(vals, " "), strings.Join(obj, " "))
			typeCount[name]++
			lines++
			if len(wb) > 11 {
				nontrivial++
			}
			continue
		}
		switch g.intn(7) {
		case 0:
			emitFrame("random", g.bytes(g.intn(40)))
		case 1:
			fr := frame(regTypes[g.intn(18)], int64(len(validBody)), validBody)
			emitFrame("truncated", fr[:g.intn(len(fr)+1)])
		case 2:
			fr := frame(regTypes[g.intn(18)], int64(len(validBody)), validBody)
			k := g.intn(len(fr))
			fr[k] ^= 1 << uint(g.intn(8))
			emitFrame("bitflip", fr)
		case 3:
			fr := frame(regTypes[g.intn(18)], int64(len(validBody)), validBody)
			emitFrame("trailing", append(fr, g.bytes(1+g.intn(30))...))
		case 4:
			n := g.intn(60)
			emitFrame("garbage-body", frame(regTypes[g.intn(18)], int64(n), g.bytes(n)))
		case 5:
			n := g.intn(30)
			emitFrame("length-mismatch", frame(regTypes[g.intn(18)], int64(g.intn(60))-10, g.bytes(n)))
		default:
			// lengths around the bound with a body of exactly that many bytes
			l := int64(10230 + g.intn(22))
			emitFrame("boundary-length", frame(regTypes[g.intn(18)], l, bytes.Repeat([]byte{'a'}, int(l))))
		}
	}
	cfg.St["cases"] = lines
	cfg.St["distinct_nontrivial"] = nontrivial // counted, not deduplicated: inputs are random
	cfg.St["class_distribution"] = clsCount
	cfg.St["message_types"] = typeCount
	cfg.St["impl_failures"] = implFail
	cfg.St["lines_file"] = path
	cfg.St["samples"] = []any{}
	return nil
}
