(* C09 — ownership of bound ports (plain tcp proxies and tcp groups hold pairwise distinct ports, each
   bound), membership of grouped proxies, and progress of Close at the resource-controller level. *)
From Coq Require Import Lia.
From FRP Require Import Model.Ports Model.PortSrv Proofs.PortsProofs Proofs.PortSrvProofs.
Open Scope Z_scope.

Definition live_plain (r : rcst) (id : Z) (o : pobj) : Prop :=
  aget id (rc_objs r) = Some o /\ po_kind o = KTcp /\ po_group o = ""%string /\ po_closed o = false.
Definition live_member (r : rcst) (id : Z) (o : pobj) : Prop :=
  aget id (rc_objs r) = Some o /\ po_kind o = KTcp /\ po_group o <> ""%string /\ po_closed o = false.
Definition live_group (r : rcst) (g : string) (tg : tgrp) : Prop :=
  sget g (rc_groups r) = Some tg /\ tg_lns tg <> [].

(* who claims a tcp port: a live plain proxy (by object id) or a live group (by name) *)
Definition claim (r : rcst) (k : Z + string) (p : Z) : Prop :=
  match k with
  | inl id => exists o, live_plain r id o /\ po_real o = p
  | inr g => exists tg, live_group r g tg /\ tg_real tg = p
  end.

Record OInv (r : rcst) : Prop := {
  oi_fresh : forall id o, aget id (rc_objs r) = Some o -> id < rc_next r;
  oi_bound : forall k p, claim r k p -> In (0, p) (rc_bound r);
  oi_excl : forall k k' p, claim r k p -> claim r k' p -> k = k';
  oi_member : forall id o, live_member r id o ->
     exists tg, sget (po_group o) (rc_groups r) = Some tg /\ In id (tg_lns tg) /\ tg_real tg = po_real o
}.

(* ---- three generic ways the claims and the tcp bindings move together ---- *)
Lemma claims_same : forall r r',
  OInv r ->
  (forall k p, claim r' k p -> claim r k p) ->
  (forall p, In (0, p) (rc_bound r) -> In (0, p) (rc_bound r')) ->
  (forall k p, claim r' k p -> In (0, p) (rc_bound r')) /\
  (forall k k' p, claim r' k p -> claim r' k' p -> k = k').
Proof.
  intros r r' [F B E M] HC HB. split.
  - intros k p H. apply HB. eapply B. eauto.
  - intros k k' p H H'. eapply E; eauto.
Qed.

Lemma claims_add : forall r r' k0 p0,
  OInv r ->
  (forall k p, claim r' k p -> claim r k p \/ (k = k0 /\ p = p0)) ->
  rc_bound r' = (0, p0) :: rc_bound r -> ~ In (0, p0) (rc_bound r) ->
  (forall k p, claim r' k p -> In (0, p) (rc_bound r')) /\
  (forall k k' p, claim r' k p -> claim r' k' p -> k = k').
Proof.
  intros r r' k0 p0 [F B E M] HC HB N. rewrite HB. split.
  - intros k p H. destruct (HC _ _ H) as [X|[-> ->]]; [right; eapply B; eauto|left; reflexivity].
  - intros k k' p H H'. destruct (HC _ _ H) as [X|[-> ->]]; destruct (HC _ _ H') as [X'|[-> E']].
    + eapply E; eauto.
    + subst. exfalso. apply N. eapply B; eauto.
    + exfalso. apply N. eapply B; eauto.
    + reflexivity.
Qed.

Lemma claims_remove : forall r r' k0 p0,
  OInv r -> claim r k0 p0 ->
  (forall k p, claim r' k p -> claim r k p /\ k <> k0) ->
  rc_bound r' = unbind 0 p0 (rc_bound r) ->
  (forall k p, claim r' k p -> In (0, p) (rc_bound r')) /\
  (forall k k' p, claim r' k p -> claim r' k' p -> k = k').
Proof.
  intros r r' k0 p0 [F B E M] H0 HC HB. rewrite HB. split.
  - intros k p H. destruct (HC _ _ H) as [X Nk]. apply unbind_In. split; [eapply B; eauto|].
    intros Eq. inversion Eq; subst. apply Nk. eapply E; eauto.
  - intros k k' p H H'. destruct (HC _ _ H) as [X _]. destruct (HC _ _ H') as [X' _]. eapply E; eauto.
Qed.

Lemma unbind_other_proto : forall p q b, In (0, q) b -> In (0, q) (unbind 1 p b).
Proof. intros p q b H. apply unbind_In. split; [assumption|]. intros E. inversion E. Qed.

(* ---- Run ---- *)
Ltac rsimpl := cbn [rc_tcp rc_udp rc_groups rc_bound rc_squat rc_objs rc_next rc_set_tcp rc_set_udp rc_set_groups
                    rc_set_bound rc_set_squat rc_set_objs rc_set_next mark_closed].
Tactic Notation "rsimpl" "in" hyp(H) :=
  cbn [rc_tcp rc_udp rc_groups rc_bound rc_squat rc_objs rc_next rc_set_tcp rc_set_udp rc_set_groups
       rc_set_bound rc_set_squat rc_set_objs rc_set_next mark_closed] in H.
Tactic Notation "rsimpl" "in" "*" :=
  cbn [rc_tcp rc_udp rc_groups rc_bound rc_squat rc_objs rc_next rc_set_tcp rc_set_udp rc_set_groups
       rc_set_bound rc_set_squat rc_set_objs rc_set_next mark_closed] in *.

(* OInv looks only at objects, groups, bindings and the id counter *)
Lemma oinv_ext : forall r r',
  rc_objs r' = rc_objs r -> rc_groups r' = rc_groups r -> rc_bound r' = rc_bound r -> rc_next r' = rc_next r ->
  OInv r -> OInv r'.
Proof.
  intros r r' Eo Eg Eb En [F B E M].
  assert (C : forall k p, claim r' k p <-> claim r k p).
  { intros [id|g] p; unfold claim, live_plain, live_group; rewrite ?Eo, ?Eg; tauto. }
  constructor.
  - rewrite Eo, En. assumption.
  - intros k p H. rewrite Eb. apply (B k p). apply C. assumption.
  - intros k k' p H H'. apply (E k k' p); apply C; assumption.
  - intros id o H. unfold live_member in H. rewrite Eo in H. rewrite Eg. apply M. assumption.
Qed.

(* a new object under a fresh id that is not a live plain tcp proxy: udp, port-less kinds *)
Lemma oinv_add_nontcp : forall r r' o b,
  OInv r -> po_kind o <> KTcp ->
  rc_objs r' = aset (rc_next r) o (rc_objs r) -> rc_groups r' = rc_groups r ->
  rc_bound r' = b ++ rc_bound r -> rc_next r' = rc_next r + 1 ->
  OInv r'.
Proof.
  intros r r' o b HI Nk Eo Eg Eb En. pose proof HI as [F B E M].
  assert (old : forall id x, aget id (rc_objs r') = Some x -> po_kind x = KTcp -> aget id (rc_objs r) = Some x).
  { intros id x H K. rewrite Eo in H. destruct (Z.eq_dec id (rc_next r)) as [->|N].
    - rewrite aget_aset_eq in H. inversion H; subst. contradiction.
    - rewrite aget_aset_neq in H by assumption. assumption. }
  assert (C : forall k p, claim r' k p -> claim r k p).
  { intros [id|g] p; unfold claim, live_plain, live_group.
    - intros [x [[H [K R]] P]]. exists x. split; [split; [apply old; assumption|tauto]|assumption].
    - rewrite Eg. tauto. }
  destruct (claims_same r r' HI C) as [B' E'].
  { intros p H. rewrite Eb. apply in_or_app. right. assumption. }
  constructor; try assumption.
  - intros id x H. rewrite Eo in H. rewrite En. destruct (Z.eq_dec id (rc_next r)) as [->|N]; [lia|].
    rewrite aget_aset_neq in H by assumption. apply F in H. lia.
  - intros id x [H [K R]]. rewrite Eg. apply M. split; [|tauto]. apply old; assumption.
Qed.

Lemma oinv_add_plain : forall r r' o p,
  OInv r -> po_kind o = KTcp -> po_group o = ""%string -> po_real o = p ->
  ~ In (0, p) (rc_bound r) ->
  rc_objs r' = aset (rc_next r) o (rc_objs r) -> rc_groups r' = rc_groups r ->
  rc_bound r' = (0, p) :: rc_bound r -> rc_next r' = rc_next r + 1 ->
  OInv r'.
Proof.
  intros r r' o p HI K G P Nb Eo Eg Eb En. pose proof HI as [F B E M].
  assert (C : forall k q, claim r' k q -> claim r k q \/ (k = inl (rc_next r) /\ q = p)).
  { intros [id|g] q; unfold claim, live_plain, live_group.
    - intros [x [[H R] Q]]. rewrite Eo in H. destruct (Z.eq_dec id (rc_next r)) as [->|N].
      + rewrite aget_aset_eq in H. inversion H; subst. right. auto.
      + rewrite aget_aset_neq in H by assumption. left. exists x. auto.
    - rewrite Eg. intros H. left. assumption. }
  destruct (claims_add r r' _ _ HI C Eb Nb) as [B' E'].
  constructor; try assumption.
  - intros id x H. rewrite Eo in H. rewrite En. destruct (Z.eq_dec id (rc_next r)) as [->|N]; [lia|].
    rewrite aget_aset_neq in H by assumption. apply F in H. lia.
  - intros id x [H [K' [G' R]]]. rewrite Eo in H. rewrite Eg. destruct (Z.eq_dec id (rc_next r)) as [->|N].
    + rewrite aget_aset_eq in H. inversion H; subst. contradiction.
    + rewrite aget_aset_neq in H by assumption. apply M. repeat split; assumption.
Qed.

(* the controller creates an empty group entry for an unknown group name *)
Lemma oinv_empty_group : forall r g,
  OInv r -> sget g (rc_groups r) = None -> OInv (rc_set_groups (sset g empty_grp (rc_groups r)) r).
Proof.
  intros r g HI Hn. pose proof HI as [F B E M].
  set (r' := rc_set_groups (sset g empty_grp (rc_groups r)) r).
  assert (C : forall k q, claim r' k q -> claim r k q).
  { intros [id|g'] q; unfold claim, live_plain, live_group, r'; rsimpl; [tauto|].
    intros [tg [[H L] Q]]. destruct (String.eqb_spec g' g) as [->|N].
    - rewrite sget_sset_eq in H. inversion H; subst. simpl in L. congruence.
    - rewrite sget_sset_neq in H by assumption. exists tg. auto. }
  destruct (claims_same r r' HI C) as [B' E']; [auto|].
  constructor; try assumption.
  intros id x [H [K [G R]]]. unfold r' in *. rsimpl in *.
  destruct (M id x) as [tg [S [I T]]]; [repeat split; assumption|].
  exists tg. split; [|auto]. rewrite sget_sset_neq; [assumption|]. intros Eq. rewrite Eq in S. congruence.
Qed.

(* first member of a group: the entry for g is dead (no members), a fresh listener is bound on p *)
Lemma oinv_group_first : forall r r' g tg0 o p key addr port,
  OInv r -> sget g (rc_groups r) = Some tg0 -> tg_lns tg0 = [] -> g <> ""%string ->
  po_kind o = KTcp -> po_group o = g -> po_real o = p -> po_closed o = false ->
  ~ In (0, p) (rc_bound r) ->
  rc_objs r' = aset (rc_next r) o (rc_objs r) ->
  rc_groups r' = sset g {| tg_key := key; tg_addr := addr; tg_port := port; tg_real := p; tg_lns := [rc_next r] |} (rc_groups r) ->
  rc_bound r' = (0, p) :: rc_bound r -> rc_next r' = rc_next r + 1 ->
  OInv r'.
Proof.
  intros r r' g tg0 o p key addr port HI Hg L0 Ng K G P Cl Nb Eo Eg Eb En. pose proof HI as [F B E M].
  assert (C : forall k q, claim r' k q -> claim r k q \/ (k = inr g /\ q = p)).
  { intros [id|g'] q; unfold claim, live_plain, live_group.
    - intros [x [[H [K' [G' R]]] Q]]. rewrite Eo in H. destruct (Z.eq_dec id (rc_next r)) as [->|N].
      + rewrite aget_aset_eq in H. inversion H; subst. congruence.
      + rewrite aget_aset_neq in H by assumption. left. exists x. auto.
    - rewrite Eg. intros [tg [[H L] Q]]. destruct (String.eqb_spec g' g) as [->|N].
      + rewrite sget_sset_eq in H. inversion H; subst. right. auto.
      + rewrite sget_sset_neq in H by assumption. left. exists tg. auto. }
  destruct (claims_add r r' _ _ HI C Eb Nb) as [B' E'].
  constructor; try assumption.
  - intros id x H. rewrite Eo in H. rewrite En. destruct (Z.eq_dec id (rc_next r)) as [->|N]; [lia|].
    rewrite aget_aset_neq in H by assumption. apply F in H. lia.
  - intros id x [H [K' [G' R]]]. rewrite Eo in H. rewrite Eg. destruct (Z.eq_dec id (rc_next r)) as [->|N].
    + rewrite aget_aset_eq in H. inversion H; subst. rewrite sget_sset_eq. eexists. split; [reflexivity|].
      simpl. auto.
    + rewrite aget_aset_neq in H by assumption.
      destruct (M id x) as [tg [S [I T]]]; [repeat split; assumption|].
      destruct (String.eqb_spec (po_group x) g) as [Eq|Ne].
      * rewrite Eq in S. rewrite Hg in S. inversion S; subst. rewrite L0 in I. destruct I.
      * rewrite sget_sset_neq by assumption. exists tg. auto.
Qed.

Lemma oinv_group_join : forall r r' g tg o,
  OInv r -> sget g (rc_groups r) = Some tg -> tg_lns tg <> [] -> g <> ""%string ->
  po_kind o = KTcp -> po_group o = g -> po_real o = tg_real tg ->
  rc_objs r' = aset (rc_next r) o (rc_objs r) ->
  rc_groups r' = sset g {| tg_key := tg_key tg; tg_addr := tg_addr tg; tg_port := tg_port tg; tg_real := tg_real tg;
                           tg_lns := tg_lns tg ++ [rc_next r] |} (rc_groups r) ->
  rc_bound r' = rc_bound r -> rc_next r' = rc_next r + 1 ->
  OInv r'.
Proof.
  intros r r' g tg o HI Hg L Ng K G P Eo Eg Eb En. pose proof HI as [F B E M].
  assert (C : forall k q, claim r' k q -> claim r k q).
  { intros [id|g'] q; unfold claim, live_plain, live_group.
    - intros [x [[H [K' [G' R]]] Q]]. rewrite Eo in H. destruct (Z.eq_dec id (rc_next r)) as [->|N].
      + rewrite aget_aset_eq in H. inversion H; subst. congruence.
      + rewrite aget_aset_neq in H by assumption. exists x. auto.
    - rewrite Eg. intros [tg' [[H L'] Q]]. destruct (String.eqb_spec g' g) as [->|N].
      + rewrite sget_sset_eq in H. inversion H; subst. simpl. exists tg. auto.
      + rewrite sget_sset_neq in H by assumption. exists tg'. auto. }
  destruct (claims_same r r' HI C) as [B' E']; [rewrite Eb; auto|].
  constructor; try assumption.
  - intros id x H. rewrite Eo in H. rewrite En. destruct (Z.eq_dec id (rc_next r)) as [->|N]; [lia|].
    rewrite aget_aset_neq in H by assumption. apply F in H. lia.
  - intros id x [H [K' [G' R]]]. rewrite Eo in H. rewrite Eg. destruct (Z.eq_dec id (rc_next r)) as [->|N].
    + rewrite aget_aset_eq in H. inversion H; subst. rewrite sget_sset_eq. eexists. split; [reflexivity|].
      simpl. split; [apply in_or_app; right; left; reflexivity|congruence].
    + rewrite aget_aset_neq in H by assumption.
      destruct (M id x) as [tg' [S [I T]]]; [repeat split; assumption|].
      destruct (String.eqb_spec (po_group x) g) as [Eq|Ne].
      * rewrite Eq in S. rewrite Hg in S. inversion S; subst. rewrite Eq, sget_sset_eq. eexists. split; [reflexivity|].
        simpl. split; [apply in_or_app; left; assumption|assumption].
      * rewrite sget_sset_neq by assumption. exists tg'. auto.
Qed.

Lemma mk_obj_fields : forall q rp,
  po_kind (mk_obj q rp) = xq_kind q /\ po_group (mk_obj q rp) = xq_group q /\ po_real (mk_obj q rp) = rp /\
  po_closed (mk_obj q rp) = false.
Proof. intros. repeat split. Qed.

Ltac fin := rsimpl; cbn [po_kind po_group po_real po_closed mk_obj]; try reflexivity; try eassumption.

Lemma oinv_run : forall r q r' res, OInv r -> px_run r q = Some (r', res) -> OInv r'.
Proof.
  intros r q r' res HI H. unfold px_run in H. destruct (xq_kind q) eqn:EK.
  - destruct (String.eqb_spec (xq_group q) "") as [EG|NG].
    + unfold tcp_run in H.
      destruct (pm_acquire (rc_probe r 0) (xq_choice q) (rc_tcp r) (xq_name q) (xq_port q)) as [[t' [rp|e]]|] eqn:E;
        [| |discriminate].
      * destruct (acquire_ok_shape _ _ _ _ _ _ _ E) as [_ P]. apply probe_bound in P.
        destruct (xq_lok q); inversion H; subst.
        -- eapply (oinv_add_plain r _ (mk_obj q rp) rp HI); fin.
        -- eapply oinv_ext; [| | | |exact HI]; reflexivity.
      * inversion H; subst. eapply oinv_ext; [| | | |exact HI]; reflexivity.
    + unfold group_listen in H.
      destruct (sget (xq_group q) (rc_groups r)) as [tg|] eqn:EGr.
      * destruct (tg_lns tg) as [|l0 ls] eqn:EL.
        -- destruct (pm_acquire (rc_probe r 0) (xq_choice q) (rc_tcp r) (xq_name q) (xq_port q)) as [[t' [rp|e]]|] eqn:E;
             [| |discriminate].
           ++ destruct (acquire_ok_shape _ _ _ _ _ _ _ E) as [_ P]. apply probe_bound in P.
              destruct (xq_lok q); inversion H; subst.
              ** eapply (oinv_group_first r _ (xq_group q) tg (mk_obj q rp) rp); try exact HI; fin.
              ** eapply oinv_ext; [| | | |exact HI]; reflexivity.
           ++ inversion H; subst. eapply oinv_ext; [| | | |exact HI]; reflexivity.
        -- assert (NE : tg_lns tg <> []) by (rewrite EL; discriminate).
           destruct (negb (tg_addr tg =? xq_addr q)); [inversion H; subst; assumption|].
           destruct (negb (tg_port tg =? xq_port q)); [inversion H; subst; assumption|].
           destruct (negb (String.eqb (tg_key tg) (xq_gkey q))); [inversion H; subst; assumption|].
           inversion H; subst.
           eapply (oinv_group_join r _ (xq_group q) tg (mk_obj q (tg_real tg))); try exact HI; fin.
           rewrite EL. reflexivity.
      * cbn [tg_lns empty_grp] in H.
        pose proof (oinv_empty_group r (xq_group q) HI EGr) as HI1.
        set (r1 := rc_set_groups (sset (xq_group q) empty_grp (rc_groups r)) r) in *.
        destruct (pm_acquire (rc_probe r1 0) (xq_choice q) (rc_tcp r1) (xq_name q) (xq_port q)) as [[t' [rp|e]]|] eqn:E;
          [| |discriminate].
        -- destruct (acquire_ok_shape _ _ _ _ _ _ _ E) as [_ P]. apply probe_bound in P.
           destruct (xq_lok q); inversion H; subst.
           ++ eapply (oinv_group_first r1 _ (xq_group q) empty_grp (mk_obj q rp) rp); try exact HI1; unfold r1; fin.
              apply sget_sset_eq.
           ++ eapply oinv_ext; [| | | |exact HI1]; reflexivity.
        -- inversion H; subst. eapply oinv_ext; [| | | |exact HI1]; reflexivity.
  - unfold udp_run in H.
    destruct (pm_acquire (rc_probe r 1) (xq_choice q) (rc_udp r) (xq_name q) (xq_port q)) as [[u' [rp|e]]|] eqn:E;
      [| |discriminate].
    + destruct (xq_lok q); inversion H; subst.
      * eapply (oinv_add_nontcp r _ (mk_obj q rp) [(1, rp)] HI); rsimpl; try reflexivity.
        simpl. rewrite EK. discriminate.
      * eapply oinv_ext; [| | | |exact HI]; reflexivity.
    + inversion H; subst. eapply oinv_ext; [| | | |exact HI]; reflexivity.
  - unfold other_run in H. inversion H; subst.
    eapply (oinv_add_nontcp r _ (mk_obj q 0) [] HI); rsimpl; try reflexivity.
    simpl. rewrite EK. discriminate.
Qed.

(* ---- Close ---- *)
Definition closed_of (o : pobj) : pobj :=
  {| po_kind := po_kind o; po_group := po_group o; po_real := po_real o; po_closed := true |}.

(* marking an object closed and (possibly) removing bindings that no remaining claim needs *)
Lemma oinv_mark_nonclaim : forall r r' id o,
  OInv r -> aget id (rc_objs r) = Some o ->
  (po_kind o = KTcp -> po_group o = ""%string -> po_closed o = true) ->
  (po_kind o = KTcp -> po_group o <> ""%string -> po_closed o = false ->
     forall tg, sget (po_group o) (rc_groups r') = Some tg -> True) ->
  rc_objs r' = aset id (closed_of o) (rc_objs r) -> rc_groups r' = rc_groups r ->
  (forall p, In (0, p) (rc_bound r) -> In (0, p) (rc_bound r')) -> rc_next r' = rc_next r ->
  (po_kind o = KTcp -> po_group o <> ""%string -> po_closed o = true) ->
  OInv r'.
Proof.
  intros r r' id o HI Ho Hp _ Eo Eg Eb En Hm. pose proof HI as [F B E M].
  assert (C : forall k q, claim r' k q -> claim r k q).
  { intros [id'|g] q; unfold claim, live_plain, live_group.
    - intros [x [[H [K [G R]]] Q]]. rewrite Eo in H. destruct (Z.eq_dec id' id) as [->|N].
      + rewrite aget_aset_eq in H. inversion H; subst. simpl in R. discriminate.
      + rewrite aget_aset_neq in H by assumption. exists x. auto.
    - rewrite Eg. tauto. }
  destruct (claims_same r r' HI C Eb) as [B' E'].
  constructor; try assumption.
  - intros id' x H. rewrite Eo in H. rewrite En. destruct (Z.eq_dec id' id) as [->|N]; [eauto|].
    rewrite aget_aset_neq in H by assumption. eauto.
  - intros id' x [H [K [G R]]]. rewrite Eo in H. rewrite Eg. destruct (Z.eq_dec id' id) as [->|N].
    + rewrite aget_aset_eq in H. inversion H; subst. simpl in R. discriminate.
    + rewrite aget_aset_neq in H by assumption. apply M. repeat split; assumption.
Qed.

Lemma oinv_close : forall r id r', OInv r -> px_close r id = Some r' -> OInv r'.
Proof.
  intros r id r' HI H. pose proof HI as [F B E M]. unfold px_close in H.
  destruct (aget id (rc_objs r)) as [o|] eqn:Ho; [|discriminate].
  destruct (po_kind o) eqn:EK.
  - destruct (po_closed o) eqn:EC; [discriminate|].
    destruct (String.eqb_spec (po_group o) "") as [EG|NG].
    + (* plain tcp proxy: its claim goes, its binding goes *)
      inversion H; subst. clear H.
      set (r' := mark_closed id o (rc_set_tcp (pm_release (rc_tcp r) (po_real o)) (rc_set_bound (unbind 0 (po_real o) (rc_bound r)) r))).
      assert (C0 : claim r (inl id) (po_real o)) by (exists o; repeat split; assumption).
      assert (C : forall k q, claim r' k q -> claim r k q /\ k <> inl id).
      { intros [id'|g] q; unfold claim, live_plain, live_group, r'; rsimpl.
        - intros [x [[H1 [K [G R]]] Q]]. destruct (Z.eq_dec id' id) as [->|N].
          + rewrite aget_aset_eq in H1. inversion H1; subst. simpl in R. discriminate.
          + rewrite aget_aset_neq in H1 by assumption. split; [exists x; auto|congruence].
        - intros X. split; [assumption|discriminate]. }
      destruct (claims_remove r r' _ _ HI C0 C) as [B' E']; [reflexivity|].
      constructor; try assumption.
      * intros id' x H1. unfold r' in *. rsimpl in *. destruct (Z.eq_dec id' id) as [->|N]; [eauto|].
        rewrite aget_aset_neq in H1 by assumption. eauto.
      * intros id' x [H1 [K [G R]]]. unfold r' in *. rsimpl in *. destruct (Z.eq_dec id' id) as [->|N].
        -- rewrite aget_aset_eq in H1. inversion H1; subst. simpl in R. discriminate.
        -- rewrite aget_aset_neq in H1 by assumption. apply M. repeat split; assumption.
    + destruct (close_group_listener r (po_group o) id) as [r1|] eqn:ECG; [|discriminate].
      inversion H; subst. clear H. unfold close_group_listener in ECG.
      destruct (sget (po_group o) (rc_groups r)) as [tg|] eqn:EGr; [|discriminate].
      destruct (zmem id (tg_lns tg)) eqn:EM; [|discriminate]. simpl in ECG. apply zmem_In in EM.
      assert (NE : tg_lns tg <> []) by (intros X; rewrite X in EM; destruct EM).
      destruct (zrem id (tg_lns tg)) as [|l0 ls] eqn:EZ; inversion ECG; subst; clear ECG.
      * (* last member: the group's claim and binding go, the entry is removed *)
        set (r' := mark_closed id o (rc_set_groups (sdel (po_group o) (rc_groups r))
                     (rc_set_tcp (pm_release (rc_tcp r) (tg_real tg)) (rc_set_bound (unbind 0 (tg_real tg) (rc_bound r)) r)))).
        assert (C0 : claim r (inr (po_group o)) (tg_real tg)) by (exists tg; repeat split; assumption).
        assert (C : forall k q, claim r' k q -> claim r k q /\ k <> inr (po_group o)).
        { intros [id'|g] q; unfold claim, live_plain, live_group, r'; rsimpl.
          - intros [x [[H1 [K [G R]]] Q]]. destruct (Z.eq_dec id' id) as [->|N].
            + rewrite aget_aset_eq in H1. inversion H1; subst. simpl in R. discriminate.
            + rewrite aget_aset_neq in H1 by assumption. split; [exists x; auto|discriminate].
          - intros [tg' [[H1 L] Q]]. destruct (String.eqb_spec g (po_group o)) as [->|N].
            + rewrite sget_sdel_eq in H1. discriminate.
            + rewrite sget_sdel_neq in H1 by assumption. split; [exists tg'; auto|congruence]. }
        destruct (claims_remove r r' _ _ HI C0 C) as [B' E']; [reflexivity|].
        constructor; try assumption.
        -- intros id' x H1. unfold r' in *. rsimpl in *. destruct (Z.eq_dec id' id) as [->|N]; [eauto|].
           rewrite aget_aset_neq in H1 by assumption. eauto.
        -- intros id' x [H1 [K [G R]]]. unfold r' in *. rsimpl in *. destruct (Z.eq_dec id' id) as [->|N].
           ++ rewrite aget_aset_eq in H1. inversion H1; subst. simpl in R. discriminate.
           ++ rewrite aget_aset_neq in H1 by assumption.
              destruct (M id' x) as [tg' [S [I T]]]; [repeat split; assumption|].
              destruct (String.eqb_spec (po_group x) (po_group o)) as [Eq|Ne].
              ** exfalso. rewrite Eq in S. rewrite EGr in S. inversion S; subst.
                 assert (X : In id' (zrem id (tg_lns tg'))) by (apply zrem_In; auto).
                 rewrite EZ in X. destruct X.
              ** rewrite sget_sdel_neq by assumption. exists tg'. auto.
      * (* another member remains: nothing but the member list changes *)
        set (tg1 := {| tg_key := tg_key tg; tg_addr := tg_addr tg; tg_port := tg_port tg; tg_real := tg_real tg; tg_lns := l0 :: ls |}).
        set (r' := mark_closed id o (rc_set_groups (sset (po_group o) tg1 (rc_groups r)) r)).
        assert (C : forall k q, claim r' k q -> claim r k q).
        { intros [id'|g] q; unfold claim, live_plain, live_group, r'; rsimpl.
          - intros [x [[H1 [K [G R]]] Q]]. destruct (Z.eq_dec id' id) as [->|N].
            + rewrite aget_aset_eq in H1. inversion H1; subst. simpl in R. discriminate.
            + rewrite aget_aset_neq in H1 by assumption. exists x; auto.
          - intros [tg' [[H1 L] Q]]. destruct (String.eqb_spec g (po_group o)) as [->|N].
            + rewrite sget_sset_eq in H1. inversion H1; subst. exists tg. auto.
            + rewrite sget_sset_neq in H1 by assumption. exists tg'; auto. }
        destruct (claims_same r r' HI C) as [B' E']; [auto|].
        constructor; try assumption.
        -- intros id' x H1. unfold r' in *. rsimpl in *. destruct (Z.eq_dec id' id) as [->|N]; [eauto|].
           rewrite aget_aset_neq in H1 by assumption. eauto.
        -- intros id' x [H1 [K [G R]]]. unfold r' in *. rsimpl in *. destruct (Z.eq_dec id' id) as [->|N].
           ++ rewrite aget_aset_eq in H1. inversion H1; subst. simpl in R. discriminate.
           ++ rewrite aget_aset_neq in H1 by assumption.
              destruct (M id' x) as [tg' [S [I T]]]; [repeat split; assumption|].
              destruct (String.eqb_spec (po_group x) (po_group o)) as [Eq|Ne].
              ** rewrite Eq in S. rewrite EGr in S. inversion S; subst. rewrite Eq, sget_sset_eq.
                 exists tg1. split; [reflexivity|]. unfold tg1. cbn [tg_lns tg_real]. split; [|assumption].
                 rewrite <- EZ. apply zrem_In. auto.
              ** rewrite sget_sset_neq by assumption. exists tg'. auto.
  - destruct (po_closed o) eqn:EC; inversion H; subst; [assumption|].
    eapply (oinv_mark_nonclaim r _ id o HI Ho); rsimpl; try reflexivity; try (intros; congruence); try (intros; exact I).
    intros p X. apply unbind_other_proto. assumption.
  - destruct (po_closed o) eqn:EC; [discriminate|]. inversion H; subst.
    eapply (oinv_mark_nonclaim r _ id o HI Ho); rsimpl; try reflexivity; try (intros; congruence); try (intros; exact I); auto.
Qed.

Lemma oinv_new : forall ranges, OInv (rc_new ranges).
Proof.
  intros. constructor; unfold rc_new; rsimpl.
  - discriminate.
  - intros [id|g] p; unfold claim, live_plain, live_group; rsimpl; intros [x [[H _] _]]; discriminate.
  - intros [id|g] k' p; unfold claim, live_plain, live_group; rsimpl; intros [x [[H _] _]]; discriminate.
  - intros id o [H _]. discriminate.
Qed.

Lemma oinv_xstep : forall r o r' out, OInv r -> x_step r o = Some (r', out) -> OInv r'.
Proof.
  intros r o r' out HI H. destruct o as [q|id|proto port|proto port]; cbn [x_step] in H.
  - destruct (px_run r q) as [[r1 res]|] eqn:E; [|discriminate]. inversion H; subst. eapply oinv_run; eauto.
  - destruct (px_close r id) as [r1|] eqn:E; [|discriminate]. inversion H; subst. eapply oinv_close; eauto.
  - destruct ((1 <=? port) && rc_probe r proto port); inversion H; subst.
    eapply oinv_ext; [| | | |exact HI]; reflexivity.
  - inversion H; subst. eapply oinv_ext; [| | | |exact HI]; reflexivity.
Qed.

(* ---- progress of Close: an object the server may still close can be closed ---- *)
Theorem px_close_progress : forall r id o,
  OInv r -> aget id (rc_objs r) = Some o -> (po_kind o <> KUdp -> po_closed o = false) ->
  px_close r id <> None.
Proof.
  intros r id o HI Ho Hc. unfold px_close. rewrite Ho. destruct (po_kind o) eqn:EK.
  - rewrite Hc by discriminate. destruct (String.eqb_spec (po_group o) "") as [EG|NG]; [discriminate|].
    destruct (oi_member _ HI id o) as [tg [S [I T]]]; [repeat split; auto; apply Hc; discriminate|].
    unfold close_group_listener. rewrite S. apply zmem_In in I. rewrite I. simpl.
    destruct (zrem id (tg_lns tg)); discriminate.
  - destruct (po_closed o); discriminate.
  - rewrite Hc by discriminate. discriminate.
Qed.

(* ---- the reported address is a bound address, later group members included ---- *)
Theorem reported_addr_is_bound_addr_full : forall r q r' id real,
  OInv r -> px_run r q = Some (r', XOk id real) ->
  match xq_kind q with
  | KTcp => In (0, real) (rc_bound r')
  | KUdp => In (1, real) (rc_bound r')
  | KOther => True
  end.
Proof.
  intros r q r' id real HI H. pose proof (reported_addr_is_bound_addr _ _ _ _ _ H) as R.
  destruct (xq_kind q) eqn:EK; try assumption.
  destruct R as [R|[tg [S [L ->]]]]; [assumption|].
  (* a later member: the group's claim is bound, and joining changes no binding *)
  assert (Bd : In (0, tg_real tg) (rc_bound r)).
  { apply (oi_bound _ HI (inr (xq_group q))). exists tg. repeat split; assumption. }
  unfold px_run in H. rewrite EK in H.
  destruct (String.eqb_spec (xq_group q) "") as [EG|NG].
  - unfold tcp_run in H.
    repeat match type of H with
           | context [match ?c with _ => _ end] => destruct c
           end; inversion H; subst; rsimpl; right; assumption.
  - unfold group_listen in H. rewrite S in H. destruct (tg_lns tg) eqn:EL; [congruence|].
    repeat match type of H with
           | context [if ?c then _ else _] => destruct c
           end; inversion H; subst; rsimpl; assumption.
Qed.

(* ======================= level Y: references from sessions to proxy objects ======================= *)
Ltac solve_ro :=
  rsimpl; split;
  [intros id' N; first [reflexivity | apply aget_aset_neq; assumption]
  |first [reflexivity | split; [reflexivity | apply aget_aset_eq]]].

Lemma run_objs : forall r q r' res, px_run r q = Some (r', res) ->
  (forall id', id' <> rc_next r -> aget id' (rc_objs r') = aget id' (rc_objs r)) /\
  match res with
  | XOk id real => id = rc_next r /\ aget id (rc_objs r') = Some (mk_obj q real)
  | XErr _ => rc_objs r' = rc_objs r
  end.
Proof.
  intros r q r' res H. unfold px_run in H. destruct (xq_kind q).
  - destruct (String.eqb (xq_group q) "").
    + unfold tcp_run in H.
      repeat match type of H with
             | context [match ?c with _ => _ end] => destruct c
             end; inversion H; subst; solve_ro.
    + unfold group_listen in H. destruct (sget (xq_group q) (rc_groups r)) as [tg|].
      * repeat match type of H with
               | context [match ?c with _ => _ end] => destruct c
               end; inversion H; subst; solve_ro.
      * cbn [tg_lns empty_grp] in H.
        repeat match type of H with
               | context [match ?c with _ => _ end] => destruct c
               end; inversion H; subst; solve_ro.
  - unfold udp_run in H.
    repeat match type of H with
           | context [match ?c with _ => _ end] => destruct c
           end; inversion H; subst; solve_ro.
  - unfold other_run in H. inversion H; subst; solve_ro.
Qed.

Lemma close_objs : forall r id r', px_close r id = Some r' ->
  (forall id', id' <> id -> aget id' (rc_objs r') = aget id' (rc_objs r)) /\
  (forall o, aget id (rc_objs r) = Some o ->
     exists o', aget id (rc_objs r') = Some o' /\ po_kind o' = po_kind o).
Proof.
  intros r id r' H. unfold px_close in H. destruct (aget id (rc_objs r)) as [o|] eqn:Ho; [|discriminate].
  assert (G : forall r1, rc_objs r1 = rc_objs r ->
            (forall id', id' <> id -> aget id' (rc_objs (mark_closed id o r1)) = aget id' (rc_objs r)) /\
            (forall o0, Some o = Some o0 -> exists o', aget id (rc_objs (mark_closed id o r1)) = Some o' /\ po_kind o' = po_kind o0)).
  { intros r1 E. rsimpl. rewrite E. split.
    - intros id' N. apply aget_aset_neq. assumption.
    - intros o0 X. inversion X; subst. rewrite aget_aset_eq. eexists. split; reflexivity. }
  destruct (po_kind o) eqn:EK.
  - destruct (po_closed o); [discriminate|]. destruct (String.eqb (po_group o) "").
    + inversion H; subst. apply G. reflexivity.
    + destruct (close_group_listener r (po_group o) id) as [r1|] eqn:E; [|discriminate]. inversion H; subst.
      apply G. unfold close_group_listener in E.
      repeat match type of E with
             | context [match ?c with _ => _ end] => destruct c
             end; inversion E; subst; reflexivity.
  - destruct (po_closed o); inversion H; subst.
    + split; [reflexivity|]. intros o0 X. inversion X; subst. exists o0. rewrite Ho. auto.
    + apply G. reflexivity.
  - destruct (po_closed o); [discriminate|]. inversion H; subst. apply G. reflexivity.
Qed.

Definition closable (r : rcst) (id : Z) (k : pkind) : Prop :=
  exists o, aget id (rc_objs r) = Some o /\ po_kind o = k /\ (k <> KUdp -> po_closed o = false).

Record LInv (s : srv) : Prop := {
  l_ref : forall c ct n id k, aget c (s_ctls s) = Some ct -> sget n (c_proxies ct) = Some (id, k) ->
            closable (s_rc s) id k;
  l_uniq : forall c ct n id k c' ct' n' k',
            aget c (s_ctls s) = Some ct -> sget n (c_proxies ct) = Some (id, k) ->
            aget c' (s_ctls s) = Some ct' -> sget n' (c_proxies ct') = Some (id, k') -> c = c' /\ n = n'
}.

Definition ids_of (l : list (pname * (Z * pkind))) : list Z := map (fun e => fst (snd e)) l.

Lemma in_sget_nodup : forall (l : list (pname * (Z * pkind))) n v,
  NoDup (map fst l) -> In (n, v) l -> sget n l = Some v.
Proof.
  induction l as [|[m w] t IH]; simpl; intros n v ND H; [destruct H|].
  inversion ND as [|? ? Hn Hr]; subst. destruct H as [E|H].
  - inversion E; subst. rewrite String.eqb_refl. reflexivity.
  - destruct (String.eqb_spec n m) as [->|N]; [|auto].
    exfalso. apply Hn. apply in_map_iff. exists (m, v). auto.
Qed.

Lemma sget_in : forall (l : list (pname * (Z * pkind))) n v, sget n l = Some v -> In (n, v) l.
Proof.
  induction l as [|[m w] t IH]; simpl; intros n v H; [discriminate|].
  destruct (String.eqb_spec n m) as [->|N]; [inversion H; auto|auto].
Qed.

Lemma ids_nodup : forall l,
  NoDup (map fst l) ->
  (forall n n' id k k', sget n l = Some (id, k) -> sget n' l = Some (id, k') -> n = n') ->
  NoDup (ids_of l).
Proof.
  induction l as [|[n [id k]] t IH]; simpl; intros ND U; [constructor|].
  inversion ND as [|? ? Hn Hr]; subst. constructor.
  - intros X. unfold ids_of in X. apply in_map_iff in X. destruct X as [[n' [id' k']] [E X]]. simpl in E. subst id'.
    assert (Nn : n' <> n) by (intros ->; apply Hn; apply in_map_iff; exists (n, (id, k')); auto).
    assert (S1 : sget n' ((n, (id, k)) :: t) = Some (id, k')).
    { simpl. destruct (String.eqb_spec n' n); [contradiction|]. apply in_sget_nodup; assumption. }
    assert (S2 : sget n ((n, (id, k)) :: t) = Some (id, k)) by (simpl; rewrite String.eqb_refl; reflexivity).
    apply Nn. symmetry. eapply U; eauto.
  - apply IH; [assumption|]. intros m m' i a b H1 H2.
    assert (Nm : m <> n) by (intros ->; apply Hn; apply sget_in in H1; apply in_map_iff; exists (n, (i, a)); auto).
    assert (Nm' : m' <> n) by (intros ->; apply Hn; apply sget_in in H2; apply in_map_iff; exists (n, (i, b)); auto).
    apply (U m m' i a b); simpl.
    + destruct (String.eqb_spec m n); [contradiction|assumption].
    + destruct (String.eqb_spec m' n); [contradiction|assumption].
Qed.

Lemma close_all_objs : forall l r names r' names',
  close_all r names l = Some (r', names') ->
  forall id', ~ In id' (ids_of l) -> aget id' (rc_objs r') = aget id' (rc_objs r).
Proof.
  induction l as [|[n [id k]] t IH]; simpl; intros r names r' names' H id' N; [inversion H; reflexivity|].
  destruct (px_close r id) as [r1|] eqn:E; [|discriminate].
  rewrite (IH _ _ _ _ H id'); [|tauto]. apply (close_objs _ _ _ E). intros ->. tauto.
Qed.

Lemma close_all_oinv : forall l r names r' names',
  OInv r -> close_all r names l = Some (r', names') -> OInv r'.
Proof.
  induction l as [|[n [id k]] t IH]; simpl; intros r names r' names' HI H; [inversion H; subst; assumption|].
  destruct (px_close r id) as [r1|] eqn:E; [|discriminate].
  eapply IH; [|eassumption]. eapply oinv_close; eauto.
Qed.

Lemma close_all_progress : forall l r names,
  OInv r -> NoDup (ids_of l) ->
  (forall n id k, In (n, (id, k)) l -> closable r id k) ->
  close_all r names l <> None.
Proof.
  induction l as [|[n [id k]] t IH]; simpl; intros r names HI ND HC; [discriminate|].
  inversion ND as [|? ? Hn Hr]; subst.
  destruct (HC n id k (or_introl eq_refl)) as [o [Ho [Hk Hcl]]].
  destruct (px_close r id) as [r1|] eqn:E.
  - apply IH; [eapply oinv_close; eauto|assumption|].
    intros n' id' k' H. destruct (HC n' id' k' (or_intror H)) as [o' [Ho' X]].
    assert (N : id' <> id).
    { intros ->. apply Hn. unfold ids_of. apply in_map_iff. exists (n', (id, k')). auto. }
    exists o'. rewrite (proj1 (close_objs _ _ _ E) id' N). auto.
  - exfalso. eapply px_close_progress; [exact HI|exact Ho| |exact E]. rewrite Hk. assumption.
Qed.

Ltac ysimpl := cbn [s_rc s_names s_ctls c_proxies c_used snd fst].

Lemma linv_same : forall s s',
  s_ctls s' = s_ctls s -> (forall id k, closable (s_rc s) id k -> closable (s_rc s') id k) -> LInv s -> LInv s'.
Proof.
  intros s s' Ec Hc [R U]. constructor; rewrite Ec.
  - intros. apply Hc. eauto.
  - assumption.
Qed.

(* replacing session c's record by one with the same proxies *)
Lemma linv_rollback : forall s c ct ct' r' names',
  LInv s -> aget c (s_ctls s) = Some ct -> c_proxies ct' = c_proxies ct ->
  (forall id k, closable (s_rc s) id k -> closable r' id k) ->
  LInv {| s_rc := r'; s_names := names'; s_ctls := aset c ct' (s_ctls s) |}.
Proof.
  intros s c ct ct' r' names' [R U] Hc Ep Hcl.
  assert (G : forall c0 ct0, aget c0 (aset c ct' (s_ctls s)) = Some ct0 ->
                exists ct1, aget c0 (s_ctls s) = Some ct1 /\ c_proxies ct1 = c_proxies ct0).
  { intros c0 ct0 H. destruct (Z.eq_dec c0 c) as [->|N].
    - rewrite aget_aset_eq in H. inversion H; subst. exists ct. auto.
    - rewrite aget_aset_neq in H by assumption. exists ct0. auto. }
  constructor; ysimpl.
  - intros c0 ct0 n id k H0 H1. destruct (G _ _ H0) as [ct1 [A B]]. rewrite <- B in H1. apply Hcl. eauto.
  - intros c0 ct0 n id k c1 ct1 n' k' H0 H1 H2 H3.
    destruct (G _ _ H0) as [x [A B]]. destruct (G _ _ H2) as [y [A' B']].
    rewrite <- B in H1. rewrite <- B' in H3. eauto.
Qed.

Lemma closable_after_run : forall r q r' res, OInv r -> px_run r q = Some (r', res) ->
  forall id k, closable r id k -> closable r' id k.
Proof.
  intros r q r' res HI H id k [o [Ho X]]. exists o. split; [|assumption].
  rewrite (proj1 (run_objs _ _ _ _ H)); [assumption|]. pose proof (oi_fresh _ HI _ _ Ho). lia.
Qed.

Definition Full (maxp : Z) (s : srv) : Prop := YInv maxp s /\ OInv (s_rc s) /\ LInv s.

Lemma full_step : forall maxp s o s' out, Full maxp s -> y_step maxp s o = Some (s', out) -> Full maxp s'.
Proof.
  intros maxp s o s' out [HY [HO HL]] H.
  split; [eapply yinv_step; eauto|].
  destruct o as [c|c q|c n|c|id|proto port|proto port]; cbn [y_step] in H.
  - (* login *)
    destruct (aget c (s_ctls s)) eqn:Ec; [discriminate|]. inversion H; subst. ysimpl. split; [assumption|].
    destruct HL as [R U].
    assert (G : forall c0 ct0, aget c0 (aset c {| c_proxies := []; c_used := 0 |} (s_ctls s)) = Some ct0 ->
                 (c0 <> c /\ aget c0 (s_ctls s) = Some ct0) \/ c_proxies ct0 = []).
    { intros c0 ct0 H0. destruct (Z.eq_dec c0 c) as [->|N].
      - rewrite aget_aset_eq in H0. inversion H0; subst. right. reflexivity.
      - rewrite aget_aset_neq in H0 by assumption. left. auto. }
    constructor; ysimpl.
    + intros c0 ct0 n id k H0 H1. destruct (G _ _ H0) as [[_ A]|A]; [eauto|rewrite A in H1; discriminate].
    + intros c0 ct0 n id k c1 ct1 n' k' H0 H1 H2 H3.
      destruct (G _ _ H0) as [[_ A]|A]; [|rewrite A in H1; discriminate].
      destruct (G _ _ H2) as [[_ A']|A']; [|rewrite A' in H3; discriminate]. eauto.
  - (* register *)
    destruct (y_register maxp s c q) as [[s1 r]|] eqn:E; [|discriminate]. inversion H; subst. clear H.
    unfold y_register in E. destruct (aget c (s_ctls s)) as [ct|] eqn:Ec; [|discriminate].
    destruct ((0 <? maxp) && (maxp <? c_used ct + pweight (xq_kind q))); [inversion E; subst; auto|].
    destruct (sget (xq_name q) (s_names s)) eqn:En.
    { inversion E; subst. ysimpl. split; [assumption|]. eapply linv_rollback; eauto. }
    destruct (px_run (s_rc s) q) as [[r' [id real|e]]|] eqn:ER; [| |discriminate].
    + inversion E; subst. clear E. ysimpl. split; [eapply oinv_run; eauto|].
      destruct (run_objs _ _ _ _ ER) as [Old [-> New]].
      pose proof HL as [R U].
      assert (Fresh : forall c0 ct0 n0 k0, aget c0 (s_ctls s) = Some ct0 ->
                        sget n0 (c_proxies ct0) = Some (rc_next (s_rc s), k0) -> False).
      { intros c0 ct0 n0 k0 A B. destruct (R _ _ _ _ _ A B) as [o [Ho _]].
        pose proof (oi_fresh _ HO _ _ Ho). lia. }
      set (ctn := {| c_proxies := sset (xq_name q) (rc_next (s_rc s), xq_kind q) (c_proxies ct);
                     c_used := if 0 <? maxp then c_used ct + pweight (xq_kind q) else c_used ct |}).
      assert (G : forall c0 ct0 n id k, aget c0 (aset c ctn (s_ctls s)) = Some ct0 -> sget n (c_proxies ct0) = Some (id, k) ->
                   (c0 = c /\ n = xq_name q /\ id = rc_next (s_rc s) /\ k = xq_kind q) \/
                   (exists ct1, aget c0 (s_ctls s) = Some ct1 /\ sget n (c_proxies ct1) = Some (id, k))).
      { intros c0 ct0 n id k H0 H1. destruct (Z.eq_dec c0 c) as [->|N].
        - rewrite aget_aset_eq in H0. inversion H0; subst. unfold ctn in H1. cbn [c_proxies] in H1.
          destruct (String.eqb_spec n (xq_name q)) as [->|Nn].
          + rewrite sget_sset_eq in H1. inversion H1; subst. left. auto.
          + rewrite sget_sset_neq in H1 by assumption. right. exists ct. auto.
        - rewrite aget_aset_neq in H0 by assumption. right. exists ct0. auto. }
      constructor; ysimpl; fold ctn.
      * intros c0 ct0 n id k H0 H1. destruct (G _ _ _ _ _ H0 H1) as [(-> & -> & -> & ->)|[ct1 [A B]]].
        -- exists (mk_obj q real). split; [assumption|]. split; [reflexivity|]. intros _. reflexivity.
        -- eapply closable_after_run; eauto.
      * intros c0 ct0 n id k c1 ct1 n' k' H0 H1 H2 H3.
        destruct (G _ _ _ _ _ H0 H1) as [(-> & -> & -> & ->)|[x [A B]]];
          destruct (G _ _ _ _ _ H2 H3) as [(-> & -> & E1 & ->)|[y [A' B']]].
        -- auto.
        -- exfalso. eapply Fresh; eauto.
        -- subst id. exfalso. eapply Fresh; eauto.
        -- eauto.
    + inversion E; subst. ysimpl. split; [eapply oinv_run; eauto|].
      eapply linv_rollback; eauto. eapply closable_after_run; eauto.
  - (* close *)
    destruct (y_close maxp s c n) as [s1|] eqn:E; [|discriminate]. inversion H; subst. clear H.
    unfold y_close in E. destruct (aget c (s_ctls s)) as [ct|] eqn:Ec; [|discriminate].
    destruct (sget n (c_proxies ct)) as [[id k]|] eqn:Ep; [|inversion E; subst; auto].
    destruct (px_close (s_rc s) id) as [r'|] eqn:EC; [|discriminate]. inversion E; subst. clear E. ysimpl.
    split; [eapply oinv_close; eauto|]. pose proof HL as [R U].
    set (ctn := {| c_proxies := sdel n (c_proxies ct); c_used := if 0 <? maxp then c_used ct - pweight k else c_used ct |}).
    assert (G : forall c0 ct0 n0 id0 k0, aget c0 (aset c ctn (s_ctls s)) = Some ct0 -> sget n0 (c_proxies ct0) = Some (id0, k0) ->
                 exists ct1, aget c0 (s_ctls s) = Some ct1 /\ sget n0 (c_proxies ct1) = Some (id0, k0) /\ (c0 = c -> n0 <> n)).
    { intros c0 ct0 n0 id0 k0 H0 H1. destruct (Z.eq_dec c0 c) as [->|N].
      - rewrite aget_aset_eq in H0. inversion H0; subst. unfold ctn in H1. cbn [c_proxies] in H1.
        destruct (String.eqb_spec n0 n) as [->|Nn]; [rewrite sget_sdel_eq in H1; discriminate|].
        rewrite sget_sdel_neq in H1 by assumption. exists ct. auto.
      - rewrite aget_aset_neq in H0 by assumption. exists ct0. split; [assumption|]. split; [assumption|]. intros; contradiction. }
    constructor; ysimpl; fold ctn.
    + intros c0 ct0 n0 id0 k0 H0 H1. destruct (G _ _ _ _ _ H0 H1) as [ct1 [A [B Ne]]].
      destruct (R _ _ _ _ _ A B) as [o [Ho X]].
      assert (N : id0 <> id).
      { intros ->. destruct (U _ _ _ _ _ _ _ _ _ A B Ec Ep) as [E1 E2]. apply Ne; assumption. }
      exists o. rewrite (proj1 (close_objs _ _ _ EC) id0 N). auto.
    + intros c0 ct0 n0 id0 k0 c1 ct1 n' k' H0 H1 H2 H3.
      destruct (G _ _ _ _ _ H0 H1) as [x [A [B _]]]. destruct (G _ _ _ _ _ H2 H3) as [y [A' [B' _]]]. eauto.
  - (* session end *)
    destruct (y_end s c) as [s1|] eqn:E; [|discriminate]. inversion H; subst. clear H.
    unfold y_end in E. destruct (aget c (s_ctls s)) as [ct|] eqn:Ec; [|discriminate].
    destruct (close_all (s_rc s) (s_names s) (c_proxies ct)) as [[r' names']|] eqn:ECA; [|discriminate].
    inversion E; subst. clear E. ysimpl. split; [eapply close_all_oinv; eauto|]. pose proof HL as [R U].
    assert (K : forall c0 ct0, aget c0 (adel c (s_ctls s)) = Some ct0 -> c0 <> c /\ aget c0 (s_ctls s) = Some ct0).
    { intros c0 ct0 H0. destruct (Z.eq_dec c0 c) as [->|N]; [rewrite aget_adel_eq in H0; discriminate|].
      rewrite aget_adel_neq in H0 by assumption. auto. }
    constructor; ysimpl.
    + intros c0 ct0 n id k H0 H1. destruct (K _ _ H0) as [N A]. destruct (R _ _ _ _ _ A H1) as [o [Ho X]].
      exists o. split; [|assumption]. rewrite (close_all_objs _ _ _ _ _ ECA); [assumption|].
      intros X1. unfold ids_of in X1. apply in_map_iff in X1. destruct X1 as [[n' [id' k']] [E1 X1]]. simpl in E1. subst id'.
      apply in_sget_nodup in X1; [|apply (yi_nodup _ _ HY _ _ Ec)].
      destruct (U _ _ _ _ _ _ _ _ _ A H1 Ec X1). contradiction.
    + intros c0 ct0 n id k c1 ct1 n' k' H0 H1 H2 H3. destruct (K _ _ H0). destruct (K _ _ H2). eauto.
  - (* late close of a udp proxy *)
    destruct (aget id (rc_objs (s_rc s))) as [o|] eqn:Ho; [|discriminate].
    destruct (po_kind o) eqn:EK; try discriminate.
    destruct (px_close (s_rc s) id) as [r'|] eqn:EC; [|discriminate]. inversion H; subst. ysimpl.
    split; [eapply oinv_close; eauto|]. eapply (linv_same s); [reflexivity| |exact HL]. ysimpl.
    intros id0 k0 [o0 [Ho0 [Hk Hc]]]. destruct (Z.eq_dec id0 id) as [->|N].
    + rewrite Ho in Ho0. inversion Ho0; subst. destruct (proj2 (close_objs _ _ _ EC) _ Ho) as [o' [A B]].
      exists o'. split; [assumption|]. split; [congruence|]. intros X. exfalso. apply X. congruence.
    + exists o0. rewrite (proj1 (close_objs _ _ _ EC) id0 N). auto.
  - destruct (x_step (s_rc s) (XSquat proto port)) as [[r' o]|] eqn:E; [|discriminate]. inversion H; subst. ysimpl.
    split; [eapply oinv_xstep; eauto|]. eapply (linv_same s); [reflexivity| |exact HL]. ysimpl.
    cbn [x_step] in E. destruct ((1 <=? port) && rc_probe (s_rc s) proto port); inversion E; subst. auto.
  - destruct (x_step (s_rc s) (XUnsquat proto port)) as [[r' o]|] eqn:E; [|discriminate]. inversion H; subst. ysimpl.
    split; [eapply oinv_xstep; eauto|]. eapply (linv_same s); [reflexivity| |exact HL]. ysimpl.
    cbn [x_step] in E. inversion E; subst. auto.
Qed.

Lemma full_new : forall maxp ranges, Full maxp (srv_new ranges).
Proof.
  intros. split; [apply yinv_new|]. split; [apply oinv_new|]. constructor; simpl; intros; discriminate.
Qed.

Lemma full_run : forall maxp ops s s', Full maxp s -> y_run maxp ops s = Some s' -> Full maxp s'.
Proof.
  induction ops as [|o t IH]; simpl; intros s s' HI H; [inversion H; subst; assumption|].
  destruct (y_step maxp s o) as [[s1 out]|] eqn:E; [|discriminate].
  eapply IH; [|eassumption]. eapply full_step; eauto.
Qed.

(* ---- what the model refuses, precisely ---- *)
Lemma acquire_none : forall probe ch s n port,
  pm_acquire probe ch s n port = None ->
  port = 0 /\
  ((exists k, ch = Some k /\ zmem k (pm_free s) && probe k = false) \/
   (ch = None /\ pm_noavail_legal probe (pm_free s) = false)).
Proof.
  intros probe ch s n port H. unfold pm_acquire in H.
  assert (R : pm_random probe ch s n = None ->
              (exists k, ch = Some k /\ zmem k (pm_free s) && probe k = false) \/
              (ch = None /\ pm_noavail_legal probe (pm_free s) = false)).
  { unfold pm_random. destruct ch as [k|].
    - destruct (zmem k (pm_free s) && probe k) eqn:E; [destruct (k =? 0); discriminate|]. intros _. left. eauto.
    - destruct (pm_noavail_legal probe (pm_free s)) eqn:E; [discriminate|]. auto. }
  destruct (port =? 0) eqn:E0.
  - apply Z.eqb_eq in E0. split; [assumption|]. destruct (rget n (pm_res s)); [|auto].
    destruct (zmem z (pm_free s) && probe z); [discriminate|auto].
  - destruct (zmem port (pm_free s)); [destruct (probe port); discriminate|].
    destruct (uget port (pm_used s)); discriminate.
Qed.

(* the observed random choice is not one the code could have made in this state *)
Definition illegal_choice (r : rcst) (q : xreq) : Prop :=
  xq_port q = 0 /\ exists proto m, (proto = 0 /\ m = rc_tcp r \/ proto = 1 /\ m = rc_udp r) /\
    ((exists k, xq_choice q = Some k /\ zmem k (pm_free m) && rc_probe r proto k = false) \/
     (xq_choice q = None /\ pm_noavail_legal (rc_probe r proto) (pm_free m) = false)).

Lemma px_run_none : forall r q, px_run r q = None -> illegal_choice r q.
Proof.
  intros r q H. unfold px_run in H. destruct (xq_kind q).
  - destruct (String.eqb (xq_group q) "").
    + unfold tcp_run in H.
      destruct (pm_acquire (rc_probe r 0) (xq_choice q) (rc_tcp r) (xq_name q) (xq_port q)) as [[t' [rp|e]]|] eqn:E.
      * destruct (xq_lok q); discriminate.
      * discriminate.
      * destruct (acquire_none _ _ _ _ _ E) as [P X]. split; [assumption|]. exists 0, (rc_tcp r). auto.
    + unfold group_listen in H. destruct (sget (xq_group q) (rc_groups r)) as [tg|].
      * destruct (tg_lns tg).
        -- destruct (pm_acquire (rc_probe r 0) (xq_choice q) (rc_tcp r) (xq_name q) (xq_port q)) as [[t' [rp|e]]|] eqn:E.
           ++ destruct (xq_lok q); discriminate.
           ++ discriminate.
           ++ destruct (acquire_none _ _ _ _ _ E) as [P X]. split; [assumption|]. exists 0, (rc_tcp r). auto.
        -- repeat match type of H with
                  | context [if ?c then _ else _] => destruct c
                  end; discriminate.
      * cbn [tg_lns empty_grp] in H.
        change (rc_probe (rc_set_groups (sset (xq_group q) empty_grp (rc_groups r)) r) 0) with (rc_probe r 0) in H.
        rsimpl in H.
        destruct (pm_acquire (rc_probe r 0) (xq_choice q) (rc_tcp r) (xq_name q) (xq_port q)) as [[t' [rp|e]]|] eqn:E.
        -- destruct (xq_lok q); discriminate.
        -- discriminate.
        -- destruct (acquire_none _ _ _ _ _ E) as [P X]. split; [assumption|]. exists 0, (rc_tcp r). auto.
  - unfold udp_run in H.
    destruct (pm_acquire (rc_probe r 1) (xq_choice q) (rc_udp r) (xq_name q) (xq_port q)) as [[t' [rp|e]]|] eqn:E.
    + destruct (xq_lok q); discriminate.
    + discriminate.
    + destruct (acquire_none _ _ _ _ _ E) as [P X]. split; [assumption|]. exists 1, (rc_udp r). auto.
  - discriminate.
Qed.

(* the only steps the model refuses in a reachable state: an operation on a session that does not exist, a
   login under a session id in use, a "late close" of something that is not a udp proxy object, an oracle
   value the code cannot produce (random choice), a squatter binding a port that is busy *)
Definition refusal_reason (s : srv) (o : yop) : Prop :=
  match o with
  | YLogin c => aget c (s_ctls s) <> None
  | YNewProxy c q => aget c (s_ctls s) = None \/ illegal_choice (s_rc s) q
  | YCloseProxy c _ => aget c (s_ctls s) = None
  | YSessionEnd c => aget c (s_ctls s) = None
  | YLateClose id => ~ exists o, aget id (rc_objs (s_rc s)) = Some o /\ po_kind o = KUdp
  | YSquat proto port => (1 <=? port) && rc_probe (s_rc s) proto port = false
  | YUnsquat _ _ => False
  end.

Theorem progress_full : forall maxp s o, Full maxp s -> y_step maxp s o = None -> refusal_reason s o.
Proof.
  intros maxp s o [HY [HO HL]] H. destruct o as [c|c q|c n|c|id|proto port|proto port]; cbn [y_step refusal_reason] in *.
  - destruct (aget c (s_ctls s)); [discriminate|discriminate].
  - destruct (y_register maxp s c q) as [[s1 r]|] eqn:E; [discriminate|]. unfold y_register in E.
    destruct (aget c (s_ctls s)) as [ct|]; [|auto]. right.
    destruct ((0 <? maxp) && (maxp <? c_used ct + pweight (xq_kind q))); [discriminate|].
    destruct (sget (xq_name q) (s_names s)); [discriminate|].
    destruct (px_run (s_rc s) q) as [[r' [id real|e]]|] eqn:ER; try discriminate. apply px_run_none. assumption.
  - destruct (y_close maxp s c n) as [s1|] eqn:E; [discriminate|]. unfold y_close in E.
    destruct (aget c (s_ctls s)) as [ct|] eqn:Ec; [|reflexivity]. exfalso.
    destruct (sget n (c_proxies ct)) as [[id k]|] eqn:Ep; [|discriminate].
    destruct (px_close (s_rc s) id) as [r'|] eqn:EC; [discriminate|].
    destruct (l_ref _ HL _ _ _ _ _ Ec Ep) as [o [Ho [Hk Hc]]].
    eapply px_close_progress; [exact HO|exact Ho| |exact EC]. rewrite Hk. assumption.
  - destruct (y_end s c) as [s1|] eqn:E; [discriminate|]. unfold y_end in E.
    destruct (aget c (s_ctls s)) as [ct|] eqn:Ec; [|reflexivity]. exfalso.
    destruct (close_all (s_rc s) (s_names s) (c_proxies ct)) as [[r' names']|] eqn:ECA; [discriminate|].
    eapply close_all_progress; [exact HO| | |exact ECA].
    + apply ids_nodup; [apply (yi_nodup _ _ HY _ _ Ec)|].
      intros n n' id k k' A B. destruct (l_uniq _ HL _ _ _ _ _ _ _ _ _ Ec A Ec B). assumption.
    + intros n id k X. apply in_sget_nodup in X; [|apply (yi_nodup _ _ HY _ _ Ec)]. eapply (l_ref _ HL); eauto.
  - intros [o [Ho Hk]]. rewrite Ho, Hk in H.
    destruct (px_close (s_rc s) id) as [r'|] eqn:EC; [discriminate|].
    eapply px_close_progress; [exact HO|exact Ho| |exact EC]. intros X. contradiction.
  - cbn [x_step] in H. destruct ((1 <=? port) && rc_probe (s_rc s) proto port); [discriminate|reflexivity].
  - cbn [x_step] in H. discriminate.
Qed.

Theorem progress : forall maxp ranges ops s o,
  y_run maxp ops (srv_new ranges) = Some s -> y_step maxp s o = None -> refusal_reason s o.
Proof.
  intros maxp ranges ops s o H. apply progress_full. eapply full_run; [apply full_new|exact H].
Qed.

(* reachable states satisfy the ownership invariant; the reported address of every successful
   registration, later group members included, is bound *)
Theorem reachable_oinv : forall maxp ranges ops s, y_run maxp ops (srv_new ranges) = Some s -> OInv (s_rc s).
Proof. intros maxp ranges ops s H. apply (full_run _ _ _ _ (full_new maxp ranges) H). Qed.

Theorem registered_addr_is_bound : forall maxp ranges ops s c q s' id real,
  y_run maxp ops (srv_new ranges) = Some s ->
  y_register maxp s c q = Some (s', YOk id real) ->
  match xq_kind q with
  | KTcp => In (0, real) (rc_bound (s_rc s'))
  | KUdp => In (1, real) (rc_bound (s_rc s'))
  | KOther => True
  end.
Proof.
  intros maxp ranges ops s c q s' id real HR H. pose proof (reachable_oinv _ _ _ _ HR) as HO.
  unfold y_register in H. destruct (aget c (s_ctls s)) as [ct|]; [|discriminate].
  destruct ((0 <? maxp) && (maxp <? c_used ct + pweight (xq_kind q))); [discriminate|].
  destruct (sget (xq_name q) (s_names s)); [discriminate|].
  destruct (px_run (s_rc s) q) as [[r' [id' real'|e]]|] eqn:ER; try discriminate.
  inversion H; subst. cbn [s_rc]. eapply reported_addr_is_bound_addr_full; eauto.
Qed.

(* live plain proxies and live groups hold pairwise distinct, bound ports *)
Theorem owners_hold_distinct_bound_ports : forall maxp ranges ops s,
  y_run maxp ops (srv_new ranges) = Some s ->
  (forall k p, claim (s_rc s) k p -> In (0, p) (rc_bound (s_rc s))) /\
  (forall k k' p, claim (s_rc s) k p -> claim (s_rc s) k' p -> k = k').
Proof.
  intros maxp ranges ops s H. pose proof (reachable_oinv _ _ _ _ H) as [F B E M]. split; assumption.
Qed.
