(* C14 correspondence: observations of the real pkg/util/wait (fastBackoffImpl, BackoffUntil), of the
   config defaulting, and of whole frps/frpc processes (liveness driver) against the models. *)
From FRP Require Export Corr.Common Model.Backoff Model.Heartbeat Model.Relogin Model.CliDispatch Model.SrvTeardown gen.GenBackoffOpts Proofs.GenCliDispatch.
Open Scope Z_scope.

Definition mkopts (d fn fd jn jd mx init fc fdel fjn fjd fw : Z) : fb_opts :=
  {| fo_duration := d; fo_factor := (fn, fd); fo_jitter := (jn, jd); fo_max := mx; fo_init_fail := init;
     fo_fast_count := fc; fo_fast_delay := fdel; fo_fast_jitter := (fjn, fjd); fo_fast_window := fw |}.

(* one direct call of Backoff: clock reading used inside the call (read back from lastCalledTime,
   plus the accumulated clock advance), arguments, returned delay, state after the call *)
Record obs_call := { oc_now : Z; oc_prev : Z; oc_err : bool; oc_delay : Z;
                     oc_cec : Z; oc_counts : Z; oc_cutoff : option Z }.
Definition OC := Build_obs_call.
Definition SR (at_ name dur : Z) : sreg := {| sr_at := at_; sr_name := name; sr_dur := dur |}.

(* one Backoff call as seen by a recording wrapper inside the real BackoffUntil *)
Record obs_iter := { oi_out : bu_outcome; oi_now : Z; oi_prev : Z; oi_err : bool; oi_delay : Z }.
Definition OI := Build_obs_iter.

Inductive case :=
| CBackoff (o : fb_opts) (calls : list obs_call)
| CUntil (sliding : bool) (o : fb_opts) (now0 first_delay : Z) (its : list obs_iter) (finished : bool)
| CDefaults (tcpmux : bool) (i t srv_t cli_i cli_t : Z)
(* liveness observations, all in ms since the session was accepted / created:
   server side: timeout T (s), valid ping instants, number of invalid pings, observed close instant (-1: still open at [until]) *)
| CSrvWatch (T : Z) (pings : list Z) (invalid : list Z) (closed_at until slack : Z)
| CCliWatch (I T : Z) (pongs : list Z) (pong_err_at closed_at until slack : Z)
(* [exit_first] = the client's LoginFailExit; [alive] = the real frpc is still running at the end *)
| CRelogin (exit_first : bool) (cfg : list (Z * Z)) (evs : list rl_ev) (sessions : list (list (Z * Z))) (alive : bool)
(* what arrived on the client's control connection (instant, message, how long its handler's body took: for
   ReqWorkConn the observed duration of the hanging dial), and when the client closed the session *)
| CCliStarve (iv T : Z) (arrivals : list carrival) (closed_at until slack : Z)
(* the session's remote port could be bound again [released_after] ms after the close (-1: not within the probe window) *)
| CRelease (closed_at released_after bound : Z)
(* a session died (connection closed at [cut]) while the registrations [regs] were in flight; observed: every
   remote port could be bound again after the teardown, and a real frpc then registered the same names/ports *)
| CTeardown (regs : list sreg) (cut : Z) (all_released reregistered : bool)
(* N clients with different identities, each pinging validly every [every] ms for [window] ms: sessions each used *)
| CNoFlap (T every window : Z) (sessions_per_client : list Z) (pong_errors : Z)
(* gaps (ms) between consecutive failed login attempts of one loopLoginUntilSuccess(max_interval) *)
| CLoginGaps (max_interval : Z) (gaps : list Z) (slack : Z).

Definition opt_eqb (a b : option Z) : bool :=
  match a, b with None, None => true | Some x, Some y => x =? y | _, _ => false end.

Definition jmax : Z := fb_JS - 1.

(* the real delay must be one the model produces for some value of the random source: the model is
   monotone in j, so the interval [j = 0, j = 2^53-1] is compared (1 ns of float rounding allowed) *)
Fixpoint check_calls (o : fb_opts) (s : fb_state) (cs : list obs_call) : Z :=
  match cs with
  | [] => 0
  | c :: r =>
      let '(s', lo, _) := fb_backoff_k o s (oc_now c) (oc_prev c) (oc_err c) 0 in
      let '(_, hi, _) := fb_backoff_k o s (oc_now c) (oc_prev c) (oc_err c) jmax in
      if negb ((lo <=? oc_delay c) && (oc_delay c <=? hi + 1)) then 1
      else if negb (fs_cec s' =? oc_cec c) then 2
      else if negb (fs_counts s' =? oc_counts c) then 3
      else if negb (opt_eqb (fs_cutoff s') (oc_cutoff c)) then 4
      else check_calls o s' r
  end.

Definition outcome_eqb (a b : bu_outcome) : bool :=
  match a, b with BDone, BDone | BErr, BErr | BOk, BOk => true | _, _ => false end.

(* BackoffUntil: which (previousDuration, previousConditionError) the loop hands to Backoff in each
   iteration, and the delays; the observed delay is fed back as the model's oracle *)
Fixpoint check_until (sliding : bool) (o : fb_opts) (st : bu_state) (its : list obs_iter) (finished : bool) : Z :=
  match its with
  | [] => if finished && negb sliding then 25 else 0   (* sliding: the done iteration makes no Backoff call *)
  | it :: r =>
      let a0 := {| ba_out := oi_out it; ba_now := oi_now it; ba_j := 0 |} in
      let a1 := {| ba_out := oi_out it; ba_now := oi_now it; ba_j := jmax |} in
      (* what the model passes to Backoff in this iteration *)
      let perr_passed := if sliding then bu_perr (oi_out it) else bs_perr st in
      match oi_out it, sliding with
      | BDone, true => (* f reported done before Backoff is called: no call is recorded for it *) 26
      | _, _ =>
        if negb (bs_delay st =? oi_prev it) then 21
        else if negb (Bool.eqb perr_passed (oi_err it)) then 22
        else
          let '(sfb, lo) := fb_backoff o (bs_fb st) (oi_now it) (bs_delay st) perr_passed 0 in
          let '(_, hi) := fb_backoff o (bs_fb st) (oi_now it) (bs_delay st) perr_passed jmax in
          if negb ((lo <=? oi_delay it) && (oi_delay it <=? hi + 1)) then 23
          else
            match bu_iter sliding o st a0 with
            | None => (* non-sliding, done: the loop ends after this Backoff call *)
                match r with [] => if finished then 0 else 27 | _ => 28 end
            | Some (st', _) =>
                check_until sliding o {| bs_fb := bs_fb st'; bs_delay := oi_delay it; bs_perr := bs_perr st' |} r finished
            end
      end
  end.

(* ---- liveness observations ---- *)
(* merge pings (valid at given instants, invalid at given instants) and ticks start, start+1000, ... <= until
   into one time-ordered history; ties: the message first (the result does not depend on it
   beyond the slack) *)
Fixpoint ticks_upto (fuel : nat) (t until : Z) : list Z :=
  match fuel with
  | O => []
  | S f => if t <=? until then t :: ticks_upto f (t + hb_period) until else []
  end.

Fixpoint insert_ev (t : Z) (e : hb_ev) (l : list (Z * hb_ev)) : list (Z * hb_ev) :=
  match l with
  | [] => [(t, e)]
  | (t', e') :: r => if t <? t' then (t, e) :: l else (t', e') :: insert_ev t e r
  end.

Definition srv_history (phase : Z) (pings invalid : list Z) (until : Z) : list hb_ev :=
  let ticks := map (fun t => (t, HTick t)) (ticks_upto 400 phase until) in
  let l1 := fold_left (fun l t => insert_ev t (HValidPing t) l) pings ticks in
  let l2 := fold_left (fun l t => insert_ev t HInvalidPing l) invalid l1 in
  map snd l2.

(* The tick phase is not observable (the watchdog goroutine starts a little after the session is
   created and drifts by the run time of each callback): the model's close instant is computed
   for the earliest phase (0) and the observation must lie within [that, that + period + slack];
   a session the model keeps open for every phase must be observed open. *)
Definition srv_predict (T : Z) (pings invalid : list Z) (until : Z) : option Z :=
  hb_srv_close_time T (hb_srv_init 0) (srv_history 0 pings invalid until).

Fixpoint last_or (d : Z) (l : list Z) : Z := match l with [] => d | x :: r => last_or x r end.

Definition check_srv_watch (T : Z) (pings invalid : list Z) (closed_at until slack : Z) : Z :=
  let lastp := last_or 0 pings in
  (* earliest possible close: strictly after lastp + T s; latest: one period (+ slack) later *)
  if closed_at <? 0 then
    (* observed open until [until]: the model must not demand a close before until - slack *)
    if (T >? 0) && (lastp + T * hb_sec + hb_period + slack <? until) then 31 else 0
  else
    if T <=? 0 then 32
    else if closed_at <=? lastp + T * hb_sec - slack then 33      (* closed too early: a live peer torn down *)
    else if lastp + T * hb_sec + hb_period + slack <? closed_at then 34   (* closed too late *)
    else
      (* and the executable model agrees for some phase: phase 0 gives the earliest close *)
      match srv_predict T pings invalid (closed_at + 2 * hb_period + slack) with
      | Some m => if (m - slack <=? closed_at + hb_period) && (closed_at <=? m + hb_period + slack) then 0 else 35
      | None => 36
      end.

Definition cli_history (pongs : list Z) (pong_err_at until : Z) : list hc_ev :=
  let ticks := map (fun t => (t, CTick t)) (ticks_upto 400 0 until) in
  let ins := fix ins (t : Z) (e : hc_ev) (l : list (Z * hc_ev)) : list (Z * hc_ev) :=
    match l with
    | [] => [(t, e)]
    | (t', e') :: r => if t <? t' then (t, e) :: l else (t', e') :: ins t e r
    end in
  let l1 := fold_left (fun l t => ins t (CPong t) l) pongs ticks in
  let l2 := if pong_err_at <? 0 then l1 else ins pong_err_at CPongErr l1 in
  map snd l2.

Definition check_cli_watch (I T : Z) (pongs : list Z) (pong_err_at closed_at until slack : Z) : Z :=
  let lastp := last_or 0 pongs in
  if 0 <=? pong_err_at then
    (* a Pong carrying an error closes the session at once *)
    if closed_at <? 0 then 41
    else if (pong_err_at - slack <=? closed_at) && (closed_at <=? pong_err_at + slack) then
      (if hc_closed (hb_cli_run I T (hb_cli_init 0) (cli_history pongs pong_err_at (pong_err_at + 1))) then 0 else 42)
    else 43
  else if closed_at <? 0 then
    if (I >? 0) && (T >? 0) && (lastp + T * hb_sec + hb_period + slack <? until) then 44 else 0
  else
    if negb ((I >? 0) && (T >? 0)) then 45
    else if closed_at <=? lastp + T * hb_sec - slack then 46
    else if lastp + T * hb_sec + hb_period + slack <? closed_at then 47
    else match hb_cli_close_time I T (hb_cli_init 0) (cli_history pongs (-1) (closed_at + 2 * hb_period + slack)) with
         | Some m => if (m - slack <=? closed_at + hb_period) && (closed_at <=? m + hb_period + slack) then 0 else 48
         | None => 49
         end.

(* ---- relogin: the sets the real client registered in each session vs the model ---- *)
Fixpoint pairs_eqb (a b : list (Z * Z)) : bool :=
  match a, b with
  | [], [] => true
  | (x, y) :: a', (x', y') :: b' => (x =? x') && (y =? y') && pairs_eqb a' b'
  | _, _ => false
  end.

Fixpoint sessions_eqb (a b : list (list (Z * Z))) : bool :=
  match a, b with
  | [], [] => true
  | x :: a', y :: b' => pairs_eqb x y && sessions_eqb a' b'
  | _, _ => false
  end.

Definition check_relogin (ef : bool) (cfg : list (Z * Z)) (evs : list rl_ev) (sessions : list (list (Z * Z))) (alive : bool) : Z :=
  let st := rl_run (rl_init cfg ef gen_relogin_exit) evs in
  let model_alive := match rl_phase_of st with PStopped => false | _ => true end in
  if negb (sessions_eqb (map rl_sorted_set (rev (rl_history st))) sessions) then 51
  else if negb (Bool.eqb model_alive alive) then 52     (* the client gave up where the model keeps going, or vice versa *)
  else 0.

(* the k-th gap must be a delay the model allows (plus the duration of the attempt itself, <= slack):
   lower chain j = 0 fed with the smallest possible previous delay, upper chain j = max *)
Fixpoint check_gaps (o : fb_opts) (st_lo st_hi : bu_state) (gaps : list Z) (slack : Z) : Z :=
  match gaps with
  | [] => 0
  | g :: r =>
      match bu_iter true o st_lo {| ba_out := BErr; ba_now := 0; ba_j := 0 |},
            bu_iter true o st_hi {| ba_out := BErr; ba_now := 0; ba_j := jmax |} with
      | Some (lo', dlo), Some (hi', dhi) =>
          if g * fb_ns_ms <? dlo - slack * fb_ns_ms then 61          (* retried sooner than any allowed delay *)
          else if dhi + slack * fb_ns_ms <? g * fb_ns_ms then 62     (* later than any allowed delay *)
          else check_gaps o lo' hi' r slack
      | _, _ => 63
      end
  end.

Definition AR (at_ : Z) (m : cmsg) (block : Z) : carrival := {| ca_at := at_; ca_msg := m; ca_block := block |}.

Definition check_cli_starve (iv T : Z) (arrivals : list carrival) (closed_at until slack : Z) : Z :=
  match hb_cli_close_time iv T (hb_cli_init 0) (cd_history gen_cli_async arrivals (until + 2 * hb_period)) with
  | None => if closed_at <? 0 then 0 else 71      (* the client closed a session the model keeps open: a live server torn down *)
  | Some m =>
      if closed_at <? 0 then (if m + hb_period + slack <? until then 72 else 0)
      else if (m - hb_period - slack <=? closed_at) && (closed_at <=? m + hb_period + slack) then 0 else 73
  end.

Definition check_case (c : case) : Z :=
  match c with
  | CBackoff o calls => check_calls o fb_init calls
  | CUntil sliding o now0 first_delay its finished =>
      match bu_start o now0 0 with
      | None => 20
      | Some st =>
          if negb (first_delay =? fo_duration o) then 24 else check_until sliding o st its finished
      end
  | CDefaults tcpmux i t srv_t cli_i cli_t =>
      (* against the documented defaults (Model/Heartbeat.v), not the regenerated functions: those follow the
         source, and their agreement with the documented behaviour is what this case observes *)
      if negb (hb_server_default tcpmux t =? srv_t) then 11
      else if negb (fst (hb_client_default tcpmux i t) =? cli_i) then 12
      else if negb (snd (hb_client_default tcpmux i t) =? cli_t) then 13
      else if negb (gen_hb_server_default tcpmux t =? srv_t) then 14
      else if negb (fst (gen_hb_client_default tcpmux i t) =? cli_i) then 15
      else if negb (snd (gen_hb_client_default tcpmux i t) =? cli_t) then 16
      else 0
  | CSrvWatch T pings invalid closed_at until slack => check_srv_watch T pings invalid closed_at until slack
  | CCliWatch iv T pongs pe closed_at until slack => check_cli_watch iv T pongs pe closed_at until slack
  | CRelogin ef cfg evs sessions alive => check_relogin ef cfg evs sessions alive
  | CCliStarve iv T arrivals closed_at until slack => check_cli_starve iv T arrivals closed_at until slack
  | CRelease closed_at released_after bound =>
      if closed_at <? 0 then 80
      else if released_after <? 0 then 81        (* torn down on the wire but its resources never released *)
      else if bound <? released_after then 82 else 0
  | CTeardown regs cut all_released reregistered =>
      if negb all_released then 91                 (* a registration outlived its session: resources not released *)
      else if negb reregistered then 92            (* the returning client could not re-register *)
      else match st_leaked (st_run gen_srv_async_newproxy 0 cut regs) with [] => 0 | _ => 93 end
  | CNoFlap T every window sessions pong_errors =>
      (* valid heartbeats with gaps <= T: the model keeps every session (C14_live_peer_never_torn_down): one session each *)
      if T * hb_sec <? every then 0
      else if negb (forallb (fun n => n =? 1) sessions) then 95
      else if negb (pong_errors =? 0) then 96 else 0
  | CLoginGaps mx gaps slack =>
      match bu_start (gen_login_opts mx) 0 0 with
      | Some st => check_gaps (gen_login_opts mx) st st gaps slack
      | None => 60
      end
  end.

(* ---- counters: which model branches the cases reached ---- *)
Fixpoint kinds_of (o : fb_opts) (s : fb_state) (cs : list obs_call) : list fb_kind :=
  match cs with
  | [] => []
  | c :: r =>
      let '(s', _, k) := fb_backoff_k o s (oc_now c) (oc_prev c) (oc_err c) 0 in k :: kinds_of o s' r
  end.

Definition kind_code (k : fb_kind) : Z :=
  match k with FKFirst => 0 | FKFast => 1 | FKSlow => 2 | FKSlowReset => 3 | FKNoErr => 4 end.

Definition count_kind (code : Z) (cs : list case) : Z :=
  fold_left (fun acc c => match c with
                          | CBackoff o calls => acc + count_if (fun k => kind_code k =? code) (kinds_of o fb_init calls)
                          | _ => acc end) cs 0.

Definition count_clamped (cs : list case) : Z :=
  fold_left (fun acc c => match c with
                          | CBackoff o calls =>
                              acc + count_if (fun x => (fo_max o >? 0) && (oc_delay x =? fo_max o) && oc_err x) calls
                          | _ => acc end) cs 0.
