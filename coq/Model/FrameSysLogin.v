(* C17: the handler oracle of an AUTHENTICATED Login, as far as it can take the server down.
   server/control.go NewControl (reached from handleConnection -> RegisterControl after VerifyLogin):
       poolCount := clamp(loginMsg.PoolCount, serverCfg.Transport.MaxPoolCount)
       workConnCh: make(chan net.Conn, poolCount+10)          // panics iff the size is negative
   The clamp and the slack are TRANSLATED from the source on every run (gen/GenAlloc.v, unit T8a, owned
   by C16); Model/Alloc.v gives makechan's domain.  No proofs here. *)
From FRP Require Export Model.FrameSys Model.Alloc gen.GenAlloc.

Definition fs_login_oracle (pool_count max_pool_count : Z) (rid : bytes) : fs_handler :=
  if al_makechan_ok (gen_chan_cap pool_count max_pool_count) then HAccept rid else HCrash.
