(* C12 — sessions own their proxies; names are unique; re-login replaces cleanly.
   Statements only; proofs are in Proofs/CtlMgrProofs.v.  The model (Model/CtlMgr.v) runs the
   atomic steps of RegisterControl / worker / RegisterProxy / CloseProxy under an arbitrary
   action list [acts] (every history and every interleaving, any number of sessions).
   [reg_view x] = the (name, proxy) pairs session x has put into the global name table and not yet
   taken out (ctl.proxies, plus the entry of a handler or teardown step in flight);
   [earlier z x] = z was stored under the run id of x before x was (ghost Add order). *)
From FRP Require Import Model.CtlMgr Proofs.CtlMgrProofs Proofs.C12SyncCheck gen.GenC12Sync Model.ClientLogin Proofs.ClientLoginProofs.
From Coq Require Import List NArith ZArith.
Import ListNotations.
Import CM.
Open Scope N_scope.

(* at most one holder per proxy name, in every reachable state *)
Theorem C12_name_unique : forall cfg acts s t x y n p q,
  let st := run acts (init_with cfg) in
  alookup s (sessions st) = Some x -> alookup t (sessions st) = Some y ->
  alookup n (reg_view x) = Some p -> alookup n (reg_view y) = Some q ->
  s = t /\ p = q.
Proof. exact name_unique. Qed.
Print Assumptions C12_name_unique.

(* every entry of the name table is held by exactly the session that owns the proxy *)
Theorem C12_table_entry_has_one_holder : forall cfg acts n p,
  let st := run acts (init_with cfg) in
  alookup n (pxys st) = Some p ->
  exists pr x, alookup p (proxies st) = Some pr /\ p_name pr = n /\
    alookup (p_owner pr) (sessions st) = Some x /\ alookup n (reg_view x) = Some p.
Proof. exact table_entry_has_one_holder. Qed.
Print Assumptions C12_table_entry_has_one_holder.

(* a registration that finds the name present is answered "already exists" and changes nothing
   but the registering session's own program counter: name table, proxies, other sessions intact *)
Theorem C12_second_registration_refused_step : forall st t y n att np ro p pick,
  alookup t (sessions st) = Some y -> s_spc y = SExist n att np ro -> alookup n (pxys st) = Some p ->
  exists st', step st (AStep (TSess t) pick) = Some (st', [ONewProxyResp t n att 2 (negb (s_closed y))]) /\
    pxys st' = pxys st /\ proxies st' = proxies st /\
    forall u, u <> t -> alookup u (sessions st') = alookup u (sessions st).
Proof. exact second_registration_refused. Qed.
Print Assumptions C12_second_registration_refused_step.

(* two sessions racing for one name: the one whose pxyManager.Add finds the name present answers
   "already in use", closes only its own new proxy and leaves table and incumbent untouched *)
Theorem C12_add_race_loser_rolls_back : forall st t y n q p pick,
  alookup t (sessions st) = Some y -> s_spc y = SAddP n q -> alookup n (pxys st) = Some p ->
  exists st1, step st (AStep (TSess t) pick) = Some (st1, []) /\ pxys st1 = pxys st /\ proxies st1 = proxies st /\
    (forall u, u <> t -> alookup u (sessions st1) = alookup u (sessions st)) /\
    exists y1, alookup t (sessions st1) = Some y1 /\ s_spc y1 = SRollback n q /\
    forall pick', exists st2 att, step st1 (AStep (TSess t) pick') = Some (st2, [ONewProxyResp t n att 4 (negb (s_closed y))]) /\
      pxys st2 = pxys st /\
      (forall pr, alookup q (proxies st) = Some pr -> alookup q (proxies st2) = Some (p_close pr)) /\
      (forall r, r <> q -> alookup r (proxies st2) = alookup r (proxies st)).
Proof. exact add_race_loser_rolls_back. Qed.
Print Assumptions C12_add_race_loser_rolls_back.

(* CloseProxy looks only in the sender's own table: a name it does not own is a no-op *)
Theorem C12_close_of_unowned_name_is_noop : forall st s x n,
  alookup s (sessions st) = Some x -> s_spc x = SIdle -> s_closed x = false ->
  alookup n (s_proxies x) = None ->
  step st (AReq s (RClose n)) = Some (st, []).
Proof. exact close_of_foreign_name_is_noop. Qed.
Print Assumptions C12_close_of_unowned_name_is_noop.

(* when the LoginResp of session n has been emitted, every session stored earlier under its run id
   is done, has an empty view and owns no entry of the name table — chains of simultaneous
   re-logins included (the induction on the replacement chain is invariant B_wait/B_post) *)
Theorem C12_ack_after_full_teardown : forall cfg acts n x t z,
  let st := run acts (init_with cfg) in
  alookup n (sessions st) = Some x -> started x ->
  alookup t (sessions st) = Some z -> earlier z x ->
  s_done z = true /\ footprint_empty st t z.
Proof. exact ack_after_full_teardown. Qed.
Print Assumptions C12_ack_after_full_teardown.

(* after the ack no name is held by an old session of the same run id *)
Theorem C12_own_old_registrations_never_block : forall cfg acts n x name p pr t z,
  let st := run acts (init_with cfg) in
  alookup n (sessions st) = Some x -> started x ->
  alookup name (pxys st) = Some p -> alookup p (proxies st) = Some pr ->
  alookup t (sessions st) = Some z -> earlier z x -> p_owner pr <> t.
Proof. exact own_old_registrations_never_block. Qed.
Print Assumptions C12_own_old_registrations_never_block.

(* a stored session that is not done stays reachable through its run id: the entry is only ever
   replaced by a newer session, never removed by the late Del of an older one *)
Theorem C12_late_del_never_removes_new : forall cfg acts s x,
  let st := run acts (init_with cfg) in
  alookup s (sessions st) = Some x -> added x -> s_done x = false ->
  exists m y, getbyid st (s_rid x) = Some m /\ alookup m (sessions st) = Some y /\
              s_rid y = s_rid x /\ s_seq x <= s_seq y.
Proof. exact late_del_never_removes_new. Qed.
Print Assumptions C12_late_del_never_removes_new.

(* GetByID resolves to the newest session stored under the run id *)
Theorem C12_runid_designates_newest : forall cfg acts r m,
  let st := run acts (init_with cfg) in
  getbyid st r = Some m ->
  exists y, alookup m (sessions st) = Some y /\ added y /\ s_rid y = r /\
    forall t z, alookup t (sessions st) = Some z -> added z -> s_rid z = r -> s_seq z <= s_seq y.
Proof. exact runid_designates_newest. Qed.
Print Assumptions C12_runid_designates_newest.

(* never two acknowledged, unfinished sessions under one run id *)
Theorem C12_one_active_session_per_runid : forall cfg acts s x t y,
  let st := run acts (init_with cfg) in
  alookup s (sessions st) = Some x -> alookup t (sessions st) = Some y ->
  started x -> started y -> s_rid x = s_rid y -> s_done x = false -> s_done y = false -> s = t.
Proof. exact one_active_session_per_runid. Qed.
Print Assumptions C12_one_active_session_per_runid.

(* fresh run id: util.RandID is an ORACLE (argument of ALogin).  Assumed: its value is not in the
   session table; then the Add of the fresh login replaces nobody.  That run ids are 16 hex
   characters and pairwise distinct is a TEST of the harness (driver runids), not a theorem. *)
Theorem C12_fresh_runid_replaces_nobody : forall st n x pick,
  alookup n (sessions st) = Some x -> s_lpc x = LAdd -> alookup (s_rid x) (ctls st) = None ->
  exists st', step st (AStep (TLogin n) pick) = Some (st', []) /\
    pxys st' = pxys st /\ proxies st' = proxies st /\
    (forall u, u <> n -> alookup u (sessions st') = alookup u (sessions st)) /\
    (forall r, r <> s_rid x -> alookup r (ctls st') = alookup r (ctls st)).
Proof. exact fresh_runid_replaces_nobody. Qed.
Print Assumptions C12_fresh_runid_replaces_nobody.

(* ---- reachable-state, all-schedules forms (round 2) ---- *)

(* a running proxy is in its owner's view or in flight in its owner's handler (never orphaned) *)
Theorem C12_running_proxy_is_held : forall cfg acts p pr,
  let st := run acts (init_with cfg) in
  alookup p (proxies st) = Some pr -> p_status pr = PRunning ->
  exists x, alookup (p_owner pr) (sessions st) = Some x /\ hold x (p_name pr) p.
Proof. exact running_proxy_is_held. Qed.
Print Assumptions C12_running_proxy_is_held.

(* non-interference, full strength: whatever the other sessions, the login goroutines and the late
   Del goroutines do, in any number and any interleaving, an entry of my view stays in my view,
   stays in the name table and its proxy object is untouched (status included) *)
Theorem C12_foreign_actions_keep_my_entries : forall cfg acts2 acts s x n p,
  let st := run acts (init_with cfg) in
  Forall (fun a => actor a <> Some s) acts2 ->
  alookup s (sessions st) = Some x -> alookup n (reg_view x) = Some p ->
  let st2 := run acts2 st in
  exists x2, alookup s (sessions st2) = Some x2 /\ alookup n (reg_view x2) = Some p /\
    alookup n (pxys st2) = Some p /\ alookup p (proxies st2) = alookup p (proxies st).
Proof. exact foreign_actions_keep_my_entries. Qed.
Print Assumptions C12_foreign_actions_keep_my_entries.

(* a close request affects only proxies of the session that sent it (any name, any reachable state) *)
Theorem C12_close_only_own : forall cfg acts t cn s x n p,
  let st := run acts (init_with cfg) in
  t <> s -> alookup s (sessions st) = Some x -> alookup n (reg_view x) = Some p ->
  let st' := run [AReq t (RClose cn); AStep (TSess t) 0] st in
  exists x', alookup s (sessions st') = Some x' /\ alookup n (reg_view x') = Some p /\
    alookup n (pxys st') = Some p /\ alookup p (proxies st') = alookup p (proxies st).
Proof. exact close_request_keeps_foreign_entries. Qed.
Print Assumptions C12_close_only_own.

(* a second registration of a held name is refused in every reachable state, at the Exist check ... *)
Theorem C12_second_registration_refused_incumbent_intact : forall cfg acts s x n p t y att np ro pick,
  let st := run acts (init_with cfg) in
  alookup s (sessions st) = Some x -> alookup n (reg_view x) = Some p ->
  alookup t (sessions st) = Some y -> s_spc y = SExist n att np ro ->
  exists st', step st (AStep (TSess t) pick) = Some (st', [ONewProxyResp t n att 2 (negb (s_closed y))]) /\
    pxys st' = pxys st /\ proxies st' = proxies st.
Proof. exact held_name_registration_refused. Qed.
Print Assumptions C12_second_registration_refused_incumbent_intact.

(* ... or, if it passed Exist before the incumbent registered, at pxyManager.Add *)
Theorem C12_held_name_add_refused : forall cfg acts s x n p t y q pick,
  let st := run acts (init_with cfg) in
  alookup s (sessions st) = Some x -> alookup n (reg_view x) = Some p ->
  alookup t (sessions st) = Some y -> s_spc y = SAddP n q ->
  exists st1, step st (AStep (TSess t) pick) = Some (st1, []) /\ pxys st1 = pxys st /\ proxies st1 = proxies st /\
    exists y1, alookup t (sessions st1) = Some y1 /\ s_spc y1 = SRollback n q.
Proof. exact held_name_add_refused. Qed.
Print Assumptions C12_held_name_add_refused.

(* ---- round 4: what a session holds is running; visitor listeners; the client half ---- *)

Theorem C12_held_proxy_is_running : forall cfg acts s x n p,
  let st := run acts (init_with cfg) in
  alookup s (sessions st) = Some x -> hold x n p ->
  exists pr, alookup p (proxies st) = Some pr /\ p_status pr = PRunning /\ p_owner pr = s /\ p_name pr = n.
Proof. exact held_proxy_is_running. Qed.
Print Assumptions C12_held_proxy_is_running.

(* the visitor listener table (stcp / sudp; keyed and deleted BY NAME in the code) is exactly the set of
   running visitor-type proxies: a name never stands for a missing or a foreign listener *)
Theorem C12_visitor_listener_iff_running : forall cfg acts,
  let st := run acts (init_with cfg) in
  (forall n p, alookup n (vlis st) = Some p ->
     exists pr, alookup p (proxies st) = Some pr /\ p_vis pr = true /\ p_name pr = n /\ p_status pr = PRunning) /\
  (forall p pr, alookup p (proxies st) = Some pr -> p_vis pr = true -> p_status pr = PRunning ->
     alookup (p_name pr) (vlis st) = Some p).
Proof. exact visitor_listener_iff_running. Qed.
Print Assumptions C12_visitor_listener_iff_running.

(* "the incumbent keeps working": whatever the others do — duplicate registrations refused at Exist, at Run
   (listener exists) or at pxyManager.Add with their roll-backs, closes, teardowns — my running
   visitor-type proxy keeps its listener *)
Theorem C12_incumbent_keeps_its_listener : forall cfg acts2 acts s x n p pr,
  let st := run acts (init_with cfg) in
  Forall (fun a => actor a <> Some s) acts2 ->
  alookup s (sessions st) = Some x -> alookup n (reg_view x) = Some p ->
  alookup p (proxies st) = Some pr -> p_vis pr = true -> p_status pr = PRunning ->
  alookup n (vlis (run acts2 st)) = Some p.
Proof. exact incumbent_keeps_its_listener. Qed.
Print Assumptions C12_incumbent_keeps_its_listener.

Theorem C12_failed_run_changes_nothing : forall st t y n att np ro pick st' o,
  alookup t (sessions st) = Some y -> s_spc y = SRun n att np ro ->
  step st (AStep (TSess t) pick) = Some (st', o) ->
  (exists e, o = [ONewProxyResp t n att e (negb (s_closed y))]) ->
  pxys st' = pxys st /\ proxies st' = proxies st /\ vlis st' = vlis st /\
  forall u, u <> t -> alookup u (sessions st') = alookup u (sessions st).
Proof. exact failed_run_changes_nothing. Qed.
Print Assumptions C12_failed_run_changes_nothing.

(* the client half (Model/ClientLogin.v): every login attempt presents the run id given by the last
   accepted login before it, whatever refusals, i/o errors and connection losses lie in between *)
Theorem C12_client_presents_given_runid : forall l,
  snd (CL.c_run CL.c_init l) = CL.should_present None l /\
  CL.c_runid (fst (CL.c_run CL.c_init l)) = CL.last_given None l.
Proof. exact client_presents_given_runid. Qed.
Print Assumptions C12_client_presents_given_runid.

Theorem C12_refused_login_keeps_runid : forall pre r sent post,
  snd (CL.c_run CL.c_init (pre ++ [CL.ELogin (CL.OAccepted (Some r)); CL.EConnLost; CL.ELogin (CL.ORefused sent); CL.ELogin post])) =
  snd (CL.c_run CL.c_init pre) ++ [CL.last_given None pre; Some r; Some r].
Proof. exact refusal_keeps_runid. Qed.
Print Assumptions C12_refused_login_keeps_runid.

(* ---- the model's structural assumptions hold in today's source (reflective, tables regenerated
   from server/control.go and server/proxy/proxy.go by translator/cmd/c12sync on every run):
   NewProxy / CloseProxy / Ping handlers run synchronously in the read loop (so a session's requests
   and its teardown are one sequential thread, as in the model); proxy.Manager.Add tests and inserts
   inside ONE critical section of the write lock; ControlManager.Add looks up, calls Replaced and
   stores inside one; ControlManager.Del is the identity-guarded delete under the lock; the client's login()
   presents svr.runID and remembers the answer's run id only after the error check; a proxy's own name is
   the wire name verbatim; Run of an stcp/sudp proxy is VisitorManager.Listen and nothing else ---- *)
Theorem C12_source_matches_model_atomicity :
  c12_source_ok c12_handlers c12_crit c12_client_login c12_name_assign c12_vis_run c12_randid = true.
Proof. vm_compute. reflexivity. Qed.
Print Assumptions C12_source_matches_model_atomicity.

(* round 6: Login plugins receive the content unaltered; doneCh is closed by the read loop only, after the
   in-flight handler returned; an http group membership is given back only by a proxy that joined *)
Theorem C12_source_matches_model_round6 :
  c12_source_ok6 c12_plugin_login c12_done_closers c12_readloop c12_http_group_order = true.
Proof. vm_compute. reflexivity. Qed.
Print Assumptions C12_source_matches_model_round6.

Theorem C12_sync_handlers_meaning : forall m, In m c12_sync_required ->
  In (m, false) c12_handlers /\ ~ In (m, true) c12_handlers.
Proof. apply handlers_ok_sound. vm_compute. reflexivity. Qed.
Print Assumptions C12_sync_handlers_meaning.

(* ---- the hypotheses are satisfiable: a chain of two simultaneous re-logins ---- *)
(* session 0 logs in fresh (run id 7), registers name 1; sessions 1 and 2 re-login with run id 7
   at once (both Adds before any teardown), the chain unwinds, session 2 re-registers name 1 *)
Definition ex_chain : list action :=
  [ALogin None 7; AStep (TLogin 0) 0; AStep (TLogin 0) 0;
   AReq 0 (RNew 1 0 (mkPT 1%Z false) true true); AStep (TSess 0) 0; AStep (TSess 0) 0; AStep (TSess 0) 0; AStep (TSess 0) 0;
   ALogin (Some 7) 0; ALogin (Some 7) 0; AStep (TLogin 1) 0; AStep (TLogin 2) 0;
   AStep (TSess 0) 0; AStep (TSess 0) 0; AStep (TSess 0) 1; AStep (TSess 0) 0; AStep (TSess 0) 0;
   AStep (TLogin 1) 0; AStep (TLogin 1) 0; AStep (TSess 1) 0; AStep (TSess 1) 0; AStep (TSess 1) 0;
   AStep (TLate 0) 0; AStep (TLate 0) 0;
   AStep (TLogin 2) 0; AStep (TLogin 2) 0;
   AReq 2 (RNew 1 1 (mkPT 1%Z false) true true); AStep (TSess 2) 0; AStep (TSess 2) 0; AStep (TSess 2) 0; AStep (TSess 2) 0].

Example ex_chain_state :
  let st := run ex_chain init in
  getbyid st 7 = Some 2 /\
  (exists x, alookup 2 (sessions st) = Some x /\ s_lpc x = LEnd /\ alookup 1 (s_proxies x) = Some 1) /\
  (exists z, alookup 0 (sessions st) = Some z /\ s_done z = true /\ s_seq z = 0) /\
  (exists z, alookup 1 (sessions st) = Some z /\ s_done z = true /\ s_seq z = 1 /\ s_runid z = None) /\
  alookup 1 (pxys st) = Some 1.
Proof. vm_compute. repeat split; eexists; repeat split. Qed.

(* the oracle assumption matters: a colliding "fresh" id replaces a foreign session *)
Example ex_collision :
  let st := run [ALogin None 7; AStep (TLogin 0) 0; AStep (TLogin 0) 0; ALogin None 7; AStep (TLogin 1) 0] init in
  exists x, alookup 0 (sessions st) = Some x /\ s_closed x = true /\ getbyid st 7 = Some 1.
Proof. vm_compute. eexists; repeat split. Qed.

(* the four-step cross-session history: S registers name 5 and closes it, T registers 5, S repeats
   the close and then disconnects — under a quota of 3 ports: T's entry and proxy are untouched *)
Example ex_former_owner :
  let st := run [ALogin None 7; AStep (TLogin 0) 0; AStep (TLogin 0) 0;
                 ALogin None 8; AStep (TLogin 1) 0; AStep (TLogin 1) 0;
                 AReq 0 (RNew 5 0 (mkPT 1%Z false) true true); AStep (TSess 0) 0; AStep (TSess 0) 0; AStep (TSess 0) 0; AStep (TSess 0) 0;
                 AReq 0 (RClose 5); AStep (TSess 0) 0;
                 AReq 1 (RNew 5 1 (mkPT 1%Z false) true true); AStep (TSess 1) 0; AStep (TSess 1) 0; AStep (TSess 1) 0; AStep (TSess 1) 0;
                 AReq 0 (RClose 5); AStep (TSess 0) 0;
                 AEof 0; AStep (TSess 0) 0; AStep (TSess 0) 0] (init_with 3%Z) in
  alookup 5 (pxys st) = Some 1 /\
  (exists pr, alookup 1 (proxies st) = Some pr /\ p_owner pr = 1 /\ p_status pr = PRunning) /\
  (exists pr, alookup 0 (proxies st) = Some pr /\ p_owner pr = 0 /\ p_status pr = PClosed) /\
  (exists z, alookup 0 (sessions st) = Some z /\ s_done z = true /\ s_ports z = 0%Z) /\
  (exists y, alookup 1 (sessions st) = Some y /\ alookup 5 (s_proxies y) = Some 1 /\ s_ports y = 1%Z).
Proof. vm_compute. repeat split; eexists; repeat split. Qed.

(* the stcp duplicate that passes Exist: T and S both pass the Exist check for name 5, S runs (its visitor
   listener exists), T's Run fails with class 3 and changes nothing, S registers: S holds name and listener *)
Example ex_visitor_duplicate :
  let st := run [ALogin None 7; AStep (TLogin 0) 0; AStep (TLogin 0) 0;
                 ALogin None 8; AStep (TLogin 1) 0; AStep (TLogin 1) 0;
                 AReq 1 (RNew 5 0 (mkPT 0%Z true) true true); AStep (TSess 1) 0;
                 AReq 0 (RNew 5 1 (mkPT 0%Z true) true true); AStep (TSess 0) 0;
                 AStep (TSess 0) 0;
                 AStep (TSess 1) 0;
                 AStep (TSess 0) 0; AStep (TSess 0) 0] (init_with 0%Z) in
  alookup 5 (vlis st) = Some 0 /\ alookup 5 (pxys st) = Some 0 /\
  (exists pr, alookup 0 (proxies st) = Some pr /\ p_owner pr = 0 /\ p_status pr = PRunning) /\
  alookup 1 (proxies st) = None /\
  (exists y, alookup 1 (sessions st) = Some y /\ s_spc y = SIdle /\ s_proxies y = []).
Proof. vm_compute. repeat split; eexists; repeat split. Qed.
