package main

// Third output of t11send (GenAcceptPaths.v):
//  (1) group listeners: in TCPGroupListener.Accept / TCPMuxGroupListener.Accept, the select clause that
//      receives a connection from the group's hand-off channel returns that connection on every path except
//      the "!ok" (channel closed) one — a connection taken out of the channel is always handed to the caller.
//  (2) every call site of libio.WithCompressionFromPool in server/, client/, pkg/: the pooled snappy objects
//      may be recycled only after the wrapped connection's last use.  Per site: does the enclosing function
//      have results (the wrapped value could be returned and outlive the call)?  is every call of the recycle
//      function deferred or placed after the Join that uses the connection?  is there such a Join after the wrap?

import (
	"bytes"
	"fmt"
	"go/ast"
	"go/parser"
	"go/token"
	"os"
	"path/filepath"
	"sort"
	"strings"

	"veriftranslator/tx"
)

func acceptReturnsReceived(path, recvType string) (found, ok bool) {
	fset := token.NewFileSet()
	f, err := parser.ParseFile(fset, path, nil, 0)
	if err != nil {
		return false, false
	}
	for _, d := range f.Decls {
		fd, isF := d.(*ast.FuncDecl)
		if !isF || fd.Name.Name != "Accept" || fd.Recv == nil || fd.Body == nil || len(fd.Recv.List) != 1 {
			continue
		}
		st, isStar := fd.Recv.List[0].Type.(*ast.StarExpr)
		if !isStar {
			continue
		}
		if id, isId := st.X.(*ast.Ident); !isId || id.Name != recvType {
			continue
		}
		found, ok = true, true
		clauses := 0
		ast.Inspect(fd.Body, func(n ast.Node) bool {
			cc, isC := n.(*ast.CommClause)
			if !isC || cc.Comm == nil {
				return true
			}
			as, isA := cc.Comm.(*ast.AssignStmt)
			if !isA || len(as.Lhs) != 2 || len(as.Rhs) != 1 {
				return true
			}
			if u, isU := as.Rhs[0].(*ast.UnaryExpr); !isU || u.Op != token.ARROW {
				return true
			}
			cName, okName := selPath(as.Lhs[0]), selPath(as.Lhs[1])
			clauses++
			// every return: first result is the received connection, or it sits under "if !ok"
			var walk func(n ast.Node, underNotOk bool)
			walk = func(n ast.Node, underNotOk bool) {
				switch v := n.(type) {
				case nil:
				case *ast.FuncLit:
				case *ast.ReturnStmt:
					if underNotOk {
						return
					}
					if len(v.Results) == 0 || selPath(v.Results[0]) != cName {
						ok = false
					}
				case *ast.IfStmt:
					isNotOk := false
					if u, isU := v.Cond.(*ast.UnaryExpr); isU && u.Op == token.NOT && selPath(u.X) == okName && v.Init == nil {
						isNotOk = true
					}
					for _, s := range v.Body.List {
						walk(s, underNotOk || isNotOk)
					}
					if v.Else != nil {
						walk(v.Else, underNotOk)
					}
				case *ast.BlockStmt:
					for _, s := range v.List {
						walk(s, underNotOk)
					}
				case *ast.SelectStmt:
					walk(v.Body, underNotOk)
				case *ast.SwitchStmt:
					walk(v.Body, underNotOk)
				case *ast.CaseClause:
					for _, s := range v.Body {
						walk(s, underNotOk)
					}
				case *ast.CommClause:
					for _, s := range v.Body {
						walk(s, underNotOk)
					}
				case *ast.ForStmt:
					walk(v.Body, underNotOk)
				case *ast.RangeStmt:
					walk(v.Body, underNotOk)
				case *ast.LabeledStmt:
					walk(v.Stmt, underNotOk)
				}
			}
			for _, s := range cc.Body {
				walk(s, false)
			}
			// falling off the end of the clause would return the named results: fine only if nothing reassigns; require an explicit return last
			if len(cc.Body) == 0 {
				ok = false
			} else if _, isR := cc.Body[len(cc.Body)-1].(*ast.ReturnStmt); !isR {
				ok = false
			}
			return false
		})
		if clauses != 1 {
			ok = false
		}
	}
	return
}

type csite struct {
	file, fn                   string
	hasResults, recycleOK, joins bool
}

func compressSites() ([]csite, bool) {
	var sites []csite
	unknown := false
	for _, root := range []string{"server", "client", "pkg", "cmd"} {
		_ = filepath.Walk(filepath.Join(tx.Repo, root), func(p string, info os.FileInfo, err error) error {
			if err != nil || info.IsDir() || !strings.HasSuffix(p, ".go") || strings.HasSuffix(p, "_test.go") {
				return nil
			}
			src, err := os.ReadFile(p)
			if err != nil || !bytes.Contains(src, []byte("WithCompressionFromPool")) {
				return nil
			}
			fset := token.NewFileSet()
			f, err := parser.ParseFile(fset, p, src, 0)
			if err != nil {
				unknown = true
				return nil
			}
			rel, _ := filepath.Rel(tx.Repo, p)
			for _, d := range f.Decls {
				fd, isF := d.(*ast.FuncDecl)
				if !isF || fd.Body == nil {
					continue
				}
				var wrapPos token.Pos
				recycle := ""
				inLit := false
				var lits []*ast.FuncLit
				ast.Inspect(fd.Body, func(n ast.Node) bool {
					if fl, isL := n.(*ast.FuncLit); isL {
						lits = append(lits, fl)
					}
					as, isA := n.(*ast.AssignStmt)
					if !isA || len(as.Rhs) != 1 {
						return true
					}
					call, isC := as.Rhs[0].(*ast.CallExpr)
					if !isC || !strings.HasSuffix(selPath(call.Fun), "WithCompressionFromPool") {
						return true
					}
					if wrapPos != 0 || len(as.Lhs) != 2 {
						unknown = true // two sites in one function, or an unexpected shape
					}
					wrapPos = as.Pos()
					if len(as.Lhs) == 2 {
						recycle = selPath(as.Lhs[1])
					}
					return true
				})
				if wrapPos == 0 {
					if bytes.Contains(src[fset.Position(fd.Pos()).Offset:fset.Position(fd.End()).Offset], []byte("WithCompressionFromPool")) {
						unknown = true
					}
					continue
				}
				for _, fl := range lits {
					if fl.Pos() < wrapPos && wrapPos < fl.End() {
						inLit = true
					}
				}
				if inLit {
					unknown = true
				}
				s := csite{file: rel, fn: fd.Name.Name}
				s.hasResults = fd.Type.Results != nil && len(fd.Type.Results.List) > 0
				var joinPos token.Pos
				ast.Inspect(fd.Body, func(n ast.Node) bool {
					if c, isC := n.(*ast.CallExpr); isC && c.Pos() > wrapPos {
						if sel, isS := c.Fun.(*ast.SelectorExpr); isS && sel.Sel.Name == "Join" && joinPos == 0 {
							joinPos = c.Pos()
						}
					}
					return true
				})
				s.joins = joinPos != 0
				calls, good := 0, 0
				deferred := map[*ast.CallExpr]bool{}
				ast.Inspect(fd.Body, func(n ast.Node) bool {
					if ds, isD := n.(*ast.DeferStmt); isD {
						deferred[ds.Call] = true
					}
					return true
				})
				ast.Inspect(fd.Body, func(n ast.Node) bool {
					c, isC := n.(*ast.CallExpr)
					if !isC || selPath(c.Fun) != recycle || recycle == "" {
						return true
					}
					calls++
					if deferred[c] && s.joins || (joinPos != 0 && c.Pos() > joinPos) {
						good++
					}
					return true
				})
				s.recycleOK = calls > 0 && calls == good
				sites = append(sites, s)
			}
			return nil
		})
	}
	sort.Slice(sites, func(i, j int) bool { return sites[i].file+sites[i].fn < sites[j].file+sites[j].fn })
	return sites, unknown
}

func runPaths() ([]byte, error) {
	var out bytes.Buffer
	fmt.Fprintf(&out, "(* generated by translator unit T11send (paths) from server/group/*.go and every WithCompressionFromPool call site; do not edit *)\n")
	fmt.Fprintf(&out, "From Coq Require Import String List Bool.\nImport ListNotations.\n\n")
	fmt.Fprintf(&out, "Definition T11paths_translated : bool := true.\n\n")
	fmt.Fprintf(&out, "(* (listener type, Accept found, the received connection is returned on every path but the !ok one) *)\n")
	fmt.Fprintf(&out, "Definition gen_group_accepts : list (string * bool * bool) := [\n")
	rows := [][2]string{{"server/group/tcp.go", "TCPGroupListener"}, {"server/group/tcpmux.go", "TCPMuxGroupListener"}}
	for i, r := range rows {
		found, ok := acceptReturnsReceived(filepath.Join(tx.Repo, r[0]), r[1])
		sep := ";"
		if i == len(rows)-1 {
			sep = ""
		}
		fmt.Fprintf(&out, "  (%q%%string, %v, %v)%s\n", r[1], found, found && ok, sep)
	}
	fmt.Fprintf(&out, "].\n\n")
	sites, unknown := compressSites()
	fmt.Fprintf(&out, "Definition gen_pool_compress_unknown : bool := %v.\n", unknown)
	fmt.Fprintf(&out, "(* (file, function, the function has results, every recycle call is deferred-with-Join or after the Join, a Join follows the wrap) *)\n")
	fmt.Fprintf(&out, "Definition gen_pool_compress_sites : list (string * string * bool * bool * bool) := [\n")
	for i, s := range sites {
		sep := ";"
		if i == len(sites)-1 {
			sep = ""
		}
		fmt.Fprintf(&out, "  (%q%%string, %q%%string, %v, %v, %v)%s\n", s.file, s.fn, s.hasResults, s.recycleOK, s.joins, sep)
	}
	fmt.Fprintf(&out, "].\n")
	return out.Bytes(), nil
}
