(* C18 — "strict mode rejects unknown fields at every nesting level", for every schedule of loads
   running in one process (frpc /api/reload with different strictConfig values, verify + run).

   pkg/config/load.go LoadConfigure takes v1.DisallowUnknownFieldsMu, writes the package-level switch
   v1.DisallowUnknownFields = strict and decodes.  The TOP level of the document obeys the local
   argument (decoder.DisallowUnknownFields / yaml.UnmarshalStrict); every NESTED level that has a
   custom UnmarshalJSON (proxies[i], visitors[i], their plugin tables and everything below) reads
   the package-level switch at the moment it is decoded.  A load is therefore a small program of
   atomic steps; the program itself (where the Unlock sits) is DERIVED from today's source
   (gen/GenLoadShape.v: load_events) by [sl_prog_of].  Model only: no proofs here. *)
From FRP Require Export Model.Bytes.
Open Scope Z_scope.

Inductive sl_instr := ILock | ISet | IDecode | IUnlock | IBad (what : string).

(* events of LoadConfigure in source order -> program.  A deferred Unlock runs at return, i.e. last;
   consecutive Decode events are the alternative branches (JSON / strict YAML / YAML), one of which runs *)
Fixpoint sl_prog_of (ev : list string) (deferred : bool) : list sl_instr :=
  match ev with
  | [] => if deferred then [IUnlock] else []
  | e :: r =>
      if String.eqb e "Lock" then ILock :: sl_prog_of r deferred
      else if String.eqb e "DeferUnlock" then sl_prog_of r true
      else if String.eqb e "Unlock" then IUnlock :: sl_prog_of r deferred
      else if String.eqb e "Set:strict" then ISet :: sl_prog_of r deferred
      else if String.eqb e "Decode" then
        match r with
        | e' :: _ => if String.eqb e' "Decode" then sl_prog_of r deferred else IDecode :: sl_prog_of r deferred
        | [] => IDecode :: sl_prog_of r deferred
        end
      else IBad e :: sl_prog_of r deferred
  end.

(* the discipline the theorem needs: the lock is held from before the write of the switch until
   after the decode *)
Definition sl_canonical : list sl_instr := [ILock; ISet; IDecode; IUnlock].

Definition sl_instr_eqb (a b : sl_instr) : bool :=
  match a, b with
  | ILock, ILock | ISet, ISet | IDecode, IDecode | IUnlock, IUnlock => true
  | _, _ => false
  end.
Fixpoint sl_prog_eqb (a b : list sl_instr) : bool :=
  match a, b with
  | [], [] => true
  | x :: a', y :: b' => sl_instr_eqb x y && sl_prog_eqb a' b'
  | _, _ => false
  end.

(* the only writer of the switch is LoadConfigure; every reader is an UnmarshalJSON method of package
   v1 (it only runs inside a decode); the mutex is used by LoadConfigure only *)
Definition sl_is_suffix (suf s : string) : bool :=
  let n := String.length s in let m := String.length suf in
  (m <=? n)%nat && String.eqb (String.substring (n - m) m s) suf.

Definition sl_uses_ok (switch_uses mutex_uses : list (string * string * string)) : bool :=
  forallb (fun u : string * string * string =>
             let '(file, fn, kind) := u in
             if String.eqb kind "write" then String.eqb file "pkg/config/load.go" && String.eqb fn "LoadConfigure"
             else String.eqb kind "read" && sl_is_suffix ".UnmarshalJSON" fn &&
                  String.eqb (String.substring 0 14 file) "pkg/config/v1/") switch_uses &&
  existsb (fun u : string * string * string => let '(_, _, kind) := u in String.eqb kind "write") switch_uses &&
  forallb (fun u : string * string * string =>
             let '(file, fn, _) := u in String.eqb file "pkg/config/load.go" && String.eqb fn "LoadConfigure") mutex_uses.

Definition sl_discipline_ok (events : list string) (switch_uses mutex_uses : list (string * string * string)) : bool :=
  sl_prog_eqb (sl_prog_of events false) sl_canonical && sl_uses_ok switch_uses mutex_uses.

(* ---- the schedule model ---- *)
Inductive sl_act := ALock | ASet | AUnlock | ATop | ANested (unknown : bool) | ABad.

(* a load: its strict argument, whether the document has an unknown key at the top level, and for
   each nested typed element (in document order) whether it has an unknown key *)
Record sl_load := mk_sl_load { sl_strict : bool; sl_top : bool; sl_nested : list bool }.

Definition sl_acts (prog : list sl_instr) (l : sl_load) : list sl_act :=
  flat_map (fun i => match i with
                     | ILock => [ALock] | ISet => [ASet] | IUnlock => [AUnlock]
                     | IDecode => ATop :: map ANested (sl_nested l)
                     | IBad _ => [ABad]
                     end) prog.

Record sl_thread := mk_sl_thread { sl_ld : sl_load; sl_todo : list sl_act; sl_rej : bool }.

Record sl_state := mk_sl_state {
  sl_mu : option nat;        (* holder of v1.DisallowUnknownFieldsMu *)
  sl_sw : bool;              (* v1.DisallowUnknownFields *)
  sl_ths : list sl_thread;
  sl_crashed : bool          (* sync: unlock of unlocked mutex *)
}.

Fixpoint sl_upd {A} (i : nat) (x : A) (l : list A) : list A :=
  match l, i with
  | [], _ => []
  | _ :: r, O => x :: r
  | y :: r, S k => y :: sl_upd k x r
  end.

(* one atomic step of goroutine [tid]; a goroutine waiting for the mutex, a finished one and an
   unknown tid leave the state unchanged *)
Definition sl_step (tid : nat) (s : sl_state) : sl_state :=
  match nth_error (sl_ths s) tid with
  | None => s
  | Some t =>
      match sl_todo t with
      | [] => s
      | a :: rest =>
          let l := sl_ld t in
          let adv r := sl_upd tid (mk_sl_thread l rest r) (sl_ths s) in
          match a with
          | ALock =>
              match sl_mu s with
              | None => mk_sl_state (Some tid) (sl_sw s) (adv (sl_rej t)) (sl_crashed s)
              | Some _ => s
              end
          | ASet => mk_sl_state (sl_mu s) (sl_strict l) (adv (sl_rej t)) (sl_crashed s)
          | AUnlock =>
              match sl_mu s with
              | None => mk_sl_state None (sl_sw s) (adv (sl_rej t)) true
              | Some _ => mk_sl_state None (sl_sw s) (adv (sl_rej t)) (sl_crashed s)
              end
          | ATop => mk_sl_state (sl_mu s) (sl_sw s) (adv (sl_rej t || (sl_strict l && sl_top l))) (sl_crashed s)
          | ANested u => mk_sl_state (sl_mu s) (sl_sw s) (adv (sl_rej t || (sl_sw s && u))) (sl_crashed s)
          | ABad => mk_sl_state (sl_mu s) (sl_sw s) (adv (sl_rej t)) (sl_crashed s)
          end
      end
  end.

Definition sl_init (prog : list sl_instr) (sw0 : bool) (loads : list sl_load) : sl_state :=
  mk_sl_state None sw0 (map (fun l => mk_sl_thread l (sl_acts prog l) false) loads) false.

Definition sl_run (sched : list nat) (s : sl_state) : sl_state :=
  fold_left (fun st tid => sl_step tid st) sched s.

Definition sl_has_unknown (l : sl_load) : bool := sl_top l || existsb (fun b => b) (sl_nested l).
(* what every load must answer: rejected iff strict and some level has an unknown key *)
Definition sl_verdict (l : sl_load) : bool := sl_strict l && sl_has_unknown l.
