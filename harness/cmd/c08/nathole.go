package main

// Part (ii) of driver "visitors": the real nathole.Controller admission decision.

import (
	"fmt"
	"reflect"
	"strings"
	"time"

	"github.com/fatedier/frp/pkg/msg"
	"github.com/fatedier/frp/pkg/nathole"
	"github.com/fatedier/frp/pkg/transport"
	"verifharness/hx"
)

type nhOwner struct {
	name string
	ch   chan string
}

// tryRecvSid does one non-blocking receive over all owners' sid channels.
func tryRecvSid(owners []nhOwner) (int, string, bool) {
	cases := make([]reflect.SelectCase, 0, len(owners)+1)
	for _, o := range owners {
		cases = append(cases, reflect.SelectCase{Dir: reflect.SelectRecv, Chan: reflect.ValueOf(o.ch)})
	}
	cases = append(cases, reflect.SelectCase{Dir: reflect.SelectDefault})
	i, v, ok := reflect.Select(cases)
	if i == len(owners) || !ok {
		return -1, "", false
	}
	return i, v.String(), true
}

// nhTimeout is the value given to nathole.NatHoleTimeout (whole seconds is all the variable allows): how long
// HandleVisitor waits for a receiver on the owner's channel, and then for the owner's NatHoleClient message.
const nhTimeout = 2

type nhPending struct {
	sid  string
	done chan struct{}
}

func nhCase(g *gen, dist map[string]int) (string, []map[string]string) {
	c, _ := nathole.NewController(time.Hour)
	var ops, obs []string
	var pend []nhPending
	// sessions whose HandleVisitor call has returned are reported as ended (in the order they were opened)
	reap := func(wait bool) {
		keep := pend[:0]
		for _, p := range pend {
			ended := false
			if wait {
				select {
				case <-p.done:
					ended = true
				case <-time.After((nhTimeout + 5) * time.Second):
				}
			} else {
				select {
				case <-p.done:
					ended = true
				default:
				}
			}
			if ended {
				ops = append(ops, fmt.Sprintf("NhSessionEnd %s", hx.HxS(p.sid)))
				obs = append(obs, obsZ(0))
			} else {
				keep = append(keep, p)
			}
		}
		pend = keep
	}
	undelivered := 0
	var owners []nhOwner // every channel ever handed out (closed proxies included: they must stay silent)
	live := map[string]string{}
	allows := map[string][]string{}
	ht := newHTable()
	for _, s := range skPool {
		ht.addSk(s)
	}
	var fails []map[string]string
	n := 5 + g.Intn(14)
	for i := 0; i < n; i++ {
		reap(false)
		r := g.Intn(100)
		if i < 2 {
			r = 0
		}
		switch {
		case r < 15:
			name, sk, allow := g.Pick(namePool), g.sk(), g.allow()
			ch, err := c.ListenClient(name, sk, allow)
			z := int64(0)
			if err != nil {
				z = 1
				if !strings.Contains(err.Error(), "repeated") {
					z = 99
				}
			} else {
				owners = append(owners, nhOwner{name, ch})
				live[name] = sk
				allows[name] = allow
			}
			ops = append(ops, fmt.Sprintf("NhListen %s %s %s", hx.HxS(name), hx.HxS(sk), coqStrs(allow)))
			obs = append(obs, obsZ(z))
			dist[fmt.Sprintf("nh-listen:%d", z)]++
		case r < 22:
			name := g.name()
			c.CloseClient(name)
			delete(live, name)
			ops = append(ops, fmt.Sprintf("NhClose %s", hx.HxS(name)))
			obs = append(obs, obsZ(0))
			dist["nh-close"]++
		default:
			name := g.liveName(live)
			ts := g.ts()
			ht.addTs(ts)
			realSk, isLive := live[name]
			if !isLive {
				realSk = g.sk()
			}
			sign, kind := g.sign(realSk, ts, 0.65)
			user := g.userFor(allows[name])
			pre := g.Chance(0.4)
			// once per history at most: the owner is not receiving (as after it went away)
			recv := true
			if !pre && undelivered == 0 && g.Chance(0.08) {
				recv = false
				undelivered++
				reap(true) // the earlier sessions end while this request waits: settle them first
			}
			sendCh := make(chan msg.Message, 8)
			tr := transport.NewMessageTransporter(sendCh, nil)
			m := &msg.NatHoleVisitor{TransactionID: "tx", ProxyName: name, PreCheck: pre, Protocol: "quic", SignKey: sign, Timestamp: ts}
			done := make(chan struct{})
			before := c.VerifC08SessionCount()
			go func() { c.HandleVisitor(m, tr, user); close(done) }()
			// wait until HandleVisitor returned, or it is parked on the owner's channel with its session inserted
			mid := int64(before)
			notifiedIdx, sid, notified := -1, "", false
			others := int64(0)
			deadline := time.Now().Add((nhTimeout + 5) * time.Second)
			returned := false
		wait:
			for time.Now().Before(deadline) {
				select {
				case <-done:
					returned = true
					break wait
				case <-time.After(100 * time.Microsecond):
				}
				if !recv {
					continue
				}
				if cnt := c.VerifC08SessionCount(); cnt > before {
					if i, s, ok := tryRecvSid(owners); ok {
						mid = int64(cnt)
						notifiedIdx, sid, notified = i, s, true
						pend = append(pend, nhPending{s, done})
						break wait
					}
				}
			}
			_ = returned
			// anything else delivered to any owner?
			for {
				i, s, ok := tryRecvSid(owners)
				if !ok {
					break
				}
				if !notified {
					notifiedIdx, sid, notified = i, s, true
				} else {
					others++
				}
			}
			fin := int64(c.VerifC08SessionCount())
			resp := int64(9)
			nresp := 0
		drain:
			for {
				select {
				case mm := <-sendCh:
					nresp++
					if r, ok := mm.(*msg.NatHoleResp); ok {
						resp = nhErrClass(r.Error)
						if r.Sid != "" || r.TransactionID != "tx" {
							resp = 98
						}
					} else {
						resp = 97
					}
				default:
					break drain
				}
			}
			if nresp > 1 {
				resp = 96
			}
			ownerName := ""
			if notified {
				ownerName = owners[notifiedIdx].name
				// the channel must be the one of the proxy currently registered under that name
				if _, isLive := live[ownerName]; !isLive {
					others++
				}
			}
			ops = append(ops, fmt.Sprintf("NhVisitor %s %s %s %s %s %s", hx.HxS(name), hx.Z(ts), hx.HxS(sign), hx.Bool(pre), hx.HxS(user), hx.Bool(recv)))
			obs = append(obs, obsNh(resp, notified, ownerName, sid, others, mid, fin))
			dist[fmt.Sprintf("nh-visitor:pre=%v:recv=%v:resp=%d:notified=%v", pre, recv, resp, notified)]++
			dist["sign:"+kind]++
			if notified && isLive && !(contains(allows[name], user) || contains(allows[name], "*")) {
				fails = append(fails, map[string]string{"key": "nathole:owner-notified-for-user-outside-allowUsers",
					"what": "nathole.Controller.HandleVisitor opened a session and delivered a sid to the proxy owner for a correctly signed request of a user outside allowUsers",
					"case": fmt.Sprintf("%s allowUsers=%q", ops[len(ops)-1], allows[name])})
			}
			if !notified && (fin != int64(before) || mid != int64(before)) {
				fails = append(fails, map[string]string{"key": "nathole:session-state-left-behind",
					"what": "a refused or pre-check NAT-hole request left a session in nathole.Controller.sessions",
					"case": ops[len(ops)-1]})
			}
			if notified && (pre || kind != "right") {
				fails = append(fails, map[string]string{"key": "nathole:owner-notified-without-key-or-in-precheck",
					"what": "nathole.Controller.HandleVisitor delivered a sid to the proxy owner for a pre-check or wrongly signed request",
					"case": ops[len(ops)-1]})
			}
		}
	}
	reap(true)
	ops = append(ops, "NhCount")
	obs = append(obs, obsZ(int64(c.VerifC08SessionCount())))
	return fmt.Sprintf("CNh %s %s %s", ht.coq(), hx.List(ops), hx.List(obs)), fails
}
