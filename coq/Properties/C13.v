(* C13 — load-balancing groups: keyed membership, live members only, clean lifecycle.
   Only statements here; proofs live in Proofs/GroupProofs.v; the model (Model/Group.v) is tied
   to server/group/{tcp,http,tcpmux}.go by the correspondence driver on every run.
   [run]  = the current code (a join holds the controller lock from lookup to the end of the
            group's Listen/Register: one atomic step; a leave is one atomic step).
   [run2] = the code before the repair of finding F-C13 (join = two atomic steps), kept only for
            the regression witnesses at the end. *)
From FRP Require Import Model.Group Proofs.GroupProofs Model.GroupLocks Proofs.GroupLockProofs gen.GenGroupLocks
  Model.GroupRoutes Proofs.GroupRouteProofs.
Import Grp.
Open Scope Z_scope.

(* ---- joins: key and parameters (all three kinds; the second step of a join) ---- *)
(* accepted by a group that has members => same name, endpoint parameters, port (tcp), key *)
Theorem C13_join_requires_key_and_params : forall k s gid g j lid s' p,
  nth_error (s_heap s) gid = Some g -> members k g <> [] ->
  mutate k s gid j lid = (s', JOk p) ->
  g_name g = j_group j /\ g_par g = j_par j /\ g_key g = j_key j /\
  (k = KTcp -> g_port g = j_port j /\ p = g_real g) /\ (k = KHttp -> ~ In (j_m j) (g_funcs g)).
Proof. exact join_accepted_matches. Qed.
Print Assumptions C13_join_requires_key_and_params.

(* the code's specific error for each mismatch, in the code's order *)
Theorem C13_wrong_params_refused : forall k s gid g j lid,
  nth_error (s_heap s) gid = Some g -> members k g <> [] -> (k = KMux -> j_mux j = true) ->
  (g_name g <> j_group j \/ g_par g <> j_par j) ->
  mutate k s gid j lid = (s, JErr EParams).
Proof. exact join_wrong_params. Qed.
Print Assumptions C13_wrong_params_refused.

Theorem C13_different_port_refused : forall s gid g j lid,
  nth_error (s_heap s) gid = Some g -> g_lns g <> [] ->
  g_name g = j_group j -> g_par g = j_par j -> g_port g <> j_port j ->
  mutate KTcp s gid j lid = (s, JErr EDiffPort).
Proof. exact join_different_port. Qed.
Print Assumptions C13_different_port_refused.

Theorem C13_wrong_key_refused : forall k s gid g j lid,
  nth_error (s_heap s) gid = Some g -> members k g <> [] -> (k = KMux -> j_mux j = true) ->
  g_name g = j_group j -> g_par g = j_par j -> (k = KTcp -> g_port g = j_port j) ->
  g_key g <> j_key j ->
  mutate k s gid j lid = (s, JErr EAuth).
Proof. exact join_wrong_key. Qed.
Print Assumptions C13_wrong_key_refused.

Theorem C13_repeated_name_refused : forall s gid g j lid,
  nth_error (s_heap s) gid = Some g -> g_funcs g <> [] ->
  g_name g = j_group j -> g_par g = j_par j -> g_key g = j_key j -> In (j_m j) (g_funcs g) ->
  mutate KHttp s gid j lid = (s, JErr ERepeated).
Proof. exact join_repeated_name. Qed.
Print Assumptions C13_repeated_name_refused.

(* right key, same parameters: accepted, and only the member list grows *)
Theorem C13_right_key_accepted : forall k s gid g j lid,
  nth_error (s_heap s) gid = Some g -> members k g <> [] -> (k = KMux -> j_mux j = true) ->
  g_name g = j_group j -> g_par g = j_par j -> (k = KTcp -> g_port g = j_port j) ->
  g_key g = j_key j -> (k = KHttp -> ~ In (j_m j) (g_funcs g)) ->
  exists s' p, mutate k s gid j lid = (s', JOk p) /\
    exists g', nth_error (s_heap s') gid = Some g' /\
      members k g' = (match k with KHttp => j_m j :: members k g | _ => members k g ++ [lid] end) /\
      s_tab s' = s_tab s /\ s_used s' = s_used s.
Proof. exact join_right_key_accepted. Qed.
Print Assumptions C13_right_key_accepted.

(* ---- a refused join leaves the group unchanged: the whole state is identical ---- *)
Theorem C13_refused_join_unchanged : forall k s j lid s' e,
  tab_get (s_tab s) (j_group j) <> None ->
  join_seq k s j lid = (s', JErr e) -> s' = s.
Proof. exact join_refused_unchanged. Qed.
Print Assumptions C13_refused_join_unchanged.

(* ... except when the group did not exist: the refused FIRST join leaves an empty group object
   in the controller's table (finding F-C10c; ports, routes and members are untouched) *)
Theorem C13_refused_first_join_leaves_shell : forall k s j lid s' e,
  tab_get (s_tab s) (j_group j) = None ->
  join_seq k s j lid = (s', JErr e) ->
  s_tab s' = s_tab s ++ [(j_group j, length (s_heap s))] /\
  s_heap s' = s_heap s ++ [new_grp] /\ s_used s' = s_used s /\ s_env s' = s_env s.
Proof. exact join_refused_first_leaves_shell. Qed.
Print Assumptions C13_refused_first_join_leaves_shell.

Theorem C13_refused_first_join_leaves_no_shell_refuted :
  exists c, run KTcp [QEnvTake [21300]; wj [1] 21300 1] [0; 1]%nat (init 21300 21399 [QEnvTake [21300]; wj [1] 21300 1]) = Run c /\
    nth_error (c_t c) 1 = Some (TRefused EPortUsed) /\ s_tab (c_s c) = [(7, 0%nat)] /\
    nth_error (s_heap (c_s c)) 0 = Some new_grp.
Proof. exact refused_first_join_shell_witness. Qed.
Print Assumptions C13_refused_first_join_leaves_no_shell_refuted.

(* ---- for ALL request lists and ALL schedules of the current code ---- *)
Theorem C13_groups_never_crash : forall k reqs sched lo hi,
  run k reqs sched (init lo hi reqs) <> Crashed.
Proof. exact never_crash. Qed.
Print Assumptions C13_groups_never_crash.

(* the real listener / route of some group answers on r  <->  the controller's table holds a
   group with at least one member whose endpoint is r *)
Theorem C13_endpoint_iff_members : forall k reqs sched lo hi c,
  run k reqs sched (init lo hi reqs) = Run c ->
  forall r, ep_open k (c_s c) r = true <-> tab_has_live k (c_s c) r = true.
Proof. exact endpoint_iff_members. Qed.
Print Assumptions C13_endpoint_iff_members.

(* a group object the table no longer refers to has no members and no endpoint *)
Theorem C13_detached_group_is_dead : forall k reqs sched lo hi c,
  run k reqs sched (init lo hi reqs) = Run c ->
  forall gid g, nth_error (s_heap (c_s c)) gid = Some g ->
  (forall n, ~ In (n, gid) (s_tab (c_s c))) -> members k g = [] /\ g_ep g = false.
Proof. exact detached_is_dead. Qed.
Print Assumptions C13_detached_group_is_dead.

(* the members recorded in group objects are exactly the joins that succeeded and have not left;
   each of them sits in the registered, open group of its name, whose endpoint is up *)
Theorem C13_members_are_live_holders : forall k reqs sched lo hi c,
  run k reqs sched (init lo hi reqs) = Run c ->
  (forall i j gid p, nth_error reqs i = Some (QJoin j) -> nth_error (c_t c) i = Some (TMember gid p) ->
     exists g, nth_error (s_heap (c_s c)) gid = Some g /\ In (lid_of k j i) (members k g) /\ g_name g = j_group j /\
               In (j_group j, gid) (s_tab (c_s c)) /\ g_closed g = false /\ g_ep g = true) /\
  (forall gid g x, nth_error (s_heap (c_s c)) gid = Some g -> In x (members k g) ->
     exists i j p, nth_error reqs i = Some (QJoin j) /\ nth_error (c_t c) i = Some (TMember gid p) /\ lid_of k j i = x).
Proof. exact members_are_holders. Qed.
Print Assumptions C13_members_are_live_holders.

(* in every reachable state: when the only member leaves, the leave succeeds and a join under the
   same name and endpoint with ANY key is at once a successful first join *)
Theorem C13_recreate_after_last_leave : forall k reqs sched lo hi c jt j gid p g,
  k <> KHttp -> run k reqs sched (init lo hi reqs) = Run c ->
  nth_error reqs jt = Some (QJoin j) -> nth_error (c_t c) jt = Some (TMember gid p) ->
  nth_error (s_heap (c_s c)) gid = Some g -> g_lns g = [Z.of_nat jt] ->
  exists s', leave_chan k (c_s c) gid (Z.of_nat jt) = Some s' /\
    forall j' lid', j_group j' = g_name g -> j_par j' = g_par g ->
      (k = KTcp -> j_port j' = g_real g /\ g_real g <> 0 /\ allowed (c_s c) (g_real g) = true /\ j_os j' = true /\ j_lis j' = true) ->
      (k = KMux -> j_mux j' = true) ->
      exists s'' p', join_seq k s' j' lid' = (s'', JOk p').
Proof. exact recreate_after_last_leave_chan. Qed.
Print Assumptions C13_recreate_after_last_leave.

Theorem C13_recreate_after_last_leave_http : forall reqs sched lo hi c jt j gid p g,
  run KHttp reqs sched (init lo hi reqs) = Run c ->
  nth_error reqs jt = Some (QJoin j) -> nth_error (c_t c) jt = Some (TMember gid p) ->
  nth_error (s_heap (c_s c)) gid = Some g -> g_funcs g = [j_m j] ->
  forall j', j_group j' = j_group j -> j_par j' = g_par g ->
    exists s'' p', join_seq KHttp (leave_http (c_s c) (j_group j) (j_m j)) j' (j_m j') = (s'', JOk p').
Proof. exact recreate_after_last_leave_http. Qed.
Print Assumptions C13_recreate_after_last_leave_http.

(* server-chosen port (remotePort = 0): when the only member leaves, the chosen port is no longer booked
   in the port manager, and a new group asking for "any port" can get exactly that port again *)
Theorem C13_recreate_with_server_chosen_port : forall s gid g lid s' j' lid',
  nth_error (s_heap s) gid = Some g -> g_lns g = [lid] ->
  leave_chan KTcp s gid lid = Some s' ->
  rmem [g_real g] (s_used s') = false /\
  (j_group j' = g_name g -> j_port j' = 0 -> j_pick j' = g_real g -> g_real g <> 0 ->
   allowed s (g_real g) = true -> j_lis j' = true ->
   exists s'', join_seq KTcp s' j' lid' = (s'', JOk (g_real g))).
Proof. exact recreate_tcp_port0. Qed.
Print Assumptions C13_recreate_with_server_chosen_port.

(* ---- connections ---- *)
(* a connection held by the worker is delivered only when the channel is open, to exactly the listener
   whose Accept took it, and that listener belongs to this group object and its accept loop is still
   running: a current member, or a member whose Close has begun but whose loop has not yet noticed
   closeCh ([can_receive]; the select in TCPGroupListener.Accept may pick either ready case) *)
Theorem C13_handoff_to_exactly_one_live_member : forall k reqs i c c' r who gid gen m,
  k <> KHttp -> nth_error reqs i = Some (QConn r who) -> nth_error (c_t c) i = Some (THeld gid gen) ->
  step k reqs i c = Run c' -> nth_error (c_t c') i = Some (TConn (CTo m)) ->
  m = who /\ can_receive c gid who = true /\
  exists g, nth_error (s_heap (c_s c)) gid = Some g /\ g_closed g = false.
Proof. exact handoff_to_member. Qed.
Print Assumptions C13_handoff_to_exactly_one_live_member.

(* for ALL request lists and schedules (tcp, tcpmux): no connection is ever dropped at the hand-off or
   left in the backlog of the real listener while its group has a member ... *)
Theorem C13_never_lost_while_member_live : forall k reqs sched lo hi c,
  k <> KHttp -> run k reqs sched (init lo hi reqs) = Run c -> c_lost c = false.
Proof. exact never_lost_while_member_live. Qed.
Print Assumptions C13_never_lost_while_member_live.

(* ... and in every reachable state a connection the worker holds is delivered by the hand-off step
   to any current member whose accept loop runs: it cannot be stranded while a member is live *)
Theorem C13_held_connection_deliverable : forall k reqs sched lo hi c i r who gid gen w p,
  k <> KHttp -> run k reqs sched (init lo hi reqs) = Run c ->
  nth_error reqs i = Some (QConn r who) -> nth_error (c_t c) i = Some (THeld gid gen) ->
  who = Z.of_nat w -> (exists j, nth_error reqs w = Some (QJoin j)) ->
  nth_error (c_t c) w = Some (TMember gid p) -> nmem w (c_dead c) = false ->
  exists c', step k reqs i c = Run c' /\ nth_error (c_t c') i = Some (TConn (CTo who)).
Proof. exact held_connection_deliverable. Qed.
Print Assumptions C13_held_connection_deliverable.

(* http: each request advances the counter by one and goes to pxyNames[counter mod len] *)
Theorem C13_http_rotates_over_members : forall g g' o, http_pick g = (g', o) -> g_lns g <> [] ->
  (forall x, In x (g_lns g) -> In x (g_funcs g)) ->
  g_idx g' = g_idx g + 1 /\ g_lns g' = g_lns g /\ g_funcs g' = g_funcs g /\
  exists name, nth_error (g_lns g) (Z.to_nat ((g_idx g + 1) mod Z.of_nat (length (g_lns g)))) = Some name /\ o = CTo name.
Proof. exact http_pick_member. Qed.
Print Assumptions C13_http_rotates_over_members.

(* round-robin fairness: over k * n consecutive requests each of the n members is chosen exactly k times
   (pxyNames duplicate-free and backed by createFuncs, counter not negative) *)
Theorem C13_http_round_robin_fair : forall g k x,
  NoDup (g_lns g) -> (forall y, In y (g_lns g) -> In y (g_funcs g)) -> 0 <= g_idx g -> In x (g_lns g) ->
  length (filter (is_to x) (picks g (k * length (g_lns g)))) = k.
Proof. exact http_fair. Qed.
Print Assumptions C13_http_round_robin_fair.

Example C13_example_rotation :
  picks {| g_name := 1; g_key := 1; g_par := [1; 2; 3]; g_port := 0; g_real := 0; g_lns := [10; 20; 30];
           g_funcs := [30; 20; 10]; g_idx := 4; g_closed := false; g_ep := true; g_wk := false; g_gen := 1 |} 6 =
  [CTo 30; CTo 10; CTo 20; CTo 30; CTo 10; CTo 20].
Proof. vm_compute. reflexivity. Qed.

(* ---- the atomicity the model assumes, read from today's source (reflective, gen/GenGroupLocks.v) ---- *)
(* each of the six join / leave functions has exactly one controller critical section, and every access
   to the groups table, every call into the group and every operation on the group's endpoint lies
   inside it: a join is one atomic step, the table part of a leave is one atomic step *)
Theorem C13_lock_structure_matches_model :
  map fst group_lock_facts = expected_lock_functions /\
  forall f evs, In (f, evs) group_lock_facts ->
    count_ctl_locks evs = 1%nat /\
    forall pre ev post, evs = (pre ++ ev :: post)%list -> is_access ev = true -> ctl_held pre false = true.
Proof. exact (group_locks_ok_sound group_lock_facts (eq_refl true <: group_locks_ok group_lock_facts = true)). Qed.
Print Assumptions C13_lock_structure_matches_model.

(* Accept returns every connection it has taken from the hand-off channel to its member (no drop after
   the take); Close is close(closeCh) followed by CloseListener: the shapes the model's steps mirror *)
Theorem C13_accept_and_close_shape_match_model : group_shapes_ok group_accept_shape = true.
Proof. vm_compute. reflexivity. Qed.
Print Assumptions C13_accept_and_close_shape_match_model.

(* ---- several groups on one shared port space / route table ---- *)
(* for ALL request lists and schedules: as long as a group has members its port / route is booked (and
   not by the environment), and no two groups with members share one: the joins, leaves, refusals and
   recreations of every OTHER group — and of non-group proxies — leave it intact *)
Theorem C13_live_group_keeps_its_route : forall k reqs sched lo hi c,
  run k reqs sched (init lo hi reqs) = Run c ->
  (forall gid g, nth_error (s_heap (c_s c)) gid = Some g -> members k g <> [] ->
     rmem (g_res k g) (s_used (c_s c)) = true /\ rmem (g_res k g) (s_env (c_s c)) = false) /\
  (forall gid1 gid2 g1 g2, nth_error (s_heap (c_s c)) gid1 = Some g1 -> nth_error (s_heap (c_s c)) gid2 = Some g2 ->
     members k g1 <> [] -> members k g2 <> [] -> g_res k g1 = g_res k g2 -> gid1 = gid2).
Proof. exact live_group_keeps_its_route. Qed.
Print Assumptions C13_live_group_keeps_its_route.

(* step level: a leave changes the booking of no port / route but the group's own *)
Theorem C13_leave_touches_only_own_route : forall k s gid g lid s' r,
  nth_error (s_heap s) gid = Some g -> leave_chan k s gid lid = Some s' -> r <> g_res k g ->
  rmem r (s_used s') = rmem r (s_used s).
Proof. exact leave_touches_only_own_route. Qed.
Print Assumptions C13_leave_touches_only_own_route.

Theorem C13_http_leave_touches_only_own_route : forall s n m gid g r,
  tab_get (s_tab s) n = Some gid -> nth_error (s_heap s) gid = Some g -> r <> g_res KHttp g ->
  rmem r (s_used (leave_http s n m)) = rmem r (s_used s).
Proof. exact leave_http_touches_only_own_route. Qed.
Print Assumptions C13_http_leave_touches_only_own_route.

(* the route table as the code has it (domain -> routeByHTTPUser -> routers): Del removes exactly the
   matching (domain, location, user) entry; the flat key set of the group model is an exact abstraction
   of it for exist / Add / Del *)
Theorem C13_router_del_removes_exactly_one_route : forall t d l u d' l' u',
  rt_exist (rt_del t d l u) d' l' u' = rt_exist t d' l' u' && negb (key_eqb d l u d' l' u').
Proof. exact rt_exist_del. Qed.
Print Assumptions C13_router_del_removes_exactly_one_route.

Theorem C13_route_table_refines_key_set :
  refines [] [] /\
  (forall t used d l u, refines t used -> refines (rt_del t d l u) (rdel [d; l; u] used)) /\
  (forall t used d l u t', refines t used -> rt_add t d l u = Some t' -> refines t' ([d; l; u] :: used)) /\
  (forall t used d l u, refines t used -> (rt_add t d l u = None <-> rmem [d; l; u] used = true)).
Proof. exact (conj refines_init (conj refines_del (conj refines_add refines_conflict))). Qed.
Print Assumptions C13_route_table_refines_key_set.

(* reflective, over today's source: Routers.Del has the statements [rt_del] mirrors (no other bucket, no
   domain entry is deleted), and the comparisons a later member must pass are the ones of [mutate]
   (http: incl. the credentials of the route) *)
Theorem C13_router_del_and_join_checks_match_model :
  sl_eqb router_del_shape expected_del_shape = true /\ shapes_eqb group_join_checks expected_join_checks = true.
Proof. vm_compute. split; reflexivity. Qed.
Print Assumptions C13_router_del_and_join_checks_match_model.

Example C13_example_two_groups_one_domain :
  forall t1 t2, rt_add [] 1 2 1 = Some t1 -> rt_add t1 1 2 2 = Some t2 ->
  rt_exist (rt_del t2 1 2 2) 1 2 1 = true /\ rt_exist (rt_del t2 1 2 2) 1 2 2 = false.
Proof. intros t1 t2 H1 H2. vm_compute in H1. inversion H1; subst. vm_compute in H2. inversion H2; subst. vm_compute. split; reflexivity. Qed.

(* ---- http groups on the paths through the reverse proxy and the http proxy (reflective) ---- *)
(* the dial of a member (its CreateConnFn may wait for a work connection) runs outside the group's lock:
   a stalled member blocks neither requests to other members nor joins and leaves *)
Theorem C13_member_dial_outside_group_lock :
  map fst http_member_call_facts = expected_member_functions /\
  forall f evs, In (f, evs) http_member_call_facts ->
    forall pre post, evs = (pre ++ GMemberCall :: post)%list -> grp_held pre false = false.
Proof. exact (member_calls_ok_sound http_member_call_facts (eq_refl true <: member_calls_ok http_member_call_facts = true)). Qed.
Print Assumptions C13_member_dial_outside_group_lock.

(* HTTPProxy.Run arranges the leave only after the join succeeded (so the roll-back of a refused join,
   e.g. a same-name duplicate, leaves every other membership alone: a refused join changes nothing);
   a CONNECT on the vhost http port is dialled through the route's CreateConnFn, i.e. through the group's
   rotation like a GET; the endpoint chosen for a request is part of the backend-connection pool key *)
Theorem C13_http_group_request_path_matches_model :
  sll_eqb http_proxy_run_group_blocks expected_run_group_blocks = true /\
  sl_eqb vhost_http_group_facts expected_vhost_http_group_facts = true /\
  (* the endpoint id handed to the transport is per join (name#joinseq) *)
  sl_eqb http_group_endpoint_facts expected_http_group_endpoint_facts = true.
Proof. vm_compute. repeat split; reflexivity. Qed.
Print Assumptions C13_http_group_request_path_matches_model.

(* a request (GET or CONNECT) on an http group route goes to a name registered in the object that owns
   the route at that moment: never to a member of a group that used to own the triple *)
Theorem C13_http_request_goes_to_current_member : forall reqs i c c' r who m,
  nth_error reqs i = Some (QConn r who) -> nth_error (c_t c) i = Some TInit ->
  step KHttp reqs i c = Run c' -> nth_error (c_t c') i = Some (TConn (CTo m)) ->
  exists gid g, find_ep KHttp (c_s c) r = Some gid /\ nth_error (s_heap (c_s c)) gid = Some g /\
                In m (g_funcs g) /\ In m (g_lns g).
Proof. exact http_request_current_member. Qed.
Print Assumptions C13_http_request_goes_to_current_member.

(* ---- regression witnesses about the OLD two-step join (finding F-C13, repaired in /repo) ---- *)
Theorem C13_old_two_step_join_crashes :
  run2 KTcp (old_reqs [1] 21300) old_sched (init 21300 21399 (old_reqs [1] 21300)) = Crashed /\
  run2 KMux (old_reqs [1; 0; 0; 0] 0) old_sched (init 0 0 (old_reqs [1; 0; 0; 0] 0)) = Crashed.
Proof. exact (conj old_two_step_join_crashes_tcp old_two_step_join_crashes_mux). Qed.
Print Assumptions C13_old_two_step_join_crashes.

Theorem C13_old_two_step_join_leaks_http_route :
  exists c, run2 KHttp (old_reqs [1; 2; 3] 0) (old_sched ++ [4; 4]%nat) (init 0 0 (old_reqs [1; 2; 3] 0)) = Run c /\
    no_member c = true /\ ep_open KHttp (c_s c) [1; 2; 3] = true /\ tab_has_live KHttp (c_s c) [1; 2; 3] = false /\
    nth_error (c_t c) 4 = Some (TRefused ERouteConflict).
Proof. exact old_two_step_join_leaks_route_http. Qed.
Print Assumptions C13_old_two_step_join_leaks_http_route.

(* non-vacuity: the same requests and schedule on the current model — third join succeeds *)
Example C13_example_same_schedule_now_fine :
  exists c, run KTcp (old_reqs [1] 21300) (old_sched ++ [4]%nat) (init 21300 21399 (old_reqs [1] 21300)) = Run c /\
    nth_error (c_t c) 4 = Some (TMember 1 21300) /\ c_lost c = false.
Proof. exact same_schedule_now_fine. Qed.
