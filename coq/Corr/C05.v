(* C05 correspondence: observed behaviour of the real code against the models, and the property
   monitor on observed captures. *)
From FRP Require Export Corr.Common Model.Sniff Model.TlsPolicy Model.Wire gen.GenWire.
Open Scope Z_scope.
Import TlsPolicy Wire.

Definition today : tables :=
  {| tb_auth := auth_sets; tb_ctl := ctl_sites; tb_enc := enc_sites; tb_calls := call_keys;
     tb_lits := msg_lits; tb_writes := clear_writes; tb_flows := marshal_flows; tb_crw := crypto_rw_shape;
     tb_sniff := sniff_sites; tb_listeners := listener_calls;
     tb_tls_uses := tls_uses; tb_tls_origin := tls_origin_args; tb_tls_server_calls := sniff_tls_server_calls;
     tb_sniff_shape := GenWire.sniff_shape_today |}.

Inductive case :=
(* real CheckAndEnableTLSServerConnWithTimeout on a connection whose peer sends byte b first.
   kept: 1 = the returned conn replays b to its reader, 0 = b was consumed, -1 = not observed *)
| CSniffFn (force : bool) (b : Z) (is_tls custom err : bool) (kept : Z)
| CSniffEof (force : bool) (err : bool)
(* the peer stays silent past the function's wait (then, if the function returned a connection, sends a plain
   Login): err, and whether the returned connection delivered those late bytes to a reader *)
| CSniffSilent (force : bool) (err : bool) (late_bytes_delivered : bool)
(* a running frps, first byte b followed by a probe tail.
   cls: 0 = TLS handshake answered, 1 = a protocol message answered, 2 = closed without any answer *)
| CSniffSys (force : bool) (b : Z) (cls : Z)
(* the same through another listener of the running frps: lk 1 = websocket (raw websocket client, then
   the bytes), 2 = kcp.  On kcp a close is not observable: "no answer within the wait" counts as class 2 *)
| CSniffSysL (lk : Z) (force : bool) (b : Z) (cls : Z)
(* ServerTransportConfig.Complete + NewServerTLSConfig on real files *)
| CServerPolicy (force_in : bool) (cert key ca : string) (pair_ok read_ok : bool)
                (force_out : bool) (ok : bool) (require_verify has_cas : bool) (ncert : Z)
| CClientPolicy (cert key ca sn : string) (pair_ok read_ok : bool)
                (ok insecure : bool) (server_name : string) (has_roots : bool) (ncert : Z)
| CClientComplete (proto : string) (mux enable disable : option bool)
                  (proto' : string) (mux' enable' disable' : bool)
(* first byte a real frpc puts on the raw connection *)
| CFirstByte (cfg : wcfg) (first : Z)
(* a full run through the recording relay: atoms whose markers were found in the capture as recorded
   (observed), and after the observer also opened, with the key derived from the empty string, the
   cipher streams of a configuration whose token is empty (observed_public; = observed otherwise) *)
| CWire (cfg : wcfg) (hist : list wevent) (observed observed_public : list atom) (session_up : bool)
(* certificate matrix: did a session come up / did the server interpret a protocol message.
   transport: 0 tcp (tls listener of the muxer), 1 kcp, 2 websocket, 3 quic *)
| CCert (transport : Z) (server_ca client_cert_ok client_has_cert client_ca name_matches ca_matches : bool) (session_up : bool).

Definition beq (a b : bool) : bool := Bool.eqb a b.

Definition subset (a b : list atom) : bool := forallb (fun x => existsb (atom_eqb x) b) a.

Definition raw_first_byte (c : wcfg) : Z :=
  match plan_layers (plan c) with
  | LWebsocket :: _ => 71
  | LHeadByte :: _ => Sniff.frp_tls_head_byte
  | LTls :: _ => Sniff.tls_handshake_byte
  | LQuic :: _ => -1
  | [] => if from_ptr (ct_tcp_mux (w_client c)) then 0 else 111
  end.

Definition sys_expect (force : bool) (b : Z) : Z :=
  match Sniff.sniff_with GenWire.frp_tls_head_byte force (byte_of_Z b) with
  | Sniff.TlsCustom | Sniff.TlsStd => 0
  | Sniff.Plain => if (b =? 111) || (b =? 118) then 1 else 2
  | _ => 2
  end.

(* model of the TLS handshake outcome as far as the policies decide it (crypto/tls is the oracle
   that enforces them): the server accepts the client's certificate iff none is required or a
   certificate chaining to the configured CA is presented; the client accepts the server iff it
   does not verify or the server's certificate chains to its CA and carries the expected name *)
Definition cert_expect (server_ca client_cert_ok client_has_cert client_ca name_matches ca_matches : bool) : bool :=
  (negb server_ca || (client_has_cert && client_cert_ok)) &&
  (negb client_ca || (ca_matches && name_matches)).

Definition check_case (c : case) : Z :=
  match c with
  | CSniffFn force b is_tls custom err kept =>
      let o := Sniff.sniff_with GenWire.frp_tls_head_byte force (byte_of_Z b) in
      if negb (beq (Sniff.is_tls o) is_tls) then 1
      else if negb (beq (Sniff.is_custom o) custom) then 2
      else if negb (beq (Sniff.is_err o) err) then 3
      else match fst (Sniff.sniff_stream force [byte_of_Z b]), kept with
           | _, -1 => 0
           | Sniff.TlsCustom, 0 => 0
           | Sniff.TlsStd, 1 | Sniff.Plain, 1 => 0
           | _, _ => 4
           end
  | CSniffEof force err =>
      if beq (Sniff.is_err (fst (Sniff.sniff_stream force []))) err then 0 else 5
  | CSniffSilent force err delivered =>
      if negb (beq (Sniff.is_err (fst (Sniff.sniff_stream force []))) err) then 9
      else if delivered then 9 else 0
  | CSniffSys force b cls => if sys_expect force b =? cls then 0 else 6
  | CSniffSysL lk force b cls =>
      let l := if lk =? 1 then LkWebsocket else LkKcp in
      match sniff_force today force l with
      | ForceIs f =>
          (* kcp has no close handshake: the refusal of a NewVisitorConn is written and the session dropped at
             once, the answer may be lost; for that one probe "answered" and "no answer" are both accepted *)
          if sys_expect f b =? cls then 0
          else if (lk =? 2) && (b =? 118) && (sys_expect f b =? 1) && (cls =? 2) then 0 else 7
      | _ => 8
      end
  | CServerPolicy force_in cert key ca pair_ok read_ok force_out ok require_verify has_cas ncert =>
      let c' := server_complete {| st_tcp_mux := None; st_force := force_in; st_tls := mk_tls_files cert key ca "" |} in
      if negb (beq (st_force c') force_out) then 10
      else match new_server_tls (fun _ _ => pair_ok) (fun _ => read_ok) cert key ca with
           | None => if ok then 11 else 0
           | Some p =>
               if negb ok then 12
               else if negb (beq (match sp_client_auth p with RequireAndVerifyClientCert => true | _ => false end) require_verify) then 13
               else if negb (beq (match sp_client_cas p with Some _ => true | None => false end) has_cas) then 14
               else if negb (ncert =? 1) then 15 else 0
           end
  | CClientPolicy cert key ca sn pair_ok read_ok ok insecure server_name has_roots ncert =>
      match new_client_tls (fun _ _ => pair_ok) (fun _ => read_ok) cert key ca sn with
      | None => if ok then 20 else 0
      | Some p =>
          if negb ok then 21
          else if negb (beq (cp_insecure_skip_verify p) insecure) then 22
          else if negb (String.eqb (cp_server_name p) server_name) then 23
          else if negb (beq (match cp_root_cas p with Some _ => true | None => false end) has_roots) then 24
          else if negb (ncert =? (match cp_cert p with Some _ => 1 | None => 0 end)) then 25 else 0
      end
  | CClientComplete proto mux enable disable proto' mux' enable' disable' =>
      let c' := client_complete {| ct_protocol := proto; ct_tcp_mux := mux; ct_tls_enable := enable;
                                   ct_disable_custom_first_byte := disable; ct_tls := mk_tls_files "" "" "" "" |} in
      if negb (String.eqb (ct_protocol c') proto') then 30
      else if negb (beq (from_ptr (ct_tcp_mux c')) mux') then 31
      else if negb (beq (from_ptr (ct_tls_enable c')) enable') then 32
      else if negb (beq (from_ptr (ct_disable_custom_first_byte c')) disable') then 33 else 0
  | CFirstByte cfg first => if raw_first_byte cfg =? first then 0 else 40
  | CWire cfg hist observed observed_public up =>
      let w := wire today cfg hist in
      if existsb has_bad w then 50
      else if negb (match sniff_force today (w_force cfg) (listener_of cfg) with
                    | ForceIs f => beq f (w_force cfg) | NoSniff => true | ForceBad => false end) then 56
      else if negb (beq (accepted cfg) up) then 51
      else if negb (subset observed (visible_all nobody w)) then 52
      else if up && negb (subset (visible_sure_all nobody w) observed) then 53
      else if negb (subset observed_public (visible_all (public cfg) w)) then 54
      else if up && negb (subset (visible_sure_all (public cfg) w) observed_public) then 55
      else 0
  | CCert transport server_ca client_cert_ok client_has_cert client_ca name_matches ca_matches up =>
      let l := if transport =? 1 then LkKcp else if transport =? 2 then LkWebsocket
               else if transport =? 3 then LkQuic else LkTlsMux in
      (* the policy in force on that listener must be the configured one (today's tables) ... *)
      match listener_policy today (mk_server_policy SelfSigned NoClientCert None) l with
      | None => 61
      | Some _ =>
          (* ... and then the outcome is the transport-independent one *)
          if beq (cert_expect server_ca client_cert_ok client_has_cert client_ca name_matches ca_matches) up then 0 else 60
      end
  end.

(* property monitor on an observed capture: no secret marker readable; nothing readable under TLS *)
Definition C05_holds (c : case) : bool :=
  match c with
  | CWire cfg _ observed observed_public _ =>
      (* nothing secret in the bytes as recorded, in any configuration; nothing at all under TLS;
         the public observer reads a secret only in the recorded finding class F-C05a (empty token, TLS off) *)
      negb (existsb is_secret observed) &&
      (negb (conn_tls cfg) || match observed_public with [] => true | _ => false end) &&
      (negb (existsb is_secret observed_public) || (w_token_empty cfg && negb (conn_tls cfg)))
  | CSniffSys force b cls => negb (force && (cls =? 1))
  | CSniffSilent force _ delivered => negb (force && delivered)
  | CSniffSysL _ force b cls => negb (force && (cls =? 1))
  | _ => true
  end.

Definition is_wire (c : case) : bool := match c with CWire _ _ _ _ _ => true | _ => false end.
Definition wire_clear_payload (c : case) : bool :=
  match c with CWire _ _ o _ _ => existsb is_payload o | _ => false end.
Definition wire_hidden_all (c : case) : bool :=
  match c with CWire cfg _ [] [] true => true | _ => false end.
Definition wire_rejected (c : case) : bool :=
  match c with CWire _ _ _ _ false => true | _ => false end.
Definition wire_empty_token (c : case) : bool :=
  match c with CWire cfg _ _ _ true => w_token_empty cfg | _ => false end.
Definition wire_public_reads_secret (c : case) : bool :=
  match c with CWire cfg _ _ o true => existsb is_secret o | _ => false end.
