package main

// Driver "health": the real health.Monitor (tcp and http kinds) runs against a scripted local
// backend; the interval and the per-probe timeout are shrunk to milliseconds through
// client/health/c19_verif.go.  For every probe the backend plays one scripted outcome
// (accept / refuse / timeout / http status) and the harness records which of the two
// callbacks the monitor invoked while processing that probe.  The case handed to Coq is
//
//	CHealth kind maxFailed hasNormalFn hasFailedFn [outcomes] [[callbacks of probe 0]; ...]
//
// and Corr/C19.v compares it with Model/Health.v (hm_run) and with the specification monitor.

import (
	"context"
	"fmt"
	"net"
	"sort"
	"strings"
	"sync"
	"sync/atomic"
	"syscall"
	"time"

	"github.com/fatedier/frp/client/health"
	v1 "github.com/fatedier/frp/pkg/config/v1"

	"verifharness/hx"
)

func init() { drivers["health"] = runHealth }

const (
	oAccept  = 0 // connection accepted (http: closed without an answer)
	oRefuse  = 1
	oTimeout = 2
	oStatus  = 1000 // + http status code
)

type hcase struct {
	kind      int // 0 tcp, 1 http
	maxFailed int
	hasN      bool
	hasF      bool
	probes    []int
}

func (c hcase) key() string {
	return fmt.Sprintf("%d/%d/%v/%v/%v", c.kind, c.maxFailed, c.hasN, c.hasF, c.probes)
}

// timing of one monitor run; the slow profile is used to re-run a case whose observation looks
// wrong, so that a scheduling hiccup (callback attributed to the neighbouring probe, an "ok"
// probe that missed its deadline on a loaded machine) is not reported as a defect
type htiming struct{ interval, timeout, grace time.Duration }

var (
	hFast = htiming{40 * time.Millisecond, 100 * time.Millisecond, 10 * time.Millisecond}
	hSlow = []htiming{
		{150 * time.Millisecond, 300 * time.Millisecond, 40 * time.Millisecond},
		{400 * time.Millisecond, 600 * time.Millisecond, 120 * time.Millisecond},
		{1000 * time.Millisecond, 1200 * time.Millisecond, 300 * time.Millisecond},
	}
)

// ---- scripted backend: one address, three listener shapes ----

const (
	lnNone      = 0 // nothing bound: refusal
	lnNormal    = 1 // accepting; behaviour per connection from .conn
	lnBlackhole = 2 // bound, backlog 0, queue filled, never accepted: the dial itself times out
)

const (
	connClose  = 0 // accept and close
	connStatus = 1 // read the request, answer with .code
	connHold   = 2 // read the request, never answer
)

type backend struct {
	ip    string
	port  int
	shape int
	ln    net.Listener
	fill  net.Conn
	conn  atomic.Int32
	code  atomic.Int32
	seen  chan struct{}
	http  bool
	wg    sync.WaitGroup
}

func newBackend(ip string, isHTTP bool) (*backend, error) {
	b := &backend{ip: ip, seen: make(chan struct{}, 64), http: isHTTP}
	ln, err := net.Listen("tcp", net.JoinHostPort(ip, "0"))
	if err != nil {
		return nil, err
	}
	b.port = ln.Addr().(*net.TCPAddr).Port
	b.ln = ln
	b.shape = lnNormal
	b.serve(ln)
	return b, nil
}

func (b *backend) addr() string { return net.JoinHostPort(b.ip, fmt.Sprint(b.port)) }

func (b *backend) serve(ln net.Listener) {
	b.wg.Add(1)
	go func() {
		defer b.wg.Done()
		for {
			c, err := ln.Accept()
			if err != nil {
				return
			}
			b.wg.Add(1)
			go func() {
				defer b.wg.Done()
				b.handle(c)
			}()
		}
	}()
}

func readRequest(c net.Conn) bool {
	buf := make([]byte, 0, 512)
	tmp := make([]byte, 256)
	_ = c.SetReadDeadline(time.Now().Add(2 * time.Second))
	for {
		n, err := c.Read(tmp)
		buf = append(buf, tmp[:n]...)
		if strings.Contains(string(buf), "\r\n\r\n") {
			return true
		}
		if err != nil {
			return false
		}
	}
}

func (b *backend) handle(c net.Conn) {
	defer c.Close()
	mode := b.conn.Load()
	if !b.http || mode == connClose {
		b.seen <- struct{}{}
		return
	}
	if !readRequest(c) {
		b.seen <- struct{}{}
		return
	}
	switch mode {
	case connStatus:
		fmt.Fprintf(c, "HTTP/1.1 %d S\r\nContent-Length: 0\r\nConnection: close\r\n\r\n", b.code.Load())
		b.seen <- struct{}{}
	case connHold:
		// wait until the prober gives up
		_ = c.SetReadDeadline(time.Now().Add(5 * time.Second))
		one := make([]byte, 1)
		_, _ = c.Read(one)
		b.seen <- struct{}{}
	}
}

func (b *backend) closeCurrent() {
	if b.fill != nil {
		b.fill.Close()
		b.fill = nil
	}
	if b.ln != nil {
		b.ln.Close()
		b.ln = nil
	}
	b.shape = lnNone
}

// reshape makes the address behave as requested for the next probe.
func (b *backend) reshape(shape int) error {
	if b.shape == shape {
		return nil
	}
	b.closeCurrent()
	switch shape {
	case lnNone:
		return nil
	case lnNormal:
		ln, err := net.Listen("tcp", b.addr())
		if err != nil {
			return err
		}
		b.ln = ln
		b.serve(ln)
	case lnBlackhole:
		ln, err := net.Listen("tcp", b.addr())
		if err != nil {
			return err
		}
		rc, err := ln.(*net.TCPListener).SyscallConn()
		if err != nil {
			ln.Close()
			return err
		}
		var lerr error
		_ = rc.Control(func(fd uintptr) { lerr = syscall.Listen(int(fd), 0) })
		if lerr != nil {
			ln.Close()
			return lerr
		}
		b.ln = ln
		// backlog 0 admits one pending connection; occupy it
		f, err := net.DialTimeout("tcp", b.addr(), time.Second)
		if err != nil {
			ln.Close()
			b.ln = nil
			return err
		}
		b.fill = f
	}
	b.shape = shape
	return nil
}

// prepare sets the backend up for a probe with the given scripted outcome; visible tells
// whether the backend will notice the probe by itself.
func (b *backend) prepare(o int) (visible bool, err error) {
	switch {
	case o == oRefuse:
		return false, b.reshape(lnNone)
	case o == oTimeout && !b.http:
		return false, b.reshape(lnBlackhole)
	case o == oTimeout:
		b.conn.Store(connHold)
		return true, b.reshape(lnNormal)
	case o == oAccept:
		b.conn.Store(connClose)
		return true, b.reshape(lnNormal)
	default:
		b.conn.Store(connStatus)
		b.code.Store(int32(o - oStatus))
		return true, b.reshape(lnNormal)
	}
}

func (b *backend) close() {
	b.closeCurrent()
	b.wg.Wait()
}

// ---- one case ----

type hresult struct {
	events    [][]int
	invalid   string
	stalledAt int // -1, or the index of the first probe the monitor never made
}

func runHealthCase(c hcase, ip string, tm htiming) hresult {
	b, err := newBackend(ip, c.kind == 1)
	if err != nil {
		return hresult{invalid: "listen: " + err.Error()}
	}
	defer b.close()

	var mu sync.Mutex
	var calls []int
	var normalFn, failedFn func()
	if c.hasN {
		normalFn = func() { mu.Lock(); calls = append(calls, 0); mu.Unlock() }
	}
	if c.hasF {
		failedFn = func() { mu.Lock(); calls = append(calls, 1); mu.Unlock() }
	}
	cfg := v1.HealthCheckConfig{Type: "tcp", MaxFailed: c.maxFailed, IntervalSeconds: 1, TimeoutSeconds: 1}
	if c.kind == 1 {
		cfg.Type = "http"
		cfg.Path = "/healthz"
	}
	visible, err := b.prepare(c.probes[0])
	if err != nil {
		return hresult{invalid: "prepare: " + err.Error()}
	}
	mon := health.NewMonitor(context.Background(), cfg, b.addr(), normalFn, failedFn)
	mon.VerifSetTiming(tm.interval, tm.timeout)
	prevFailed, _ := mon.VerifSnapshot()
	mon.Start()
	defer mon.Stop()

	res := hresult{stalledAt: -1}
	taken := 0
	for i := range c.probes {
		// wait until probe i has been processed
		if visible {
			select {
			case <-b.seen:
			case <-time.After(tm.interval*10 + tm.timeout + time.Second):
				// the monitor has stopped probing: that is an observation, not a set-up problem.  The
				// remaining probes are recorded with the marker 9 ("no probe was made").
				for len(res.events) < len(c.probes) {
					res.events = append(res.events, []int{9})
				}
				res.stalledAt = i
				return res
			}
		} else {
			deadline := time.Now().Add(tm.timeout + tm.interval + 2*time.Second)
			for {
				f, _ := mon.VerifSnapshot()
				if f != prevFailed || time.Now().After(deadline) {
					break
				}
				time.Sleep(150 * time.Microsecond)
			}
		}
		time.Sleep(tm.grace)
		prevFailed, _ = mon.VerifSnapshot()
		mu.Lock()
		ev := append([]int{}, calls[taken:]...)
		taken = len(calls)
		mu.Unlock()
		res.events = append(res.events, ev)
		if i+1 < len(c.probes) {
			visible, err = b.prepare(c.probes[i+1])
			if err != nil {
				return hresult{invalid: "prepare: " + err.Error()}
			}
		}
	}
	return res
}

// expectedCallbacks is used only to decide whether a case is re-run with the slow timing
// profile; the verdict is taken in Coq on whatever was finally observed.
func expectedCallbacks(c hcase) [][]int {
	max := c.maxFailed
	if max <= 0 {
		max = 1
	}
	ok := false
	failed := 0
	res := make([][]int, len(c.probes))
	for i, o := range c.probes {
		res[i] = []int{}
		if !probeFails(c.kind, o) {
			failed = 0
			if !ok && c.hasN {
				ok = true
				res[i] = []int{0}
			}
		} else {
			failed++
			if ok && failed >= max && c.hasF {
				ok = false
				res[i] = []int{1}
			}
		}
	}
	return res
}

func sameEvents(a, b [][]int) bool {
	if len(a) != len(b) {
		return false
	}
	for i := range a {
		if len(a[i]) != len(b[i]) {
			return false
		}
		for j := range a[i] {
			if a[i][j] != b[i][j] {
				return false
			}
		}
	}
	return true
}

// ---- specification monitor evaluated on the Go side (gives a readable finding) ----

func probeFails(kind, o int) bool {
	switch {
	case o == oRefuse || o == oTimeout:
		return true
	case o == oAccept:
		return kind == 1
	default:
		if kind == 0 {
			return false
		}
		code := o - oStatus
		return code/100 != 2
	}
}

// healthViolations checks the observed callbacks against the property text directly.
func healthViolations(c hcase, events [][]int) []string {
	if !c.hasN || !c.hasF {
		return nil
	}
	max := c.maxFailed
	if max <= 0 {
		max = 1
	}
	var out []string
	registered := false
	run := 0 // consecutive failed probes so far
	for i, o := range c.probes {
		fails := probeFails(c.kind, o)
		if fails {
			run++
		} else {
			run = 0
		}
		gotN, gotF := false, false
		for _, e := range events[i] {
			if e == 0 {
				gotN = true
			} else {
				gotF = true
			}
		}
		switch {
		case !fails && !registered:
			if !gotN {
				out = append(out, fmt.Sprintf("probe %d succeeded while withdrawn but statusNormalFn was not called", i))
			}
			registered = true
		case fails && registered && run >= max:
			if !gotF {
				out = append(out, fmt.Sprintf("probe %d is failed probe number %d in a row (maxFailed %d) but statusFailedFn was not called", i, run, max))
			}
			registered = false
		default:
			if gotF {
				out = append(out, fmt.Sprintf("probe %d: withdrawn after %d consecutive failed probes, maxFailed is %d", i, run, max))
				registered = false
			}
			if gotN {
				out = append(out, fmt.Sprintf("probe %d: statusNormalFn called although the probe failed or the proxy was registered", i))
				registered = true
			}
		}
	}
	return out
}

// ---- generation ----

var outcomeAlphabet = [2][]int{
	{oAccept, oRefuse, oTimeout, oStatus + 500},       // tcp: a status answer is just an accepted connection
	{oStatus + 200, oRefuse, oTimeout, oStatus + 500}, // http
}

func directedHealthCases() []hcase {
	ok, rf, to := oStatus+200, oRefuse, oTimeout
	bad := oStatus + 500
	cs := []hcase{
		// F-C19 (repaired by cd9309b): ok, fail, fail, ok, fail must not withdraw at maxFailed 3
		{1, 3, true, true, []int{ok, rf, rf, ok, rf}},
		{1, 3, true, true, []int{ok, rf, rf, ok, rf, rf, rf}},
		{0, 3, true, true, []int{oAccept, rf, rf, oAccept, rf, rf, rf}},
		{1, 2, true, true, []int{ok, bad, ok, bad, ok, bad, bad}},
		{1, 2, true, true, []int{ok, to, ok, to, to, ok}},
		{0, 2, true, true, []int{oAccept, to, oAccept, to, to, oAccept}},
		{1, 1, true, true, []int{bad, to, rf, ok, bad, ok}},
		{0, 1, true, true, []int{rf, to, oAccept, rf, oAccept}},
		{1, 4, true, true, []int{ok, rf, to, bad, rf, ok}},
		{1, 4, true, true, []int{ok, rf, to, bad, ok, rf, to}},
		{1, 0, true, true, []int{ok, rf, ok}},
		{0, -3, true, true, []int{oAccept, rf, oAccept}},
		{1, 2, true, true, []int{oStatus + 204, oStatus + 299, oStatus + 300, oStatus + 301, oStatus + 204}},
		{1, 1, true, true, []int{oStatus + 404, oStatus + 503, oAccept, oStatus + 200, oAccept}},
		{0, 2, true, true, []int{oStatus + 500, rf, oStatus + 404, rf, rf}},
		{1, 2, false, true, []int{ok, rf, rf, ok}},
		{1, 2, true, false, []int{ok, rf, rf, rf, ok}},
		{0, 1, false, false, []int{oAccept, rf, oAccept}},
	}
	return cs
}

func genHealthCases(cfg *hx.RunCfg) []hcase {
	g := hx.NewGen(cfg.Seed)
	cases := directedHealthCases()
	if cfg.Tier == "thorough" {
		// exhaustive: every sequence of length L over the four outcomes, maxFailed 1..4, both kinds
		L := 7
		total := 1
		for i := 0; i < L; i++ {
			total *= 4
		}
		for kind := 0; kind < 2; kind++ {
			for max := 1; max <= 4; max++ {
				for n := 0; n < total; n++ {
					p := make([]int, L)
					x := n
					for i := 0; i < L; i++ {
						p[i] = outcomeAlphabet[kind][x%4]
						x /= 4
					}
					cases = append(cases, hcase{kind, max, true, true, p})
				}
			}
		}
		return cases
	}
	for len(cases) < cfg.N {
		kind := g.Intn(2)
		max := 1 + g.Intn(4)
		if g.Chance(0.06) {
			max = -g.Intn(2)
		}
		L := 3 + g.Intn(5)
		p := make([]int, L)
		for i := range p {
			switch {
			case g.Chance(0.08) && kind == 1:
				p[i] = oStatus + []int{204, 299, 300, 301, 404, 503}[g.Intn(6)]
			case g.Chance(0.04) && kind == 1:
				p[i] = oAccept
			default:
				// successes a bit more frequent so that re-registration happens
				if g.Chance(0.4) {
					p[i] = outcomeAlphabet[kind][0]
				} else {
					p[i] = outcomeAlphabet[kind][1+g.Intn(3)]
				}
			}
		}
		c := hcase{kind, max, true, true, p}
		if g.Chance(0.03) {
			c.hasN = false
		}
		if g.Chance(0.03) {
			c.hasF = false
		}
		cases = append(cases, c)
	}
	return cases
}

func renderHealthCase(c hcase, ev [][]int) string {
	ps := make([]string, len(c.probes))
	for i, p := range c.probes {
		ps[i] = hx.Z(int64(p))
	}
	es := make([]string, len(ev))
	for i, e := range ev {
		xs := make([]string, len(e))
		for j, x := range e {
			xs[j] = hx.Z(int64(x))
		}
		es[i] = hx.List(xs)
	}
	return fmt.Sprintf("CHealth %d %s %s %s %s %s", c.kind, hx.Z(int64(c.maxFailed)), hx.Bool(c.hasN), hx.Bool(c.hasF),
		hx.List(ps), hx.List(es))
}

func runHealth(cfg *hx.RunCfg) error {
	cases := genHealthCases(cfg)
	workers := 24
	if cfg.Tier == "thorough" {
		workers = 128
	}
	results := make([]hresult, len(cases))
	var next, slowRuns, timingFlakes, reproduced atomic.Int64
	// An observation that looks wrong is reported only if it reproduces: the case is re-run with
	// three increasingly slow timing profiles and the first run that looks right is taken (a
	// scheduling hiccup does not survive that; a defect of the monitor is deterministic and fails
	// every time).  Once a handful of cases have reproduced through all profiles the defect is
	// established and further wrong-looking cases are reported as observed, to bound the run time.
	const establishedAfter = 5
	fast := hFast
	if cfg.Tier == "thorough" {
		// 128 monitors at once: wider margins
		fast = htiming{60 * time.Millisecond, 100 * time.Millisecond, 20 * time.Millisecond}
	}
	var wg sync.WaitGroup
	for w := 0; w < workers; w++ {
		wg.Add(1)
		ip := fmt.Sprintf("127.0.19.%d", 10+w%200)
		go func() {
			defer wg.Done()
			for {
				i := int(next.Add(1)) - 1
				if i >= len(cases) {
					return
				}
				r := runHealthCase(cases[i], ip, fast)
				if r.invalid != "" {
					// once more: a port may have been taken between two listens
					r = runHealthCase(cases[i], ip, fast)
				}
				if r.invalid == "" && !sameEvents(r.events, expectedCallbacks(cases[i])) && reproduced.Load() < establishedAfter {
					slowRuns.Add(1)
					absorbed := false
					for _, tm := range hSlow {
						r2 := runHealthCase(cases[i], ip, tm)
						if r2.invalid != "" {
							continue
						}
						r = r2
						if sameEvents(r2.events, expectedCallbacks(cases[i])) {
							absorbed = true
							break
						}
					}
					if absorbed {
						timingFlakes.Add(1)
					} else {
						reproduced.Add(1)
					}
				}
				results[i] = r
			}
		}()
	}
	wg.Wait()

	cf := &hx.CaseFile{
		Imports: "From FRP Require Import Corr.C19.\nOpen Scope Z_scope.\n",
		Typ:     "c19_case",
		Tail: "Definition M := Eval vm_compute in mismatches c19_check_case cases.\nPrint M.\n" +
			"Definition NWITHDRAWN := Eval vm_compute in count_if c19_case_withdraws cases.\nPrint NWITHDRAWN.\n" +
			"Definition NREREGISTERED := Eval vm_compute in count_if c19_case_reregisters cases.\nPrint NREREGISTERED.\n" +
			"Definition NRESTARTEDCOUNT := Eval vm_compute in count_if c19_case_restarts_count cases.\nPrint NRESTARTEDCOUNT.\n",
	}
	seen := map[string]bool{}
	distinct := 0
	skipped := 0
	dist := map[string]int{}
	var failures []map[string]any
	var samples []string
	for i, c := range cases {
		r := results[i]
		if r.invalid != "" {
			skipped++
			dist["skipped:"+strings.SplitN(r.invalid, ":", 2)[0]]++
			continue
		}
		line := renderHealthCase(c, r.events)
		cf.Cases = append(cf.Cases, line)
		fired := 0
		for _, e := range r.events {
			fired += len(e)
		}
		if !seen[c.key()] {
			seen[c.key()] = true
			if fired > 0 {
				distinct++
			}
		}
		dist[fmt.Sprintf("kind:%s", []string{"tcp", "http"}[c.kind])]++
		dist[fmt.Sprintf("maxFailed:%d", c.maxFailed)]++
		dist[fmt.Sprintf("len:%d", len(c.probes))]++
		for _, o := range c.probes {
			switch {
			case o == oAccept:
				dist["outcome:accept"]++
			case o == oRefuse:
				dist["outcome:refuse"]++
			case o == oTimeout:
				dist["outcome:timeout"]++
			case (o-oStatus)/100 == 2:
				dist["outcome:2xx"]++
			default:
				dist["outcome:non-2xx"]++
			}
		}
		dist[fmt.Sprintf("callbacks:%d", fired)]++
		if r.stalledAt >= 0 {
			failures = append(failures, map[string]any{"key": "health-monitor:stopped-probing",
				"what": fmt.Sprintf("real health.Monitor: no probe %d was made within ten intervals (after outcomes %v); the monitor has stopped", r.stalledAt, c.probes[:r.stalledAt]),
				"case": line})
			continue
		}
		for _, v := range healthViolations(c, r.events) {
			key := "health-monitor:" + strings.SplitN(v, ":", 2)[0]
			if strings.Contains(v, "withdrawn after") {
				key = "health-monitor:withdrawn-before-maxFailed-consecutive-failures"
			} else if strings.Contains(v, "statusFailedFn was not called") {
				key = "health-monitor:not-withdrawn-at-maxFailed"
			} else if strings.Contains(v, "statusNormalFn was not called") {
				key = "health-monitor:not-registered-after-success"
			} else {
				key = "health-monitor:registered-without-success"
			}
			failures = append(failures, map[string]any{"key": key, "what": "real health.Monitor: " + v, "case": line})
		}
		if len(samples) < 4 && i%7 == 0 {
			samples = append(samples, line)
		}
	}
	if len(cf.Cases) == 0 {
		return fmt.Errorf("no valid health case (all %d skipped)", skipped)
	}
	if skipped*10 > len(cases) {
		return fmt.Errorf("%d of %d health cases could not be set up", skipped, len(cases))
	}
	if err := cf.Write(cfg.Out); err != nil {
		return err
	}
	keys := make([]string, 0, len(dist))
	for k := range dist {
		keys = append(keys, k)
	}
	sort.Strings(keys)
	cfg.St["cases"] = len(cf.Cases)
	cfg.St["distinct_nontrivial"] = distinct
	cfg.St["skipped"] = skipped
	cfg.St["samples"] = samples
	cfg.St["distribution"] = dist
	cfg.St["impl_failures"] = failures
	cfg.St["timing_ms"] = map[string]any{"interval": hFast.interval.Milliseconds(), "timeout": hFast.timeout.Milliseconds(), "grace": hFast.grace.Milliseconds()}
	cfg.St["rerun_slow"] = slowRuns.Load()
	cfg.St["timing_flakes_absorbed"] = timingFlakes.Load()
	cfg.St["reproduced_through_all_profiles"] = reproduced.Load()
	return nil
}
