(* The two-level route table refines the flat key set of Model/Group.v. *)
From Coq Require Import Lia.
From FRP Require Import Model.Group Model.GroupRoutes Proofs.GroupProofs.
Import Grp.
Open Scope Z_scope.

Lemma aget_aset_same : forall V (m : amap V) k v, aget (aset m k v) k = Some v.
Proof. intros. unfold aset. simpl. rewrite Z.eqb_refl. reflexivity. Qed.

Lemma aget_aset_other : forall V (m : amap V) k k' v, k <> k' -> aget (aset m k v) k' = aget m k'.
Proof. intros V m k k' v H. unfold aset. simpl. apply Z.eqb_neq in H. rewrite H. reflexivity. Qed.

Definition key_eqb (d l u d' l' u' : Z) : bool := (d =? d') && (l =? l') && (u =? u').

Lemma zmem_filter_neq : forall x l vs, zmem x (filter (fun y => negb (y =? l)) vs) = zmem x vs && negb (x =? l).
Proof.
  intros x l vs. destruct (zmem x (filter (fun y => negb (y =? l)) vs)) eqn:E.
  - apply zmem_In in E. apply filter_In in E. destruct E as [E1 E2]. apply zmem_In in E1. rewrite E1, E2. reflexivity.
  - destruct (zmem x vs) eqn:E1; [|reflexivity]. destruct (x =? l) eqn:E2; [reflexivity|]. simpl.
    exfalso. apply zmem_In in E1. assert (In x (filter (fun y => negb (y =? l)) vs)) by (apply filter_In; rewrite E2; auto).
    apply zmem_In in H. congruence.
Qed.

(* Del removes exactly the matching (domain, location, user) entry and nothing else *)
Theorem rt_exist_del : forall t d l u d' l' u',
  rt_exist (rt_del t d l u) d' l' u' = rt_exist t d' l' u' && negb (key_eqb d l u d' l' u').
Proof.
  intros t d l u d' l' u'. unfold rt_del, key_eqb.
  destruct (aget t d) as [ub|] eqn:Ed.
  2:{ destruct (d =? d') eqn:E; [|rewrite andb_true_r; reflexivity]. apply Z.eqb_eq in E. subst.
      unfold rt_exist. rewrite Ed. reflexivity. }
  destruct (aget ub u) as [vs|] eqn:Eu.
  2:{ destruct (d =? d') eqn:E; [|rewrite andb_true_r; reflexivity]. apply Z.eqb_eq in E. subst. simpl.
      destruct (u =? u') eqn:E2; [|rewrite andb_false_r, andb_true_r; reflexivity]. apply Z.eqb_eq in E2. subst.
      unfold rt_exist. rewrite Ed, Eu. reflexivity. }
  unfold rt_exist. destruct (d =? d') eqn:E.
  - apply Z.eqb_eq in E. subst d'. rewrite aget_aset_same, Ed. simpl.
    destruct (u =? u') eqn:E2.
    + apply Z.eqb_eq in E2. subst u'. rewrite Eu, zmem_filter_neq.
      rewrite andb_true_r. rewrite (Z.eqb_sym l l'). reflexivity.
    + rewrite ?andb_false_r, ?andb_true_r. reflexivity.
  - rewrite aget_aset_other by (apply Z.eqb_neq; exact E). rewrite andb_true_r. reflexivity.
Qed.

Theorem rt_add_conflict : forall t d l u, rt_add t d l u = None <-> rt_exist t d l u = true.
Proof. intros. unfold rt_add. destruct (rt_exist t d l u); split; congruence. Qed.

Theorem rt_exist_add : forall t d l u t' d' l' u',
  rt_add t d l u = Some t' ->
  rt_exist t' d' l' u' = rt_exist t d' l' u' || key_eqb d l u d' l' u'.
Proof.
  intros t d l u t' d' l' u' H. unfold rt_add in H. destruct (rt_exist t d l u) eqn:Ex; [discriminate|].
  inversion H; subst t'. clear H. unfold key_eqb, rt_exist.
  destruct (d =? d') eqn:E.
  - apply Z.eqb_eq in E. subst d'. rewrite aget_aset_same. simpl.
    destruct (u =? u') eqn:E2.
    + apply Z.eqb_eq in E2. subst u'. rewrite andb_true_r.
      destruct (aget t d) as [ub|]; [destruct (aget ub u) as [vs|]|]; simpl; rewrite (Z.eqb_sym l' l); apply orb_comm.
    + rewrite ?andb_false_r, ?orb_false_r.
      destruct (aget t d) as [ub|]; reflexivity.
  - rewrite aget_aset_other by (apply Z.eqb_neq; exact E). simpl. rewrite orb_false_r. reflexivity.
Qed.

Lemma rmem_rdel : forall r r' l, rmem r' (rdel r l) = rmem r' l && negb (lz_eqb r r').
Proof.
  intros r r' l. destruct (lz_eqb r r') eqn:E.
  - apply lz_eqb_eq in E. subst. rewrite rmem_rdel_same, andb_false_r. reflexivity.
  - rewrite rmem_rdel_other; [rewrite andb_true_r; reflexivity|]. intro; subst. rewrite lz_eqb_refl in E. discriminate.
Qed.

Lemma lz3 : forall d l u d' l' u', lz_eqb [d; l; u] [d'; l'; u'] = key_eqb d l u d' l' u'.
Proof. intros. unfold key_eqb. simpl. rewrite andb_true_r, andb_assoc. reflexivity. Qed.

(* the flat set of Model/Group.v is an exact abstraction of the two-level table *)
Theorem refines_del : forall t used d l u, refines t used -> refines (rt_del t d l u) (rdel [d; l; u] used).
Proof. intros t used d l u R d' l' u'. rewrite rt_exist_del, rmem_rdel, lz3, R. reflexivity. Qed.

Theorem refines_add : forall t used d l u t', refines t used -> rt_add t d l u = Some t' -> refines t' ([d; l; u] :: used).
Proof.
  intros t used d l u t' R H d' l' u'. rewrite (rt_exist_add _ _ _ _ _ _ _ _ H), R.
  change (rmem [d'; l'; u'] ([d; l; u] :: used)) with (lz_eqb [d'; l'; u'] [d; l; u] || rmem [d'; l'; u'] used).
  rewrite lz3. unfold key_eqb. rewrite (Z.eqb_sym d' d), (Z.eqb_sym l' l), (Z.eqb_sym u' u). apply orb_comm.
Qed.

Theorem refines_conflict : forall t used d l u, refines t used -> (rt_add t d l u = None <-> rmem [d; l; u] used = true).
Proof. intros t used d l u R. rewrite rt_add_conflict, R. tauto. Qed.

Theorem refines_init : refines [] [].
Proof. intros d l u. reflexivity. Qed.

(* emptying one (domain, location, user) leaves every other route of the same domain in place *)
Corollary del_keeps_neighbours : forall t d l u l' u',
  (l', u') <> (l, u) -> rt_exist (rt_del t d l u) d l' u' = rt_exist t d l' u'.
Proof.
  intros t d l u l' u' H. rewrite rt_exist_del. unfold key_eqb.
  destruct ((d =? d) && (l =? l') && (u =? u')) eqn:E; [|rewrite andb_true_r; reflexivity].
  apply andb_prop in E. destruct E as [E E3]. apply andb_prop in E. destruct E as [_ E2].
  apply Z.eqb_eq in E2, E3. subst. congruence.
Qed.
