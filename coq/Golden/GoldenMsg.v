(* PINNED copy of gen/GenMsg.v at the released protocol (frp pinned commit): the wire schema later trees must stay compatible with *)
From FRP Require Import Model.GenTypes.
Local Open Scope string_scope.
Definition golden_T1_translated : bool := true.
Definition golden_type_consts : list (string * Z) := [
  ("TypeLogin", 111%Z);
  ("TypeLoginResp", 49%Z);
  ("TypeNewProxy", 112%Z);
  ("TypeNewProxyResp", 50%Z);
  ("TypeCloseProxy", 99%Z);
  ("TypeNewWorkConn", 119%Z);
  ("TypeReqWorkConn", 114%Z);
  ("TypeStartWorkConn", 115%Z);
  ("TypeNewVisitorConn", 118%Z);
  ("TypeNewVisitorConnResp", 51%Z);
  ("TypePing", 104%Z);
  ("TypePong", 52%Z);
  ("TypeUDPPacket", 117%Z);
  ("TypeNatHoleVisitor", 105%Z);
  ("TypeNatHoleClient", 110%Z);
  ("TypeNatHoleResp", 109%Z);
  ("TypeNatHoleSid", 53%Z);
  ("TypeNatHoleReport", 54%Z)
].
Definition golden_type_map : list (string * string) := [
  ("TypeLogin", "Login");
  ("TypeLoginResp", "LoginResp");
  ("TypeNewProxy", "NewProxy");
  ("TypeNewProxyResp", "NewProxyResp");
  ("TypeCloseProxy", "CloseProxy");
  ("TypeNewWorkConn", "NewWorkConn");
  ("TypeReqWorkConn", "ReqWorkConn");
  ("TypeStartWorkConn", "StartWorkConn");
  ("TypeNewVisitorConn", "NewVisitorConn");
  ("TypeNewVisitorConnResp", "NewVisitorConnResp");
  ("TypePing", "Ping");
  ("TypePong", "Pong");
  ("TypeUDPPacket", "UDPPacket");
  ("TypeNatHoleVisitor", "NatHoleVisitor");
  ("TypeNatHoleClient", "NatHoleClient");
  ("TypeNatHoleResp", "NatHoleResp");
  ("TypeNatHoleSid", "NatHoleSid");
  ("TypeNatHoleReport", "NatHoleReport")
].
Definition golden_structs : list (string * list field) := [
  ("ClientSpec", [("Type", "type", KStr, true); ("AlwaysAuthPass", "always_auth_pass", KBool, true)]);
  ("Login", [("Version", "version", KStr, true); ("Hostname", "hostname", KStr, true); ("Os", "os", KStr, true); ("Arch", "arch", KStr, true); ("User", "user", KStr, true); ("PrivilegeKey", "privilege_key", KStr, true); ("Timestamp", "timestamp", KInt, true); ("RunID", "run_id", KStr, true); ("Metas", "metas", KMapSS, true); ("ClientSpec", "client_spec", (KStruct [("Type", "type", KStr, true); ("AlwaysAuthPass", "always_auth_pass", KBool, true)]), true); ("PoolCount", "pool_count", KInt, true)]);
  ("LoginResp", [("Version", "version", KStr, true); ("RunID", "run_id", KStr, true); ("Error", "error", KStr, true)]);
  ("NewProxy", [("ProxyName", "proxy_name", KStr, true); ("ProxyType", "proxy_type", KStr, true); ("UseEncryption", "use_encryption", KBool, true); ("UseCompression", "use_compression", KBool, true); ("BandwidthLimit", "bandwidth_limit", KStr, true); ("BandwidthLimitMode", "bandwidth_limit_mode", KStr, true); ("Group", "group", KStr, true); ("GroupKey", "group_key", KStr, true); ("Metas", "metas", KMapSS, true); ("Annotations", "annotations", KMapSS, true); ("RemotePort", "remote_port", KInt, true); ("CustomDomains", "custom_domains", KStrs, true); ("SubDomain", "subdomain", KStr, true); ("Locations", "locations", KStrs, true); ("HTTPUser", "http_user", KStr, true); ("HTTPPwd", "http_pwd", KStr, true); ("HostHeaderRewrite", "host_header_rewrite", KStr, true); ("Headers", "headers", KMapSS, true); ("ResponseHeaders", "response_headers", KMapSS, true); ("RouteByHTTPUser", "route_by_http_user", KStr, true); ("Sk", "sk", KStr, true); ("AllowUsers", "allow_users", KStrs, true); ("Multiplexer", "multiplexer", KStr, true)]);
  ("NewProxyResp", [("ProxyName", "proxy_name", KStr, true); ("RemoteAddr", "remote_addr", KStr, true); ("Error", "error", KStr, true)]);
  ("CloseProxy", [("ProxyName", "proxy_name", KStr, true)]);
  ("NewWorkConn", [("RunID", "run_id", KStr, true); ("PrivilegeKey", "privilege_key", KStr, true); ("Timestamp", "timestamp", KInt, true)]);
  ("ReqWorkConn", []);
  ("StartWorkConn", [("ProxyName", "proxy_name", KStr, true); ("SrcAddr", "src_addr", KStr, true); ("DstAddr", "dst_addr", KStr, true); ("SrcPort", "src_port", KInt, true); ("DstPort", "dst_port", KInt, true); ("Error", "error", KStr, true)]);
  ("NewVisitorConn", [("RunID", "run_id", KStr, true); ("ProxyName", "proxy_name", KStr, true); ("SignKey", "sign_key", KStr, true); ("Timestamp", "timestamp", KInt, true); ("UseEncryption", "use_encryption", KBool, true); ("UseCompression", "use_compression", KBool, true)]);
  ("NewVisitorConnResp", [("ProxyName", "proxy_name", KStr, true); ("Error", "error", KStr, true)]);
  ("Ping", [("PrivilegeKey", "privilege_key", KStr, true); ("Timestamp", "timestamp", KInt, true)]);
  ("Pong", [("Error", "error", KStr, true)]);
  ("UDPPacket", [("Content", "c", KStr, true); ("LocalAddr", "l", (KPtr [("IP", "IP", KStr, false); ("Port", "Port", KInt, false); ("Zone", "Zone", KStr, false)]), true); ("RemoteAddr", "r", (KPtr [("IP", "IP", KStr, false); ("Port", "Port", KInt, false); ("Zone", "Zone", KStr, false)]), true)]);
  ("NatHoleVisitor", [("TransactionID", "transaction_id", KStr, true); ("ProxyName", "proxy_name", KStr, true); ("PreCheck", "pre_check", KBool, true); ("Protocol", "protocol", KStr, true); ("SignKey", "sign_key", KStr, true); ("Timestamp", "timestamp", KInt, true); ("MappedAddrs", "mapped_addrs", KStrs, true); ("AssistedAddrs", "assisted_addrs", KStrs, true)]);
  ("NatHoleClient", [("TransactionID", "transaction_id", KStr, true); ("ProxyName", "proxy_name", KStr, true); ("Sid", "sid", KStr, true); ("MappedAddrs", "mapped_addrs", KStrs, true); ("AssistedAddrs", "assisted_addrs", KStrs, true)]);
  ("PortsRange", [("From", "from", KInt, true); ("To", "to", KInt, true)]);
  ("NatHoleDetectBehavior", [("Role", "role", KStr, true); ("Mode", "mode", KInt, true); ("TTL", "ttl", KInt, true); ("SendDelayMs", "send_delay_ms", KInt, true); ("ReadTimeoutMs", "read_timeout", KInt, true); ("CandidatePorts", "candidate_ports", (KStructs [("From", "from", KInt, true); ("To", "to", KInt, true)]), true); ("SendRandomPorts", "send_random_ports", KInt, true); ("ListenRandomPorts", "listen_random_ports", KInt, true)]);
  ("NatHoleResp", [("TransactionID", "transaction_id", KStr, true); ("Sid", "sid", KStr, true); ("Protocol", "protocol", KStr, true); ("CandidateAddrs", "candidate_addrs", KStrs, true); ("AssistedAddrs", "assisted_addrs", KStrs, true); ("DetectBehavior", "detect_behavior", (KStruct [("Role", "role", KStr, true); ("Mode", "mode", KInt, true); ("TTL", "ttl", KInt, true); ("SendDelayMs", "send_delay_ms", KInt, true); ("ReadTimeoutMs", "read_timeout", KInt, true); ("CandidatePorts", "candidate_ports", (KStructs [("From", "from", KInt, true); ("To", "to", KInt, true)]), true); ("SendRandomPorts", "send_random_ports", KInt, true); ("ListenRandomPorts", "listen_random_ports", KInt, true)]), true); ("Error", "error", KStr, true)]);
  ("NatHoleSid", [("TransactionID", "transaction_id", KStr, true); ("Sid", "sid", KStr, true); ("Response", "response", KBool, true); ("Nonce", "nonce", KStr, true)]);
  ("NatHoleReport", [("Sid", "sid", KStr, true); ("Success", "success", KBool, true)])
].
