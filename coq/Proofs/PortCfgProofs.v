(* C09 — proofs about Model/PortCfg.v and the reflective reading of today's translator facts. *)
From Coq Require Import Lia.
From FRP Require Import Model.Ports Model.PortCfg gen.GenC09Facts.
Open Scope Z_scope.

(* ---------- today's source, as booleans ---------- *)
Fixpoint strs_eqb (a b : list string) : bool :=
  match a, b with
  | [], [] => true
  | x :: a', y :: b' => String.eqb x y && strs_eqb a' b'
  | _, _ => false
  end.

Definition handler_sync (name : string) (l : list (string * bool)) : bool :=
  existsb (fun e => String.eqb (fst e) name && negb (snd e)) l &&
  forallb (fun e => negb (String.eqb (fst e) name) || negb (snd e)) l.

(* registered handlers are called by the read loop and by nothing else; only the read loop closes doneCh,
   and it does so when its own read fails, i.e. never while it is inside a handler; NewProxy and CloseProxy
   are registered without AsyncHandler; Control.worker tears the proxies down after waiting for Done *)
Definition today_inline : bool :=
  C09Facts_translated &&
  strs_eqb c09_run_spawns ["sendLoop"; "readLoop"]%string &&
  strs_eqb c09_handler_sites ["readLoop"]%string &&
  strs_eqb c09_done_close_sites ["readLoop"]%string &&
  strs_eqb c09_readloop ["Read"; "IfErr[CloseDone;Return]"; "Dispatch"]%string &&
  handler_sync "NewProxy" c09_handlers && handler_sync "CloseProxy" c09_handlers &&
  strs_eqb c09_worker ["WaitDone"; "Teardown"]%string.

(* every number of an allowPorts list is trimmed before it is parsed; the list is split at "," and each item
   at "-"; the legacy conversion feeds allow_ports through that parser and copies max_ports_per_client *)
Definition today_trim : bool :=
  C09Facts_translated &&
  match c09_parse_calls with [] => false | _ => forallb snd c09_parse_calls end &&
  strs_eqb c09_parse_seps [","; "-"]%string &&
  String.eqb c09_legacy_allow "types.NewPortsRangeSliceFromString(conf.AllowPortsStr)" &&
  String.eqb c09_legacy_allow_src "s.Key(""allow_ports"").String()" &&
  String.eqb c09_legacy_quota "conf.MaxPortsPerClient".

(* ---------- blanks around the numbers of a list do not matter ---------- *)
Definition all_space (l : chars) : Prop := forallb is_space l = true.
Definition nonspace_head (c : chars) : bool := match c with [] => true | a :: _ => negb (is_space a) end.
(* no blank at either end *)
Definition tight (c : chars) : Prop := nonspace_head c = true /\ nonspace_head (rev c) = true.

Lemma trim_left_space_app : forall l x, all_space l -> trim_left (l ++ x) = trim_left x.
Proof.
  induction l as [|a l IH]; intros x H; [reflexivity|].
  unfold all_space in H. simpl in H. apply andb_prop in H. destruct H as [Ha Hl].
  simpl. rewrite Ha. apply IH. exact Hl.
Qed.

Lemma trim_left_all_space : forall l, all_space l -> trim_left l = [].
Proof. intros l H. rewrite <- (app_nil_r l). rewrite trim_left_space_app by assumption. reflexivity. Qed.

Lemma trim_left_tight : forall c r, c <> [] -> nonspace_head c = true -> trim_left (c ++ r) = c ++ r.
Proof.
  intros [|a c] r N H; [congruence|]. simpl in *. apply negb_true_iff in H. rewrite H. reflexivity.
Qed.

Lemma all_space_rev : forall l, all_space l -> all_space (rev l).
Proof.
  intros l H. unfold all_space in *. rewrite forallb_forall in *. intros x Hx. apply H. apply in_rev. assumption.
Qed.

Theorem trim_space_blank_insensitive : forall l c r,
  all_space l -> all_space r -> tight c -> trim_space (l ++ c ++ r) = c.
Proof.
  intros l c r Hl Hr [T1 T2]. unfold trim_space. rewrite trim_left_space_app by assumption.
  destruct c as [|a c'].
  - simpl. rewrite (trim_left_all_space r Hr). reflexivity.
  - rewrite trim_left_tight by (assumption || discriminate).
    rewrite rev_app_distr. rewrite trim_left_space_app by (apply all_space_rev; assumption).
    assert (N : rev (a :: c') <> []) by (simpl; intros X; apply app_eq_nil in X; destruct X; discriminate).
    rewrite <- (app_nil_r (rev (a :: c'))). rewrite trim_left_tight by assumption.
    rewrite app_nil_r. apply rev_involutive.
Qed.

Theorem parse_num_blank_insensitive : forall l c r,
  all_space l -> all_space r -> tight c -> parse_num true (l ++ c ++ r) = parse_int c.
Proof. intros. unfold parse_num. rewrite trim_space_blank_insensitive by assumption. reflexivity. Qed.

(* the operator's way of writing lists in an ini file, through the whole parser *)
Theorem blanks_in_list_examples :
  parse_ports true "20000-20010, 20020" = Some [(20000, 20010, 0); (0, 0, 20020)] /\
  parse_ports true " 4000 - 4010 ,4020,	4030" = Some [(4000, 4010, 0); (0, 0, 4020); (0, 0, 4030)] /\
  parse_ports true "2000-3000,3001,3003,4000-50000" = Some [(2000, 3000, 0); (0, 0, 3001); (0, 0, 3003); (4000, 50000, 0)] /\
  parse_ports true "3000-2000" = None /\ parse_ports true "1,,2" = None /\ parse_ports true "1-2-3" = None.
Proof. repeat split; reflexivity. Qed.

(* without the per-item trim the same text is rejected, and the legacy conversion turns the rejection into
   "no restriction" *)
Theorem untrimmed_items_refuted :
  parse_ports false "20000-20010, 20020" = None /\
  legacy_allow_ports false "20000-20010, 20020" = [] /\
  legacy_allow_ports true "20000-20010, 20020" = [(20000, 20010, 0); (0, 0, 20020)].
Proof. split; [reflexivity|split; reflexivity]. Qed.

(* ---------- the dispatcher ---------- *)
Lemma d_inline_inv : forall evs s s',
  (d_busy s && d_done s = false) -> d_run true evs s = Some s' -> d_busy s' && d_done s' = false.
Proof.
  induction evs as [|e r IH]; intros s s' H R; [simpl in R; inversion R; subst; assumption|].
  cbn [d_run] in R. destruct (d_step true s e) as [s1|] eqn:E; [|discriminate].
  apply (IH s1 s'); [|assumption].
  unfold d_step in E. destruct e; simpl in E.
  - destruct (d_busy s || d_done s); inversion E; reflexivity.
  - discriminate.
  - destruct (d_busy s); inversion E; reflexivity.
  - destruct (d_busy s || d_done s); inversion E; reflexivity.
Qed.

(* handlers inside the read loop: whenever doneCh is closed no handler is running, for every sequence of
   arrivals, returns and connection errors — so the teardown that waits for Done never overlaps a
   registration of its own session *)
Theorem done_excludes_handler : forall evs s,
  d_run true evs d_init = Some s -> d_done s = true -> d_busy s = false.
Proof.
  intros evs s R D. pose proof (d_inline_inv evs d_init s eq_refl R) as H. rewrite D in H.
  destruct (d_busy s); [discriminate|reflexivity].
Qed.

(* ... and once it is closed no handler starts any more *)
Theorem no_handler_after_done : forall s e s',
  d_done s = true -> d_step true s e = Some s' -> d_busy s' = false /\ d_done s' = true.
Proof.
  intros s e s' D H. unfold d_step in H. rewrite D in H. destruct e; simpl in H.
  - rewrite orb_true_r in H. discriminate.
  - discriminate.
  - destruct (d_busy s); inversion H; subst; auto.
  - rewrite orb_true_r in H. discriminate.
Qed.

(* with a separate handle loop the guarantee is gone *)
Theorem separate_handle_loop_refuted :
  exists s, d_run false [DMsg; DStart; DConnError] d_init = Some s /\ d_done s = true /\ d_busy s = true.
Proof. eexists. split; [reflexivity|split; reflexivity]. Qed.
