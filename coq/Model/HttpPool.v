(* C06 — executable model of the HTTP layer of pkg/util/vhost/http.go: HTTPReverseProxy.Register /
   UnRegister, serveRouted -> injectRequestInfoToCtx (route decided per request), the Rewrite
   closure (connection-pool key = synthetic URL host), http.Transport's idle-connection pool
   (reuse before DialContext is consulted) and DialContext (dial by the route config chosen when the request was routed).  Model only: no proofs here.

   A request is two steps so that connections can be in flight while routes change:
   HBegin (route, obtain a backend connection, reach the backend) and HEnd (response done, the
   connection goes back to the idle pool under the key it was created for).
   net/http's own choices are oracle arguments: [dialed] = the Transport did not reuse an idle
   connection for this request (observed by the harness: was CreateConnFn called). *)
From FRP Require Export Model.Router Model.RouteSpec.
Open Scope Z_scope.

(* RouteConfig: Domain, Location, RouteByHTTPUser as registered; CreateConnFn leads to [rc_owner];
   id set by HTTPReverseProxy.Register (0 when the route was put into the Routers directly, as
   server/group/http.go does); [rc_endpoint] = what ChooseEndpointFn returns (the group member's
   proxy name; empty when there is no ChooseEndpointFn) *)
Record hp_rc := mkRc { rc_dom : bytes; rc_loc : bytes; rc_user : bytes; rc_owner : Z; rc_id : Z; rc_endpoint : bytes }.

(* req.URL.Host as set by Rewrite: {domain}.{b64 location}.{b64 routeByHTTPUser}.{b64 endpoint}.{id}
   (base64 and '.'-joining are injective on the components: modelled as the tuple), or req.Host
   when no route config was found *)
Inductive hp_key :=
| KRoute (dom loc user endpoint : bytes) (id : Z)
| KHost (host : bytes).

Definition hp_key_eqb (a b : hp_key) : bool :=
  match a, b with
  | KRoute d l u e i, KRoute d' l' u' e' i' =>
      bytes_eqb d d' && bytes_eqb l l' && bytes_eqb u u' && bytes_eqb e e' && (i =? i')
  | KHost h, KHost h' => bytes_eqb h h'
  | _, _ => false
  end.

Record hp_conn := mkConn { cn_key : hp_key; cn_backend : Z }.

Record hp_state := mkHp {
  hp_routes : rstate hp_rc;          (* vhostRouter *)
  hp_seq : Z;                        (* registerSeq *)
  hp_idle : list hp_conn;            (* Transport idle pool, most recently idled first *)
  hp_busy : list (Z * hp_conn)       (* connections carrying a request: request id -> connection *)
}.
Definition hp_init : hp_state := mkHp rt_empty 0 [] [].

Inductive hp_out :=
| HReached (backend : Z)     (* forwarded; this backend received the request *)
| HNotFound                  (* 404 page, no backend reached *)
| HRegOk | HRegConflict | HDone.

Inductive hp_op :=
| HRegister (d l u : bytes) (owner : Z)
| HUnRegister (d l u : bytes)
| HBegin (rid : Z) (cconn proto : Z) (host path user : bytes) (dialed : bool)
| HEnd (rid : Z)
(* server/group/http.go, single-member groups: the first member of a group puts the route into the
   shared Routers itself (HTTPGroup.Register: vhostRouter.Add, no registration number), the last
   member leaving removes it (HTTPGroup.UnRegister: vhostRouter.Del, idle connections kept) *)
| HGroupJoin (name d l u : bytes) (owner : Z)
| HGroupLeave (d l u : bytes)
(* a request whose routing decision (injectRequestInfoToCtx: route config and pool key) is taken BEFORE,
   and whose round trip (idle-pool look-up, DialContext) happens AFTER, the Register / UnRegister
   [between] of another goroutine; HBegin is the case with nothing in between *)
| HBeginRaced (rid : Z) (cconn proto : Z) (host path user : bytes) (dialed : bool) (between : hp_op)
(* an HTTP CONNECT request at the vhost HTTP port (serveRouted -> connectHandler): routed with the
   empty path and the Proxy-Authorization user, CreateConnection(byEndpoint = false), the connection
   is hijacked and joined -- never pooled *)
| HConnect (host user : bytes).

(* remove the first idle connection with this key (Transport.getIdleConn) *)
Fixpoint hp_take (k : hp_key) (l : list hp_conn) : option (hp_conn * list hp_conn) :=
  match l with
  | [] => None
  | c :: l' => if hp_key_eqb k (cn_key c) then Some (c, l')
               else match hp_take k l' with Some (c', r) => Some (c', c :: r) | None => None end
  end.

Fixpoint hp_take_busy (rid : Z) (l : list (Z * hp_conn)) : option (hp_conn * list (Z * hp_conn)) :=
  match l with
  | [] => None
  | (i, c) :: l' => if i =? rid then Some (c, l')
                    else match hp_take_busy rid l' with Some (c', r) => Some (c', (i, c) :: r) | None => None end
  end.

(* Rewrite closure: the pool key of a request, decided when the request is routed *)
Definition hp_key_of (st : hp_state) (host path user : bytes) : hp_key :=
  match rt_get_vhost (hp_routes st) (rt_canon_or_empty host) path user with
  | Some r => let rc := rt_pay r in KRoute (rc_dom rc) (rc_loc rc) (rc_user rc) (rc_endpoint rc) (rc_id rc)
  | None => KHost host
  end.

(* injectRequestInfoToCtx: the route config chosen when the request is routed (context value RouteConfigKey) *)
Definition hp_routed (st : hp_state) (host path user : bytes) : option (route hp_rc) :=
  rt_get_vhost (hp_routes st) (rt_canon_or_empty host) path user.

(* Transport.RoundTrip with the decided key and route config: reuse an idle connection of that key, or
   DialContext, which creates the connection with the CreateConnFn of the ROUTED config (no second
   look-up); a request that had no route config is not dialled (ErrNoRouteFound -> ErrorHandler -> 404).
   [st] is the state at the time of the round trip.
   None = the observed Transport choice is not one the model allows *)
Definition hp_roundtrip (st : hp_state) (routed : option (route hp_rc)) (key : hp_key) (rid : Z) (dialed : bool)
  : option (hp_state * hp_out) :=
  if dialed then
    match routed with
    | Some r =>
        let c := mkConn key (rc_owner (rt_pay r)) in
        Some (mkHp (hp_routes st) (hp_seq st) (hp_idle st) ((rid, c) :: hp_busy st), HReached (cn_backend c))
    | None => Some (st, HNotFound)
    end
  else
    match hp_take key (hp_idle st) with
    | Some (c, idle') =>
        Some (mkHp (hp_routes st) (hp_seq st) idle' ((rid, c) :: hp_busy st), HReached (cn_backend c))
    | None => None
    end.

(* Register / UnRegister as state transformers (anything else: identity) *)
Definition hp_reg_step (st : hp_state) (o : hp_op) : hp_state :=
  match o with
  | HRegister d l u owner =>
      let id := hp_seq st + 1 in
      match rt_add (hp_routes st) d l u (mkRc d l u owner id []) with
      | Some rs => mkHp rs id (hp_idle st) (hp_busy st)
      | None => mkHp (hp_routes st) id (hp_idle st) (hp_busy st)
      end
  | HUnRegister d l u => mkHp (rt_del (hp_routes st) d l u) (hp_seq st) [] (hp_busy st)
  | _ => st
  end.

Definition hp_step (st : hp_state) (o : hp_op) : option (hp_state * hp_out) :=
  match o with
  | HRegister d l u owner =>
      (* routeCfg.id = atomic.AddUint64(&rp.registerSeq, 1); vhostRouter.Add(...) *)
      let id := hp_seq st + 1 in
      match rt_add (hp_routes st) d l u (mkRc d l u owner id []) with
      | Some rs => Some (mkHp rs id (hp_idle st) (hp_busy st), HRegOk)
      | None => Some (mkHp (hp_routes st) id (hp_idle st) (hp_busy st), HRegConflict)
      end
  | HUnRegister d l u =>
      (* vhostRouter.Del(...); transport.CloseIdleConnections() *)
      Some (mkHp (rt_del (hp_routes st) d l u) (hp_seq st) [] (hp_busy st), HDone)
  | HBegin rid _ _ host path user dialed =>
      (* injectRequestInfoToCtx: rc := GetRouteConfig(CanonicalHost(req.Host), req.URL.Path, user) *)
      (* serveRouted (since e5418a8): a request without a route config is answered 404 right here and never
         reaches the Transport -- its URL host would be its own Host header, which may spell the pool
         key of a route *)
      match hp_routed st host path user with
      | None => Some (st, HNotFound)
      | Some _ => hp_roundtrip st (hp_routed st host path user) (hp_key_of st host path user) rid dialed
      end
  | HBeginRaced rid _ _ host path user dialed between =>
      match hp_routed st host path user with
      | None => Some (hp_reg_step st between, HNotFound)     (* answered before anything can overtake it *)
      | Some _ => hp_roundtrip (hp_reg_step st between) (hp_routed st host path user) (hp_key_of st host path user) rid dialed
      end
  | HEnd rid =>
      match hp_take_busy rid (hp_busy st) with
      | Some (c, busy') => Some (mkHp (hp_routes st) (hp_seq st) (c :: hp_idle st) busy', HDone)
      | None => Some (st, HDone)
      end
  | HGroupJoin name d l u owner =>
      match rt_add (hp_routes st) d l u (mkRc d l u owner 0 name) with
      | Some rs => Some (mkHp rs (hp_seq st) (hp_idle st) (hp_busy st), HRegOk)
      | None => Some (st, HRegConflict)
      end
  | HGroupLeave d l u =>
      Some (mkHp (rt_del (hp_routes st) d l u) (hp_seq st) (hp_idle st) (hp_busy st), HDone)
  | HConnect host user =>
      match rt_get_vhost (hp_routes st) (rt_canon_or_empty host) [] user with
      | Some r => Some (st, HReached (rc_owner (rt_pay r)))
      | None => Some (st, HNotFound)      (* NotFoundResponse written to the hijacked connection *)
      end
  end.

(* run a history; None as soon as one step is not allowed *)
Fixpoint hp_run_from (st : hp_state) (ops : list hp_op) : option hp_state :=
  match ops with
  | [] => Some st
  | o :: r => match hp_step st o with Some (st', _) => hp_run_from st' r | None => None end
  end.
Definition hp_run (ops : list hp_op) : option hp_state := hp_run_from hp_init ops.

(* what the property demands of a request, in terms of the specification only: the owner of the
   most specific matching route of the current route set, or the not-found answer *)
Definition hp_spec_out {P} (owner : P -> Z) (routes : list (route P)) (host path user : bytes) : hp_out :=
  match rs_best_match routes (rt_canon_or_empty host) path user with
  | Some r => HReached (owner (rt_pay r))
  | None => HNotFound
  end.
