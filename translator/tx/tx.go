// Package tx: shared scaffolding for the translator units.  Each unit is its own binary
// under translator/cmd/<unit>/ (standard library only: go/parser, go/ast, go/token) that
// regenerates one table-like part of the Coq model from the Go sources of fatedier/frp on
// every run:
//
//	t_<unit> -repo /repo -out /verif/coq/gen
//
// A construct a unit does not recognise is emitted as an explicit Unknown node so that
// the reflective checkers in coq/Proofs fail instead of silently skipping it.
package tx

import (
	"bytes"
	"flag"
	"fmt"
	"os"
	"path/filepath"
)

var Repo, OutDir string

func WriteIfChanged(name string, content []byte) {
	p := filepath.Join(OutDir, name)
	old, err := os.ReadFile(p)
	if err == nil && bytes.Equal(old, content) {
		return
	}
	if err := os.WriteFile(p, content, 0o644); err != nil {
		Fatal(err)
	}
}

func Fatal(err error) {
	fmt.Fprintln(os.Stderr, "translator:", err)
	os.Exit(2)
}

type Unit struct {
	Name string
	File string
	Fn   func() ([]byte, error)
}

// Main runs the given units.  A unit that cannot even parse its source still produces a
// file, with a failure marker (<Name>_translated = false) the proofs trip over, so the
// breakage is attributed to the properties that depend on the unit.
func Main(units ...Unit) {
	flag.StringVar(&Repo, "repo", "/repo", "path of the frp working tree")
	flag.StringVar(&OutDir, "out", "", "output directory for Gen*.v")
	flag.Parse()
	if OutDir == "" {
		Fatal(fmt.Errorf("-out required"))
	}
	if err := os.MkdirAll(OutDir, 0o755); err != nil {
		Fatal(err)
	}
	for _, u := range units {
		b, err := u.Fn()
		if err != nil {
			b = []byte(fmt.Sprintf("(* translator unit %s failed: %s *)\nFrom FRP Require Import Model.GenTypes.\nDefinition %s_translated : bool := false.\n", u.Name, Sanitize(err.Error()), u.Name))
			fmt.Fprintf(os.Stderr, "translator: unit %s: %v\n", u.Name, err)
		}
		WriteIfChanged(u.File, b)
	}
}

func Sanitize(s string) string {
	var b bytes.Buffer
	for _, r := range s {
		if r == '*' || r == '(' || r == ')' || r == '"' {
			b.WriteByte('_')
		} else {
			b.WriteRune(r)
		}
	}
	return b.String()
}

// CoqString renders s as a Coq string literal (ASCII only; others as '?', the
// translator only handles identifiers, json names and literals from source).
func CoqString(s string) string {
	var b bytes.Buffer
	b.WriteByte('"')
	for i := 0; i < len(s); i++ {
		c := s[i]
		switch {
		case c == '"':
			b.WriteString(`""`)
		case c >= 32 && c < 127:
			b.WriteByte(c)
		default:
			b.WriteByte('?')
		}
	}
	b.WriteByte('"')
	return b.String()
}
