(* Proofs about Model/SrvTeardown.v over today's server handler table (translator unit t14). *)
From Coq Require Import ZArith List Bool Lia.
From FRP Require Import Model.SrvTeardown gen.GenBackoffOpts.
Import ListNotations.
Open Scope Z_scope.

(* with the handler in the read loop every started registration has landed by the time the loop is free *)
Lemma st_loop_sync_bound : forall l free cut regs free',
  (forall r, In r l -> 0 <= sr_dur r) ->
  st_loop false free cut l = (regs, free') ->
  free <= free' /\ forall p, In p regs -> fst p <= free'.
Proof.
  induction l as [|r rest IH]; intros free cut regs free' Hd H; simpl in H.
  - inversion H; subst. split; [lia|intros p []].
  - destruct (cut <=? Z.max (sr_at r) free) eqn:E.
    + inversion H; subst. split; [lia|intros p []].
    + destruct (st_loop false (Z.max (sr_at r) free + sr_dur r) cut rest) as [regs2 f2] eqn:E2.
      inversion H; subst. clear H.
      assert (Hr : 0 <= sr_dur r) by (apply Hd; left; reflexivity).
      destruct (IH _ _ _ _ (fun x Hx => Hd x (or_intror Hx)) E2) as [H1 H2].
      split; [lia|]. intros p [Hp|Hp]; [subst; simpl; lia|auto].
Qed.

Theorem st_sync_never_leaks : forall l free cut,
  (forall r, In r l -> 0 <= sr_dur r) ->
  st_leaked (st_run false free cut l) = [].
Proof.
  intros l free cut Hd. unfold st_run.
  destruct (st_loop false free cut l) as [regs free'] eqn:E. simpl.
  destruct (st_loop_sync_bound l free cut regs free' Hd E) as [_ H2].
  assert (Hf : filter (fun p : Z * Z => Z.max cut free' <? fst p) regs = []).
  { clear E. induction regs as [|p r IH]; simpl; auto.
    destruct (Z.max cut free' <? fst p) eqn:E1.
    - apply Z.ltb_lt in E1. specialize (H2 p (or_introl eq_refl)). lia.
    - apply IH. intros q Hq. apply H2. right. exact Hq. }
  rewrite Hf. reflexivity.
Qed.

(* today's table: NewProxy is handled in the read loop *)
Theorem st_today_never_leaks : forall l free cut,
  (forall r, In r l -> 0 <= sr_dur r) ->
  st_leaked (st_run gen_srv_async_newproxy free cut l) = [].
Proof. exact st_sync_never_leaks. Qed.

(* everything that was started is released by the teardown *)
Theorem st_today_releases_all : forall l free cut regs free',
  (forall r, In r l -> 0 <= sr_dur r) ->
  st_loop gen_srv_async_newproxy free cut l = (regs, free') ->
  st_released (st_run gen_srv_async_newproxy free cut l) = map snd regs.
Proof.
  intros l free cut regs free' Hd E. unfold st_run. rewrite E. simpl.
  destruct (st_loop_sync_bound l free cut regs free' Hd E) as [_ H2].
  f_equal. clear E. induction regs as [|p r IH]; simpl; auto.
  destruct (fst p <=? Z.max cut free') eqn:E1.
  - f_equal. apply IH. intros q Hq. apply H2. right. exact Hq.
  - apply Z.leb_gt in E1. specialize (H2 p (or_introl eq_refl)). lia.
Qed.

(* sensitivity: an asynchronous handler leaks the registration that is in flight when the session dies:
   NewProxy at 1 s, plugin + listen take 2.5 s, heartbeat watchdog closes the connection at 3 s *)
Theorem st_async_would_leak :
  st_leaked (st_run true 0 3000 [{| sr_at := 1000; sr_name := 1; sr_dur := 2500 |}]) = [1] /\
  st_leaked (st_run gen_srv_async_newproxy 0 3000 [{| sr_at := 1000; sr_name := 1; sr_dur := 2500 |}]) = [] /\
  st_released (st_run gen_srv_async_newproxy 0 3000 [{| sr_at := 1000; sr_name := 1; sr_dur := 2500 |}]) = [1].
Proof. vm_compute. repeat split; reflexivity. Qed.
