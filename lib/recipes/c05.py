from vlib import Check

PID = "C05"

MANIFEST = dict(
    text="Machine-checked theorems (Coq 8.16.1) over executable models of (i) the server's first-byte sniff and the client's "
         "head-byte hook, (ii) the TLS policy functions (ServerTransportConfig.Complete, NewServerTLSConfig, NewClientTLSConfig, "
         "client defaults, realConnect's hook plan) and (iii) a symbolic (Dolev-Yao) account of every item frpc/frps hand to the "
         "transport, whose message fields, cipher guards and keys are read from tables regenerated from the Go source on every run "
         "(translator unit t5w): forced TLS never yields the plain reader for any first byte; CA implies force, client-cert "
         "requirement iff CA, client verification iff CA with the configured server name, wss forces TLS; for every configuration "
         "and history no token / secret key / HTTP password is readable on the path; under TLS nothing is readable; payload is "
         "readable iff TLS off and the proxy's encryption flag off; every WithEncryption site is guarded by UseEncryption and keyed "
         "by token resp. secret key, same key on both ends. Tied to the code by t5w and by four correspondence drivers (exhaustive "
         "256-byte sweeps of the real sniff function and of a running frps, real config/TLS constructors on generated PKI, a "
         "recording relay between a real frpc and frps over the configuration lattice with high-entropy markers, certificate matrix).",
    note="PARTIAL: that AES-CFB / TLS ciphertext hides plaintext and that md5 hides its input is cryptography and trusted; what is "
         "proved is WHICH bytes are handed to WHICH cipher/hash, and the policy functions. crypto/tls enforces the policies (oracle, "
         "observed by the certificate matrix). An observer is passive; with no CA configured the client does not verify the server "
         "(documented frp behaviour) so an active man in the middle is out of scope. The end user's own Authorization header is "
         "tunnelled payload. KNOWN DEVIATION F-C05a (proved as C05_secrets_empty_token_refuted, replayed by the wire driver): with auth.token empty "
         "(oidc method or no token) and TLS off, the control cipher and the per-proxy cipher are keyed by a value everybody can derive, so "
         "NewProxy's sk / http_pwd are readable; the secrecy theorem for the public observer is stated for non-empty tokens.",
    technique="Coq proof (induction over histories, reflection over translator tables) + differential correspondence via vm_compute",
    design="4/C05")


def q(tier, quick, thorough):
    return quick if tier == "quick" else thorough


def recipe(c: Check):
    c.build(["Properties/C05.vo", "Corr/C05.vo"], harness=["c05"], units=["t1", "t5w"])
    c.obligations("C05")
    c.run_driver("sniff", 1, shards=2)
    c.run_driver("policy", 1, shards=2)
    stw = c.run_driver("wire", q(c.tier, 32, 160), shards=q(c.tier, 4, 8), timeout=1500)
    # recorded finding F-C05a (C05_secrets_empty_token_refuted): reproduced by the decrypting observer.  It is reported as
    # KNOWN-FINDING when KNOWN_FINDINGS.txt lists its key, otherwise as a note; it never counts as a new violation because the
    # proved statement (C05_secrets_never_clear_public_partial) excludes exactly this input class.
    known = {k["key"] for k in c.known_findings() if k["property"] == PID}
    for f in (stw or {}).get("findings", []) or []:
        if f["key"] in known:
            f.setdefault("driver", "wire")
            c.failures.append(f)
        else:
            note = "finding %s reproduced: %s [%s]" % (f["key"], f["what"], f["case"])
            if not any(n.startswith("finding %s reproduced" % f["key"]) for n in c.notes):
                c.notes.append(note)
    c.run_driver("certs", 1, shards=1)
    cc = c.cov.get("coq_counters", {})
    # monitor on observed traces evaluated in Coq (the Go side reports the same with a replayable description)
    for d, ks in cc.items():
        if ks.get("NMONITORFAIL", 0) > 0 and not any(f.get("driver") == d for f in c.failures):
            c.failures.append(dict(key="monitor:%s" % d, driver=d, what="C05_holds is false on %d observed case(s) of driver %s" % (ks["NMONITORFAIL"], d),
                                   case="see cases_%s_*.v in work/C05" % d))
    # sanity: the branches the property names must have been reached, else the run proves nothing
    need = dict(sniff=dict(NSYSTLS=4, NSYSPROTO=1, NFNREJECT=254, NWSTLS=4, NWSPROTO=1, NKCPTLS=4, NKCPPROTO=1), policy=dict(NREQUIRE=1, NVERIFY=1),
                wire=dict(NCLEARPAYLOAD=2, NHIDDENALL=2, NREJECTED=1, NEMPTYTOKEN=2), certs=dict(NREFUSED=3, NACCEPTED=2, NQUICREFUSEDNOCERT=3, NQUICACCEPTED=2, NKCPREFUSED=3, NWSREFUSED=3))
    if c.harness_ok and not any(b["kind"] in ("driver", "correspondence-eval") for b in c.broken):
        for d, ks in need.items():
            for k, v in ks.items():
                if cc.get(d, {}).get(k, 0) < v:
                    c.broken.append(dict(kind="sanity", name="%s.%s" % (d, k),
                                         detail="driver %s reached branch %s only %d times (needs >= %d)" % (d, k, cc.get(d, {}).get(k, 0), v)))
    return c.finish(
        rule="sniff: all 256 first bytes x force on/off through the real CheckAndEnableTLSServerConnWithTimeout (isTLS, custom, error, "
             "byte replayed/consumed by a real handshake or read-back) and against a running frps (answer class) on its tcp listener, through its websocket listener (raw websocket client) and its kcp "
             "listener; policy: exhaustive "
             "7 cert/key choices x 4 CA choices x force / 3 server names through the real Complete + NewServerTLSConfig / NewClientTLSConfig "
             "on harness-generated PKI files, 6 protocols x 27 option settings through ClientTransportConfig.Complete; wire: per "
             "configuration of the lattice one real frpc (tcp + http + stcp proxy, stcp visitor) against one frps through a recording "
             "relay, 15 high-entropy markers searched raw/hex/base64 (websocket client frames unmasked; for empty-token configurations also after "
             "opening the recorded cipher streams with the key derived from the empty string, compared with the model's public observer), observed set must lie between "
             "the model's certainly-visible and possibly-visible sets (they differ only under compression), plus first byte on the wire; "
             "certs: certificate matrix (6 server identities x 8 client settings) over each of tcp, kcp, websocket and quic with a real frpc. distinct = distinct case text / configuration; non-trivial = every case (each carries an observation)",
        assumptions=["AES-CFB (golib crypto), TLS (crypto/tls) and md5 hide their input: cryptography, trusted",
                     "crypto/tls enforces ClientAuth / RootCAs / ServerName as configured: oracle, observed by the certificate matrix",
                     "translator t5w classifies Go expressions syntactically (secret-bearing identifier names Token/SecretKey/sk/HTTPPassword...)"])
