(* C01: the token-bucket bound for Model/Bucket.v (x/time/rate reserveN as used by WaitN).
   Potential argument: with phi = rate * last - tokens ("the instant at which the balance crosses
   zero", scaled), every reservation of n tokens raises phi by at least n * G, the act time a of a
   reservation satisfies  phi <= rate * a + rate  (the +rate is the truncation of the wait to whole
   nanoseconds) and  rate * a <= phi + (burst - n) * G. *)
From FRP Require Import Model.Bucket.
From Coq Require Import Lia.
Open Scope Z_scope.

Section Bk.
  Variables rate burst : Z.
  Hypothesis Hr : 0 < rate.

  Definition phi (st : bk_state) : Z :=
    match bk_last st with Some l => rate * l - bk_tokens st | None => 0 end.

  Lemma reserve_props st t n : 0 <= n <= burst ->
    exists tk a, bk_reserve rate burst st t n = ({| bk_tokens := tk; bk_last := Some t |}, Some a) /\
      rate * t - tk <= rate * a + rate /\
      rate * a <= rate * t - tk + (burst - n) * BK_G /\
      t <= a /\
      (forall l, bk_last st = Some l -> l <= t -> rate * t - tk >= phi st + n * BK_G).
  Proof.
    intros Hn. unfold bk_reserve.
    destruct (burst <? n) eqn:E; [lia|]. clear E.
    set (adv := bk_advance rate burst st t).
    assert (Hadv : adv <= burst * BK_G).
    { unfold adv, bk_advance. destruct (bk_last st); lia. }
    set (tk := adv - n * BK_G).
    destruct (tk <? 0) eqn:Etk.
    - exists tk, (t + - tk / rate). split; [reflexivity|].
      pose proof (Z.mul_div_le (- tk) rate Hr) as H1.
      pose proof (Z.mul_succ_div_gt (- tk) rate Hr) as H2.
      assert (0 <= - tk / rate) by (apply Z.div_pos; lia).
      unfold BK_G in *. repeat split; try lia.
      intros l Hl Hle. unfold phi. rewrite Hl.
      assert (adv <= bk_tokens st + rate * (t - l)).
      { unfold adv, bk_advance. rewrite Hl. rewrite (Z.min_l l t) by lia. lia. }
      lia.
    - exists tk, (t + 0). split; [reflexivity|].
      unfold BK_G in *. repeat split; try lia.
      intros l Hl Hle. unfold phi. rewrite Hl.
      assert (adv <= bk_tokens st + rate * (t - l)).
      { unfold adv, bk_advance. rewrite Hl. rewrite (Z.min_l l t) by lia. lia. }
      lia.
  Qed.

  (* state-threaded form of "sizes within the burst, request times never before the limiter's last" *)
  Fixpoint reqs_ok' (st : bk_state) (reqs : list (Z * Z)) : Prop :=
    match reqs with
    | [] => True
    | (t, n) :: r =>
        0 <= n <= burst /\ (match bk_last st with Some l => l <= t | None => True end) /\
        reqs_ok' (fst (bk_reserve rate burst st t n)) r
    end.

  Lemma reqs_ok_ok' : forall reqs st, reqs_ok burst st reqs -> reqs_ok' st reqs.
  Proof.
    induction reqs as [|[t n] r IH]; intros st [Hall Ht]; cbn [reqs_ok']; [exact I|].
    inversion Hall as [|? ? Hn Hall']; subst. cbn [snd] in Hn.
    destruct (reserve_props st t n Hn) as (tk & a & Hres & _).
    split; [exact Hn|]. split.
    - destruct (bk_last st); [cbn in Ht; lia|exact I].
    - rewrite Hres. cbn [fst]. apply IH. split; [exact Hall'|]. cbn [bk_last].
      destruct (bk_last st); cbn in Ht; tauto.
  Qed.

  Lemma reqs_ok'_app : forall r1 r2 st, reqs_ok' st (r1 ++ r2) ->
    reqs_ok' st r1 /\ reqs_ok' (bk_final rate burst st r1) r2.
  Proof.
    induction r1 as [|[t n] r1 IH]; intros r2 st H; cbn [app reqs_ok' bk_final] in *; [tauto|].
    destruct H as (H1 & H2 & H3). apply IH in H3. tauto.
  Qed.

  Lemma run_app_inv : forall o1 o2 reqs st, bk_run rate burst st reqs = Some (o1 ++ o2) ->
    exists r1 r2, reqs = r1 ++ r2 /\ bk_run rate burst st r1 = Some o1 /\
                  bk_run rate burst (bk_final rate burst st r1) r2 = Some o2.
  Proof.
    induction o1 as [|x o1 IH]; intros o2 reqs st H.
    - exists [], reqs. cbn. auto.
    - destruct reqs as [|[t n] r]; [cbn in H; discriminate|].
      cbn [bk_run app] in H.
      destruct (bk_reserve rate burst st t n) as [st' [a|]] eqn:Eres; [|discriminate].
      destruct (bk_run rate burst st' r) as [l|] eqn:Erun; [|discriminate].
      injection H as Hx Hl. subst x l.
      destruct (IH o2 r st' Erun) as (r1 & r2 & -> & H1 & H2).
      exists ((t, n) :: r1), r2. split; [reflexivity|]. cbn [bk_run bk_final]. rewrite Eres. cbn [fst].
      rewrite H1. auto.
  Qed.

  Lemma run_phi : forall reqs st l, bk_last st = Some l -> reqs_ok' st reqs ->
    exists outs l', bk_run rate burst st reqs = Some outs /\
      bk_last (bk_final rate burst st reqs) = Some l' /\
      phi (bk_final rate burst st reqs) >= phi st + BK_G * sumn outs.
  Proof.
    induction reqs as [|[t n] r IH]; intros st l Hl Hok.
    - exists [], l. cbn. split; [reflexivity|]. split; [exact Hl|]. lia.
    - cbn [reqs_ok'] in Hok. destruct Hok as (Hn & Ht & Hok). rewrite Hl in Ht.
      destruct (reserve_props st t n Hn) as (tk & a & Hres & _ & _ & _ & Hphi).
      specialize (Hphi l Hl Ht).
      cbn [bk_run bk_final]. rewrite Hres in *. cbn [fst] in *.
      destruct (IH {| bk_tokens := tk; bk_last := Some t |} t eq_refl Hok) as (outs & l' & Hrun & Hl' & Hge).
      rewrite Hrun. exists ((a, n) :: outs), l'. split; [reflexivity|]. split; [exact Hl'|].
      unfold phi at 2 in Hge. cbn [bk_last bk_tokens] in Hge. cbn [sumn fold_right snd].
      fold (sumn outs). lia.
  Qed.

  (* bucket_bound, segment form: take ANY contiguous segment of the history of reservations of one
     limiter (all connections, both directions), from the one acting at a_j to the one acting at
     a_i; the tokens granted in the segment are at most burst + rate * (a_i - a_j) (+ rate/10^9 of a
     token for the truncation of waits to whole nanoseconds) *)
  Theorem bucket_bound_segment : forall st reqs pre aj nj mid ai ni post,
    reqs_ok burst st reqs ->
    bk_run rate burst st reqs = Some (pre ++ (aj, nj) :: mid ++ (ai, ni) :: post) ->
    BK_G * (nj + sumn mid + ni) <= BK_G * burst + rate * (ai - aj) + rate.
  Proof.
    intros st reqs pre aj nj mid ai ni post Hok Hrun.
    apply reqs_ok_ok' in Hok.
    destruct (run_app_inv _ _ _ _ Hrun) as (rp & r1 & -> & _ & Hrun1).
    apply reqs_ok'_app in Hok. destruct Hok as [_ Hok].
    set (st1 := bk_final rate burst st rp) in *.
    destruct r1 as [|[tj nj'] r2]; [cbn in Hrun1; discriminate|].
    cbn [bk_run] in Hrun1. cbn [reqs_ok'] in Hok. destruct Hok as (Hnj & _ & Hok).
    destruct (reserve_props st1 tj nj' Hnj) as (tkj & aj' & Hresj & _ & Hj2 & _ & _).
    rewrite Hresj in *. cbn [fst] in Hok.
    destruct (bk_run rate burst {| bk_tokens := tkj; bk_last := Some tj |} r2) as [l|] eqn:Erun2; [|discriminate].
    injection Hrun1 as Ha Hn Hl. subst aj' nj' l.
    destruct (run_app_inv _ _ _ _ Erun2) as (rm & r3 & -> & Hrunm & Hrun3).
    apply reqs_ok'_app in Hok. destruct Hok as [Hokm Hok3].
    destruct (run_phi rm {| bk_tokens := tkj; bk_last := Some tj |} tj eq_refl Hokm) as (outs & lm & Hrunm' & Hlm & Hge).
    rewrite Hrunm in Hrunm'. injection Hrunm' as <-.
    set (stm := bk_final rate burst {| bk_tokens := tkj; bk_last := Some tj |} rm) in *.
    destruct r3 as [|[ti ni'] r4]; [cbn in Hrun3; discriminate|].
    cbn [bk_run] in Hrun3. cbn [reqs_ok'] in Hok3. destruct Hok3 as (Hni & Hti & _).
    rewrite Hlm in Hti.
    destruct (reserve_props stm ti ni' Hni) as (tki & ai' & Hresi & Hi1 & _ & _ & Hi5).
    specialize (Hi5 lm Hlm Hti).
    rewrite Hresi in Hrun3.
    destruct (bk_run rate burst {| bk_tokens := tki; bk_last := Some ti |} r4); [|discriminate].
    injection Hrun3 as Ha Hn _. subst ai' ni'.
    unfold phi at 2 in Hge. cbn [bk_last bk_tokens] in Hge.
    unfold BK_G in *. lia.
  Qed.

  Lemma run_single_bound : forall st reqs pre a n post,
    reqs_ok burst st reqs -> bk_run rate burst st reqs = Some (pre ++ (a, n) :: post) -> 0 <= n <= burst.
  Proof.
    intros st reqs pre a n post Hok Hrun. apply reqs_ok_ok' in Hok.
    destruct (run_app_inv _ _ _ _ Hrun) as (rp & r1 & -> & _ & Hrun1).
    apply reqs_ok'_app in Hok. destruct Hok as [_ Hok].
    destruct r1 as [|[t n'] r2]; [cbn in Hrun1; discriminate|].
    cbn [bk_run] in Hrun1. cbn [reqs_ok'] in Hok. destruct Hok as (Hn & _).
    destruct (bk_reserve rate burst (bk_final rate burst st rp) t n') as [s' [a'|]]; [|discriminate].
    destruct (bk_run rate burst s' r2); [|discriminate].
    injection Hrun1 as _ Hn' _. subst n'. exact Hn.
  Qed.

  Lemma outs_nonneg : forall reqs st outs, reqs_ok' st reqs -> bk_run rate burst st reqs = Some outs ->
    Forall (fun x => 0 <= snd x) outs.
  Proof.
    induction reqs as [|[t n] r IH]; intros st outs Hok Hrun; cbn [bk_run] in Hrun.
    - injection Hrun as <-. constructor.
    - cbn [reqs_ok'] in Hok. destruct Hok as (Hn & _ & Hok).
      destruct (bk_reserve rate burst st t n) as [s' [a|]]; [|discriminate]. cbn [fst] in Hok.
      destruct (bk_run rate burst s' r) as [l|] eqn:E; [|discriminate].
      injection Hrun as <-. constructor; [cbn; lia|]. eapply IH; eauto.
  Qed.

  (* ---- interval form ---- *)
  Definition in_window (T D : Z) (x : Z * Z) : bool := (T <=? fst x) && (fst x <=? T + D).

  Lemma sumn_app a b : sumn (a ++ b) = sumn a + sumn b.
  Proof. induction a as [|x a IH]; cbn [app sumn fold_right]; [reflexivity|]. fold (sumn (a ++ b)). fold (sumn a). lia. Qed.

  Lemma sumn_filter_le (p : Z * Z -> bool) l : Forall (fun x => 0 <= snd x) l -> 0 <= sumn (filter p l) <= sumn l.
  Proof.
    induction 1 as [|x l Hx Hl IH]; cbn [filter sumn fold_right]; [lia|].
    fold (sumn l). destruct (p x); cbn [sumn fold_right]; fold (sumn (filter p l)); lia.
  Qed.

  Lemma first_hit (p : Z * Z -> bool) : forall l,
    filter p l = [] \/ exists pre x rest, l = pre ++ x :: rest /\ filter p pre = [] /\ p x = true.
  Proof.
    induction l as [|y l IH]; [left; reflexivity|].
    destruct (p y) eqn:E.
    - right. exists [], y, l. auto.
    - destruct IH as [IH|(pre & x & rest & -> & H1 & H2)].
      + left. cbn. rewrite E. exact IH.
      + right. exists (y :: pre), x, rest. cbn. rewrite E. auto.
  Qed.

  Lemma last_hit (p : Z * Z -> bool) : forall l,
    filter p l = [] \/ exists mid x post, l = mid ++ x :: post /\ filter p post = [] /\ p x = true.
  Proof.
    induction l as [|y l IH]; [left; reflexivity|].
    destruct IH as [IH|(mid & x & post & -> & H1 & H2)].
    - destruct (p y) eqn:E.
      + right. exists [], y, l. auto.
      + left. cbn. rewrite E. exact IH.
    - right. exists (y :: mid), x, post. auto.
  Qed.

  (* bucket_bound, interval form: the tokens (bytes) whose act time falls into ANY window
     [T, T + D] are at most burst + rate * D (+ the nanosecond truncation term) *)
  Theorem bucket_bound_interval : forall st reqs outs T D,
    0 <= burst -> 0 <= D -> reqs_ok burst st reqs -> bk_run rate burst st reqs = Some outs ->
    BK_G * sumn (filter (in_window T D) outs) <= BK_G * burst + rate * D + rate.
  Proof.
    intros st reqs outs T D HB HD Hok Hrun.
    pose proof (outs_nonneg _ _ _ (reqs_ok_ok' _ _ Hok) Hrun) as Hnn.
    destruct (first_hit (in_window T D) outs) as [Hnone|(pre & [aj nj] & rest & -> & Hpre & Hj)].
    assert (HrD : 0 <= rate * D) by (apply Z.mul_nonneg_nonneg; lia).
    { rewrite Hnone. cbn [sumn fold_right]. unfold BK_G. lia. }
    rewrite filter_app, Hpre. cbn [app filter]. rewrite Hj.
    destruct (last_hit (in_window T D) rest) as [Hnone|(mid & [ai ni] & post & -> & Hpost & Hi)].
    - rewrite Hnone. cbn [sumn fold_right snd].
      pose proof (run_single_bound _ _ _ _ _ _ Hok Hrun). unfold BK_G. lia.
    - rewrite filter_app. cbn [filter]. rewrite Hi, Hpost.
      pose proof (bucket_bound_segment _ _ _ _ _ _ _ _ _ Hok Hrun) as Hseg.
      cbn [sumn fold_right snd]. fold (sumn (filter (in_window T D) mid ++ [(ai, ni)])).
      rewrite sumn_app. cbn [sumn fold_right snd].
      apply Forall_app in Hnn. destruct Hnn as [_ Hnn]. inversion Hnn as [|? ? _ Hnn']; subst.
      apply Forall_app in Hnn'. destruct Hnn' as [Hmid _].
      pose proof (sumn_filter_le (in_window T D) mid Hmid).
      unfold in_window in Hj, Hi. cbn [fst] in Hj, Hi.
      apply andb_prop in Hj. apply andb_prop in Hi. destruct Hj as [Hj1 Hj2]. destruct Hi as [Hi1 Hi2].
      apply Z.leb_le in Hj1, Hj2, Hi1, Hi2.
      assert (rate * (ai - aj) <= rate * D) by (apply Z.mul_le_mono_nonneg_l; lia).
      unfold BK_G in *. lia.
  Qed.
End Bk.
