package main

// Child mode "udpfwd" (used by driver dgram): pkg/proto/udp ForwardUserConn decodes the base64 content of
// UDPPacket messages in a goroutine of its own (a panic there cannot be recovered by the caller), so it runs
// in a child process: UDPPacket contents of every size around the socket buffer size must be delivered
// intact and must not take the process down.

import (
	"bytes"
	"fmt"
	"net"
	"os"
	"os/exec"
	"strings"
	"time"

	"github.com/fatedier/frp/pkg/msg"
	"github.com/fatedier/frp/pkg/proto/udp"
)

var udpfwdSizes = []int{0, 1, 1499, 1500, 1501, 2048, 3000, 9000, 20000}

func udpfwdChild() {
	recv, err := net.ListenUDP("udp", &net.UDPAddr{IP: net.ParseIP("127.0.17.5")})
	if err != nil {
		fmt.Println("ERR", err)
		os.Exit(3)
	}
	src, err := net.ListenUDP("udp", &net.UDPAddr{IP: net.ParseIP("127.0.17.5")})
	if err != nil {
		fmt.Println("ERR", err)
		os.Exit(3)
	}
	readCh := make(chan *msg.UDPPacket, 4)
	sendCh := make(chan *msg.UDPPacket, 4)
	go udp.ForwardUserConn(src, readCh, sendCh, 1500)
	buf := make([]byte, 65536)
	for _, n := range udpfwdSizes {
		payload := bytes.Repeat([]byte{byte('a' + n%26)}, n)
		readCh <- udp.NewUDPPacket(payload, nil, recv.LocalAddr().(*net.UDPAddr))
		_ = recv.SetReadDeadline(time.Now().Add(2 * time.Second))
		k, _, err := recv.ReadFromUDP(buf)
		if err != nil || !bytes.Equal(buf[:k], payload) {
			fmt.Printf("BAD %d got=%d err=%v\n", n, k, err)
			os.Exit(4)
		}
	}
	fmt.Println("UDPFWD-OK")
}

// runUdpfwd re-executes this binary; returns "" when every size was delivered, else what went wrong.
func runUdpfwd() string {
	cmd := exec.Command(os.Args[0], "udpfwd")
	out, err := cmd.CombinedOutput()
	s := string(out)
	if err == nil && strings.Contains(s, "UDPFWD-OK") {
		return ""
	}
	for _, l := range strings.Split(s, "\n") {
		if strings.HasPrefix(l, "panic:") || strings.HasPrefix(l, "fatal error:") || strings.HasPrefix(l, "BAD") || strings.HasPrefix(l, "ERR") {
			return l
		}
	}
	return fmt.Sprintf("child failed: %v", err)
}
