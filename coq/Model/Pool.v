(* C11 — work-connection pool of one session (server/control.go) and its users
   (server/proxy/proxy.go), as an interleaving model.  Model only: no proofs here.

   Code mirrored, step by step (one model step = one channel operation / one critical section):
     NewControl            pl_pool_count, pl_cap           poolCount clamp, make(chan, poolCount+10)
     Control.Start         pl_send_n                       for i < poolCount: Send(ReqWorkConn)
     Service.RegisterWorkConn + Control.RegisterWorkConn + handleConnection
                           work thread  WLookup -> WSend -> (WCloseIt) -> WDone
     BaseProxy.handleUserTCPConnection + GetWorkConnFromPool + Control.GetWorkConn
                           user thread  UTry i -> (UReq i -> UWait i) -> URepl i c -> UWrite i c -> ...
     time.After(UserConnTimeout) in GetWorkConn
                           timeout thread (fires only while its user waits)
     Control.worker (teardown)
                           TStop -> TCloseCh -> TDrain* -> TDel -> TFin
   A schedule is a [list nat] of thread ids; stepping a blocked or finished thread is a no-op.

   Second part: the unbuffered hand-off channels (vhost.Listener.accept, TCPGroup.acceptCh,
   TCPMuxGroup.acceptCh) with the recover-wrapped send of Muxer.handle / TCPGroup.worker. *)
From FRP Require Export Model.Bytes.
Open Scope Z_scope.

(* ---------- configuration (NewControl) ---------- *)

(* poolCount := loginMsg.PoolCount; if > MaxPoolCount then MaxPoolCount; if < 0 then 0 *)
Definition pl_pool_count (client_pc server_max : Z) : Z :=
  let p := if client_pc >? server_max then server_max else client_pc in
  if p <? 0 then 0 else p.

Definition pl_slack : Z := 10.
Definition pl_cap (pc : Z) : Z := pc + pl_slack.

(* Start: for i := 0; i < poolCount; i++ { Send(ReqWorkConn) } — the number of sends *)
Fixpoint pl_send_n (n : nat) (sent : Z) : Z :=
  match n with O => sent | S k => pl_send_n k (sent + 1) end.
Definition pl_start_requests (pc : Z) : Z := pl_send_n (Z.to_nat pc) 0.

(* ---------- buffered channel with a closed flag (workConnCh) ---------- *)

Record pchan := { ch_cap : Z; ch_q : list nat; ch_closed : bool }.

Inductive psend := SOk | SFull | SPanic.      (* select{case ch<-c: / default:} ; send on closed panics *)
Inductive precv := RGot (c : nat) | REmpty | RClosed.

Definition ch_try_send (c : nat) (ch : pchan) : pchan * psend :=
  if ch_closed ch then (ch, SPanic)
  else if Z.of_nat (length (ch_q ch)) <? ch_cap ch
       then ({| ch_cap := ch_cap ch; ch_q := ch_q ch ++ [c]; ch_closed := false |}, SOk)
       else (ch, SFull).

(* a closed channel still yields what is buffered; only then "closed" *)
Definition ch_try_recv (ch : pchan) : pchan * precv :=
  match ch_q ch with
  | c :: r => ({| ch_cap := ch_cap ch; ch_q := r; ch_closed := ch_closed ch |}, RGot c)
  | [] => (ch, if ch_closed ch then RClosed else REmpty)
  end.

Definition ch_close (ch : pchan) : pchan :=
  {| ch_cap := ch_cap ch; ch_q := ch_q ch; ch_closed := true |}.

(* ---------- threads ---------- *)

Inductive preq :=
| RWork                                   (* a connection arrives carrying NewWorkConn; conn id = thread id *)
| RUser (proxy : bytes) (src : bytes) (sport : Z) (eof : bool)
                                          (* a user connection accepted by a proxy of the session; user id = thread id;
                                             [eof]: how Dispatcher.Send's select resolves once doneCh is closed *)
| RTimeout (u : nat)                      (* the time.After timer of user thread u *)
| RTeardown                               (* Control.worker after the dispatcher is done *)
| RSendLoop.                              (* msg.Dispatcher.sendLoop of the control connection *)

Inductive wpc := WLookup | WSend | WCloseIt | WDone.
Inductive upc :=
| UTry (i : Z)                 (* loop head of GetWorkConnFromPool, GetWorkConn's first select *)
| UReq (i : Z)                 (* pool empty: Send(ReqWorkConn) *)
| UWait (i : Z)                (* second select: pool / timer *)
| URepl (i : Z) (c : nat)      (* got c: Send(ReqWorkConn) replacement *)
| UWrite (i : Z) (c : nat)     (* WriteMsg(StartWorkConn) on c *)
| UDone.
Inductive tpc := TStop | TCloseCh | TDrain | TDel | TFin.
Inductive spc := SLRun | SLEnd.

Inductive tstate := TNone | TW (p : wpc) | TU (p : upc) | TT (p : tpc) | TTimer | TS (p : spc).

(* what is in a connection's hands *)
Inductive pfate :=
| PNone                    (* not a connection id *)
| PHeld (t : nat)          (* referenced by thread t only *)
| PInPool
| PDelivered (u : nat)
| PClosed.

Inductive ustate := UNone | UOpen | UBridged (c : nat) | UClosed.

(* StartWorkConn written on conn c for user u *)
Record pstart := { st_conn : nat; st_user : nat; st_proxy : bytes; st_src : bytes; st_sport : Z }.

Record pcfg := {
  cf_client_pc : Z;            (* Login.PoolCount *)
  cf_server_max : Z;           (* transport.maxPoolCount *)
  cf_reqs : list preq;         (* thread programs; thread id = position *)
  cf_dead : nat -> bool;       (* oracle: the peer has reset conn c before the server writes on it *)
  cf_qcap : Z;                 (* capacity of Dispatcher.sendCh (100 in NewDispatcher) *)
  cf_wfail : Z -> bool;        (* oracle: WriteMsg of the k-th dequeued control message fails *)
  cf_sl_survives : bool        (* sendLoop goes on after a failed WriteMsg (it ignores the result) *)
}.

(* the control-message dispatcher as far as ReqWorkConn is concerned: Dispatcher.Send is
     select { case <-doneCh: return EOF; case sendCh <- m: return nil }
   and sendLoop is  for { select { case <-doneCh: return; case m := <-sendCh: _ = WriteMsg(rw, m) } } *)
Record pdisp := {
  d_enq : Z;                   (* ReqWorkConn accepted by Send so far *)
  d_q : Z;                     (* messages sitting in sendCh *)
  d_deq : Z;                   (* messages the send loop has taken out so far *)
  d_sent : Z                   (* ... of which written successfully *)
}.

Record pst := {
  ps_pc : Z;                   (* ctl.poolCount *)
  ps_ch : pchan;               (* ctl.workConnCh *)
  ps_disp : pdisp;             (* msgDispatcher: send queue and counters *)
  ps_mapped : bool;            (* ctlManager maps the run id to this control *)
  ps_ddone : bool;             (* dispatcher doneCh closed *)
  ps_crashed : bool;           (* close of a closed channel *)
  ps_fate : nat -> pfate;
  ps_user : nat -> ustate;
  ps_thr : nat -> tstate;
  ps_log : list pstart         (* newest first *)
}.

Definition upd {A} (f : nat -> A) (k : nat) (v : A) : nat -> A :=
  fun x => if Nat.eqb x k then v else f x.

Definition pl_req_of (cfg : pcfg) (t : nat) : option preq := nth_error (cf_reqs cfg) t.

Definition pl_init_thr (r : option preq) : tstate :=
  match r with
  | None => TNone
  | Some RWork => TW WLookup
  | Some (RUser _ _ _ _) => TU (UTry 0)
  | Some (RTimeout _) => TTimer
  | Some RTeardown => TT TStop
  | Some RSendLoop => TS SLRun
  end.

Definition pl_init (cfg : pcfg) : pst :=
  let pc := pl_pool_count (cf_client_pc cfg) (cf_server_max cfg) in
  {| ps_pc := pc;
     ps_ch := {| ch_cap := pl_cap pc; ch_q := []; ch_closed := false |};
     (* Start's poolCount sends: in the queue (maxPoolCount <= the queue capacity assumed; other control
        messages — Pong, NewProxyResp — are not modelled) *)
     ps_disp := {| d_enq := pl_start_requests pc; d_q := pl_start_requests pc; d_deq := 0; d_sent := 0 |};
     ps_mapped := true;
     ps_ddone := false;
     ps_crashed := false;
     ps_fate := fun c => match pl_req_of cfg c with Some RWork => PHeld c | _ => PNone end;
     ps_user := fun u => match pl_req_of cfg u with Some (RUser _ _ _ _) => UOpen | _ => UNone end;
     ps_thr := fun t => pl_init_thr (pl_req_of cfg t);
     ps_log := [] |}.

Definition ps_req (s : pst) : Z := d_enq (ps_disp s).
Definition ps_sent (s : pst) : Z := d_sent (ps_disp s).

(* setters *)
Definition set_ch s ch := {| ps_pc := ps_pc s; ps_ch := ch; ps_disp := ps_disp s; ps_mapped := ps_mapped s;
  ps_ddone := ps_ddone s; ps_crashed := ps_crashed s; ps_fate := ps_fate s; ps_user := ps_user s;
  ps_thr := ps_thr s; ps_log := ps_log s |}.
Definition set_disp s r := {| ps_pc := ps_pc s; ps_ch := ps_ch s; ps_disp := r; ps_mapped := ps_mapped s;
  ps_ddone := ps_ddone s; ps_crashed := ps_crashed s; ps_fate := ps_fate s; ps_user := ps_user s;
  ps_thr := ps_thr s; ps_log := ps_log s |}.
Definition set_mapped s b := {| ps_pc := ps_pc s; ps_ch := ps_ch s; ps_disp := ps_disp s; ps_mapped := b;
  ps_ddone := ps_ddone s; ps_crashed := ps_crashed s; ps_fate := ps_fate s; ps_user := ps_user s;
  ps_thr := ps_thr s; ps_log := ps_log s |}.
Definition set_ddone s b := {| ps_pc := ps_pc s; ps_ch := ps_ch s; ps_disp := ps_disp s; ps_mapped := ps_mapped s;
  ps_ddone := b; ps_crashed := ps_crashed s; ps_fate := ps_fate s; ps_user := ps_user s;
  ps_thr := ps_thr s; ps_log := ps_log s |}.
Definition set_crashed s b := {| ps_pc := ps_pc s; ps_ch := ps_ch s; ps_disp := ps_disp s; ps_mapped := ps_mapped s;
  ps_ddone := ps_ddone s; ps_crashed := b; ps_fate := ps_fate s; ps_user := ps_user s;
  ps_thr := ps_thr s; ps_log := ps_log s |}.
Definition set_fate s c f := {| ps_pc := ps_pc s; ps_ch := ps_ch s; ps_disp := ps_disp s; ps_mapped := ps_mapped s;
  ps_ddone := ps_ddone s; ps_crashed := ps_crashed s; ps_fate := upd (ps_fate s) c f; ps_user := ps_user s;
  ps_thr := ps_thr s; ps_log := ps_log s |}.
Definition set_user s u v := {| ps_pc := ps_pc s; ps_ch := ps_ch s; ps_disp := ps_disp s; ps_mapped := ps_mapped s;
  ps_ddone := ps_ddone s; ps_crashed := ps_crashed s; ps_fate := ps_fate s; ps_user := upd (ps_user s) u v;
  ps_thr := ps_thr s; ps_log := ps_log s |}.
Definition set_thr s t v := {| ps_pc := ps_pc s; ps_ch := ps_ch s; ps_disp := ps_disp s; ps_mapped := ps_mapped s;
  ps_ddone := ps_ddone s; ps_crashed := ps_crashed s; ps_fate := ps_fate s; ps_user := ps_user s;
  ps_thr := upd (ps_thr s) t v; ps_log := ps_log s |}.
Definition add_log s e := {| ps_pc := ps_pc s; ps_ch := ps_ch s; ps_disp := ps_disp s; ps_mapped := ps_mapped s;
  ps_ddone := ps_ddone s; ps_crashed := ps_crashed s; ps_fate := ps_fate s; ps_user := ps_user s;
  ps_thr := ps_thr s; ps_log := e :: ps_log s |}.

(* Dispatcher.Send: select { case <-doneCh: return EOF; case sendCh <- m: return nil }.
   Neither case ready (queue full, doneCh open): the caller blocks.  Both ready: either ([eof]). *)
Inductive psendres := SendOk | SendEOF | SendBlocked.
Definition pl_send (cfg : pcfg) (s : pst) (eof : bool) : psendres :=
  let room := d_q (ps_disp s) <? cf_qcap cfg in
  if ps_ddone s then (if room then (if eof then SendEOF else SendOk) else SendEOF)
  else (if room then SendOk else SendBlocked).
Definition pl_enqueue (s : pst) : pst :=
  let d := ps_disp s in
  set_disp s {| d_enq := d_enq d + 1; d_q := d_q d + 1; d_deq := d_deq d; d_sent := d_sent d |}.

(* --- work-connection arrival: Service.handleConnection / RegisterWorkConn, Control.RegisterWorkConn --- *)
Definition pl_step_work (s : pst) (t : nat) (p : wpc) : pst :=
  match p with
  | WLookup =>                          (* ctlManager.GetByID(runID) *)
      if ps_mapped s then set_thr s t (TW WSend)
      else set_thr s t (TW WCloseIt)    (* "no client control found" -> err -> handleConnection closes *)
  | WSend =>                            (* select { case ctl.workConnCh <- conn: / default: } under recover *)
      match ch_try_send t (ps_ch s) with
      | (ch, SOk) => set_thr (set_fate (set_ch s ch) t PInPool) t (TW WDone)
      | (_, SFull) => set_thr s t (TW WCloseIt)     (* "pool is full, discarding" -> err *)
      | (_, SPanic) => set_thr s t (TW WCloseIt)    (* recovered; err = "pool is closed" (repaired code) *)
      end
  | WCloseIt => set_thr (set_fate s t PClosed) t (TW WDone)   (* handleConnection: conn.Close() *)
  | WDone => s
  end.

(* --- user connection: handleUserTCPConnection (defer userConn.Close()), GetWorkConnFromPool, GetWorkConn --- *)
Definition pl_user_close (s : pst) (t : nat) : pst := set_thr (set_user s t UClosed) t (TU UDone).

Definition pl_step_user (cfg : pcfg) (s : pst) (t : nat) (p : upc)
  (proxy src : bytes) (sport : Z) (eof : bool) : pst :=
  match p with
  | UTry i =>                           (* select { case c, ok = <-workConnCh: / default: } *)
      match ch_try_recv (ps_ch s) with
      | (ch, RGot c) => set_thr (set_fate (set_ch s ch) c (PHeld t)) t (TU (URepl i c))
      | (_, RClosed) => pl_user_close s t           (* ErrCtlClosed *)
      | (_, REmpty) => set_thr s t (TU (UReq i))
      end
  | UReq i =>                           (* Send(ReqWorkConn); error -> "control is already closed" *)
      match pl_send cfg s eof with
      | SendEOF => pl_user_close s t
      | SendOk => set_thr (pl_enqueue s) t (TU (UWait i))   (* only now does GetWorkConn create its timer *)
      | SendBlocked => s
      end
  | UWait i =>                          (* select { case c, ok = <-workConnCh: / case <-time.After: } — timer: see timeout thread *)
      match ch_try_recv (ps_ch s) with
      | (ch, RGot c) => set_thr (set_fate (set_ch s ch) c (PHeld t)) t (TU (URepl i c))
      | (_, RClosed) => pl_user_close s t
      | (_, REmpty) => s                            (* blocked *)
      end
  | URepl i c =>                        (* _ = Send(ReqWorkConn) *)
      match pl_send cfg s eof with
      | SendEOF => set_thr s t (TU (UWrite i c))
      | SendOk => set_thr (pl_enqueue s) t (TU (UWrite i c))
      | SendBlocked => s
      end
  | UWrite i c =>                       (* WriteMsg(workConn, StartWorkConn{ProxyName, SrcAddr, SrcPort, ...}) *)
      if cf_dead cfg c then
        let s1 := set_fate s c PClosed in            (* workConn.Close() *)
        if i + 1 <? ps_pc s + 1 then set_thr s1 t (TU (UTry (i + 1)))
        else pl_user_close s1 t   (* loop exhausted: the inner err shadows the outer one, the closed conn is
                                     returned with a nil error, Join fails at once, both ends are closed *)
      else
        let e := {| st_conn := c; st_user := t; st_proxy := proxy; st_src := src; st_sport := sport |} in
        set_thr (set_user (set_fate (add_log s e) c (PDelivered t)) t (UBridged c)) t (TU UDone)
  | UDone => s
  end.

(* --- the timer of GetWorkConn's second select: fires only while its user waits there --- *)
Definition pl_step_timer (s : pst) (u : nat) : pst :=
  match ps_thr s u with
  | TU (UWait _) => pl_user_close s u               (* "timeout trying to get work connection" *)
  | _ => s
  end.

(* --- Control.worker after <-msgDispatcher.Done() --- *)
Definition pl_step_teardown (s : pst) (t : nat) (p : tpc) : pst :=
  match p with
  | TStop => set_thr (set_ddone s true) t (TT TCloseCh)
  | TCloseCh =>                         (* close(ctl.workConnCh) *)
      if ch_closed (ps_ch s) then set_thr (set_crashed s true) t (TT TFin)
      else set_thr (set_ch s (ch_close (ps_ch s))) t (TT TDrain)
  | TDrain =>                           (* for workConn := range ctl.workConnCh { workConn.Close() } *)
      match ch_try_recv (ps_ch s) with
      | (ch, RGot c) => set_fate (set_ch s ch) c PClosed
      | (_, RClosed) => set_thr s t (TT TDel)
      | (_, REmpty) => s
      end
  | TDel => set_thr (set_mapped s false) t (TT TFin)   (* close(doneCh); ctlManager.Del *)
  | TFin => s
  end.

(* --- Dispatcher.sendLoop --- *)
Definition pl_step_sendloop (cfg : pcfg) (s : pst) (t : nat) (p : spc) : pst :=
  match p with
  | SLRun =>
      if ps_ddone s then set_thr s t (TS SLEnd)      (* case <-doneCh: return (what is still queued is never
                                                        observed; Send no longer blocks once doneCh is closed) *)
      else if 0 <? d_q (ps_disp s) then
        let d := ps_disp s in
        if cf_wfail cfg (d_deq d) then
          let s1 := set_disp s {| d_enq := d_enq d; d_q := d_q d - 1; d_deq := d_deq d + 1; d_sent := d_sent d |} in
          if cf_sl_survives cfg then s1 else set_thr s1 t (TS SLEnd)
        else set_disp s {| d_enq := d_enq d; d_q := d_q d - 1; d_deq := d_deq d + 1; d_sent := d_sent d + 1 |}
      else s                                         (* nothing queued: blocked *)
  | SLEnd => s
  end.

Definition pl_step (cfg : pcfg) (s : pst) (t : nat) : pst :=
  match ps_thr s t with
  | TNone => s
  | TW p => pl_step_work s t p
  | TU p =>
      match pl_req_of cfg t with
      | Some (RUser proxy src sport eof) => pl_step_user cfg s t p proxy src sport eof
      | _ => s
      end
  | TT p => pl_step_teardown s t p
  | TTimer =>
      match pl_req_of cfg t with
      | Some (RTimeout u) => pl_step_timer s u
      | _ => s
      end
  | TS p => pl_step_sendloop cfg s t p
  end.

Definition pl_run (cfg : pcfg) (sched : list nat) (s : pst) : pst := fold_left (pl_step cfg) sched s.
Definition pl_exec (cfg : pcfg) (sched : list nat) : pst := pl_run cfg sched (pl_init cfg).

(* ---------- views ---------- *)

(* does thread state [ts] of thread [t] reference connection c? *)
Definition pl_holds (t : nat) (ts : tstate) (c : nat) : bool :=
  match ts with
  | TW WLookup | TW WSend | TW WCloseIt => Nat.eqb c t
  | TU (URepl _ c') | TU (UWrite _ c') => Nat.eqb c c'
  | _ => false
  end.

Inductive vfate := VNone | VInFlight | VInPool | VDelivered (u : nat) | VClosed | VLost.

(* Lost = still open, in no pool, bridged to nobody, and referenced by no goroutine *)
Definition pl_view (s : pst) (c : nat) : vfate :=
  match ps_fate s c with
  | PNone => VNone
  | PHeld t => if pl_holds t (ps_thr s t) c then VInFlight else VLost
  | PInPool => VInPool
  | PDelivered u => VDelivered u
  | PClosed => VClosed
  end.

Definition pl_thread_finished (ts : tstate) : bool :=
  match ts with
  | TNone | TW WDone | TU UDone | TT TFin | TTimer | TS _ => true
  | _ => false
  end.

Definition pl_pool_len (s : pst) : Z := Z.of_nat (length (ch_q (ps_ch s))).

(* ---------- hand-off channels ---------- *)
(* Muxer.handle:     l, ok := getListener(..) ; ... ; PanicToError(func(){ l.accept <- c })
   TCPGroup.worker:  c, err := tcpLn.Accept()  ;       PanicToError(func(){ tg.acceptCh <- c })
   Listener.Close:   registryRouter.Del(..); close(l.accept)
   TCPGroup.CloseListener (last member): close(acceptCh); tcpLn.Close()  (after close(ln.closeCh) made the
   member's accept loop leave) *)

Inductive hfate :=
| HNoConn              (* not a connection id *)
| HNew                 (* accepted by the OS, not yet looked up *)
| HChosen              (* receiving listener chosen; unbuffered send pending *)
| HAccepted            (* handed to the member listener: handleUserTCPConnection runs *)
| HClosedNoRoute       (* no listener found: closed by the fail hook / by the closing socket *)
| HClosedOnFail        (* hand-off failed and the dispatcher closed the connection *)
| HLost.               (* hand-off failed; the connection is dropped without being closed *)

Inductive hreq := HDispatch | HCloser.
Inductive hpc := HLookup | HSendStep | HEnd | HC0 | HC1 | HC2 | HCEnd.

Record hst := {
  hs_routed : bool;       (* lookup still finds the listener / the listening socket still accepts *)
  hs_chclosed : bool;     (* close(accept channel) done *)
  hs_receiving : bool;    (* a member accept loop is still receiving from the channel *)
  hs_fate : nat -> hfate;
  hs_thr : nat -> option hpc
}.

(* [chan_first]: the closer closes the channel before it disables the lookup (group) or after (vhost) *)
Record hcfg := { hc_reqs : list hreq; hc_chan_first : bool; hc_close_on_fail : bool }.

Definition h_init (cfg : hcfg) : hst :=
  {| hs_routed := true; hs_chclosed := false; hs_receiving := true;
     hs_fate := fun u => match nth_error (hc_reqs cfg) u with Some HDispatch => HNew | _ => HNoConn end;
     hs_thr := fun t => match nth_error (hc_reqs cfg) t with
                        | Some HDispatch => Some HLookup | Some HCloser => Some HC0 | None => None end |}.

Definition h_set_thr s t v := {| hs_routed := hs_routed s; hs_chclosed := hs_chclosed s; hs_receiving := hs_receiving s;
  hs_fate := hs_fate s; hs_thr := upd (hs_thr s) t v |}.
Definition h_set_fate s u f := {| hs_routed := hs_routed s; hs_chclosed := hs_chclosed s; hs_receiving := hs_receiving s;
  hs_fate := upd (hs_fate s) u f; hs_thr := hs_thr s |}.

Definition h_step (cfg : hcfg) (s : hst) (t : nat) : hst :=
  match hs_thr s t with
  | Some HLookup =>
      if hs_routed s then h_set_thr (h_set_fate s t HChosen) t (Some HSendStep)
      else h_set_thr (h_set_fate s t HClosedNoRoute) t (Some HEnd)
  | Some HSendStep =>                   (* unbuffered send under recover *)
      if hs_chclosed s then
        h_set_thr (h_set_fate s t (if hc_close_on_fail cfg then HClosedOnFail else HLost)) t (Some HEnd)
      else if hs_receiving s then h_set_thr (h_set_fate s t HAccepted) t (Some HEnd)
      else s                            (* blocked: nobody receives *)
  | Some HC0 =>                         (* close(ln.closeCh): the member's accept loop leaves (group only) *)
      h_set_thr {| hs_routed := hs_routed s; hs_chclosed := hs_chclosed s;
                   hs_receiving := if hc_chan_first cfg then false else hs_receiving s;
                   hs_fate := hs_fate s; hs_thr := hs_thr s |} t (Some HC1)
  | Some HC1 =>
      if hc_chan_first cfg
      then h_set_thr {| hs_routed := hs_routed s; hs_chclosed := true; hs_receiving := false;
                        hs_fate := hs_fate s; hs_thr := hs_thr s |} t (Some HC2)
      else h_set_thr {| hs_routed := false; hs_chclosed := hs_chclosed s; hs_receiving := hs_receiving s;
                        hs_fate := hs_fate s; hs_thr := hs_thr s |} t (Some HC2)
  | Some HC2 =>
      if hc_chan_first cfg
      then h_set_thr {| hs_routed := false; hs_chclosed := hs_chclosed s; hs_receiving := hs_receiving s;
                        hs_fate := hs_fate s; hs_thr := hs_thr s |} t (Some HCEnd)
      else h_set_thr {| hs_routed := hs_routed s; hs_chclosed := true; hs_receiving := false;
                        hs_fate := hs_fate s; hs_thr := hs_thr s |} t (Some HCEnd)
  | Some HEnd | Some HCEnd | None => s
  end.

Definition h_run (cfg : hcfg) (sched : list nat) (s : hst) : hst := fold_left (h_step cfg) sched s.
Definition h_exec (cfg : hcfg) (sched : list nat) : hst := h_run cfg sched (h_init cfg).

(* What the three hand-off call sites do when the send fails (recovered panic): since the repair
   "a user connection that cannot be handed to a closed listener is closed, not dropped" they close the
   connection; before it they only logged and returned (hc_close_on_fail = false: see the regression
   witness in Properties/C11.v).  Tied to the code by the hand-off driver of the correspondence run. *)
Definition h_code_closes_on_fail : bool := true.
Definition h_vhost_cfg (reqs : list hreq) : hcfg :=
  {| hc_reqs := reqs; hc_chan_first := false; hc_close_on_fail := h_code_closes_on_fail |}.
Definition h_group_cfg (reqs : list hreq) : hcfg :=
  {| hc_reqs := reqs; hc_chan_first := true; hc_close_on_fail := h_code_closes_on_fail |}.

(* ---------- visitor listener (pkg/util/net/listener.go InternalListener) and its accept loop ---------- *)
(* NewInternalListener: acceptCh = make(chan net.Conn, 128)
   PutConn (visitor.Manager.NewConn):  PanicToError(select { case acceptCh <- conn: / default: conn.Close() });
                                       a panic (closed channel) becomes an error and the caller
                                       (Service.handleConnection) closes the connection
   Close:   mu; if !closed { close(acceptCh); closed = true }
   Accept:  conn, ok := <-acceptCh; !ok -> error   (a closed channel still yields what is queued)
   BaseProxy.startCommonTCPListenersHandler: for { c, err := l.Accept(); err (not temporary) -> return;
                                                   go handleUserTCPConnection(c) } *)

Inductive ireq := IPut | IClose | ILoop.
Inductive ipc := IPSend | IPCloseIt | IPEnd | ICGo | ICEnd | ILRun | ILEnd.

Inductive ifate :=
| INoConn
| IOffered            (* with the goroutine that calls PutConn *)
| IQueued             (* in acceptCh *)
| IHandled            (* handed to handleUserTCPConnection: the direct-path theorems apply from here *)
| IClosed.

Record ist := {
  is_ch : pchan;
  is_flag : bool;               (* InternalListener.closed *)
  is_fate : nat -> ifate;
  is_thr : nat -> option ipc
}.

Record icfg := { ic_cap : Z; ic_reqs : list ireq }.
Definition il_code_cap : Z := 128.

Definition il_init (cfg : icfg) : ist :=
  {| is_ch := {| ch_cap := ic_cap cfg; ch_q := []; ch_closed := false |};
     is_flag := false;
     is_fate := fun c => match nth_error (ic_reqs cfg) c with Some IPut => IOffered | _ => INoConn end;
     is_thr := fun t => match nth_error (ic_reqs cfg) t with
                        | Some IPut => Some IPSend | Some IClose => Some ICGo | Some ILoop => Some ILRun
                        | None => None end |}.

Definition il_step (s : ist) (t : nat) : ist :=
  match is_thr s t with
  | Some IPSend =>
      match ch_try_send t (is_ch s) with
      | (ch, SOk) => {| is_ch := ch; is_flag := is_flag s; is_fate := upd (is_fate s) t IQueued;
                        is_thr := upd (is_thr s) t (Some IPEnd) |}
      | (_, SFull) => {| is_ch := is_ch s; is_flag := is_flag s; is_fate := upd (is_fate s) t IClosed;   (* default: conn.Close() *)
                         is_thr := upd (is_thr s) t (Some IPEnd) |}
      | (_, SPanic) => {| is_ch := is_ch s; is_flag := is_flag s; is_fate := is_fate s;                  (* "listener is closed" *)
                          is_thr := upd (is_thr s) t (Some IPCloseIt) |}
      end
  | Some IPCloseIt => {| is_ch := is_ch s; is_flag := is_flag s; is_fate := upd (is_fate s) t IClosed;
                         is_thr := upd (is_thr s) t (Some IPEnd) |}
  | Some ICGo =>
      if is_flag s then {| is_ch := is_ch s; is_flag := true; is_fate := is_fate s; is_thr := upd (is_thr s) t (Some ICEnd) |}
      else {| is_ch := ch_close (is_ch s); is_flag := true; is_fate := is_fate s; is_thr := upd (is_thr s) t (Some ICEnd) |}
  | Some ILRun =>
      match ch_try_recv (is_ch s) with
      | (ch, RGot c) => {| is_ch := ch; is_flag := is_flag s; is_fate := upd (is_fate s) c IHandled; is_thr := is_thr s |}
      | (_, RClosed) => {| is_ch := is_ch s; is_flag := is_flag s; is_fate := is_fate s; is_thr := upd (is_thr s) t (Some ILEnd) |}
      | (_, REmpty) => s
      end
  | Some IPEnd | Some ICEnd | Some ILEnd | None => s
  end.

Definition il_run (sched : list nat) (s : ist) : ist := fold_left il_step sched s.
Definition il_exec (cfg : icfg) (sched : list nat) : ist := il_run sched (il_init cfg).

(* ---------- load-balancing group: the accept worker, the hand-off channel and the members' Accept ---------- *)
(* TCPGroup.worker:           for { c := tcpLn.Accept(); PanicToError(acceptCh <- c); on error: c.Close(); return }
   TCPGroupListener.Accept:   select { case <-ln.closeCh: return nil, ErrListenerClosed
                                       case c, ok = <-ln.group.Accept(): if !ok { return nil, Err... }; return c, nil }
   member's proxy accept loop (startCommonTCPListenersHandler): c, err := l.Accept(); err -> return; go handle(c)
   TCPGroupListener.Close:    close(ln.closeCh); group.CloseListener(ln): remove; if it was the last:
                              close(acceptCh); tcpLn.Close()
   The channel is unbuffered: the worker's send and one member's receive are one rendezvous; the worker is a
   single goroutine, so at most one connection is pending in the hand-off at any time ([gs_pending]). *)

Inductive greq :=
| GConn                     (* a user connection reaching the group's listening socket; id = thread id *)
| GLoop (m : nat)           (* the accept loop of member m's proxy *)
| GCloser (m : nat).        (* TCPGroupListener.Close of member m *)

Inductive gpc :=
| GArrive | GSending | GConnEnd            (* the worker's handling of one connection *)
| GLRun | GLGot (u : nat) | GLEnd          (* a member's loop: in Accept / has received u, about to return it / returned an error *)
| GC1 | GC2 | GCEnd.

Inductive gfate :=
| GNoConn
| GNew                      (* not yet accepted by the worker *)
| GPending                  (* accepted; the worker stands in the hand-off send *)
| GTaken (m : nat)          (* received by member m's Accept, not yet returned *)
| GHandled (m : nat)        (* returned by member m's Accept: its handler runs (direct-path theorems apply) *)
| GRefused                  (* the listening socket was already closed *)
| GClosedOnFail             (* hand-off failed, the worker closed it *)
| GLost.                    (* taken out of the hand-off, returned to nobody, not closed *)

Record gcfg := {
  gc_reqs : list greq;
  gc_members : nat;                 (* members 0 .. gc_members-1 have joined *)
  gc_pick : nat -> bool;            (* oracle: how the k-th ambiguous select (closeCh and hand-off both ready) resolves:
                                       true = the hand-off case *)
  gc_close_on_fail : bool;          (* the worker closes a connection whose hand-off failed (repaired) *)
  gc_recheck_drops : bool           (* Accept re-checks closeCh after it has received a connection and then
                                       returns an error without the connection (today: it does not) *)
}.

Record gst := {
  gs_sock_open : bool;              (* tcpLn accepts *)
  gs_chclosed : bool;               (* close(acceptCh) done *)
  gs_pending : option nat;
  gs_closech : nat -> bool;         (* member m: close(closeCh) done *)
  gs_left : nat -> bool;            (* member m removed from tg.lns *)
  gs_tick : nat;                    (* number of ambiguous selects resolved so far *)
  gs_fate : nat -> gfate;
  gs_thr : nat -> option gpc
}.

Definition g_init (cfg : gcfg) : gst :=
  {| gs_sock_open := true; gs_chclosed := false; gs_pending := None;
     gs_closech := fun _ => false;
     gs_left := fun m => negb (Nat.ltb m (gc_members cfg));
     gs_tick := O;
     gs_fate := fun u => match nth_error (gc_reqs cfg) u with Some GConn => GNew | _ => GNoConn end;
     gs_thr := fun t => match nth_error (gc_reqs cfg) t with
                        | Some GConn => Some GArrive | Some (GLoop _) => Some GLRun | Some (GCloser _) => Some GC1
                        | None => None end |}.

Definition g_upd_thr s t v := {| gs_sock_open := gs_sock_open s; gs_chclosed := gs_chclosed s; gs_pending := gs_pending s;
  gs_closech := gs_closech s; gs_left := gs_left s; gs_tick := gs_tick s; gs_fate := gs_fate s; gs_thr := upd (gs_thr s) t v |}.
Definition g_upd_fate s u f := {| gs_sock_open := gs_sock_open s; gs_chclosed := gs_chclosed s; gs_pending := gs_pending s;
  gs_closech := gs_closech s; gs_left := gs_left s; gs_tick := gs_tick s; gs_fate := upd (gs_fate s) u f; gs_thr := gs_thr s |}.
Definition g_set_pending s p := {| gs_sock_open := gs_sock_open s; gs_chclosed := gs_chclosed s; gs_pending := p;
  gs_closech := gs_closech s; gs_left := gs_left s; gs_tick := gs_tick s; gs_fate := gs_fate s; gs_thr := gs_thr s |}.
Definition g_tick s := {| gs_sock_open := gs_sock_open s; gs_chclosed := gs_chclosed s; gs_pending := gs_pending s;
  gs_closech := gs_closech s; gs_left := gs_left s; gs_tick := S (gs_tick s); gs_fate := gs_fate s; gs_thr := gs_thr s |}.

(* all members 0..n-1 have left *)
Fixpoint g_all_left (left : nat -> bool) (n : nat) : bool :=
  match n with O => true | S k => left k && g_all_left left k end.

(* member m's Accept has received u *)
Definition g_receive (cfg : gcfg) (s : gst) (t m u : nat) : gst :=
  let s1 := g_set_pending s None in
  if gc_recheck_drops cfg then g_upd_thr (g_upd_fate s1 u (GTaken m)) t (Some (GLGot u))
  else g_upd_fate s1 u (GHandled m).            (* return c, nil; the loop starts the handler and calls Accept again *)

Definition g_step (cfg : gcfg) (s : gst) (t : nat) : gst :=
  match gs_thr s t, nth_error (gc_reqs cfg) t with
  | Some GArrive, _ =>                     (* tcpLn.Accept(): one connection at a time *)
      if negb (gs_sock_open s) then g_upd_thr (g_upd_fate s t GRefused) t (Some GConnEnd)
      else match gs_pending s with
           | Some _ => s                                  (* the worker is still in the previous hand-off *)
           | None => g_upd_thr (g_upd_fate (g_set_pending s (Some t)) t GPending) t (Some GSending)
           end
  | Some GSending, _ =>                    (* the send: completed by a receiver (then nothing is pending any more), or the channel is closed *)
      match gs_pending s with
      | Some u =>
          if Nat.eqb u t then
            if gs_chclosed s then
              g_upd_thr (g_upd_fate (g_set_pending s None) t (if gc_close_on_fail cfg then GClosedOnFail else GLost)) t (Some GConnEnd)
            else s                                        (* blocked: no member has received yet *)
          else g_upd_thr s t (Some GConnEnd)
      | None => g_upd_thr s t (Some GConnEnd)
      end
  | Some GLRun, Some (GLoop m) =>          (* TCPGroupListener.Accept of member m *)
      let closed := gs_closech s m in
      match gs_pending s with
      | Some u =>
          if gs_chclosed s then
            (* receive on the closed channel yields !ok; closeCh is closed too: either way an error *)
            g_upd_thr s t (Some GLEnd)
          else if closed then
            (if gc_pick cfg (gs_tick s) then g_receive cfg (g_tick s) t m u else g_upd_thr (g_tick s) t (Some GLEnd))
          else g_receive cfg s t m u
      | None =>
          if closed || gs_chclosed s then g_upd_thr s t (Some GLEnd) else s
      end
  | Some (GLGot u), Some (GLoop m) =>      (* only with the re-check: closeCh closed meanwhile -> error, c dropped *)
      if gs_closech s m then g_upd_thr (g_upd_fate s u GLost) t (Some GLEnd)
      else g_upd_thr (g_upd_fate s u (GHandled m)) t (Some GLRun)
  | Some GC1, Some (GCloser m) =>          (* close(ln.closeCh) *)
      g_upd_thr {| gs_sock_open := gs_sock_open s; gs_chclosed := gs_chclosed s; gs_pending := gs_pending s;
                   gs_closech := upd (gs_closech s) m true; gs_left := gs_left s; gs_tick := gs_tick s;
                   gs_fate := gs_fate s; gs_thr := gs_thr s |} t (Some GC2)
  | Some GC2, Some (GCloser m) =>          (* CloseListener under the group lock *)
      let left := upd (gs_left s) m true in
      let last := g_all_left left (gc_members cfg) in
      g_upd_thr {| gs_sock_open := if last then false else gs_sock_open s;
                   gs_chclosed := if last then true else gs_chclosed s;
                   gs_pending := gs_pending s; gs_closech := gs_closech s; gs_left := left; gs_tick := gs_tick s;
                   gs_fate := gs_fate s; gs_thr := gs_thr s |} t (Some GCEnd)
  | _, _ => s
  end.

Definition g_run (cfg : gcfg) (sched : list nat) (s : gst) : gst := fold_left (g_step cfg) sched s.
Definition g_exec (cfg : gcfg) (sched : list nat) : gst := g_run cfg sched (g_init cfg).

(* ---------- checkers over the translator-derived tables of T11send/paths (definitions only) ---------- *)
Definition group_accepts_ok (l : list (string * bool * bool)) : bool :=
  forallb (fun r => snd (fst r) && snd r) l && Nat.eqb (List.length l) 2.

Definition compress_site_ok (r : string * string * bool * bool * bool) : bool :=
  let '(_, _, has_results, recycle_ok, joins) := r in negb has_results && recycle_ok && joins.

(* ---------- vhost muxer: Muxer.handle (one goroutine per connection), the unbuffered Listener.accept, the
   proxy's accept loop on Listener.Accept, Listener.Close ---------- *)
(* Muxer.handle:     read the host; l := getListener(..) (none: fail hook closes); ...;
                     PanicToError(func(){ l.accept <- c }); on error: c.Close()
   Listener.Accept:  conn, ok := <-l.accept; !ok -> error (the proxy's accept loop returns)
   Listener.Close:   registryRouter.Del(..); close(l.accept)
   Unlike the group worker, any number of handle goroutines may stand in the send at the same time. *)

Inductive vhreq := VhConn | VhLoop | VhCloser.
Inductive vhpc := VhLookup | VhSending | VhEnd | VhLRun | VhLEnd | VhC1 | VhC2 | VhCEnd.
Inductive vhfate := VhNoConn | VhNew | VhPending | VhHandled | VhClosedNoRoute | VhClosedOnFail.

Record vhcfg := {
  vc_reqs : list vhreq;
  vc_pick : nat -> nat;               (* oracle: which waiting sender the k-th receive of Accept takes *)
  vc_close_releases : bool            (* Listener.Close releases the senders waiting in the hand-off (recover-wrapped
                                         send on the channel Close closes, or a select on a channel Close closes) *)
}.

Record vhst := {
  vs_routed : bool;
  vs_chclosed : bool;                 (* Listener.Close has done its closing *)
  vs_tick : nat;
  vs_fate : nat -> vhfate;
  vs_thr : nat -> option vhpc
}.

Definition v_init (cfg : vhcfg) : vhst :=
  {| vs_routed := true; vs_chclosed := false; vs_tick := O;
     vs_fate := fun u => match nth_error (vc_reqs cfg) u with Some VhConn => VhNew | _ => VhNoConn end;
     vs_thr := fun t => match nth_error (vc_reqs cfg) t with
                        | Some VhConn => Some VhLookup | Some VhLoop => Some VhLRun | Some VhCloser => Some VhC1
                        | None => None end |}.

Definition v_set s t v f := {| vs_routed := vs_routed s; vs_chclosed := vs_chclosed s; vs_tick := vs_tick s;
  vs_fate := upd (vs_fate s) t f; vs_thr := upd (vs_thr s) t (Some v) |}.
Definition v_thr s t v := {| vs_routed := vs_routed s; vs_chclosed := vs_chclosed s; vs_tick := vs_tick s;
  vs_fate := vs_fate s; vs_thr := upd (vs_thr s) t (Some v) |}.

Definition v_step (cfg : vhcfg) (s : vhst) (t : nat) : vhst :=
  match vs_thr s t with
  | Some VhLookup =>
      if vs_routed s then v_set s t VhSending VhPending else v_set s t VhEnd VhClosedNoRoute
  | Some VhSending =>
      match vs_fate s t with
      | VhHandled => v_thr s t VhEnd                       (* a receiver completed the send *)
      | _ => if vs_chclosed s && vc_close_releases cfg
             then v_set s t VhEnd VhClosedOnFail           (* released by Close: the dispatcher closes the connection *)
             else s                                      (* blocked in the send *)
      end
  | Some VhLRun =>
      if vs_chclosed s then v_thr s t VhLEnd              (* Accept reports the closed listener: the loop returns *)
      else let u := vc_pick cfg (vs_tick s) in
           match vs_fate s u with
           | VhPending => {| vs_routed := vs_routed s; vs_chclosed := false; vs_tick := S (vs_tick s);
                            vs_fate := upd (vs_fate s) u VhHandled; vs_thr := vs_thr s |}
           | _ => s                                      (* nobody (or not this one) is waiting *)
           end
  | Some VhC1 => v_thr {| vs_routed := false; vs_chclosed := vs_chclosed s; vs_tick := vs_tick s;
                         vs_fate := vs_fate s; vs_thr := vs_thr s |} t VhC2
  | Some VhC2 => v_thr {| vs_routed := vs_routed s; vs_chclosed := true; vs_tick := vs_tick s;
                         vs_fate := vs_fate s; vs_thr := vs_thr s |} t VhCEnd
  | _ => s
  end.

Definition v_run (cfg : vhcfg) (sched : list nat) (s : vhst) : vhst := fold_left (v_step cfg) sched s.
Definition v_exec (cfg : vhcfg) (sched : list nat) : vhst := v_run cfg sched (v_init cfg).

(* checker over the translator-derived facts of T11send/paths about Muxer.handle / Listener.Close / legacy ini *)
Definition legacy_pool_fields_ok (l : list (string * string * string)) : bool :=
  forallb (fun r => let '(target, source, key) := r in
             (String.eqb target "Transport.MaxPoolCount" && String.eqb source "MaxPoolCount" && String.eqb key "max_pool_count") ||
             (String.eqb target "Transport.PoolCount" && String.eqb source "PoolCount" && String.eqb key "pool_count")) l
  && Nat.eqb (List.length l) 2.

(* the four facts of the visitor accept path must all hold (T11send/paths) *)
Definition visitor_path_ok (l : list (string * bool)) : bool :=
  forallb snd l && Nat.eqb (List.length l) 4.
