package main

import (
	"fmt"
	"net"
	"os"
	"sort"
	"strconv"
	"strings"

	"verifharness/hx"
)

var drivers = map[string]hx.DriverFn{}

func main() { hx.Main(drivers) }

// every socket of this property lives on 127.0.9.x, ports 20900..20999.  Each driver process claims its
// own pair of loopback addresses (127.0.9.2k for the manager/proxy drivers, 127.0.9.2k+1 for the
// in-process frps) by holding a listener on 127.0.9.2k:20898 for its lifetime, so several C09 checks can
// run at the same time without seeing each other's sockets.  Case files contain ports only, never
// addresses, so the claim does not affect replay.
const basePort = 20900

var (
	loopA, loopB string
	claimLn      net.Listener
)

func init() {
	start := os.Getpid() % 120
	for i := 0; i < 120; i++ {
		k := 1 + (start+i)%120
		a := fmt.Sprintf("127.0.9.%d", 2*k)
		l, err := net.Listen("tcp", net.JoinHostPort(a, "20898"))
		if err != nil {
			continue
		}
		claimLn = l
		loopA = a
		loopB = fmt.Sprintf("127.0.9.%d", 2*k+1)
		return
	}
	fmt.Fprintln(os.Stderr, "c09 harness: no free 127.0.9.x address pair")
	os.Exit(3)
}

const coqImports = "From FRP Require Import Corr.C09.\nOpen Scope Z_scope.\nOpen Scope string_scope.\n"

func coqTail(counters map[string]int) string {
	var b strings.Builder
	b.WriteString("Definition M := Eval vm_compute in mismatches check_case cases.\nPrint M.\n")
	ks := make([]string, 0, len(counters))
	for k := range counters {
		ks = append(ks, k)
	}
	sort.Strings(ks)
	for _, k := range ks {
		fmt.Fprintf(&b, "Definition %s := Eval vm_compute in (count_branch %d cases : Z).\nPrint %s.\n", k, counters[k], k)
	}
	return b.String()
}

func zlist(xs []int) string {
	s := make([]string, len(xs))
	for i, x := range xs {
		s[i] = hx.Z(int64(x))
	}
	return hx.List(s)
}

// squatter: sockets bound from outside the code under test
type squatter struct {
	proto string
	addr  string
	held  map[int]interface{ Close() error }
}

func newSquatter(proto, addr string) *squatter {
	return &squatter{proto: proto, addr: addr, held: map[int]interface{ Close() error }{}}
}

func bindPort(proto, addr string, port int) (interface{ Close() error }, error) {
	hp := net.JoinHostPort(addr, strconv.Itoa(port))
	if proto == "udp" {
		ua, err := net.ResolveUDPAddr("udp", hp)
		if err != nil {
			return nil, err
		}
		return net.ListenUDP("udp", ua)
	}
	return net.Listen("tcp", hp)
}

func (q *squatter) squat(port int) bool {
	if _, ok := q.held[port]; ok {
		return false
	}
	l, err := bindPort(q.proto, q.addr, port)
	if err != nil {
		return false
	}
	q.held[port] = l
	return true
}

func (q *squatter) unsquat(port int) {
	if l, ok := q.held[port]; ok {
		l.Close()
		delete(q.held, port)
	}
}

func (q *squatter) closeAll() {
	for p, l := range q.held {
		l.Close()
		delete(q.held, p)
	}
}

func (q *squatter) ports() []int {
	r := []int{}
	for p := range q.held {
		r = append(r, p)
	}
	sort.Ints(r)
	return r
}

// osBusy: which of the given ports cannot be bound right now (somebody holds them)
func osBusy(proto, addr string, ports []int) []int {
	r := []int{}
	for _, p := range ports {
		if p <= 0 || p > 65535 {
			continue
		}
		l, err := bindPort(proto, addr, p)
		if err != nil {
			r = append(r, p)
			continue
		}
		l.Close()
	}
	return r
}

func sameInts(a, b []int) bool {
	if len(a) != len(b) {
		return false
	}
	for i := range a {
		if a[i] != b[i] {
			return false
		}
	}
	return true
}
