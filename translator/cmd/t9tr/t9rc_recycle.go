// T9rc (property C02): where the pooled compression resources of a tunnel stream are given back.
// For every function that takes a snappy reader/writer pair from the pool
// (`x, recycle = libio.WithCompressionFromPool(x)`) the statements of the function body are
// abstracted, in source order, to the events that matter for the life time of the stream:
//
//	RcAcquire            the assignment from WithCompressionFromPool
//	RcDefer              `defer recycle()`
//	RcRecycle            a plain call `recycle()`
//	RcJoin               a statement calling libio.Join(...)            (returns when the stream has ended)
//	RcClose              `<conn>.Close()` on a connection parameter of the function / workConn
//	RcAsync              `<...Plugin>.Handle(...)`                      (hands the stream to somebody else and returns)
//	RcIf body returns    an if statement whose block contains one of the above or a return;
//	                     returns = the block ends with a return statement
//	RcUnknown "text"     any other statement that mentions the recycle function (go, argument, ...),
//	                     an else branch or a loop containing events
//
// Statements without any of these are dropped.  Output: gen/GenRecycle.v
//
//	Definition gen_recycle_sites : list (string * string * list rc_ev) := [(file, func, events); ...].
package main

import (
	"bytes"
	"fmt"
	"go/ast"
	"go/parser"
	"go/token"
	"path/filepath"
	"strings"

	"veriftranslator/tx"
)

var recycleFiles = []string{"client/proxy/proxy.go", "server/proxy/proxy.go", "client/visitor/stcp.go", "client/visitor/xtcp.go"}

type rcTr struct {
	fset    *token.FileSet
	recycle string
	conns   map[string]bool
}

func callName(fset *token.FileSet, c *ast.CallExpr) string { return src(fset, c.Fun) }

func mentionsIdent(n ast.Node, name string) bool {
	if name == "" {
		return false
	}
	found := false
	ast.Inspect(n, func(x ast.Node) bool {
		if id, ok := x.(*ast.Ident); ok && id.Name == name {
			found = true
		}
		return !found
	})
	return found
}

// simple statements: at most one event
func (t *rcTr) simple(s ast.Stmt) []string {
	var ev []string
	isAcquire := false
	ast.Inspect(s, func(n ast.Node) bool {
		if _, ok := n.(*ast.FuncLit); ok {
			return false
		}
		c, ok := n.(*ast.CallExpr)
		if !ok {
			return true
		}
		name := callName(t.fset, c)
		switch {
		case strings.HasSuffix(name, "WithCompressionFromPool"):
			isAcquire = true
			ev = append(ev, "RcAcquire")
		case name == "libio.Join":
			ev = append(ev, "RcJoin")
		case strings.HasSuffix(name, ".Handle") && strings.Contains(strings.ToLower(name), "plugin"):
			ev = append(ev, "RcAsync")
		case strings.HasSuffix(name, ".Close"):
			if sel, ok := c.Fun.(*ast.SelectorExpr); ok {
				if id, ok := sel.X.(*ast.Ident); ok && t.conns[id.Name] {
					ev = append(ev, "RcClose")
				}
			}
		case t.recycle != "" && name == t.recycle:
			ev = append(ev, "RcRecycle")
		}
		return true
	})
	if isAcquire {
		if as, ok := s.(*ast.AssignStmt); ok && len(as.Lhs) == 2 {
			if id, ok := as.Lhs[1].(*ast.Ident); ok {
				t.recycle = id.Name
			}
		}
		return []string{"RcAcquire"}
	}
	if len(ev) == 0 && mentionsIdent(s, t.recycle) {
		if _, ok := s.(*ast.DeclStmt); ok {
			return nil
		}
		return []string{"RcUnknown " + tx.CoqString(src(t.fset, s))}
	}
	if len(ev) > 1 {
		return []string{"RcUnknown " + tx.CoqString(src(t.fset, s))}
	}
	return ev
}

func hasReturn(n ast.Node) bool {
	found := false
	ast.Inspect(n, func(x ast.Node) bool {
		if _, ok := x.(*ast.FuncLit); ok {
			return false
		}
		if _, ok := x.(*ast.ReturnStmt); ok {
			found = true
		}
		return !found
	})
	return found
}

func (t *rcTr) block(list []ast.Stmt) (evs []string, returns bool) {
	for _, s := range list {
		switch x := s.(type) {
		case *ast.ReturnStmt:
			return evs, true
		case *ast.DeferStmt:
			if t.recycle != "" && callName(t.fset, x.Call) == t.recycle {
				evs = append(evs, "RcDefer")
			} else if mentionsIdent(x, t.recycle) {
				evs = append(evs, "RcUnknown "+tx.CoqString(src(t.fset, x)))
			}
		case *ast.IfStmt:
			var pre []string
			if x.Init != nil {
				pre = t.simple(x.Init)
			}
			evs = append(evs, pre...)
			body, ret := t.block(x.Body.List)
			if x.Else != nil {
				var elseEv []string
				switch e := x.Else.(type) {
				case *ast.BlockStmt:
					elseEv, _ = t.block(e.List)
				case *ast.IfStmt:
					elseEv, _ = t.block([]ast.Stmt{e})
				}
				if len(elseEv) > 0 || hasReturn(x.Else) {
					evs = append(evs, "RcUnknown "+tx.CoqString("else branch with events: "+src(t.fset, x.Cond)))
				}
			}
			if len(body) > 0 || ret {
				evs = append(evs, fmt.Sprintf("RcIf [%s] %v", strings.Join(body, "; "), ret))
			}
		case *ast.ForStmt, *ast.RangeStmt, *ast.SwitchStmt, *ast.SelectStmt, *ast.TypeSwitchStmt, *ast.GoStmt, *ast.BlockStmt:
			inner := false
			ast.Inspect(x, func(n ast.Node) bool {
				if st, ok := n.(ast.Stmt); ok && n != ast.Node(x) {
					if _, isBlock := st.(*ast.BlockStmt); !isBlock && len(t.simple(st)) > 0 {
						inner = true
					}
				}
				return !inner
			})
			if inner || (hasReturn(x) && t.recycle != "") {
				evs = append(evs, "RcUnknown "+tx.CoqString("compound statement with events: "+strings.SplitN(src(t.fset, x), "{", 2)[0]))
			}
		default:
			evs = append(evs, t.simple(s)...)
		}
	}
	return evs, false
}

func genRecycle() ([]byte, error) {
	var sites []string
	for _, file := range recycleFiles {
		fset := token.NewFileSet()
		f, err := parser.ParseFile(fset, filepath.Join(tx.Repo, file), nil, 0)
		if err != nil {
			return nil, err
		}
		for _, d := range f.Decls {
			fd, ok := d.(*ast.FuncDecl)
			if !ok || fd.Body == nil {
				continue
			}
			uses := false
			ast.Inspect(fd.Body, func(n ast.Node) bool {
				if c, ok := n.(*ast.CallExpr); ok && strings.HasSuffix(callName(fset, c), "WithCompressionFromPool") {
					uses = true
				}
				return !uses
			})
			if !uses {
				continue
			}
			t := &rcTr{fset: fset, conns: map[string]bool{"workConn": true}}
			for _, p := range fd.Type.Params.List {
				for _, n := range p.Names {
					if strings.Contains(src(fset, p.Type), "Conn") {
						t.conns[n.Name] = true
					}
				}
			}
			evs, _ := t.block(fd.Body.List)
			sites = append(sites, fmt.Sprintf("(%s, %s,\n     [%s])", tx.CoqString(file), tx.CoqString(fd.Name.Name), strings.Join(evs, ";\n      ")))
		}
	}
	if len(sites) == 0 {
		return nil, fmt.Errorf("no WithCompressionFromPool site found")
	}
	var b bytes.Buffer
	b.WriteString("(* generated by translator unit T9rc from client/proxy/proxy.go, server/proxy/proxy.go, client/visitor/{stcp,xtcp}.go; do not edit *)\n")
	b.WriteString("From FRP Require Import Model.HttpAdmit.\nLocal Open Scope string_scope.\n\n")
	b.WriteString("Definition T9rc_translated : bool := true.\n")
	b.WriteString("Definition gen_recycle_sites : list (string * string * list rc_ev) :=\n  [" + strings.Join(sites, ";\n   ") + "].\n")
	return b.Bytes(), nil
}
