(* C06 — executable model of pkg/util/vhost/router.go (Routers.Add/Del/Get/exist), of the route
   walk of pkg/util/vhost/http.go:getVhost == pkg/util/vhost/vhost.go:getListener, and of
   pkg/util/http/http.go:CanonicalHost (with net.SplitHostPort).  Model only: no proofs here.

   The model mirrors the mechanism of the code: a map domain -> (map httpUser -> slice of routes),
   the slice re-sorted descending by location after every append, first strings.HasPrefix hit on
   lookup; exact host -> wildcard walk -> "*", at every step the request's user first, then "".
   Maps are association lists (key order is irrelevant: look-ups are by key). *)
From FRP Require Export Model.Bytes.
Open Scope Z_scope.

(* ---------- association lists keyed by byte strings (Go maps keyed by string) ---------- *)
Fixpoint rt_alookup {V} (k : bytes) (m : list (bytes * V)) : option V :=
  match m with
  | [] => None
  | (k', v) :: m' => if bytes_eqb k k' then Some v else rt_alookup k m'
  end.

Fixpoint rt_aset {V} (k : bytes) (v : V) (m : list (bytes * V)) : list (bytes * V) :=
  match m with
  | [] => [(k, v)]
  | (k', v') :: m' => if bytes_eqb k k' then (k, v) :: m' else (k', v') :: rt_aset k v m'
  end.

(* ---------- type Router struct { domain, location, httpUser string; payload any } ---------- *)
Record route (P : Type) := mkRoute { rt_dom : bytes; rt_loc : bytes; rt_user : bytes; rt_pay : P }.
Arguments mkRoute {P}. Arguments rt_dom {P}. Arguments rt_loc {P}. Arguments rt_user {P}. Arguments rt_pay {P}.

(* routerByHTTPUser = map[string][]*Router ; Routers.indexByDomain = map[string]routerByHTTPUser *)
Definition rt_utab (P : Type) := list (bytes * list (route P)).
Definition rstate (P : Type) := list (bytes * rt_utab P).
Definition rt_empty {P} : rstate P := [].

(* slices.SortFunc(vrs, func(a, b) int { return -cmp.Compare(a.location, b.location) }).
   Modelled as insertion sort of the whole slice; on slices without equal locations (the only ones
   that arise: Add refuses duplicates) every correct sort produces this same result. *)
Fixpoint rt_insert_desc {P} (r : route P) (l : list (route P)) : list (route P) :=
  match l with
  | [] => [r]
  | x :: l' => if bytes_ltb (rt_loc r) (rt_loc x) then x :: rt_insert_desc r l' else r :: x :: l'
  end.
Definition rt_sort_desc {P} (l : list (route P)) : list (route P) := fold_right rt_insert_desc [] l.

(* Routers.exist *)
Definition rt_exist {P} (s : rstate P) (dom loc user : bytes) : bool :=
  match rt_alookup dom s with
  | None => false
  | Some ut =>
      match rt_alookup user ut with
      | None => false
      | Some vrs => existsb (fun r => bytes_eqb loc (rt_loc r)) vrs
      end
  end.

(* Routers.Add : None = ErrRouterConfigConflict (state unchanged) *)
Definition rt_add {P} (s : rstate P) (dom0 loc user : bytes) (pay : P) : option (rstate P) :=
  let dom := lower dom0 in
  if rt_exist s dom loc user then None
  else
    let ut := match rt_alookup dom s with Some ut => ut | None => [] end in
    let vrs := match rt_alookup user ut with Some v => v | None => [] end in
    let vrs' := rt_sort_desc (vrs ++ [mkRoute dom loc user pay]) in
    Some (rt_aset dom (rt_aset user vrs' ut) s).

(* Routers.Del : keeps (possibly empty) slices and maps behind, as the code does *)
Definition rt_del {P} (s : rstate P) (dom0 loc user : bytes) : rstate P :=
  let dom := lower dom0 in
  match rt_alookup dom s with
  | None => s
  | Some ut =>
      match rt_alookup user ut with
      | None => s
      | Some vrs =>
          rt_aset dom (rt_aset user (filter (fun r => negb (bytes_eqb (rt_loc r) loc)) vrs) ut) s
      end
  end.

(* Routers.Get : first route of the (domain,user) slice whose location is a prefix of the path *)
Definition rt_get {P} (s : rstate P) (host0 path user : bytes) : option (route P) :=
  let host := lower host0 in
  match rt_alookup host s with
  | None => None
  | Some ut =>
      match rt_alookup user ut with
      | None => None
      | Some vrs => find (fun r => is_prefix (rt_loc r) path) vrs
      end
  end.

(* ---------- strings.Split(domain, ".") / strings.Join(labels, ".") ---------- *)
Definition rt_dot : byte := "."%byte.
Definition rt_star : bytes := ["*"%byte].

(* first label and the remaining labels: the result of Split is never empty *)
Fixpoint rt_split1 (s : bytes) : bytes * list bytes :=
  match s with
  | [] => ([], [])
  | c :: r => let (l, ls) := rt_split1 r in
              if Byte.eqb c rt_dot then ([], l :: ls) else (c :: l, ls)
  end.
Definition rt_split (s : bytes) : list bytes := let (l, ls) := rt_split1 s in l :: ls.

Fixpoint rt_join (ls : list bytes) : bytes :=
  match ls with
  | [] => []
  | l :: rest => match rest with [] => l | _ :: _ => l ++ rt_dot :: rt_join rest end
  end.

(* findRouter closure of getVhost / getListener: the request's user, then "" *)
Definition rt_find_router {P} (s : rstate P) (dom path user : bytes) : option (route P) :=
  match rt_get s dom path user with
  | Some r => Some r
  | None => rt_get s dom path []
  end.

(* the wildcard loop:  for { if len(domainSplit) < 3 { break }; domainSplit[0] = "*";
   domain = Join(domainSplit, "."); findRouter(...); domainSplit = domainSplit[1:] } *)
Fixpoint rt_walk {P} (s : rstate P) (labels : list bytes) (path user : bytes) : option (route P) :=
  match labels with
  | [] => None
  | _ :: rest =>
      if (Z.of_nat (length labels) <? 3) then None
      else match rt_find_router s (rt_join (rt_star :: rest)) path user with
           | Some r => Some r
           | None => rt_walk s rest path user
           end
  end.

(* HTTPReverseProxy.getVhost / Muxer.getListener *)
Definition rt_get_vhost {P} (s : rstate P) (domain path user : bytes) : option (route P) :=
  match rt_find_router s domain path user with
  | Some r => Some r
  | None =>
      match rt_walk s (rt_split domain) path user with
      | Some r => Some r
      | None => rt_find_router s rt_star path user
      end
  end.

(* ---------- histories ---------- *)
Inductive rt_op (P : Type) :=
| RAdd (dom loc user : bytes) (pay : P)
| RDel (dom loc user : bytes).
Arguments RAdd {P}. Arguments RDel {P}.

Definition rt_step {P} (s : rstate P) (o : rt_op P) : rstate P :=
  match o with
  | RAdd d l u p => match rt_add s d l u p with Some s' => s' | None => s end
  | RDel d l u => rt_del s d l u
  end.
Definition rt_run {P} (hist : list (rt_op P)) : rstate P := fold_left rt_step hist rt_empty.

(* every route stored, in no particular order: the abstraction to the specification's route set *)
Definition rt_abs {P} (s : rstate P) : list (route P) :=
  flat_map (fun du : bytes * rt_utab P => flat_map (fun uv : bytes * list (route P) => snd uv) (snd du)) s.

(* ---------- net.SplitHostPort and httppkg.CanonicalHost ---------- *)
Definition rt_colon : byte := ":"%byte.
Definition rt_lbr : byte := "["%byte.
Definition rt_rbr : byte := "]"%byte.

Definition rt_count (c : byte) (s : bytes) : Z := Z.of_nat (length (filter (Byte.eqb c) s)).
Definition rt_has (c : byte) (s : bytes) : bool := existsb (Byte.eqb c) s.

(* bytealg.IndexByteString *)
Fixpoint rt_index (c : byte) (s : bytes) : option nat :=
  match s with
  | [] => None
  | x :: r => if Byte.eqb c x then Some O else option_map S (rt_index c r)
  end.
(* bytealg.LastIndexByteString *)
Fixpoint rt_last_index (c : byte) (s : bytes) : option nat :=
  match s with
  | [] => None
  | x :: r => match rt_last_index c r with
              | Some i => Some (S i)
              | None => if Byte.eqb c x then Some O else None
              end
  end.

(* strings.Contains(host, "]:") *)
Fixpoint rt_contains_rbr_colon (s : bytes) : bool :=
  match s with
  | [] => false
  | x :: r => (Byte.eqb x rt_rbr && match r with y :: _ => Byte.eqb y rt_colon | [] => false end)
              || rt_contains_rbr_colon r
  end.

(* hasPort *)
Definition rt_has_port (host : bytes) : bool :=
  let colons := rt_count rt_colon host in
  if colons =? 0 then false
  else if colons =? 1 then true
  else match host with
       | c :: _ => Byte.eqb c rt_lbr && rt_contains_rbr_colon host
       | [] => false
       end.

(* net.SplitHostPort: Some host, or None for each of its error returns *)
Definition rt_split_host_port (hp : bytes) : option bytes :=
  match rt_last_index rt_colon hp with
  | None => None                                            (* missing port *)
  | Some i =>
      match hp with
      | [] => None
      | c0 :: _ =>
          if Byte.eqb c0 rt_lbr then
            match rt_index rt_rbr hp with
            | None => None                                  (* missing ']' *)
            | Some e =>
                if Nat.eqb (S e) (length hp) then None      (* missing port *)
                else if Nat.eqb (S e) i then
                  let host := firstn (e - 1) (skipn 1 hp) in
                  if rt_has rt_lbr (skipn 1 hp) then None   (* unexpected '[' *)
                  else if rt_has rt_rbr (skipn (S e) hp) then None  (* unexpected ']' *)
                  else Some host
                else None                                   (* too many colons / missing port *)
            end
          else
            let host := firstn i hp in
            if rt_has rt_colon host then None               (* too many colons *)
            else if rt_has rt_lbr hp then None              (* unexpected '[' *)
            else if rt_has rt_rbr hp then None              (* unexpected ']' *)
            else Some host
      end
  end.

(* strings.TrimSuffix(host, ".") : removes exactly one trailing dot *)
Fixpoint rt_trim_dot (s : bytes) : bytes :=
  match s with
  | [] => []
  | c :: r => match r with
              | [] => if Byte.eqb c rt_dot then [] else [c]
              | _ :: _ => c :: rt_trim_dot r
              end
  end.

(* CanonicalHost: None = the error return (the callers then continue with "") *)
Definition rt_canonical_host (host0 : bytes) : option bytes :=
  let host := lower host0 in
  if rt_has_port host then
    match rt_split_host_port host with
    | Some h => Some (rt_trim_dot h)
    | None => None
    end
  else Some (rt_trim_dot host).

(* `domain, _ := httppkg.CanonicalHost(req.Host)` *)
Definition rt_canon_or_empty (host : bytes) : bytes :=
  match rt_canonical_host host with Some h => h | None => [] end.

(* ---------- the wildcard walk as read from the source (translator unit c06route) ---------- *)
(* how getVhost / getListener split the host: strings.Split(domain, "."), strings.SplitN(domain, ".", n),
   or something the translator does not recognise *)
Inductive rt_split_mode := RtSplitAll | RtSplitN (n : Z) | RtSplitOther.

(* strings.SplitN(s, ".", n): n > 0: at most n elements, the last one is the unsplit remainder;
   n = 0: nil; n < 0: all *)
Definition rt_splitn (n : Z) (s : bytes) : list bytes :=
  if n =? 0 then []
  else if n <? 0 then rt_split s
  else
    let ls := rt_split s in
    if Z.of_nat (length ls) <=? n then ls
    else firstn (Z.to_nat (n - 1)) ls ++ [rt_join (skipn (Z.to_nat (n - 1)) ls)].

Definition rt_split_by (m : rt_split_mode) (s : bytes) : list bytes :=
  match m with
  | RtSplitAll => rt_split s
  | RtSplitN n => rt_splitn n s
  | RtSplitOther => []
  end.

(* one walk site of the source: split call, the bound of `if len(domainSplit) < k { break }`, and the
   statement shape of the function and of its findRouter closure as tokens *)
Record rt_walk_src := mkWalkSrc {
  ws_split : rt_split_mode;
  ws_min : Z;
  ws_shape : list string;
  ws_find : list string
}.

Fixpoint rt_walk_g {P} (min : Z) (s : rstate P) (labels : list bytes) (path user : bytes) : option (route P) :=
  match labels with
  | [] => None
  | _ :: rest =>
      if (Z.of_nat (length labels) <? min) then None
      else match rt_find_router s (rt_join (rt_star :: rest)) path user with
           | Some r => Some r
           | None => rt_walk_g min s rest path user
           end
  end.

(* getVhost / getListener with the split call and loop bound of a given source site *)
Definition rt_get_vhost_g {P} (w : rt_walk_src) (s : rstate P) (domain path user : bytes) : option (route P) :=
  match rt_find_router s domain path user with
  | Some r => Some r
  | None =>
      match rt_walk_g (ws_min w) s (rt_split_by (ws_split w) domain) path user with
      | Some r => Some r
      | None => rt_find_router s rt_star path user
      end
  end.

(* the shape Model/Router.v mirrors (rt_get_vhost, rt_find_router, rt_walk) *)
Definition rt_walk_shape_std : list string :=
  ["FindRouter"; "FindExact"; "RetIfFound"; "Split"; "For"; "BreakIfLenLt"; "SetFirstStar"; "JoinDot"; "FindJoined";
   "RetIfFound"; "DropFirst"; "End"; "FindStar"; "RetIfFound"; "RetNone"]%string.
Definition rt_find_shape_std : list string :=
  ["GetUser"; "RetIfFound"; "GetAny"; "RetIfFound"; "RetNone"]%string.

Fixpoint rt_strs_eqb (a b : list string) : bool :=
  match a, b with
  | [], [] => true
  | x :: a', y :: b' => String.eqb x y && rt_strs_eqb a' b'
  | _, _ => false
  end.

Definition rt_walk_src_std (w : rt_walk_src) : bool :=
  match ws_split w with RtSplitAll => true | _ => false end &&
  (ws_min w =? 3) && rt_strs_eqb (ws_shape w) rt_walk_shape_std && rt_strs_eqb (ws_find w) rt_find_shape_std.

Fixpoint rt_site_lookup {A} (name : string) (l : list (string * A)) : option A :=
  match l with
  | [] => None
  | (n, a) :: r => if String.eqb n name then Some a else rt_site_lookup name r
  end.
