(* C13: lock structure of the group controllers' join / leave functions as read from the source by
   translator/cmd/c13locks (gen/GenGroupLocks.v), and the executable check that justifies the
   atomicity assumptions of Model/Group.v: join = one step, table part of a leave = one step.
   No proofs here. *)
From FRP Require Export Model.Bytes.
Local Open Scope string_scope.

Inductive glev :=
| GLock (m : string) | GUnlock (m : string) | GDeferUnlock (m : string)
| GTable                 (* a statement that reads or writes the controller's groups table *)
| GCall (f : string)     (* a call of a group's Listen / Register / UnRegister / HTTPConnectListen *)
| GOp (f : string)       (* close(acceptCh), real listener Close, port Release *)
| GGate | GDeferBlock | GDeferEnd
| GMemberCall            (* a call of a function value held by the group: a member's CreateConnFn (the dial) *)
| GUnknown (s : string).

(* walk the events in source order.  hc / hg: controller / group mutex held; dc: the controller mutex
   will only be released by a deferred Unlock; ind: inside a deferred closure (runs at return: only
   what is protected by a deferred Unlock is still locked); nc: controller critical sections so far.
   None = some table access, group call or endpoint operation is not covered. *)
Fixpoint lock_walk (evs : list glev) (hc hg ind dc : bool) (nc : nat) : option nat :=
  match evs with
  | [] => Some nc
  | e :: r =>
      match e with
      | GLock m =>
          if String.eqb m "ctl" then (if hc then None else lock_walk r true hg ind false (S nc))
          else if String.eqb m "grp" then (if hg then None else lock_walk r hc true ind dc nc)
          else None
      | GUnlock m =>
          if String.eqb m "ctl" then lock_walk r false hg ind false nc
          else if String.eqb m "grp" then lock_walk r hc false ind dc nc
          else None
      | GDeferUnlock m =>
          if String.eqb m "ctl" then lock_walk r hc hg ind hc nc
          else if String.eqb m "grp" then lock_walk r hc hg ind dc nc
          else None
      | GTable => if hc && (negb ind || dc) then lock_walk r hc hg ind dc nc else None
      | GCall _ => if hc && negb ind then lock_walk r hc hg ind dc nc else None
      | GOp _ => if hc && hg && negb ind then lock_walk r hc hg ind dc nc else None
      | GGate | GMemberCall => lock_walk r hc hg ind dc nc
      | GDeferBlock => if ind then None else lock_walk r hc hg true dc nc
      | GDeferEnd => lock_walk r hc hg false dc nc
      | GUnknown _ => None
      end
  end.

(* exactly one controller critical section, and it covers every table access, every call into the
   group and every operation on the group's endpoint *)
Definition atomic_ok (evs : list glev) : bool :=
  match lock_walk evs false false false false 0 with Some 1%nat => true | _ => false end.

Definition is_access (e : glev) : bool :=
  match e with GTable | GCall _ | GOp _ => true | _ => false end.

(* is the controller mutex held after the events [evs], having been [h] before? *)
Fixpoint ctl_held (evs : list glev) (h : bool) : bool :=
  match evs with
  | [] => h
  | GLock m :: r => if String.eqb m "ctl" then ctl_held r true else ctl_held r h
  | GUnlock m :: r => if String.eqb m "ctl" then ctl_held r false else ctl_held r h
  | _ :: r => ctl_held r h
  end.

Fixpoint count_ctl_locks (evs : list glev) : nat :=
  match evs with
  | [] => 0
  | GLock m :: r => (if String.eqb m "ctl" then 1 else 0) + count_ctl_locks r
  | _ :: r => count_ctl_locks r
  end.

Fixpoint sl_eqb (a b : list string) : bool :=
  match a, b with
  | [], [] => true
  | x :: a', y :: b' => String.eqb x y && sl_eqb a' b'
  | _, _ => false
  end.

Definition expected_lock_functions : list string :=
  ["TCPGroupCtl.Listen"; "TCPGroup.CloseListener"; "HTTPGroupController.Register";
   "HTTPGroupController.UnRegister"; "TCPMuxGroupCtl.Listen"; "TCPMuxGroup.CloseListener"].

Definition group_locks_ok (facts : list (string * list glev)) : bool :=
  sl_eqb (map fst facts) expected_lock_functions && forallb (fun f => atomic_ok (snd f)) facts.

(* Accept: select { closeCh -> "closed" ; hand-off channel -> closed channel: "closed", else return the
   connection }: a connection that has been taken from the channel is returned to the member, never
   dropped.  Close: close(closeCh), then CloseListener (the two model steps of a tcp/tcpmux leave). *)
Definition expected_accept : list string :=
  ["DeclOk"; "Select"; "CaseCloseCh"; "ReturnClosed"; "CaseHandoff"; "IfChannelClosedReturnClosed"; "ReturnConn"; "EndSelect"].
Definition expected_close : list string := ["CloseCloseCh"; "CallCloseListener"; "Return"].
Definition expected_shapes : list (string * list string) :=
  [("TCPGroupListener.Accept", expected_accept); ("TCPMuxGroupListener.Accept", expected_accept);
   ("TCPGroupListener.Close", expected_close); ("TCPMuxGroupListener.Close", expected_close)].

Fixpoint shapes_eqb (a b : list (string * list string)) : bool :=
  match a, b with
  | [], [] => true
  | (n, x) :: a', (m, y) :: b' => String.eqb n m && sl_eqb x y && shapes_eqb a' b'
  | _, _ => false
  end.
Definition group_shapes_ok (sh : list (string * list string)) : bool := shapes_eqb sh expected_shapes.

(* ---- http group: the member's CreateConnFn (which may wait for a work connection for seconds) is
   called outside the group's lock, so a stalled member blocks neither the other members' requests nor a
   join / leave ---- *)
Fixpoint grp_held (evs : list glev) (h : bool) : bool :=
  match evs with
  | [] => h
  | GLock m :: r => if String.eqb m "grp" then grp_held r true else grp_held r h
  | GUnlock m :: r => if String.eqb m "grp" then grp_held r false else grp_held r h
  | _ :: r => grp_held r h
  end.

Fixpoint member_walk (evs : list glev) (hg : bool) : bool :=
  match evs with
  | [] => true
  | e :: r =>
      match e with
      | GLock m => if String.eqb m "grp" then member_walk r true else member_walk r hg
      | GUnlock m => if String.eqb m "grp" then member_walk r false else member_walk r hg
      | GDeferUnlock m => if String.eqb m "grp" then false else member_walk r hg   (* held until return *)
      | GMemberCall => negb hg && member_walk r hg
      | GUnknown _ => false
      | _ => member_walk r hg
      end
  end.

Definition has_member_call (evs : list glev) : bool :=
  existsb (fun e => match e with GMemberCall => true | _ => false end) evs.

Definition expected_member_functions : list string :=
  ["HTTPGroup.createConn"; "HTTPGroup.chooseEndpoint"; "HTTPGroup.createConnByEndpoint"].

Definition member_calls_ok (facts : list (string * list glev)) : bool :=
  sl_eqb (map fst facts) expected_member_functions && forallb (fun f => member_walk (snd f) false) facts &&
  forallb (fun f => String.eqb (fst f) "HTTPGroup.chooseEndpoint" || has_member_call (snd f)) facts.

(* server/proxy/http.go Run: in each group branch the leave is arranged only AFTER the join succeeded, so
   the roll-back of a refused join (the deferred Close) cannot remove somebody else's membership *)
Definition expected_run_group_blocks : list (list string) :=
  [["Register"; "IfErrReturn"; "AppendUnRegister"]; ["Register"; "IfErrReturn"; "AppendUnRegister"]].
Fixpoint sll_eqb (a b : list (list string)) : bool :=
  match a, b with
  | [], [] => true
  | x :: a', y :: b' => sl_eqb x y && sll_eqb a' b'
  | _, _ => false
  end.

(* pkg/util/vhost/http.go: a CONNECT is dialled through the route's CreateConnFn (the group's rotation),
   the endpoint chosen for a request is the one that goes into the backend-connection pool key *)
Definition expected_vhost_http_group_facts : list string :=
  ["ConnectDialsByRoute"; "EndpointAssignedToOuter"; "PoolKeyHasEndpoint"].

(* server/group/http.go: the endpoint id that goes into the reverse proxy's pool key is per JOIN (name#seq),
   so a member name that comes back never reuses connections to the former holder's backend *)
(* ... and pkg/plugin/server/manager.go: a NewProxy plugin is handed the content unaltered, so what frps adopts
   from a plugin that answers with the content still carries the group key the client presented *)
Definition expected_http_group_endpoint_facts : list string :=
  ["EndpointPerJoin"; "ChooseReturnsJoinEndpoint"; "PluginGetsContentUnaltered"].
