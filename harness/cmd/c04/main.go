// Harness for property C04 (no session, proxy or work connection without valid client credentials).
package main

import "verifharness/hx"

var drivers = map[string]hx.DriverFn{}

func main() { hx.Main(drivers) }
